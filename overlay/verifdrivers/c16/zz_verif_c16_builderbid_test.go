package c16

// Entry point "builderbid": the builder-bid strategies (best, deadline) with relay addresses as an
// operator / config server can write them and relay answers decoded by the real go-builder-client
// (reached through util.FetchBuilderClient, as in production).

import (
	"context"
	"encoding/json"
	"fmt"
	"net/http"
	"strings"
	"time"

	builderclient "github.com/attestantio/go-builder-client"
	builderdeneb "github.com/attestantio/go-builder-client/api/deneb"
	"github.com/attestantio/go-eth2-client/spec/bellatrix"
	"github.com/attestantio/go-eth2-client/spec/deneb"
	"github.com/attestantio/go-eth2-client/spec/phase0"
	"github.com/attestantio/vouch/mock"
	"github.com/attestantio/vouch/services/beaconblockproposer"
	"github.com/attestantio/vouch/services/blockrelay"
	nullmetrics "github.com/attestantio/vouch/services/metrics/null"
	"github.com/attestantio/vouch/strategies/builderbid"
	bestbuilderbid "github.com/attestantio/vouch/strategies/builderbid/best"
	deadlinebuilderbid "github.com/attestantio/vouch/strategies/builderbid/deadline"
	"github.com/attestantio/vouch/verifsupport"
	"github.com/holiman/uint256"
	"github.com/shopspring/decimal"
	"github.com/spf13/viper"
	e2types "github.com/wealdtech/go-eth2-types/v2"
)

const c16Slot = 12345

var c16ParentHash = phase0.Hash32{0x0a, 0x0b, 0x0c}

func c16RelayKey(i byte) *e2types.BLSPrivateKey {
	if err := e2types.InitBLS(); err != nil {
		panic(err)
	}
	b := make([]byte, 32)
	b[31] = i
	b[0] = 0x01
	sk, err := e2types.BLSPrivateKeyFromBytes(b)
	if err != nil {
		panic("c16 harness: relay key: " + err.Error())
	}
	return sk
}

// c16NowChainTime returns a virtual chain time in which c16Slot starts now.
func c16NowChainTime() *verifsupport.ChainTime {
	ct := verifsupport.NewChainTime(32, 12*time.Second)
	ct.Genesis = time.Now().Truncate(time.Second).Add(-time.Duration(c16Slot) * 12 * time.Second)
	ct.SetSlot(c16Slot)
	return ct
}

// c16BidBody builds the relay's answer for a bid shape.
func c16BidBody(kind string, ct *verifsupport.ChainTime, sk *e2types.BLSPrivateKey, signer *e2types.BLSPrivateKey) c16Answer {
	if a, ok := c16BadAnswer(kind); ok {
		return a
	}
	fee := bellatrix.ExecutionAddress{0x11, 0x22, 0x33}
	if kind == "zerofee" {
		fee = bellatrix.ExecutionAddress{}
	}
	parent := c16ParentHash
	if kind == "wrongparent" {
		parent = phase0.Hash32{0xff}
	}
	value := uint256.NewInt(1234567890)
	if kind == "zerovalue" {
		value = uint256.NewInt(0)
	}
	var builder phase0.BLSPubKey
	copy(builder[:], sk.PublicKey().Marshal())
	msg := &builderdeneb.BuilderBid{
		Header: &deneb.ExecutionPayloadHeader{
			ParentHash: parent, FeeRecipient: fee, BlockNumber: 100, GasLimit: 30000000, GasUsed: 21000,
			Timestamp: uint64(ct.StartOfSlot(c16Slot).Unix()), ExtraData: []byte{}, BaseFeePerGas: uint256.NewInt(7),
			BlockHash: phase0.Hash32{0xb1}, TransactionsRoot: phase0.Root{0x71},
		},
		BlobKZGCommitments: []deneb.KZGCommitment{},
		Value:              value,
		Pubkey:             builder,
	}
	root, err := msg.HashTreeRoot()
	if err != nil {
		panic("c16 harness: bid root: " + err.Error())
	}
	var domain phase0.Domain
	copy(domain[:], []byte{0x00, 0x00, 0x00, 0x01})
	signingRoot, err := (&phase0.SigningData{ObjectRoot: root, Domain: domain}).HashTreeRoot()
	if err != nil {
		panic(err)
	}
	signed := &builderdeneb.SignedBuilderBid{Message: msg}
	copy(signed.Signature[:], signer.Sign(signingRoot[:]).Marshal())
	data, err := json.Marshal(signed)
	if err != nil {
		panic("c16 harness: bid json: " + err.Error())
	}
	body := string(data)
	version := "deneb"
	switch kind {
	case "nomessage":
		body = fmt.Sprintf(`{"signature":"%#x"}`, signed.Signature[:])
	case "noheader":
		var m map[string]json.RawMessage
		json.Unmarshal(data, &m)
		var inner map[string]json.RawMessage
		json.Unmarshal(m["message"], &inner)
		delete(inner, "header")
		ib, _ := json.Marshal(inner)
		m["message"] = ib
		ob, _ := json.Marshal(m)
		body = string(ob)
	case "badversion":
		version = "verkle"
	}
	return c16Answer{Status: 200, Headers: map[string]string{"Eth-Consensus-Version": version},
		Body: fmt.Sprintf(`{"version":%q,"data":%s}`, version, body)}
}

func c16RelayAddress(kind string, good string) string {
	switch kind {
	case "good":
		return good
	case "empty":
		return ""
	case "unparsable":
		return "http://[::1"
	case "noscheme":
		return "relay.example.com:8080"
	case "refused":
		return "http://127.0.0.1:1"
	case "nohost":
		return "http://"
	case "space":
		return " "
	}
	panic("c16 harness: unknown address kind " + kind)
}

func c16RunBuilderBid(ctx context.Context, sh map[string]string) c16Res {
	viper.Set("timeout", 2*time.Second)
	ct := c16NowChainTime()
	sk1, sk2, other := c16RelayKey(1), c16RelayKey(2), c16RelayKey(9)

	relay1 := c16NewServer()
	defer relay1.Close()
	signer := sk1
	if sh["bid"] == "badsig" {
		signer = other
	}
	relay1.Set("/eth/v1/builder/header/", c16BidBody(sh["bid"], ct, sk1, signer))
	relays := []*beaconblockproposer.RelayConfig{{
		Address:      c16RelayAddress(sh["addr"], relay1.URL()),
		FeeRecipient: bellatrix.ExecutionAddress{0x11, 0x22, 0x33},
		GasLimit:     30000000,
		MinValue:     decimal.Zero,
	}}
	if sh["pkcfg"] == "set" {
		var pk phase0.BLSPubKey
		copy(pk[:], sk1.PublicKey().Marshal())
		relays[0].PublicKey = &pk
	}
	if sh["second"] == "good" {
		relay2 := c16NewServer()
		defer relay2.Close()
		relay2.Set("/eth/v1/builder/header/", c16Answer{Func: func(_ *http.Request) c16Answer { return c16BidBody("valid", ct, sk2, sk2) }})
		relays = append(relays, &beaconblockproposer.RelayConfig{
			Address: relay2.URL(), FeeRecipient: bellatrix.ExecutionAddress{0x11, 0x22, 0x33}, GasLimit: 30000000, MinValue: decimal.Zero,
		})
	}
	pc := &beaconblockproposer.ProposerConfig{FeeRecipient: bellatrix.ExecutionAddress{0x11, 0x22, 0x33}, Relays: relays}

	var strat builderbid.Provider
	var err error
	grace := 20 * time.Millisecond
	switch sh["strat"] {
	case "best":
		strat, err = bestbuilderbid.New(ctx,
			bestbuilderbid.WithLogLevel(c16LogLevel()),
			bestbuilderbid.WithMonitor(nullmetrics.New()),
			bestbuilderbid.WithSpecProvider(mock.NewSpecProvider()),
			bestbuilderbid.WithDomainProvider(mock.NewDomainProvider()),
			bestbuilderbid.WithChainTime(ct),
			bestbuilderbid.WithTimeout(300*time.Millisecond),
			bestbuilderbid.WithReleaseVersion("verif"),
		)
	case "deadline":
		strat, err = deadlinebuilderbid.New(ctx,
			deadlinebuilderbid.WithLogLevel(c16LogLevel()),
			deadlinebuilderbid.WithMonitor(nullmetrics.New()),
			deadlinebuilderbid.WithSpecProvider(mock.NewSpecProvider()),
			deadlinebuilderbid.WithDomainProvider(mock.NewDomainProvider()),
			deadlinebuilderbid.WithChainTime(ct),
			deadlinebuilderbid.WithDeadline(time.Since(ct.StartOfSlot(c16Slot))+250*time.Millisecond),
			deadlinebuilderbid.WithBidGap(100*time.Millisecond),
			deadlinebuilderbid.WithReleaseVersion("verif"),
		)
		grace = 150 * time.Millisecond
	}
	if err != nil {
		panic("c16 harness: builder bid strategy: " + err.Error())
	}
	res, err := strat.BuilderBid(ctx, c16Slot, c16ParentHash, c16AccountPubkey(1), pc, map[phase0.BLSPubKey]*blockrelay.BuilderConfig{})
	// goroutines the strategy started may still be decoding an answer: let them finish inside this scenario
	time.Sleep(grace)
	if err != nil {
		return c16Err(err.Error())
	}
	if res == nil {
		return c16Err("nil results without error")
	}
	// what the caller (blockrelay.auctionBlock, proposer) does with the results
	for _, p := range res.Providers {
		_ = p.Address()
		if _, ok := p.(builderclient.UnblindedProposalProvider); !ok {
			return c16Err("provider cannot unblind")
		}
	}
	if _, err := json.Marshal(res); err != nil {
		return c16Err("results do not marshal: " + err.Error())
	}
	if res.WinningParticipation == nil {
		return c16Fallback(fmt.Sprintf("no winning bid (%d relays usable): local block", len(res.AllProviders)))
	}
	return c16OK(fmt.Sprintf("winner among %d", len(res.AllProviders)))
}

func init() {
	c16Register("builderbid", c16RunBuilderBid)
	_ = strings.TrimSpace
}
