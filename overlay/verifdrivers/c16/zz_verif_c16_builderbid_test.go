package c16

// Entry point "builderbid": the builder-bid strategies (best, deadline) with relay addresses as an
// operator / config server can write them and relay answers decoded by the real go-builder-client
// (reached through util.FetchBuilderClient, as in production).

import (
	"context"
	"encoding/json"
	"fmt"
	"net/http"
	"strings"
	"sync"
	"time"

	builderclient "github.com/attestantio/go-builder-client"
	builderdeneb "github.com/attestantio/go-builder-client/api/deneb"
	"github.com/attestantio/go-eth2-client/spec/bellatrix"
	"github.com/attestantio/go-eth2-client/spec/deneb"
	"github.com/attestantio/go-eth2-client/spec/phase0"
	"github.com/attestantio/vouch/mock"
	"github.com/attestantio/vouch/services/beaconblockproposer"
	"github.com/attestantio/vouch/services/blockrelay"
	nullmetrics "github.com/attestantio/vouch/services/metrics/null"
	"github.com/attestantio/vouch/strategies/builderbid"
	bestbuilderbid "github.com/attestantio/vouch/strategies/builderbid/best"
	deadlinebuilderbid "github.com/attestantio/vouch/strategies/builderbid/deadline"
	"github.com/attestantio/vouch/verifsupport"
	"github.com/holiman/uint256"
	"github.com/shopspring/decimal"
	"github.com/spf13/viper"
	e2types "github.com/wealdtech/go-eth2-types/v2"
)

const c16Slot = 12345

var c16ParentHash = phase0.Hash32{0x0a, 0x0b, 0x0c}

var (
	c16RelayKeysMu sync.Mutex
	c16RelayKeys   = map[byte]*e2types.BLSPrivateKey{}
	c16BLSOnce     sync.Once
)

// c16RelayKey is the BLS key of scripted relay i (the library is initialised once: its initialisation is
// not safe next to a signature being made in another goroutine).
func c16RelayKey(i byte) *e2types.BLSPrivateKey {
	c16BLSOnce.Do(func() {
		if err := e2types.InitBLS(); err != nil {
			panic("c16 harness: BLS: " + err.Error())
		}
	})
	c16RelayKeysMu.Lock()
	defer c16RelayKeysMu.Unlock()
	if sk, ok := c16RelayKeys[i]; ok {
		return sk
	}
	b := make([]byte, 32)
	b[31] = i
	b[0] = 0x01
	sk, err := e2types.BLSPrivateKeyFromBytes(b)
	if err != nil {
		panic("c16 harness: relay key: " + err.Error())
	}
	c16RelayKeys[i] = sk
	return sk
}

// c16NowChainTime returns a virtual chain time in which c16Slot starts now.
func c16NowChainTime() *verifsupport.ChainTime {
	ct := verifsupport.NewChainTime(32, 12*time.Second)
	ct.Genesis = time.Now().Truncate(time.Second).Add(-time.Duration(c16Slot) * 12 * time.Second)
	ct.SetSlot(c16Slot)
	return ct
}

// c16SlotClock is the chain time of a long-lived instance: Begin(slot) makes that slot start now (call k
// of a history is for slot c16Slot+k-1 and proposals are made when their slot starts).
type c16SlotClock struct {
	*verifsupport.ChainTime
	smu    sync.RWMutex
	starts map[phase0.Slot]time.Time
}

func c16NewSlotClock() *c16SlotClock {
	return &c16SlotClock{ChainTime: c16NowChainTime(), starts: map[phase0.Slot]time.Time{}}
}

func (c *c16SlotClock) Begin(slot phase0.Slot) {
	c.smu.Lock()
	if _, ok := c.starts[slot]; !ok {
		c.starts[slot] = time.Now()
	}
	c.smu.Unlock()
}

func (c *c16SlotClock) StartOfSlot(slot phase0.Slot) time.Time {
	c.smu.RLock()
	t, ok := c.starts[slot]
	c.smu.RUnlock()
	if ok {
		return t
	}
	return c.ChainTime.StartOfSlot(slot)
}

// c16CallSlot is the slot of call k of a history.
func c16CallSlot(k int) phase0.Slot { return phase0.Slot(c16Slot + k - 1) }

// c16BidAnswer scripts the header endpoint of a relay: the bid is for the slot of the request.
func c16BidAnswer(kind string, clock interface{ StartOfSlot(phase0.Slot) time.Time }, sk *e2types.BLSPrivateKey, signer *e2types.BLSPrivateKey) c16Answer {
	return c16Answer{Func: func(r *http.Request) c16Answer {
		var slot uint64
		fmt.Sscanf(strings.TrimPrefix(r.URL.Path, "/eth/v1/builder/header/"), "%d", &slot)
		return c16BidBody(kind, uint64(clock.StartOfSlot(phase0.Slot(slot)).Unix()), sk, signer)
	}}
}

// c16BidBody builds the relay's answer for a bid shape; ts is the timestamp of the slot.
func c16BidBody(kind string, ts uint64, sk *e2types.BLSPrivateKey, signer *e2types.BLSPrivateKey) c16Answer {
	if a, ok := c16BadAnswer(kind); ok {
		return a
	}
	fee := bellatrix.ExecutionAddress{0x11, 0x22, 0x33}
	if kind == "zerofee" {
		fee = bellatrix.ExecutionAddress{}
	}
	parent := c16ParentHash
	if kind == "wrongparent" {
		parent = phase0.Hash32{0xff}
	}
	value := uint256.NewInt(1234567890)
	switch kind {
	case "zerovalue":
		value = uint256.NewInt(0)
	case "higher":
		value = uint256.NewInt(2 * 1234567890)
	case "lower": // the builder withdrew: a later, smaller bid
		value = uint256.NewInt(1234567890 / 2)
	}
	var builder phase0.BLSPubKey
	copy(builder[:], sk.PublicKey().Marshal())
	msg := &builderdeneb.BuilderBid{
		Header: &deneb.ExecutionPayloadHeader{
			ParentHash: parent, FeeRecipient: fee, BlockNumber: 100, GasLimit: 30000000, GasUsed: 21000,
			Timestamp: ts, ExtraData: []byte{}, BaseFeePerGas: uint256.NewInt(7),
			BlockHash: phase0.Hash32{0xb1}, TransactionsRoot: phase0.Root{0x71},
		},
		BlobKZGCommitments: []deneb.KZGCommitment{},
		Value:              value,
		Pubkey:             builder,
	}
	root, err := msg.HashTreeRoot()
	if err != nil {
		panic("c16 harness: bid root: " + err.Error())
	}
	var domain phase0.Domain
	copy(domain[:], []byte{0x00, 0x00, 0x00, 0x01})
	signingRoot, err := (&phase0.SigningData{ObjectRoot: root, Domain: domain}).HashTreeRoot()
	if err != nil {
		panic(err)
	}
	signed := &builderdeneb.SignedBuilderBid{Message: msg}
	copy(signed.Signature[:], signer.Sign(signingRoot[:]).Marshal())
	data, err := json.Marshal(signed)
	if err != nil {
		panic("c16 harness: bid json: " + err.Error())
	}
	body := string(data)
	version := "deneb"
	switch kind {
	case "nomessage":
		body = fmt.Sprintf(`{"signature":"%#x"}`, signed.Signature[:])
	case "noheader":
		var m map[string]json.RawMessage
		json.Unmarshal(data, &m)
		var inner map[string]json.RawMessage
		json.Unmarshal(m["message"], &inner)
		delete(inner, "header")
		ib, _ := json.Marshal(inner)
		m["message"] = ib
		ob, _ := json.Marshal(m)
		body = string(ob)
	case "badversion":
		version = "verkle"
	}
	return c16Answer{Status: 200, Headers: map[string]string{"Eth-Consensus-Version": version},
		Body: fmt.Sprintf(`{"version":%q,"data":%s}`, version, body)}
}

var (
	c16BadPointOnce sync.Once
	c16BadPointKey  phase0.BLSPubKey
)

// c16BadPoint is a relay public key of the right length (48 bytes) that is NOT a point of the curve:
// the key of relay 1 with its last byte counted up until the BLS library refuses it.  Neither the
// execution configuration decoder nor the builder client look at more than the length.
func c16BadPoint() phase0.BLSPubKey {
	c16BadPointOnce.Do(func() {
		copy(c16BadPointKey[:], c16RelayKey(1).PublicKey().Marshal())
		for i := 0; i < 255; i++ {
			c16BadPointKey[47]++
			if _, err := e2types.BLSPublicKeyFromBytes(c16BadPointKey[:]); err != nil {
				return
			}
		}
		panic("c16 harness: no 48 byte value near the relay key that is not a public key")
	})
	return c16BadPointKey
}

// c16RelayPubkey is the public key a configuration carries for the relay (Robustness!RelayKeys).
func c16RelayPubkey(kind string) *phase0.BLSPubKey {
	var pk phase0.BLSPubKey
	switch kind {
	case "none":
		return nil
	case "set":
		copy(pk[:], c16RelayKey(1).PublicKey().Marshal())
	case "badpoint":
		pk = c16BadPoint()
	case "other":
		copy(pk[:], c16RelayKey(9).PublicKey().Marshal())
	default:
		panic("c16 harness: unknown relay key kind " + kind)
	}
	return &pk
}

// c16RelayAddress is the relay address string of a shape (Robustness!RelayAddrs); good is the URL of the
// scripted relay.
func c16RelayAddress(kind string, good string) string {
	keyed := func(user string) string { return strings.Replace(good, "http://", "http://"+user+"@", 1) }
	switch kind {
	case "good":
		return good
	case "empty":
		return ""
	case "unparsable":
		return "http://[::1"
	case "noscheme":
		return "relay.example.com:8080"
	case "refused":
		return "http://127.0.0.1:1"
	case "nohost":
		return "http://"
	case "space":
		return " "
	case "keyed":
		return keyed(c16RelayPubkey("set").String())
	case "badkeyed":
		return keyed(c16RelayPubkey("badpoint").String())
	case "shortkeyed":
		return keyed("0x01020304")
	}
	panic("c16 harness: unknown address kind " + kind)
}

// c16BidInst is a builder-bid strategy (best / deadline) that lives as long as Vouch, with its two relays.
type c16BidInst struct {
	kind   string
	strat  builderbid.Provider
	clock  *c16SlotClock
	relay1 *c16Server
	relay2 *c16Server
	polls1 *c16Polls // what relay 1 / relay 2 answer to the successive polls of a call (per slot asked for)
	polls2 *c16Polls
	gate   *c16Gate
	mu     sync.Mutex
	pcs    map[int]*beaconblockproposer.ProposerConfig
}

func c16NewBidInst(ctx context.Context, first map[string]string) c16Instance {
	viper.Set("timeout", 2*time.Second)
	// what is made once per process (accounts, BLS library, keys) is made before any slot begins: the
	// deadline strategy counts from the start of the slot
	_, _, _ = c16AccountPubkey(1), c16BadPoint(), c16RelayKey(9)
	in := &c16BidInst{kind: first["strat"], clock: c16NewSlotClock(), relay1: c16NewServer(), relay2: c16NewServer(),
		gate: &c16Gate{}, pcs: map[int]*beaconblockproposer.ProposerConfig{}}
	in.relay1.Gate("/eth/v1/builder/header/", in.gate)
	in.polls1 = c16NewPolls("relay1", c16RelayKey(1), in.clock)
	in.polls2 = c16NewPolls("relay2", c16RelayKey(2), in.clock)
	in.relay1.Set("/eth/v1/builder/header/", in.polls1.Answer())
	in.relay2.Set("/eth/v1/builder/header/", in.polls2.Answer())
	var err error
	switch in.kind {
	case "best":
		in.strat, err = bestbuilderbid.New(ctx,
			bestbuilderbid.WithLogLevel(c16LogLevel()),
			bestbuilderbid.WithMonitor(nullmetrics.New()),
			bestbuilderbid.WithSpecProvider(mock.NewSpecProvider()),
			bestbuilderbid.WithDomainProvider(mock.NewDomainProvider()),
			bestbuilderbid.WithChainTime(in.clock),
			bestbuilderbid.WithTimeout(300*time.Millisecond),
			bestbuilderbid.WithReleaseVersion("verif"),
		)
	case "deadline":
		in.strat, err = deadlinebuilderbid.New(ctx,
			deadlinebuilderbid.WithLogLevel(c16LogLevel()),
			deadlinebuilderbid.WithMonitor(nullmetrics.New()),
			deadlinebuilderbid.WithSpecProvider(mock.NewSpecProvider()),
			deadlinebuilderbid.WithDomainProvider(mock.NewDomainProvider()),
			deadlinebuilderbid.WithChainTime(in.clock),
			deadlinebuilderbid.WithDeadline(250*time.Millisecond),
			deadlinebuilderbid.WithBidGap(100*time.Millisecond),
			deadlinebuilderbid.WithReleaseVersion("verif"),
		)
	default:
		panic("c16 harness: unknown builder bid strategy " + in.kind)
	}
	if err != nil {
		panic("c16 harness: builder bid strategy: " + err.Error())
	}
	return in
}

func (in *c16BidInst) Gate() *c16Gate { return in.gate }

func (in *c16BidInst) Close() {
	in.gate.Release()
	in.relay1.Close()
	in.relay2.Close()
}

// Prepare: what relay 1 answers, and the proposer configuration that comes with this auction.
func (in *c16BidInst) Prepare(k int, sh map[string]string) {
	in.polls1.Script(c16CallSlot(k), c16PollSeq(sh))
	relays := []*beaconblockproposer.RelayConfig{{
		Address:      c16RelayAddress(sh["addr"], in.relay1.URL()),
		FeeRecipient: bellatrix.ExecutionAddress{0x11, 0x22, 0x33},
		GasLimit:     30000000,
		MinValue:     decimal.Zero,
		PublicKey:    c16RelayPubkey(sh["pkcfg"]),
	}}
	if sh["second"] != "none" {
		second := &beaconblockproposer.RelayConfig{
			Address: in.relay2.URL(), FeeRecipient: bellatrix.ExecutionAddress{0x11, 0x22, 0x33}, GasLimit: 30000000, MinValue: decimal.Zero,
		}
		if sh["second"] == "samekey" {
			// a second relay that is configured with the same key as the first, asked in parallel
			second.PublicKey = c16RelayPubkey(sh["pkcfg"])
			switch sh["addr"] {
			case "keyed", "badkeyed", "shortkeyed":
				second.Address = c16RelayAddress(sh["addr"], in.relay2.URL())
			}
		}
		relays = append(relays, second)
	}
	in.mu.Lock()
	in.pcs[k] = &beaconblockproposer.ProposerConfig{FeeRecipient: bellatrix.ExecutionAddress{0x11, 0x22, 0x33}, Relays: relays}
	in.mu.Unlock()
}

func (in *c16BidInst) Invoke(ctx context.Context, k int, _ map[string]string) c16Res {
	in.mu.Lock()
	pc := in.pcs[k]
	in.mu.Unlock()
	slot := c16CallSlot(k)
	in.polls1.Attach(ctx, slot)
	in.polls2.Attach(ctx, slot)
	in.clock.Begin(slot)
	res, err := in.strat.BuilderBid(ctx, slot, c16ParentHash, c16AccountPubkey(1), pc, map[phase0.BLSPubKey]*blockrelay.BuilderConfig{})
	// goroutines the strategy started may still be decoding an answer: let them finish inside this call
	grace := 20 * time.Millisecond
	if in.kind == "deadline" {
		grace = 150 * time.Millisecond
	}
	time.Sleep(grace)
	if err != nil {
		return c16Err(err.Error())
	}
	if res == nil {
		return c16Err("nil results without error")
	}
	// what the caller (blockrelay.auctionBlock, proposer) does with the results
	for _, p := range res.Providers {
		_ = p.Address()
		if _, ok := p.(builderclient.UnblindedProposalProvider); !ok {
			return c16Err("provider cannot unblind")
		}
	}
	if _, err := json.Marshal(res); err != nil {
		return c16Err("results do not marshal: " + err.Error())
	}
	if res.WinningParticipation == nil {
		return c16Fallback(fmt.Sprintf("no winning bid (%d relays usable): local block", len(res.AllProviders)))
	}
	return c16OK(fmt.Sprintf("winner among %d", len(res.AllProviders)))
}

func init() {
	c16RegisterInstance("builderbid", c16NewBidInst)
}
