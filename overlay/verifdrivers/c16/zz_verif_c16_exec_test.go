package c16

// Entry points "execv2" and "execv1": an execution configuration document as an operator or a
// config server can supply it -> blockrelay.UnmarshalJSON (what fetchExecutionConfig does with the
// fetched bytes) -> ProposerConfig for a validator (what every auction, registration round and
// proposal preparation does with the active configuration) -> String() (what the trace logging does).
// Entry point "execdoc": the same path for the WHOLE-DOCUMENT shapes (null, empty, scalars, arrays,
// version-only objects, trailing data ...).

import (
	"context"
	"encoding/json"
	"fmt"
	"strings"
	"sync"

	"github.com/attestantio/go-eth2-client/spec/bellatrix"
	"github.com/attestantio/go-eth2-client/spec/phase0"
	"github.com/attestantio/vouch/services/blockrelay"
	"github.com/attestantio/vouch/testutil"
	e2wtypes "github.com/wealdtech/go-eth2-wallet-types/v2"
)

const (
	c16Fee1    = "0x1111111111111111111111111111111111111111"
	c16Fee2    = "0x2222222222222222222222222222222222222222"
	c16Relay1  = "https://relay1.example.com/"
	c16Relay2  = "https://relay2.example.com/"
	c16PrivKey = "0x25295f0d1d592a90b333e26e85149708208e9f8e8bc18f6c77bd62f8ad7a6866"
)

var (
	c16AccountsOnce sync.Once
	c16Accounts     map[phase0.ValidatorIndex]e2wtypes.Account
	c16AccountsErr  error
)

// c16Account returns a real (scratch-store, non-deterministic wallet) account "Test wallet/Interop <i>".
func c16Account(i uint64) e2wtypes.Account {
	c16AccountsOnce.Do(func() {
		c16Accounts, c16AccountsErr = testutil.CreateTestWalletAndAccounts([]phase0.ValidatorIndex{0, 1, 2, 3, 4, 5, 6, 7}, c16PrivKey)
	})
	if c16AccountsErr != nil {
		panic("c16 harness: cannot create accounts: " + c16AccountsErr.Error())
	}
	return c16Accounts[phase0.ValidatorIndex(i)]
}

func c16AccountPubkey(i uint64) phase0.BLSPubKey {
	var pk phase0.BLSPubKey
	copy(pk[:], c16Account(i).PublicKey().Marshal())
	return pk
}

func c16OtherPubkey() phase0.BLSPubKey {
	var pk phase0.BLSPubKey
	for i := range pk {
		pk[i] = 0xab
	}
	return pk
}

// c16Obj writes a JSON object from raw "key":value members (duplicates are kept as written).
func c16Obj(members ...string) string {
	return "{" + strings.Join(members, ",") + "}"
}

func c16ExecV2Doc(sh map[string]string) string {
	var m []string
	switch sh["version"] {
	case "2":
		m = append(m, `"version":2`)
	case "1":
		m = append(m, `"version":1`)
	case "3":
		m = append(m, `"version":3`)
	case "str":
		m = append(m, `"version":"2"`)
	case "null":
		m = append(m, `"version":null`)
	}
	switch sh["top"] {
	case "all":
		m = append(m, fmt.Sprintf(`"fee_recipient":"%s","gas_limit":"30000000","grace":"200","min_value":"0.01"`, c16Fee1))
	case "bad":
		m = append(m, `"fee_recipient":"0x1234","gas_limit":"many","grace":"-1","min_value":"lots"`)
	}
	relay := fmt.Sprintf(`{"public_key":"%s","fee_recipient":"%s","gas_limit":"29000000"}`, c16OtherPubkey().String(), c16Fee2)
	switch sh["relays"] {
	case "empty":
		m = append(m, `"relays":{}`)
	case "one":
		m = append(m, fmt.Sprintf(`"relays":{"%s":%s}`, c16Relay1, relay))
	case "null":
		m = append(m, fmt.Sprintf(`"relays":{"%s":null}`, c16Relay1))
	case "emptykey":
		m = append(m, fmt.Sprintf(`"relays":{"":%s}`, relay))
	case "dup":
		m = append(m, fmt.Sprintf(`"relays":{"%s":%s,"%s":{}}`, c16Relay1, relay, c16Relay1))
	}
	var prelays string
	switch sh["prelays"] {
	case "empty":
		prelays = `,"relays":{}`
	case "one":
		prelays = fmt.Sprintf(`,"relays":{"%s":{"gas_limit":"28000000"}}`, c16Relay1)
	case "null":
		prelays = fmt.Sprintf(`,"relays":{"%s":null}`, c16Relay1)
	case "disabled":
		prelays = fmt.Sprintf(`,"relays":{"%s":{"disabled":true}}`, c16Relay1)
	case "new":
		prelays = fmt.Sprintf(`,"relays":{"%s":{"min_value":"0.5"}}`, c16Relay2)
	}
	matchAccount, otherAccount := "^Test wallet/Interop 1$", "^Nowhere/.*$"
	matchKey, otherKey := c16AccountPubkey(1).String(), c16OtherPubkey().String()
	sel := func(y, n string) string {
		if sh["match"] == "y" {
			return y
		}
		return n
	}
	switch sh["proposers"] {
	case "empty":
		m = append(m, `"proposers":[]`)
	case "account":
		m = append(m, fmt.Sprintf(`"proposers":[{"proposer":%q,"fee_recipient":"%s"%s}]`, sel(matchAccount, otherAccount), c16Fee2, prelays))
	case "validator":
		m = append(m, fmt.Sprintf(`"proposers":[{"proposer":%q,"gas_limit":"27000000"%s}]`, sel(matchKey, otherKey), prelays))
	case "null":
		m = append(m, `"proposers":[null]`)
	case "neither":
		m = append(m, fmt.Sprintf(`"proposers":[{"fee_recipient":"%s"}]`, c16Fee2))
	case "badregex":
		m = append(m, `"proposers":[{"proposer":"^Test wallet/(Interop 1$"}]`)
	}
	return c16Obj(m...)
}

func c16ExecV1Doc(sh map[string]string) string {
	var m []string
	if sh["version"] == "0" {
		m = append(m, `"version":0`)
	}
	var relays string
	switch sh["brelays"] {
	case "empty":
		relays = `,"relays":[]`
	case "one":
		relays = fmt.Sprintf(`,"relays":["%s"]`, c16Relay1)
	case "null":
		relays = `,"relays":null`
	}
	builder := fmt.Sprintf(`"builder":{"enabled":true,"grace":"100"%s}`, relays)
	switch sh["dflt"] {
	case "null":
		m = append(m, `"default_config":null`)
	case "full":
		m = append(m, fmt.Sprintf(`"default_config":{"fee_recipient":"%s","gas_limit":"30000000",%s}`, c16Fee1, builder))
	case "nobuilder":
		m = append(m, fmt.Sprintf(`"default_config":{"fee_recipient":"%s"}`, c16Fee1))
	case "nullbuilder":
		m = append(m, fmt.Sprintf(`"default_config":{"fee_recipient":"%s","builder":null}`, c16Fee1))
	case "nofee":
		m = append(m, fmt.Sprintf(`"default_config":{"gas_limit":"30000000",%s}`, builder))
	case "disabled":
		m = append(m, fmt.Sprintf(`"default_config":{"fee_recipient":"%s","builder":{"enabled":false%s}}`, c16Fee1, relays))
	}
	key := c16OtherPubkey().String()
	if sh["match"] == "y" {
		key = c16AccountPubkey(1).String()
	}
	entry := fmt.Sprintf(`{"fee_recipient":"%s",%s}`, c16Fee2, builder)
	switch sh["pc"] {
	case "empty":
		m = append(m, `"proposer_config":{}`)
	case "one":
		m = append(m, fmt.Sprintf(`"proposer_config":{"%s":%s}`, key, entry))
	case "null":
		m = append(m, fmt.Sprintf(`"proposer_config":{"%s":null}`, key))
	case "badkey":
		m = append(m, fmt.Sprintf(`"proposer_config":{"not hex":%s}`, entry))
	case "shortkey":
		m = append(m, fmt.Sprintf(`"proposer_config":{"0x1234":%s}`, entry))
	case "dup":
		m = append(m, fmt.Sprintf(`"proposer_config":{"%s":%s,"%s":{"fee_recipient":"%s"}}`, key, entry, key, c16Fee1))
	}
	return c16Obj(m...)
}

// c16RunExec: blockrelay.UnmarshalJSON, and - if the decoder handed over a configuration - what every
// user of a configuration does with it (spec: Decoded, then Use("lookup")).
func c16RunExec(ctx context.Context, doc string) c16Res {
	cfg, err := blockrelay.UnmarshalJSON([]byte(doc))
	if err != nil {
		c16Decoded(ctx, false, err.Error())
		return c16Err("unmarshal: " + err.Error())
	}
	if cfg == nil {
		c16Decoded(ctx, false, "nil configuration without error")
		return c16Err("nil configuration without error")
	}
	// The caller has been told that this is a configuration (the interface value is not nil, which is
	// all that the block relay service looks at), so it will be used.
	c16Decoded(ctx, true, fmt.Sprintf("%T", cfg))
	res := c16LookupExec(ctx, cfg)
	c16Used(ctx, "lookup", res)
	return res
}

func c16LookupExec(ctx context.Context, cfg blockrelay.ExecutionConfigurator) c16Res {
	var fallbackFee bellatrix.ExecutionAddress
	fallbackFee[0] = 0xfa
	// what the configuration is used for: proposer settings of a controlled validator, twice (the
	// active configuration object is shared by every later lookup), and of an unknown account
	var firstErr error
	relays := -1
	for i := 0; i < 2; i++ {
		pc, err := cfg.ProposerConfig(ctx, c16Account(1), c16AccountPubkey(1), fallbackFee, 30000000)
		if err != nil {
			if firstErr == nil {
				firstErr = err
			}
			continue
		}
		if pc == nil {
			return c16Err("nil proposer config without error")
		}
		relays = len(pc.Relays)
		for _, r := range pc.Relays {
			_ = r.Address
			_ = r.MinValue.String()
		}
		if _, err := json.Marshal(pc); err != nil {
			return c16Err("marshal proposer config: " + err.Error())
		}
	}
	if _, err := cfg.ProposerConfig(ctx, nil, c16OtherPubkey(), fallbackFee, 30000000); err != nil && firstErr == nil {
		firstErr = err
	}
	if str, ok := cfg.(fmt.Stringer); ok {
		_ = str.String()
	}
	if _, err := json.Marshal(cfg); err != nil {
		return c16Err("marshal: " + err.Error())
	}
	if firstErr != nil {
		return c16Err("proposer config: " + firstErr.Error())
	}
	return c16OK(fmt.Sprintf("relays=%d", relays))
}

// c16ValidDoc is a complete, benign document of the given version naming one relay.
func c16ValidDoc(version string, relay string) string {
	return c16ValidDocKeyed(version, relay, "none")
}

// c16ValidDocKeyed: the same with a "public_key" for the relay (version 2 only; Robustness!RelayKeys).
func c16ValidDocKeyed(version string, relay string, pk string) string {
	addr, _ := json.Marshal(relay)
	entry := "{}"
	if key := c16RelayPubkey(pk); key != nil {
		entry = fmt.Sprintf(`{"public_key":"%s"}`, key.String())
	}
	if version == "v1" {
		builder := fmt.Sprintf(`"builder":{"enabled":true,"grace":"100","relays":[%s]}`, addr)
		return fmt.Sprintf(`{"default_config":{"fee_recipient":"%s","gas_limit":"30000000",%s},"proposer_config":{"%s":{"fee_recipient":"%s",%s}}}`,
			c16Fee1, builder, c16AccountPubkey(1).String(), c16Fee2, builder)
	}
	return fmt.Sprintf(`{"version":2,"fee_recipient":"%s","gas_limit":"30000000","grace":"0","min_value":"0","relays":{%s:%s},`+
		`"proposers":[{"proposer":"^Test wallet/Interop 1$","fee_recipient":"%s"}]}`, c16Fee1, addr, entry, c16Fee2)
}

// c16WholeDoc builds the content of the configuration source for a whole-document shape
// (Robustness!DocShapes); relay is the address written into the valid documents.
func c16WholeDoc(kind string, relay string) string { return c16WholeDocKeyed(kind, relay, "none") }

func c16WholeDocKeyed(kind string, relay string, pk string) string {
	v2, v1 := c16ValidDocKeyed("v2", relay, pk), c16ValidDoc("v1", relay)
	switch kind {
	case "null":
		return "null"
	case "nullpadded":
		return " null\n"
	case "empty":
		return ""
	case "whitespace":
		return " \n\t \n"
	case "emptyobj":
		return "{}"
	case "emptyarr":
		return "[]"
	case "number":
		return "2"
	case "string":
		return `"version 2"`
	case "true":
		return "true"
	case "false":
		return "false"
	case "onlyversion0":
		return `{"version":0}`
	case "onlyversion1":
		return `{"version":1}`
	case "onlyversion2":
		return `{"version":2}`
	case "onlyversion9":
		return `{"version":9}`
	case "onlyversionnull":
		return `{"version":null}`
	case "onlyversionstr":
		return `{"version":"2"}`
	case "trailing":
		return v2 + "\n-- end of configuration --\n"
	case "concat":
		return v2 + "\n" + v1 + "\n"
	case "trailingnull":
		return v2 + "\nnull\n"
	case "arrayofdocs":
		return "[" + v2 + "," + v1 + "]"
	case "arrayofnull":
		return "[null]"
	case "quoted":
		b, _ := json.Marshal(v2)
		return string(b)
	case "bom":
		return "\xef\xbb\xbf" + v2
	case "truncated":
		return v2[:len(v2)/2]
	case "valid2":
		return v2
	case "valid1":
		return v1
	}
	panic("c16 harness: unknown document shape " + kind)
}

func init() {
	c16Register("execv2", func(ctx context.Context, sh map[string]string) c16Res { return c16RunExec(ctx, c16ExecV2Doc(sh)) })
	c16Register("execv1", func(ctx context.Context, sh map[string]string) c16Res { return c16RunExec(ctx, c16ExecV1Doc(sh)) })
	c16Register("execdoc", func(ctx context.Context, sh map[string]string) c16Res {
		return c16RunExec(ctx, c16WholeDoc(sh["doc"], c16Relay1))
	})
}
