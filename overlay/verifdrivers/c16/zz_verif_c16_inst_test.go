package c16

// History mode (spec/RobustnessInst.tla): ONE real, long-lived service object per scenario and a TLC-
// generated history of calls on it.  Every entry point whose real counterpart lives as long as the
// process is a c16Instance: built once (New of the real service / strategy with its scripted
// surroundings), then fed call after call: Prepare scripts the surroundings (relay answer, node answer,
// configuration source, graffiti file, proposer configuration) with the input of that call, Invoke
// enters the real code.  Relays, relay keys, nodes, accounts, validators, files and URLs are the SAME
// objects in every call of a history; slots / epochs / block heights advance with the call number.
//
// Overlap: a Call step that is directly followed by another Call step is HELD at the instance's gate
// (an interface of the real code: the relay, the node, the file store) while the next call runs to
// completion; its Await step releases it.
//
// The single-input lattice (spec/Robustness.tla) runs on the same code: one instance, one call.

import (
	"context"
	"fmt"
	"os"
	"runtime/debug"
	"strings"
	"sync"
	"time"
)

// c16Instance is one long-lived service object with its surroundings.
type c16Instance interface {
	// Prepare scripts the surroundings for call number k with input sh.  It may be called again for the
	// same call (the surroundings are re-scripted for a held call before it is released).
	Prepare(k int, sh map[string]string)
	// Invoke enters the real code with the input of call k and classifies how the call ended.
	Invoke(ctx context.Context, k int, sh map[string]string) c16Res
	// Gate is where a call on this instance can be held (nil: nowhere).
	Gate() *c16Gate
	Close()
}

// c16Factory builds an instance with the configuration part of a shape (Robustness!InstDims); first is
// the input of the first call (the block relay service reads its configuration source inside New).
type c16Factory func(ctx context.Context, first map[string]string) c16Instance

var c16Factories = map[string]c16Factory{}

// c16RegisterInstance registers the factory of a long-lived entry point and, from it, the runner of the
// single-input lattice: a fresh instance, one call.
func c16RegisterInstance(ep string, f c16Factory) {
	c16Factories[ep] = f
	c16Register(ep, func(ctx context.Context, sh map[string]string) c16Res {
		in := f(ctx, sh)
		defer in.Close()
		in.Prepare(1, sh)
		return in.Invoke(ctx, 1, sh)
	})
}

// ---------------------------------------------------------------------------------------------
// gate

// c16Gate holds the first request that passes it after Arm until Release.
type c16Gate struct {
	mu      sync.Mutex
	armed   bool
	held    chan struct{}
	release chan struct{}
	once    *sync.Once
}

func (g *c16Gate) Arm() {
	g.mu.Lock()
	g.armed = true
	g.held = make(chan struct{})
	g.release = make(chan struct{})
	g.once = &sync.Once{}
	g.mu.Unlock()
}

// Disarm: nothing is held any more unless it already is.
func (g *c16Gate) Disarm() {
	g.mu.Lock()
	g.armed = false
	g.mu.Unlock()
}

// Pass is called by the fake at the gated interface.
func (g *c16Gate) Pass() {
	if g == nil {
		return
	}
	g.mu.Lock()
	if !g.armed {
		g.mu.Unlock()
		return
	}
	g.armed = false
	held, release := g.held, g.release
	g.mu.Unlock()
	close(held)
	select {
	case <-release:
	case <-time.After(c16CallWatchdog + 10*time.Second):
	}
}

func (g *c16Gate) Held() <-chan struct{} {
	g.mu.Lock()
	defer g.mu.Unlock()
	return g.held
}

func (g *c16Gate) Release() {
	g.mu.Lock()
	g.armed = false
	release, once := g.release, g.once
	g.mu.Unlock()
	if once != nil {
		once.Do(func() { close(release) })
	}
}

// ---------------------------------------------------------------------------------------------
// history execution (child process)

// c16Step is one step of a history (Scen_RobustnessInst): Call{call, shape} | Await{call}.
type c16Step struct {
	Op    string            `json:"op"`
	Call  int               `json:"call"`
	Shape map[string]string `json:"shape,omitempty"`
}

const (
	// a call of a history that has not come back after this time never will (the longest legitimate call is a
	// proposal whose node does not answer: 4 s); a Hung line is only a verdict if it reproduces alone
	c16CallWatchdog = 15 * time.Second
	// how long the driver waits for a call to reach the gate, and for the call that runs next to a held
	// one before it gives the held one back (the real code may serialise the two: that is legitimate)
	c16HoldWait   = 2 * time.Second
	c16OverlapMax = 6 * time.Second
)

type c16CallEnd struct {
	terminal bool // Crash: the history is over
}

type c16Running struct {
	n     int
	shape map[string]string
	done  chan c16CallEnd
	held  bool
	// a strategy that returns with the first node's answer lets the call come back while its request to the gated
	// node is still on its way to the gate: the lines Return and Held of one call are written under this lock, and
	// Held only while the call is in flight
	mu   sync.Mutex
	back bool
}

// c16Protected runs f in a goroutine of its own under recover and reports a panic as (text, frame, decoder).
func c16Protected(f func()) (crashed bool, text, frame, decoder string) {
	type res struct {
		crashed              bool
		text, frame, decoder string
	}
	ch := make(chan res, 1)
	go func() {
		defer func() {
			if r := recover(); r != nil {
				st := string(debug.Stack())
				ch <- res{true, c16Short(fmt.Sprint(r), 200), c16TopFrame(st), c16DecoderFrame(st)}
			}
		}()
		f()
		ch <- res{}
	}()
	select {
	case r := <-ch:
		return r.crashed, r.text, r.frame, r.decoder
	case <-time.After(c16Watchdog):
		return true, "c16 harness: building the instance / the probe did not end within the watchdog time", "", ""
	}
}

// c16RunHistory executes one history; it returns false if the child process has to be left (a call hung:
// its goroutine and the instance are lost).
func c16RunHistory(log *c16Log, f *os.File, sc c16Scenario) {
	factory, ok := c16Factories[sc.Ep]
	if !ok {
		panic("c16 harness: no long-lived instance for entry point " + sc.Ep)
	}
	line := func(ev string, extra c16Line) {
		l := c16Line{"sc": sc.Sc, "ev": ev, "ep": sc.Ep}
		for k, v := range extra {
			l[k] = v
		}
		log.write(l)
	}
	harness := func(text string) {
		line("HarnessError", c16Line{"text": text})
		f.Close()
		os.Exit(4)
	}
	crashLine := func(text, frame, decoder string, calls []int) {
		switch {
		case strings.HasPrefix(text, "c16 harness:"):
			harness(text)
		case decoder != "":
			// without a call number: the history cannot go on (which call lost its value is not known here)
			line("DecoderPanic", c16Line{"text": text, "decoder": decoder, "via": frame, "fatal": true})
		default:
			line("Crash", c16Line{"text": text, "frame": frame, "fatal": false, "calls": calls})
		}
	}
	ctx, cancel := context.WithCancel(context.Background())
	defer cancel()

	line("Instance", c16Line{"of": sc.Inst})

	// the reference: the probe input on a fresh instance of the same configuration
	var probe c16Res
	if crashed, text, frame, decoder := c16Protected(func() {
		in := factory(ctx, sc.Inst)
		defer in.Close()
		in.Prepare(1, sc.Inst)
		probe = in.Invoke(ctx, 1, sc.Inst)
	}); crashed {
		crashLine(text, frame, decoder, []int{})
		return
	}
	if probe.Outcome != "undeliverable" {
		line("Fresh", c16Line{"shape": sc.Inst, "outcome": probe.Outcome, "detail": c16Short(probe.Detail, 160)})
	}

	// the long-lived instance
	var first map[string]string
	for _, st := range sc.Steps {
		if st.Op == "Call" {
			first = st.Shape
			break
		}
	}
	if first == nil {
		harness("c16 harness: history without a call")
	}
	var in c16Instance
	if crashed, text, frame, decoder := c16Protected(func() { in = factory(ctx, first) }); crashed {
		crashLine(text, frame, decoder, []int{})
		return
	}
	gate := in.Gate()

	running := map[int]*c16Running{}
	inflight := func() []int {
		res := []int{}
		for n := range running {
			res = append(res, n)
		}
		return res
	}
	start := func(st c16Step) *c16Running {
		r := &c16Running{n: st.Call, shape: st.Shape, done: make(chan c16CallEnd, 1)}
		running[st.Call] = r
		var emu sync.Mutex
		ended := false
		cctx := context.WithValue(ctx, c16EmitKey{}, func(ev c16Line) {
			emu.Lock()
			defer emu.Unlock()
			if ended { // the call has come back: a goroutine it left behind may still ask a fake
				return
			}
			ev["sc"], ev["ep"], ev["call"] = sc.Sc, sc.Ep, st.Call
			log.write(ev)
		})
		over := func() {
			emu.Lock()
			ended = true
			emu.Unlock()
		}
		go func() {
			defer func() {
				if p := recover(); p != nil {
					over()
					stack := string(debug.Stack())
					text, frame, decoder := c16Short(fmt.Sprint(p), 200), c16TopFrame(stack), c16DecoderFrame(stack)
					switch {
					case strings.HasPrefix(text, "c16 harness:"):
						harness(text)
					case decoder != "":
						line("DecoderPanic", c16Line{"call": st.Call, "text": text, "decoder": decoder, "via": frame, "fatal": false})
						r.done <- c16CallEnd{}
					default:
						line("Crash", c16Line{"call": st.Call, "text": text, "frame": frame, "fatal": false, "calls": []int{st.Call}})
						r.done <- c16CallEnd{terminal: true}
					}
				}
			}()
			res := in.Invoke(cctx, st.Call, st.Shape)
			over()
			r.mu.Lock()
			r.back = true
			if res.Outcome == "undeliverable" {
				line("Undeliverable", c16Line{"call": st.Call, "detail": c16Short(res.Detail, 160)})
			} else {
				line("Return", c16Line{"call": st.Call, "outcome": res.Outcome, "detail": c16Short(res.Detail, 160)})
			}
			r.mu.Unlock()
			r.done <- c16CallEnd{}
		}()
		return r
	}
	hung := func(n int) {
		line("Hung", c16Line{"call": n, "calls": inflight()})
		// the goroutine and the instance are lost: leave the process, the parent goes on behind this scenario
		f.Close()
		os.Exit(3)
	}

	for i, st := range sc.Steps {
		switch st.Op {
		case "Call":
			overlap := i+1 < len(sc.Steps) && sc.Steps[i+1].Op == "Call" && gate != nil
			// from here on the surroundings present the input of this call (a call that is still in flight shares them:
			// its remaining requests may be answered by this call's script)
			line("Call", c16Line{"call": st.Call, "shape": st.Shape})
			in.Prepare(st.Call, st.Shape)
			if overlap {
				gate.Arm()
			}
			r := start(st)
			if overlap {
				select {
				case <-gate.Held():
					r.held = true // a request is at the gate and has to be let go at the Await step
					r.mu.Lock()
					if !r.back {
						line("Held", c16Line{"call": st.Call})
					}
					r.mu.Unlock()
				case e := <-r.done:
					// it came back without passing the gate (an address that cannot be parsed, ...)
					gate.Disarm()
					r.done <- e
				case <-time.After(c16HoldWait):
					gate.Disarm()
				}
			}
		case "Await":
			r := running[st.Call]
			if r == nil {
				harness(fmt.Sprintf("c16 harness: await of call %d that was not started", st.Call))
			}
			if r.held {
				// the surroundings answer the held call with ITS script when it goes on
				in.Prepare(r.n, r.shape)
				gate.Release()
				r.held = false
			}
			var held *c16Running
			for _, o := range running {
				if o.held {
					held = o
				}
			}
			soft := time.After(c16OverlapMax)
			hard := time.After(c16CallWatchdog)
		wait:
			for {
				select {
				case e := <-r.done:
					delete(running, st.Call)
					if e.terminal {
						return
					}
					break wait
				case <-soft:
					// the call waits for something the held call has: hand that one back (legitimate serialisation)
					if held != nil && held.held {
						gate.Release()
						held.held = false
					}
				case <-hard:
					hung(st.Call)
				}
			}
		default:
			harness("c16 harness: unknown step " + st.Op)
		}
	}
	if len(running) > 0 {
		harness("c16 harness: history ends with calls that were not awaited")
	}
	if crashed, text, frame, decoder := c16Protected(func() { in.Close() }); crashed {
		crashLine(text, frame, decoder, []int{})
		return
	}
	line("Close", nil)
}
