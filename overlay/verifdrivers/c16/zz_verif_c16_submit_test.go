package c16

// Entry point "submitclassify": the multinode submitter classifies the error text a beacon node
// answers to a submission.  The node is a scripted HTTP server; the submitter is given the real
// go-eth2-client HTTP client, so the error text is exactly what the library produces from the node's
// status code and body, and the server type is derived from the node's version string.
// Entry point "graffiti": the dynamic graffiti provider with operator-supplied content.

import (
	"context"
	"errors"
	"fmt"
	"strings"
	"time"

	eth2client "github.com/attestantio/go-eth2-client"
	"github.com/attestantio/go-eth2-client/spec/altair"
	"github.com/attestantio/go-eth2-client/spec/phase0"
	"github.com/attestantio/vouch/mock"
	dynamicgraffiti "github.com/attestantio/vouch/services/graffitiprovider/dynamic"
	"github.com/attestantio/vouch/services/submitter/multinode"
	"github.com/prysmaticlabs/go-bitfield"
	"github.com/wealdtech/go-majordomo"
)

func c16NodeVersion(server string) string {
	switch server {
	case "lighthouse":
		return "Lighthouse/v5.3.0-d6ba8c3/x86_64-linux"
	case "teku":
		return "teku/v24.8.0/linux-x86_64/-eclipseadoptium-openjdk64bitservervm-java-21"
	case "prysm":
		return "Prysm/v5.1.0 (linux amd64)"
	}
	return "SomeClient/v0.1.0"
}

func c16FailureBody(op string, server string, kind string) c16Answer {
	code, idx := `400`, `0`
	if server == "teku" {
		code, idx = `"400"`, `"0"`
	}
	known := "Verification: PriorSyncCommitteeMessageKnown { validator_index: 1, slot: Slot(2) }"
	switch {
	case op == "contributions":
		known = "Verification: AggregatorAlreadyKnown(12)"
	case op == "attestations":
		known = "Verification: PriorAttestationKnown { validator_index: 1, epoch: Epoch(2) }"
	case server == "teku":
		known = "Ignoring sync committee message as a duplicate was processed during validation"
	}
	obj := func(failures string) c16Answer {
		return c16Answer{Status: 400, Body: fmt.Sprintf(`{"code":%s,"message":"some failures"%s}`, code, failures)}
	}
	switch kind {
	case "nojson":
		return c16Answer{Status: 400, Body: ""}
	case "brace":
		return c16Answer{Status: 400, Body: "upstream said {oops"}
	case "nullentry":
		return obj(`,"failures":[null]`)
	case "emptylist":
		return obj(`,"failures":[]`)
	case "nofailures":
		return obj(``)
	case "known":
		return obj(fmt.Sprintf(`,"failures":[{"index":%s,"message":%q}]`, idx, known))
	case "real":
		return obj(fmt.Sprintf(`,"failures":[{"index":%s,"message":"Verification: InvalidSignature"}]`, idx))
	case "notarray":
		return obj(`,"failures":"none"`)
	case "nested":
		return obj(fmt.Sprintf(`,"detail":{"a":{"b":"{"}},"failures":[{"index":%s,"message":"a {b} c"},{"index":%s,"message":%q}]`, idx, idx, known))
	case "nullfailures":
		return obj(`,"failures":null`)
	}
	panic("c16 harness: unknown failure kind " + kind)
}

func c16RunSubmitClassify(ctx context.Context, sh map[string]string) c16Res {
	node := c16NewNode(c16NodeVersion(sh["server"]))
	defer node.Close()
	ans := c16FailureBody(sh["op"], sh["server"], sh["err"])
	node.Set("/eth/v1/beacon/pool/sync_committees", ans)
	node.Set("/eth/v1/validator/contribution_and_proofs", ans)
	node.Set("/eth/v1/beacon/pool/attestations", ans)
	client := c16NodeClient(ctx, node)

	s, err := multinode.New(ctx,
		multinode.WithLogLevel(c16LogLevel()),
		multinode.WithTimeout(400*time.Millisecond),
		multinode.WithProcessConcurrency(2),
		multinode.WithProposalSubmitters(map[string]eth2client.ProposalSubmitter{"n": mock.NewProposalSubmitter()}),
		multinode.WithAttestationsSubmitters(map[string]eth2client.AttestationsSubmitter{"n": client.(eth2client.AttestationsSubmitter)}),
		multinode.WithAggregateAttestationsSubmitters(map[string]eth2client.AggregateAttestationsSubmitter{"n": mock.NewAggregateAttestationsSubmitter()}),
		multinode.WithProposalPreparationsSubmitters(map[string]eth2client.ProposalPreparationsSubmitter{"n": mock.NewProposalPreparationsSubmitter()}),
		multinode.WithBeaconCommitteeSubscriptionsSubmitters(map[string]eth2client.BeaconCommitteeSubscriptionsSubmitter{"n": mock.NewBeaconCommitteeSubscriptionsSubmitter()}),
		multinode.WithSyncCommitteeMessagesSubmitters(map[string]eth2client.SyncCommitteeMessagesSubmitter{"n": client.(eth2client.SyncCommitteeMessagesSubmitter)}),
		multinode.WithSyncCommitteeSubscriptionsSubmitters(map[string]eth2client.SyncCommitteeSubscriptionsSubmitter{"n": mock.NewSyncCommitteeSubscriptionsSubmitter()}),
		multinode.WithSyncCommitteeContributionsSubmitters(map[string]eth2client.SyncCommitteeContributionsSubmitter{"n": client.(eth2client.SyncCommitteeContributionsSubmitter)}),
	)
	if err != nil {
		panic("c16 harness: submitter: " + err.Error())
	}
	switch sh["op"] {
	case "messages":
		err = s.SubmitSyncCommitteeMessages(ctx, []*altair.SyncCommitteeMessage{{Slot: 2, ValidatorIndex: 1}})
	case "contributions":
		err = s.SubmitSyncCommitteeContributions(ctx, []*altair.SignedContributionAndProof{{
			Message: &altair.ContributionAndProof{AggregatorIndex: 1, Contribution: &altair.SyncCommitteeContribution{Slot: 2, AggregationBits: bitfield.NewBitvector128()}},
		}})
	case "attestations":
		err = s.SubmitAttestations(ctx, []*phase0.Attestation{{
			AggregationBits: bitfield.NewBitlist(8),
			Data:            &phase0.AttestationData{Slot: 2, Source: &phase0.Checkpoint{}, Target: &phase0.Checkpoint{}},
		}})
	}
	if err != nil {
		return c16Err(err.Error())
	}
	return c16OK("accepted (rejection tolerated)")
}

// c16Majordomo is a scripted confidant store.
type c16Majordomo struct {
	files map[string]string
	errs  map[string]error
}

func (m *c16Majordomo) Fetch(_ context.Context, url string) ([]byte, error) {
	if err, ok := m.errs[url]; ok {
		return nil, err
	}
	if v, ok := m.files[url]; ok {
		return []byte(v), nil
	}
	return nil, majordomo.ErrNotFound
}

func (*c16Majordomo) RegisterConfidant(_ context.Context, _ majordomo.Confidant) error { return nil }

func c16GraffitiFile(kind string) string {
	switch kind {
	case "empty":
		return ""
	case "blank":
		return "\n\n\n\n"
	case "spaces":
		return "   \n \t \n"
	case "crlf":
		return "first line\r\n\r\nsecond line\r\n"
	case "one":
		return "hello from vouch"
	case "many":
		return "one\ntwo\n\n\nthree\n\n"
	case "template":
		return "slot {{SLOT}} validator {{VALIDATORINDEX}}\n{{SLOT}}{{SLOT}}{{SLOT}}{{SLOT}}\n"
	case "long":
		return strings.Repeat("long graffiti ", 20)
	case "client":
		return "{{CLIENT}}\nvouch {{CLIENT}} {{SLOT}}\n"
	case "nul":
		return "\x00\x00\x00\x00\n\x00\n"
	case "unterminated":
		return "{{SLOT\n{{CLIENT\nVALIDATORINDEX}}\n"
	case "utf8":
		return strings.Repeat("\u00e9\u4e16\U0001f600", 6) + "\n"
	}
	panic("c16 harness: unknown graffiti file kind " + kind)
}

// c16NewGraffitiProvider builds the real dynamic graffiti provider over the scripted store.
func c16NewGraffitiProvider(ctx context.Context, sh map[string]string) *dynamicgraffiti.Service {
	md := &c16Majordomo{files: map[string]string{}, errs: map[string]error{}}
	loc, resolved := "file:///graffiti/all.txt", "file:///graffiti/all.txt"
	if sh["loc"] == "templated" {
		loc, resolved = "file:///graffiti/{{VALIDATORINDEX}}/{{SLOT}}.txt", "file:///graffiti/7/12345.txt"
	}
	switch sh["file"] {
	case "missing":
	case "error":
		md.errs[resolved] = errors.New("permission denied")
	default:
		md.files[resolved] = c16GraffitiFile(sh["file"])
	}
	params := []dynamicgraffiti.Parameter{
		dynamicgraffiti.WithLogLevel(c16LogLevel()),
		dynamicgraffiti.WithMajordomo(md),
		dynamicgraffiti.WithLocation(loc),
	}
	switch sh["fallback"] {
	case "present":
		md.files["file:///graffiti/fallback.txt"] = "fallback graffiti"
		params = append(params, dynamicgraffiti.WithFallbackLocation("file:///graffiti/fallback.txt"))
	case "missing":
		params = append(params, dynamicgraffiti.WithFallbackLocation("file:///graffiti/fallback.txt"))
	}
	s, err := dynamicgraffiti.New(ctx, params...)
	if err != nil {
		panic("c16 harness: graffiti provider: " + err.Error())
	}
	return s
}

func c16RunGraffiti(ctx context.Context, sh map[string]string) c16Res {
	s := c16NewGraffitiProvider(ctx, sh)
	if sh["use"] != "call" {
		return c16RunGraffitiPropose(ctx, sh, s)
	}
	var last []byte
	for i := 0; i < 8; i++ { // the line is picked at random: several draws
		g, err := s.Graffiti(ctx, 12345, 7)
		if err != nil {
			return c16Err(err.Error())
		}
		last = g
		var res [32]byte
		copy(res[:], g)
	}
	if len(last) == 0 {
		return c16Fallback("no graffiti")
	}
	if sh["fallback"] == "present" && string(last) == "fallback graffiti" {
		return c16Fallback("fallback location used")
	}
	return c16OK(fmt.Sprintf("%d bytes", len(last)))
}

func init() {
	c16Register("submitclassify", c16RunSubmitClassify)
	c16Register("graffiti", c16RunGraffiti)
}
