package c16

// Entry point "submitclassify": the multinode submitter classifies the error text a beacon node
// answers to a submission.  The node is a scripted HTTP server; the submitter is given the real
// go-eth2-client HTTP client, so the error text is exactly what the library produces from the node's
// status code and body, and the server type is derived from the node's version string.
// Entry point "graffiti": the dynamic graffiti provider with operator-supplied content.

import (
	"context"
	"errors"
	"fmt"
	"strings"
	"sync"
	"time"

	eth2client "github.com/attestantio/go-eth2-client"
	"github.com/attestantio/go-eth2-client/spec/altair"
	"github.com/attestantio/go-eth2-client/spec/phase0"
	"github.com/attestantio/vouch/mock"
	dynamicgraffiti "github.com/attestantio/vouch/services/graffitiprovider/dynamic"
	"github.com/attestantio/vouch/services/submitter/multinode"
	"github.com/prysmaticlabs/go-bitfield"
	"github.com/wealdtech/go-majordomo"
)

func c16NodeVersion(server string) string {
	switch server {
	case "lighthouse":
		return "Lighthouse/v5.3.0-d6ba8c3/x86_64-linux"
	case "teku":
		return "teku/v24.8.0/linux-x86_64/-eclipseadoptium-openjdk64bitservervm-java-21"
	case "prysm":
		return "Prysm/v5.1.0 (linux amd64)"
	}
	return "SomeClient/v0.1.0"
}

func c16FailureBody(op string, server string, kind string) c16Answer {
	code, idx := `400`, `0`
	if server == "teku" {
		code, idx = `"400"`, `"0"`
	}
	known := "Verification: PriorSyncCommitteeMessageKnown { validator_index: 1, slot: Slot(2) }"
	switch {
	case op == "contributions":
		known = "Verification: AggregatorAlreadyKnown(12)"
	case op == "attestations":
		known = "Verification: PriorAttestationKnown { validator_index: 1, epoch: Epoch(2) }"
	case server == "teku":
		known = "Ignoring sync committee message as a duplicate was processed during validation"
	}
	obj := func(failures string) c16Answer {
		return c16Answer{Status: 400, Body: fmt.Sprintf(`{"code":%s,"message":"some failures"%s}`, code, failures)}
	}
	switch kind {
	case "nojson":
		return c16Answer{Status: 400, Body: ""}
	case "brace":
		return c16Answer{Status: 400, Body: "upstream said {oops"}
	case "nullentry":
		return obj(`,"failures":[null]`)
	case "emptylist":
		return obj(`,"failures":[]`)
	case "nofailures":
		return obj(``)
	case "known":
		return obj(fmt.Sprintf(`,"failures":[{"index":%s,"message":%q}]`, idx, known))
	case "real":
		return obj(fmt.Sprintf(`,"failures":[{"index":%s,"message":"Verification: InvalidSignature"}]`, idx))
	case "notarray":
		return obj(`,"failures":"none"`)
	case "nested":
		return obj(fmt.Sprintf(`,"detail":{"a":{"b":"{"}},"failures":[{"index":%s,"message":"a {b} c"},{"index":%s,"message":%q}]`, idx, idx, known))
	case "nullfailures":
		return obj(`,"failures":null`)
	}
	panic("c16 harness: unknown failure kind " + kind)
}

// c16SubmitInst: the multinode submitter over one node of a given software.
type c16SubmitInst struct {
	node *c16Server
	gate *c16Gate
	s    *multinode.Service
}

func c16NewSubmitInst(ctx context.Context, first map[string]string) c16Instance {
	in := &c16SubmitInst{node: c16NewNode(c16NodeVersion(first["server"])), gate: &c16Gate{}}
	for _, prefix := range []string{"/eth/v1/beacon/pool/sync_committees", "/eth/v1/validator/contribution_and_proofs", "/eth/v1/beacon/pool/attestations"} {
		in.node.Gate(prefix, in.gate)
	}
	client := c16NodeClient(ctx, in.node)
	s, err := multinode.New(ctx,
		multinode.WithLogLevel(c16LogLevel()),
		multinode.WithTimeout(400*time.Millisecond),
		multinode.WithProcessConcurrency(2),
		multinode.WithProposalSubmitters(map[string]eth2client.ProposalSubmitter{"n": mock.NewProposalSubmitter()}),
		multinode.WithAttestationsSubmitters(map[string]eth2client.AttestationsSubmitter{"n": client.(eth2client.AttestationsSubmitter)}),
		multinode.WithAggregateAttestationsSubmitters(map[string]eth2client.AggregateAttestationsSubmitter{"n": mock.NewAggregateAttestationsSubmitter()}),
		multinode.WithProposalPreparationsSubmitters(map[string]eth2client.ProposalPreparationsSubmitter{"n": mock.NewProposalPreparationsSubmitter()}),
		multinode.WithBeaconCommitteeSubscriptionsSubmitters(map[string]eth2client.BeaconCommitteeSubscriptionsSubmitter{"n": mock.NewBeaconCommitteeSubscriptionsSubmitter()}),
		multinode.WithSyncCommitteeMessagesSubmitters(map[string]eth2client.SyncCommitteeMessagesSubmitter{"n": client.(eth2client.SyncCommitteeMessagesSubmitter)}),
		multinode.WithSyncCommitteeSubscriptionsSubmitters(map[string]eth2client.SyncCommitteeSubscriptionsSubmitter{"n": mock.NewSyncCommitteeSubscriptionsSubmitter()}),
		multinode.WithSyncCommitteeContributionsSubmitters(map[string]eth2client.SyncCommitteeContributionsSubmitter{"n": client.(eth2client.SyncCommitteeContributionsSubmitter)}),
	)
	if err != nil {
		panic("c16 harness: submitter: " + err.Error())
	}
	in.s = s
	return in
}

func (in *c16SubmitInst) Gate() *c16Gate { return in.gate }
func (in *c16SubmitInst) Close() {
	in.gate.Release()
	in.node.Close()
}

func (in *c16SubmitInst) Prepare(_ int, sh map[string]string) {
	ans := c16FailureBody(sh["op"], sh["server"], sh["err"])
	in.node.Set("/eth/v1/beacon/pool/sync_committees", ans)
	in.node.Set("/eth/v1/validator/contribution_and_proofs", ans)
	in.node.Set("/eth/v1/beacon/pool/attestations", ans)
}

func (in *c16SubmitInst) Invoke(ctx context.Context, k int, sh map[string]string) c16Res {
	slot := phase0.Slot(2 + k - 1)
	var err error
	switch sh["op"] {
	case "messages":
		err = in.s.SubmitSyncCommitteeMessages(ctx, []*altair.SyncCommitteeMessage{{Slot: slot, ValidatorIndex: 1}})
	case "contributions":
		err = in.s.SubmitSyncCommitteeContributions(ctx, []*altair.SignedContributionAndProof{{
			Message: &altair.ContributionAndProof{AggregatorIndex: 1, Contribution: &altair.SyncCommitteeContribution{Slot: slot, AggregationBits: bitfield.NewBitvector128()}},
		}})
	case "attestations":
		err = in.s.SubmitAttestations(ctx, []*phase0.Attestation{{
			AggregationBits: bitfield.NewBitlist(8),
			Data:            &phase0.AttestationData{Slot: slot, Source: &phase0.Checkpoint{}, Target: &phase0.Checkpoint{}},
		}})
	}
	if err != nil {
		return c16Err(err.Error())
	}
	return c16OK("accepted (rejection tolerated)")
}

// c16Majordomo is a scripted confidant store (what the operator's files hold right now).
type c16Majordomo struct {
	mu    sync.Mutex
	files map[string]string
	errs  map[string]error
	gate  *c16Gate
}

func (m *c16Majordomo) Fetch(_ context.Context, url string) ([]byte, error) {
	m.mu.Lock()
	err, isErr := m.errs[url]
	v, ok := m.files[url]
	m.mu.Unlock()
	m.gate.Pass()
	if isErr {
		return nil, err
	}
	if ok {
		return []byte(v), nil
	}
	return nil, majordomo.ErrNotFound
}

func (*c16Majordomo) RegisterConfidant(_ context.Context, _ majordomo.Confidant) error { return nil }

func c16GraffitiFile(kind string) string {
	switch kind {
	case "empty":
		return ""
	case "blank":
		return "\n\n\n\n"
	case "spaces":
		return "   \n \t \n"
	case "crlf":
		return "first line\r\n\r\nsecond line\r\n"
	case "one":
		return "hello from vouch"
	case "many":
		return "one\ntwo\n\n\nthree\n\n"
	case "template":
		return "slot {{SLOT}} validator {{VALIDATORINDEX}}\n{{SLOT}}{{SLOT}}{{SLOT}}{{SLOT}}\n"
	case "long":
		return strings.Repeat("long graffiti ", 20)
	case "client":
		return "{{CLIENT}}\nvouch {{CLIENT}} {{SLOT}}\n"
	case "allmarkers":
		return "{{CLIENT}}/{{SLOT}}/{{VALIDATORINDEX}}\n{{CLIENT}}{{CLIENT}} {{SLOT}}\n"
	case "nul":
		return "\x00\x00\x00\x00\n\x00\n"
	case "unterminated":
		return "{{SLOT\n{{CLIENT\nVALIDATORINDEX}}\n"
	case "utf8":
		return strings.Repeat("\u00e9\u4e16\U0001f600", 6) + "\n"
	}
	panic("c16 harness: unknown graffiti file kind " + kind)
}

// c16GraffitiInst: the dynamic graffiti provider over the scripted store, alone (use = call) or as the
// graffiti source of the real proposer (use = propose | proposebest).
type c16GraffitiInst struct {
	md       *c16Majordomo
	s        *dynamicgraffiti.Service
	loc      string
	use      string
	proposer *c16GraffitiProposeInst
}

func c16NewGraffitiInst(ctx context.Context, first map[string]string) c16Instance {
	in := &c16GraffitiInst{md: &c16Majordomo{files: map[string]string{}, errs: map[string]error{}, gate: &c16Gate{}}, use: first["use"]}
	in.loc = "file:///graffiti/all.txt"
	if first["loc"] == "templated" {
		in.loc = "file:///graffiti/{{VALIDATORINDEX}}/{{SLOT}}.txt"
	}
	params := []dynamicgraffiti.Parameter{
		dynamicgraffiti.WithLogLevel(c16LogLevel()),
		dynamicgraffiti.WithMajordomo(in.md),
		dynamicgraffiti.WithLocation(in.loc),
	}
	switch first["fallback"] {
	case "present":
		in.md.files["file:///graffiti/fallback.txt"] = "fallback graffiti"
		params = append(params, dynamicgraffiti.WithFallbackLocation("file:///graffiti/fallback.txt"))
	case "missing":
		params = append(params, dynamicgraffiti.WithFallbackLocation("file:///graffiti/fallback.txt"))
	}
	s, err := dynamicgraffiti.New(ctx, params...)
	if err != nil {
		panic("c16 harness: graffiti provider: " + err.Error())
	}
	in.s = s
	if in.use != "call" {
		in.proposer = c16NewGraffitiProposeInst(ctx, in.use, first["nodeclient"] == "absent", s)
	}
	return in
}

func (in *c16GraffitiInst) Gate() *c16Gate { return in.md.gate }
func (in *c16GraffitiInst) Close() {
	in.md.gate.Release()
	if in.proposer != nil {
		in.proposer.node.Close()
	}
}

// the slot a call asks graffiti for (the templated location names it)
func (in *c16GraffitiInst) slot(k int) phase0.Slot {
	if in.use == "call" {
		return phase0.Slot(12345 + k - 1)
	}
	return c16CallSlot(k)
}

// Prepare: what the operator's file holds when call k asks for it.
func (in *c16GraffitiInst) Prepare(k int, sh map[string]string) {
	resolved := strings.NewReplacer("{{VALIDATORINDEX}}", "7", "{{SLOT}}", fmt.Sprintf("%d", in.slot(k))).Replace(in.loc)
	in.md.mu.Lock()
	defer in.md.mu.Unlock()
	delete(in.md.files, resolved)
	delete(in.md.errs, resolved)
	switch sh["file"] {
	case "missing":
	case "error":
		in.md.errs[resolved] = errors.New("permission denied")
	default:
		in.md.files[resolved] = c16GraffitiFile(sh["file"])
	}
	if in.proposer != nil {
		in.proposer.provider.Prepare(sh)
	}
}

func (in *c16GraffitiInst) Invoke(ctx context.Context, k int, sh map[string]string) c16Res {
	if in.use != "call" {
		return in.proposer.propose(ctx, k, sh)
	}
	var last []byte
	for i := 0; i < 8; i++ { // the line is picked at random: several draws
		g, err := in.s.Graffiti(ctx, in.slot(k), 7)
		if err != nil {
			return c16Err(err.Error())
		}
		last = g
		var res [32]byte
		copy(res[:], g)
	}
	if len(last) == 0 {
		return c16Fallback("no graffiti")
	}
	if sh["fallback"] == "present" && string(last) == "fallback graffiti" {
		return c16Fallback("fallback location used")
	}
	return c16OK(fmt.Sprintf("%d bytes", len(last)))
}

func init() {
	c16RegisterInstance("submitclassify", c16NewSubmitInst)
	c16RegisterInstance("graffiti", c16NewGraffitiInst)
}
