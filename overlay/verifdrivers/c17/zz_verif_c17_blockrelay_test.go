package c17

// Group "blockrelay": config fetch || registration round || ProposerConfig || auction on the real
// block relay service.  The configuration source is a scripted confidant store; document v names relay
// "http://relay-<v>.verif/", so the result of every operation (which document it worked from) can be
// read off the relay that was used: Lookup from the proposer configuration returned, Register from the
// fake relay that received the registration of the call's validator, Auction from the proposer
// configuration handed to the builder-bid strategy for the call's validator.  Document 1 is a legacy
// (version 1) document without gas limit and builder settings in its default entry, documents 2 is a
// version 2 document; document 0 is the service's initial empty configuration.

import (
	"context"
	"errors"
	"fmt"
	"strings"
	"sync"

	"github.com/attestantio/go-block-relay/services/blockauctioneer"
	builderclient "github.com/attestantio/go-builder-client"
	builderapi "github.com/attestantio/go-builder-client/api"
	"github.com/attestantio/go-eth2-client/spec/bellatrix"
	"github.com/attestantio/go-eth2-client/spec/phase0"
	"github.com/attestantio/vouch/services/beaconblockproposer"
	"github.com/attestantio/vouch/services/blockrelay"
	standardblockrelay "github.com/attestantio/vouch/services/blockrelay/standard"
	nullmetrics "github.com/attestantio/vouch/services/metrics/null"
	"github.com/attestantio/vouch/util"
	"github.com/attestantio/vouch/verifsupport"
	e2wtypes "github.com/wealdtech/go-eth2-wallet-types/v2"
	"github.com/wealdtech/go-majordomo"
)

const c17Fee = "0x1111111111111111111111111111111111111111"

func c17RelayAddress(v int) string { return fmt.Sprintf("http://relay-%d.verif/", v) }

func c17VersionOfAddress(addr string) int {
	var v int
	if _, err := fmt.Sscanf(addr, "http://relay-%d.verif/", &v); err != nil {
		return -5
	}
	return v
}

func c17Document(v int) string {
	switch v {
	case 1:
		return fmt.Sprintf(`{"default_config":{"fee_recipient":"%s","builder":{"enabled":true,"relays":["%s"]}}}`, c17Fee, c17RelayAddress(1))
	default:
		return fmt.Sprintf(`{"version":2,"fee_recipient":"%s","relays":{"%s":{}}}`, c17Fee, c17RelayAddress(v))
	}
}

// c17ConfigSource is the confidant store behind the config URL.
type c17ConfigSource struct {
	mu  sync.Mutex
	src int
}

func (m *c17ConfigSource) Fetch(_ context.Context, _ string) ([]byte, error) {
	m.mu.Lock()
	src := m.src
	m.mu.Unlock()
	if src < 0 {
		return nil, errors.New("config source unavailable")
	}
	if src == 0 {
		return []byte(`{"version":2}`), nil
	}
	return []byte(c17Document(src)), nil
}

func (*c17ConfigSource) RegisterConfidant(_ context.Context, _ majordomo.Confidant) error { return nil }

// c17Relay is a fake relay client: it records which validators were registered with it.
type c17Relay struct {
	v   int
	mu  sync.Mutex
	got map[int]int // validator number -> registrations received
}

func (r *c17Relay) Name() string            { return "fake relay" }
func (r *c17Relay) Address() string         { return c17RelayAddress(r.v) }
func (*c17Relay) Pubkey() *phase0.BLSPubKey { return nil }
func (r *c17Relay) SubmitValidatorRegistrations(_ context.Context, opts *builderapi.SubmitValidatorRegistrationsOpts) error {
	r.mu.Lock()
	defer r.mu.Unlock()
	for _, reg := range opts.Registrations {
		pk, err := reg.PubKey()
		if err != nil {
			continue
		}
		r.got[c17IndexOfPubkey(pk)]++
	}
	return nil
}

// c17BidStrategy is the builder-bid strategy: it records the proposer configuration of every auction.
type c17BidStrategy struct {
	mu   sync.Mutex
	seen map[int]int // validator number -> document of the relay list it was given
}

func (b *c17BidStrategy) BuilderBid(_ context.Context, _ phase0.Slot, _ phase0.Hash32, pubkey phase0.BLSPubKey,
	pc *beaconblockproposer.ProposerConfig, _ map[phase0.BLSPubKey]*blockrelay.BuilderConfig,
) (*blockauctioneer.Results, error) {
	v := 0
	if len(pc.Relays) > 0 {
		v = c17VersionOfAddress(pc.Relays[0].Address)
	}
	b.mu.Lock()
	b.seen[c17IndexOfPubkey(pubkey)] = v
	b.mu.Unlock()
	return &blockauctioneer.Results{
		Participation: map[string]*blockauctioneer.Participation{},
		AllProviders:  []builderclient.BuilderBidProvider{},
		Providers:     []builderclient.BuilderBidProvider{},
	}, nil
}

type c17BlockRelay struct {
	s      *standardblockrelay.Service
	source *c17ConfigSource
	sched  *verifsupport.Scheduler
	relays map[int]*c17Relay
	bids   *c17BidStrategy
}

func c17NewBlockRelay(ctx context.Context) c17Group {
	g := &c17BlockRelay{source: &c17ConfigSource{}, sched: verifsupport.NewScheduler(), relays: map[int]*c17Relay{},
		bids: &c17BidStrategy{seen: map[int]int{}}}
	for v := 1; v <= 2; v++ {
		g.relays[v] = &c17Relay{v: v, got: map[int]int{}}
		util.VerifSetBuilderClient(c17RelayAddress(v), g.relays[v])
	}
	accounts := &c17ValidatingAccounts{n: 3}
	var fee bellatrix.ExecutionAddress
	fee[0] = 0xfa
	s, err := standardblockrelay.New(ctx,
		standardblockrelay.WithLogLevel(c17LogLevel()),
		standardblockrelay.WithMonitor(nullmetrics.New()),
		standardblockrelay.WithMajordomo(g.source),
		standardblockrelay.WithScheduler(g.sched),
		standardblockrelay.WithListenAddress("127.0.0.1:0"),
		standardblockrelay.WithChainTime(c17ChainTime(100)),
		standardblockrelay.WithConfigURL("file:///execution-config.json"),
		standardblockrelay.WithFallbackFeeRecipient(fee),
		standardblockrelay.WithFallbackGasLimit(30000000),
		standardblockrelay.WithAccountsProvider(accounts),
		standardblockrelay.WithValidatorsProvider(&c17Node{}),
		standardblockrelay.WithValidatingAccountsProvider(accounts),
		standardblockrelay.WithValidatorRegistrationSigner(&c17Signer{}),
		standardblockrelay.WithReleaseVersion("verif"),
		standardblockrelay.WithBuilderBidProvider(g.bids),
		standardblockrelay.WithBuilderConfigs(map[phase0.BLSPubKey]*blockrelay.BuilderConfig{}),
	)
	if err != nil {
		panic("c17 harness: block relay: " + err.Error())
	}
	g.s = s
	return g
}

// Reset: the service is reused (New starts a REST daemon); the prologue of every history sets the
// configuration absolutely (SourceSet ; Fetch), the specification lets the history start from any
// active document.
func (g *c17BlockRelay) Reset(_ context.Context) {
	g.source.mu.Lock()
	g.source.src = 0
	g.source.mu.Unlock()
}

func (g *c17BlockRelay) fire(ctx context.Context, prefix string) {
	for _, name := range g.sched.ListJobs(ctx) {
		if strings.HasPrefix(name, prefix) {
			g.sched.Fire(ctx, name)
			return
		}
	}
	panic("c17 harness: no job " + prefix)
}

// validator used by a call: overlapping calls use different validators so that what the fakes saw can
// be attributed to the call
func c17ValidatorOfCall(id int) uint64 { return uint64(id%3) + 1 }

func (g *c17BlockRelay) Call(ctx context.Context, id int, op c17Op) int {
	val := c17ValidatorOfCall(id)
	switch op.Name() {
	case "SourceSet":
		g.source.mu.Lock()
		g.source.src = op.Int("x")
		g.source.mu.Unlock()
		return 0
	case "Fetch":
		g.fire(ctx, "Fetch execution configuration")
		return 0
	case "Lookup":
		pc, err := g.s.ProposerConfig(ctx, c17Account1(val), c17Pubkey(val))
		if err != nil {
			return -1
		}
		if len(pc.Relays) == 0 {
			return 0
		}
		return c17VersionOfAddress(pc.Relays[0].Address)
	case "Register":
		before := map[int]int{}
		for v, r := range g.relays {
			r.mu.Lock()
			before[v] = r.got[int(val)]
			r.mu.Unlock()
		}
		if err := g.s.SubmitValidatorRegistrations(ctx, map[phase0.ValidatorIndex]e2wtypes.Account{phase0.ValidatorIndex(val): c17Account1(val)}); err != nil {
			return -1
		}
		res := 0
		for v, r := range g.relays {
			r.mu.Lock()
			if r.got[int(val)] > before[v] {
				res = v
			}
			r.mu.Unlock()
		}
		return res
	case "Auction":
		if _, err := g.s.AuctionBlock(ctx, 100, phase0.Hash32{0x01}, c17Pubkey(val)); err != nil {
			return -1
		}
		g.bids.mu.Lock()
		defer g.bids.mu.Unlock()
		v, ok := g.bids.seen[int(val)]
		if !ok {
			return 0 // no relays: the strategy is not consulted
		}
		delete(g.bids.seen, int(val))
		return v
	}
	panic("c17 harness: blockrelay op " + op.Name())
}

func (*c17BlockRelay) Close() {}

func init() {
	c17Groups["blockrelay"] = c17NewBlockRelay
}
