package c17

// Group "wallet": account refresh || ValidatingAccountsForEpoch on the real wallet account manager,
// over a real (filesystem store, non-deterministic) wallet with one account created in a temporary
// directory.  Refresh re-reads the store and unlocks the account with the real key store decryption (the
// key store is created with a reduced key derivation cost).

import (
	"context"
	"os"
	"sync"

	"github.com/attestantio/go-eth2-client/spec/phase0"
	"github.com/attestantio/vouch/mock"
	"github.com/attestantio/vouch/services/accountmanager/wallet"
	nullmetrics "github.com/attestantio/vouch/services/metrics/null"
	standardvalidators "github.com/attestantio/vouch/services/validatorsmanager/standard"
	"github.com/attestantio/vouch/testutil"
	"github.com/attestantio/vouch/util"
	e2types "github.com/wealdtech/go-eth2-types/v2"
	keystorev4 "github.com/wealdtech/go-eth2-wallet-encryptor-keystorev4"
	nd "github.com/wealdtech/go-eth2-wallet-nd/v2"
	filesystem "github.com/wealdtech/go-eth2-wallet-store-filesystem"
	e2wtypes "github.com/wealdtech/go-eth2-wallet-types/v2"
)

type c17Wallet struct {
	s   *wallet.Service
	dir string
}

var c17WalletOnce sync.Once

func c17NewWallet(ctx context.Context) c17Group {
	if err := e2types.InitBLS(); err != nil {
		panic(err)
	}
	dir, err := os.MkdirTemp("", "verif-c17-wallet-")
	if err != nil {
		panic("c17 harness: " + err.Error())
	}
	store := filesystem.New(filesystem.WithLocation(dir))
	// key derivation cost 2^10 instead of 2^18: the same decryption code on every refresh (the parameters are
	// read from the key store), cheap enough for the usual number of repetitions
	w, err := nd.CreateWallet(ctx, "Verif", store, keystorev4.New(keystorev4.WithCost(c17T, 10)))
	if err != nil {
		panic("c17 harness: wallet: " + err.Error())
	}
	if err := w.(e2wtypes.WalletLocker).Unlock(ctx, nil); err != nil {
		panic("c17 harness: wallet unlock: " + err.Error())
	}
	if _, err := w.(e2wtypes.WalletAccountImporter).ImportAccount(ctx, "Validator 1", testutil.HexToBytes(c17PrivKey), []byte("pass")); err != nil {
		panic("c17 harness: account: " + err.Error())
	}
	var pk phase0.BLSPubKey
	sk, _ := e2types.BLSPrivateKeyFromBytes(testutil.HexToBytes(c17PrivKey))
	copy(pk[:], sk.PublicKey().Marshal())

	// the validators manager knows the wallet's validator as index 1, active
	node := &c17WalletNode{pk: pk}
	vm, err := standardvalidators.New(ctx,
		standardvalidators.WithLogLevel(c17LogLevel()),
		standardvalidators.WithMonitor(nullmetrics.New()),
		standardvalidators.WithClientMonitor(nullmetrics.New()),
		standardvalidators.WithValidatorsProvider(node),
		standardvalidators.WithFarFutureEpoch(0xffffffffffffffff),
	)
	if err != nil {
		panic("c17 harness: validators manager: " + err.Error())
	}
	s, err := wallet.New(ctx,
		wallet.WithLogLevel(c17LogLevel()),
		wallet.WithMonitor(nullmetrics.New()),
		wallet.WithProcessConcurrency(2),
		wallet.WithLocations([]string{dir}),
		wallet.WithAccountPaths([]string{"Verif"}),
		wallet.WithPassphrases([][]byte{[]byte("pass")}),
		wallet.WithValidatorsManager(vm),
		wallet.WithSpecProvider(mock.NewSpecProvider()),
		wallet.WithFarFutureEpochProvider(mock.NewFarFutureEpochProvider(0xffffffffffffffff)),
		wallet.WithDomainProvider(mock.NewDomainProvider()),
		wallet.WithCurrentEpochProvider(c17ChainTime(100)),
	)
	if err != nil {
		panic("c17 harness: wallet account manager: " + err.Error())
	}
	return &c17Wallet{s: s, dir: dir}
}

func (*c17Wallet) Reset(_ context.Context) {}

func (w *c17Wallet) Call(ctx context.Context, _ int, op c17Op) int {
	switch op.Name() {
	case "Refresh":
		w.s.Refresh(ctx)
		return 0
	case "Validating":
		accounts, err := w.s.ValidatingAccountsForEpoch(ctx, 3)
		if err != nil {
			return -1
		}
		byIndex, err := w.s.ValidatingAccountsForEpochByIndex(ctx, 3, []phase0.ValidatorIndex{1})
		if err != nil || len(byIndex) != len(accounts) {
			return -2
		}
		// the other readers of the account map: sync committee accounts, look-up by public key (AuctionBlock)
		if sync, err := w.s.SyncCommitteeAccountsForEpoch(ctx, 3); err != nil || len(sync) != len(accounts) {
			return -3
		}
		for _, account := range accounts {
			if _, err := w.s.AccountByPublicKey(ctx, util.ValidatorPubkey(account)); err != nil {
				return -4
			}
		}
		return len(accounts)
	}
	panic("c17 harness: wallet op " + op.Name())
}

func (w *c17Wallet) Close() { os.RemoveAll(w.dir) }

func init() {
	c17Groups["wallet"] = c17NewWallet
}
