package c17

// Groups "exechead" (cache: head events || ExecutionChainHead, which the proposal job asks), "syncagg"
// (sync committee aggregator: the messenger job's SetBeaconBlockRoot || the aggregation job) and "bestvotes"
// (best proposal strategy: head events of several nodes), three pairs of the re-derived table of overlapping
// operations (docs/C17.md).

import (
	"context"
	"errors"
	"sync"
	"time"

	eth2client "github.com/attestantio/go-eth2-client"
	"github.com/attestantio/go-eth2-client/api"
	apiv1 "github.com/attestantio/go-eth2-client/api/v1"
	"github.com/attestantio/go-eth2-client/spec"
	"github.com/attestantio/go-eth2-client/spec/altair"
	"github.com/attestantio/go-eth2-client/spec/deneb"
	"github.com/attestantio/go-eth2-client/spec/phase0"
	"github.com/attestantio/vouch/mock"
	standardcache "github.com/attestantio/vouch/services/cache/standard"
	nullmetrics "github.com/attestantio/vouch/services/metrics/null"
	"github.com/attestantio/vouch/services/synccommitteeaggregator"
	bestproposal "github.com/attestantio/vouch/strategies/beaconblockproposal/best"
	standardsyncaggregator "github.com/attestantio/vouch/services/synccommitteeaggregator/standard"
	"github.com/attestantio/vouch/verifsupport"
	"github.com/prysmaticlabs/go-bitfield"
	e2wtypes "github.com/wealdtech/go-eth2-wallet-types/v2"
)

// ---------------------------------------------------------------------------------------------
// exechead: the block with root {h, 0, ...} has execution block number h and execution block hash {h, ...}

type c17Blocks struct{}

func (*c17Blocks) SignedBeaconBlock(_ context.Context, opts *api.SignedBeaconBlockOpts) (*api.Response[*spec.VersionedSignedBeaconBlock], error) {
	for h := 1; h <= 2; h++ {
		root := phase0.Root{byte(h)}
		if root.String() == opts.Block {
			payload := &deneb.ExecutionPayload{BlockHash: phase0.Hash32{byte(h)}, BlockNumber: uint64(h), StateRoot: phase0.Root{0x55}}
			return &api.Response[*spec.VersionedSignedBeaconBlock]{Data: &spec.VersionedSignedBeaconBlock{Version: spec.DataVersionDeneb,
				Deneb: &deneb.SignedBeaconBlock{Message: &deneb.BeaconBlock{Slot: phase0.Slot(h), Body: &deneb.BeaconBlockBody{ExecutionPayload: payload}}}},
				Metadata: map[string]any{}}, nil
		}
	}
	return nil, errors.New("unknown block") // also "head" at start-up: the history starts without an execution head
}

type c17ExecHead struct {
	s      *standardcache.Service
	events *c17Events
}

func (c *c17ExecHead) Reset(ctx context.Context) {
	c.events = &c17Events{handlers: map[string]eth2client.EventHandlerFunc{}}
	s, err := standardcache.New(ctx,
		standardcache.WithLogLevel(c17LogLevel()),
		standardcache.WithMonitor(nullmetrics.New()),
		standardcache.WithChainTime(c17ChainTime(3)),
		standardcache.WithSignedBeaconBlockProvider(&c17Blocks{}),
		standardcache.WithBeaconBlockHeadersProvider(&c17Headers{}),
		standardcache.WithEventsProvider(c.events),
		standardcache.WithScheduler(verifsupport.NewScheduler()),
	)
	if err != nil {
		panic("c17 harness: cache: " + err.Error())
	}
	c.s = s
}

func (c *c17ExecHead) Call(ctx context.Context, _ int, op c17Op) int {
	switch op.Name() {
	case "HeadEvent":
		h := op.Int("h")
		c.events.handlers["head"](&apiv1.Event{Topic: "head", Data: &apiv1.HeadEvent{Slot: phase0.Slot(h), Block: phase0.Root{byte(h)}}})
		return 0
	case "ExecHead":
		hash, height := c.s.ExecutionChainHead(ctx)
		if hash != (phase0.Hash32{byte(height)}) {
			return c17Torn // hash of one head, height of another
		}
		return int(height)
	}
	panic("c17 harness: exechead op " + op.Name())
}

func (*c17ExecHead) Close() {}

// ---------------------------------------------------------------------------------------------
// syncagg: SetBeaconBlockRoot || Aggregate; the result of Aggregate is the root it asked the contribution for

const c17HeadRoot = 9

type c17Contributions struct {
	mu    sync.Mutex
	asked map[int]int // call id -> first byte of the root
}

func (c *c17Contributions) SyncCommitteeContribution(ctx context.Context, opts *api.SyncCommitteeContributionOpts) (*api.Response[*altair.SyncCommitteeContribution], error) {
	id, _ := ctx.Value(c17CallKey{}).(int)
	c.mu.Lock()
	c.asked[id] = int(opts.BeaconBlockRoot[0])
	c.mu.Unlock()
	return &api.Response[*altair.SyncCommitteeContribution]{Data: &altair.SyncCommitteeContribution{Slot: opts.Slot, BeaconBlockRoot: opts.BeaconBlockRoot,
		SubcommitteeIndex: opts.SubcommitteeIndex, AggregationBits: bitfield.NewBitvector128()}, Metadata: map[string]any{}}, nil
}

type c17HeadRootProvider struct{}

func (*c17HeadRootProvider) BeaconBlockRoot(_ context.Context, _ *api.BeaconBlockRootOpts) (*api.Response[*phase0.Root], error) {
	root := phase0.Root{c17HeadRoot}
	return &api.Response[*phase0.Root]{Data: &root, Metadata: map[string]any{}}, nil
}

type c17ContributionSink struct{}

func (*c17ContributionSink) SubmitSyncCommitteeContributions(_ context.Context, _ []*altair.SignedContributionAndProof) error {
	return nil
}

type c17SyncAgg struct {
	s             *standardsyncaggregator.Service
	contributions *c17Contributions
}

func (a *c17SyncAgg) Reset(ctx context.Context) {
	a.contributions = &c17Contributions{asked: map[int]int{}}
	s, err := standardsyncaggregator.New(ctx,
		standardsyncaggregator.WithLogLevel(c17LogLevel()),
		standardsyncaggregator.WithMonitor(nullmetrics.New()),
		standardsyncaggregator.WithSpecProvider(mock.NewSpecProvider()),
		standardsyncaggregator.WithBeaconBlockRootProvider(&c17HeadRootProvider{}),
		standardsyncaggregator.WithContributionAndProofSigner(&c17Signer{}),
		standardsyncaggregator.WithValidatingAccountsProvider(&c17ValidatingAccounts{n: 2}),
		standardsyncaggregator.WithSyncCommitteeContributionProvider(a.contributions),
		standardsyncaggregator.WithSyncCommitteeContributionsSubmitter(&c17ContributionSink{}),
		standardsyncaggregator.WithChainTime(c17ChainTime(100)),
	)
	if err != nil {
		panic("c17 harness: sync committee aggregator: " + err.Error())
	}
	a.s = s
}

func (a *c17SyncAgg) Call(ctx context.Context, id int, op c17Op) int {
	slot := phase0.Slot(100 + op.Int("s"))
	switch op.Name() {
	case "SetRoot":
		a.s.SetBeaconBlockRoot(slot, phase0.Root{byte(op.Int("r"))})
		return 0
	case "Aggregate":
		a.s.Aggregate(context.WithValue(ctx, c17CallKey{}, id), &synccommitteeaggregator.Duty{
			Slot:             slot,
			ValidatorIndices: []phase0.ValidatorIndex{1},
			SelectionProofs:  map[phase0.ValidatorIndex]map[uint64]phase0.BLSSignature{1: {2: c17Sig()}},
			Accounts:         map[phase0.ValidatorIndex]e2wtypes.Account{1: c17Account1(1)},
		})
		a.contributions.mu.Lock()
		defer a.contributions.mu.Unlock()
		root, ok := a.contributions.asked[id]
		if !ok {
			return -1
		}
		return root
	}
	panic("c17 harness: syncagg op " + op.Name())
}

func (*c17SyncAgg) Close() {}

// ---------------------------------------------------------------------------------------------
// bestvotes: the "best" beacon block proposal strategy keeps the votes of recent blocks, updated by the head
// events of the beacon nodes' streams (one goroutine per event): HandleHeadEvent || HandleHeadEvent

type c17VoteBlocks struct{}

func (*c17VoteBlocks) SignedBeaconBlock(_ context.Context, opts *api.SignedBeaconBlockOpts) (*api.Response[*spec.VersionedSignedBeaconBlock], error) {
	for b := 1; b <= 2; b++ {
		root := phase0.Root{byte(b)}
		if root.String() != opts.Block {
			continue
		}
		bits := bitfield.NewBitlist(8)
		bits.SetBitAt(uint64(b), true)
		att := &phase0.Attestation{AggregationBits: bits, Data: &phase0.AttestationData{Slot: phase0.Slot(95 + b), Index: 1,
			Source: &phase0.Checkpoint{Epoch: 1}, Target: &phase0.Checkpoint{Epoch: 2}}}
		return &api.Response[*spec.VersionedSignedBeaconBlock]{Data: &spec.VersionedSignedBeaconBlock{Version: spec.DataVersionPhase0,
			Phase0: &phase0.SignedBeaconBlock{Message: &phase0.BeaconBlock{Slot: phase0.Slot(96 + b), ParentRoot: phase0.Root{0x77},
				Body: &phase0.BeaconBlockBody{ETH1Data: &phase0.ETH1Data{BlockHash: make([]byte, 32)}, Attestations: []*phase0.Attestation{att}}}}},
			Metadata: map[string]any{}}, nil
	}
	return nil, errors.New("unknown block")
}

type c17SlotCache struct{}

func (*c17SlotCache) BlockRootToSlot(_ context.Context, _ phase0.Root) (phase0.Slot, error) {
	return 96, nil
}

type c17BestVotes struct {
	events *c17Events
}

func (v *c17BestVotes) Reset(ctx context.Context) {
	v.events = &c17Events{handlers: map[string]eth2client.EventHandlerFunc{}}
	_, err := bestproposal.New(ctx,
		bestproposal.WithLogLevel(c17LogLevel()),
		bestproposal.WithTimeout(2*time.Second),
		bestproposal.WithClientMonitor(nullmetrics.New()),
		bestproposal.WithProcessConcurrency(2),
		bestproposal.WithEventsProvider(v.events),
		bestproposal.WithChainTimeService(c17ChainTime(100)),
		bestproposal.WithSpecProvider(mock.NewSpecProvider()),
		bestproposal.WithProposalProviders(map[string]eth2client.ProposalProvider{"node": mock.NewProposalProvider()}),
		bestproposal.WithSignedBeaconBlockProvider(&c17VoteBlocks{}),
		bestproposal.WithBlockRootToSlotCache(&c17SlotCache{}),
	)
	if err != nil {
		panic("c17 harness: best proposal strategy: " + err.Error())
	}
}

func (v *c17BestVotes) Call(_ context.Context, _ int, op c17Op) int {
	b := op.Int("b")
	v.events.handlers["head"](&apiv1.Event{Topic: "head", Data: &apiv1.HeadEvent{Slot: phase0.Slot(96 + b), Block: phase0.Root{byte(b)}}})
	return 0
}

func (*c17BestVotes) Close() {}

func init() {
	c17Groups["bestvotes"] = func(_ context.Context) c17Group { return &c17BestVotes{} }
	c17Groups["exechead"] = func(_ context.Context) c17Group { return &c17ExecHead{} }
	c17Groups["syncagg"] = func(_ context.Context) c17Group { return &c17SyncAgg{} }
}
