package c17

// Group "builderclients" (fifth round: sibling code paths): the process-wide map of relay clients behind the
// shared helper util.FetchBuilderClient (util.builders, lock util.buildersMu).  Every path that talks to a relay
// goes through the helper on a goroutine of its own; the other groups of this driver register FAKE relay clients in
// the map up front (util.VerifSetBuilderClient), so on their instance the helper never creates a client while
// somebody else looks one up.  Here NOTHING is registered: the relays are base paths of one local HTTP server, the
// helper creates the real HTTP client of every relay the first time the relay is used, and every history uses
// addresses that are new to the process.  Wired the way main.go does, on ONE instance per process:
//
//	real block relay service (standard.New: configuration fetched through majordomo, REST daemon, registration
//	rounds with one goroutine per relay)  ->  real builder-bid strategy "best" (the block relay's provider)
//	real builder-bid strategy "deadline" (the sibling implementation; handed the block relay's proposer settings)
//	real go-builder-client HTTP clients, created by util.FetchBuilderClient
//
// and the fakes one layer further out: the relays' HTTP endpoints, the configuration document store, the signer.
//
//	Config(R)   the configuration source names the relays R; the periodic fetch job runs (sequential)
//	Round       SubmitValidatorRegistrations for the call's validator; result = mask of the relays that received it
//	Bid(s)      s = best: REST BuilderBid (immediate auction; even call ids) / AuctionBlock (odd call ids);
//	            s = deadline: ProposerConfig + the deadline strategy, as auctionBlock does;
//	            result = mask of the relays that were asked for a header for the call's slot
//	Fetch(r)    util.FetchBuilderClient for relay r, as the loops of UnblindBlock / ValidatorRegistrations do;
//	            (twice: this request's and the next one's); result 1 = a client, both times the same one, and the
//	            same one as every other Fetch of the history got; -2 another one; -1 error

import (
	"context"
	"encoding/json"
	"fmt"
	"io"
	"net/http"
	"net/http/httptest"
	"strconv"
	"strings"
	"sync"
	"time"

	builderclient "github.com/attestantio/go-builder-client"
	"github.com/attestantio/go-eth2-client/spec/bellatrix"
	"github.com/attestantio/go-eth2-client/spec/phase0"
	"github.com/attestantio/vouch/mock"
	"github.com/attestantio/vouch/services/blockrelay"
	standardblockrelay "github.com/attestantio/vouch/services/blockrelay/standard"
	nullmetrics "github.com/attestantio/vouch/services/metrics/null"
	bestbuilderbid "github.com/attestantio/vouch/strategies/builderbid/best"
	deadlinebuilderbid "github.com/attestantio/vouch/strategies/builderbid/deadline"
	"github.com/attestantio/vouch/util"
	"github.com/attestantio/vouch/verifsupport"
	"github.com/spf13/viper"
	e2wtypes "github.com/wealdtech/go-eth2-wallet-types/v2"
	"github.com/wealdtech/go-majordomo"
)

// c17BCRelays stands for any number of relays: every relay is a base path ("/h<history>r<relay>") of one local HTTP
// server.  Registrations are accepted, header requests answered with "no bid".
type c17BCRelays struct {
	server *httptest.Server
	mu     sync.Mutex
	regs   map[string]map[string]int  // relay key -> public key (hex) -> registrations received
	asked  map[string]map[uint64]bool // relay key -> slots a header was requested for
}

func c17NewBCRelays() *c17BCRelays {
	r := &c17BCRelays{regs: map[string]map[string]int{}, asked: map[string]map[uint64]bool{}}
	r.server = httptest.NewServer(http.HandlerFunc(func(w http.ResponseWriter, req *http.Request) {
		parts := strings.Split(strings.TrimPrefix(req.URL.Path, "/"), "/")
		key := parts[0]
		switch {
		case req.Method == http.MethodPost && strings.HasSuffix(req.URL.Path, "/eth/v1/builder/validators"):
			body, _ := io.ReadAll(req.Body)
			var regs []struct {
				Message struct {
					Pubkey string `json:"pubkey"`
				} `json:"message"`
			}
			_ = json.Unmarshal(body, &regs)
			r.mu.Lock()
			if r.regs[key] == nil {
				r.regs[key] = map[string]int{}
			}
			for _, reg := range regs {
				r.regs[key][strings.ToLower(reg.Message.Pubkey)]++
			}
			r.mu.Unlock()
			w.WriteHeader(http.StatusOK)
		case req.Method == http.MethodGet && strings.Contains(req.URL.Path, "/eth/v1/builder/header/"):
			for i, p := range parts {
				if p == "header" && i+1 < len(parts) {
					if slot, err := strconv.ParseUint(parts[i+1], 10, 64); err == nil {
						r.mu.Lock()
						if r.asked[key] == nil {
							r.asked[key] = map[uint64]bool{}
						}
						r.asked[key][slot] = true
						r.mu.Unlock()
					}
				}
			}
			w.WriteHeader(http.StatusNoContent)
		default:
			w.WriteHeader(http.StatusNotFound)
		}
	}))
	return r
}

func (r *c17BCRelays) forget() {
	r.mu.Lock()
	r.regs = map[string]map[string]int{}
	r.asked = map[string]map[uint64]bool{}
	r.mu.Unlock()
}

// c17BCSource is the document store behind the config URL: a version 2 document naming the current relays.
type c17BCSource struct {
	mu     sync.Mutex
	relays []string
}

func (m *c17BCSource) Fetch(_ context.Context, _ string) ([]byte, error) {
	m.mu.Lock()
	defer m.mu.Unlock()
	entries := make([]string, 0, len(m.relays))
	for _, a := range m.relays {
		entries = append(entries, fmt.Sprintf("%q:{}", a))
	}
	return []byte(fmt.Sprintf(`{"version":2,"fee_recipient":"%s","gas_limit":"30000000","relays":{%s}}`, c17Fee, strings.Join(entries, ","))), nil
}

func (*c17BCSource) RegisterConfidant(_ context.Context, _ majordomo.Confidant) error { return nil }

type c17BuilderClients struct {
	s        *standardblockrelay.Service
	deadline *deadlinebuilderbid.Service
	relays   *c17BCRelays
	source   *c17BCSource
	sched    *verifsupport.Scheduler
	clock    *verifsupport.ChainTime // of the strategies: slots of 100 microseconds from the start of the process
	hist     int

	mu      sync.Mutex
	cfg     []int                            // the relays of the active configuration (set by Config, sequential)
	clients map[string]builderclient.Service // address -> the client the first Fetch of the history got
}

const c17BCSlot = 100 * time.Microsecond

func c17NewBuilderClients(ctx context.Context) c17Group {
	// the relay clients' time-out (util.Timeout) comes from the configuration; set once, before anything runs
	viper.Set("timeout", "10s")
	g := &c17BuilderClients{relays: c17NewBCRelays(), source: &c17BCSource{}, sched: verifsupport.NewScheduler()}
	g.clock = verifsupport.NewChainTime(32, c17BCSlot)
	g.clock.Genesis = time.Now()
	best, err := bestbuilderbid.New(ctx,
		bestbuilderbid.WithLogLevel(c17LogLevel()),
		bestbuilderbid.WithMonitor(nullmetrics.New()),
		bestbuilderbid.WithSpecProvider(mock.NewSpecProvider()),
		bestbuilderbid.WithDomainProvider(mock.NewDomainProvider()),
		bestbuilderbid.WithChainTime(g.clock),
		bestbuilderbid.WithTimeout(5*time.Second),
		bestbuilderbid.WithReleaseVersion("verif"),
	)
	if err != nil {
		panic("c17 harness: best builder bid strategy: " + err.Error())
	}
	g.deadline, err = deadlinebuilderbid.New(ctx,
		deadlinebuilderbid.WithLogLevel(c17LogLevel()),
		deadlinebuilderbid.WithMonitor(nullmetrics.New()),
		deadlinebuilderbid.WithSpecProvider(mock.NewSpecProvider()),
		deadlinebuilderbid.WithDomainProvider(mock.NewDomainProvider()),
		deadlinebuilderbid.WithChainTime(g.clock),
		deadlinebuilderbid.WithDeadline(20*time.Millisecond),
		deadlinebuilderbid.WithBidGap(8*time.Millisecond),
		deadlinebuilderbid.WithReleaseVersion("verif"),
	)
	if err != nil {
		panic("c17 harness: deadline builder bid strategy: " + err.Error())
	}
	accounts := &c17ValidatingAccounts{n: 3}
	var fee bellatrix.ExecutionAddress
	fee[0] = 0xfa
	g.s, err = standardblockrelay.New(ctx,
		standardblockrelay.WithLogLevel(c17LogLevel()),
		standardblockrelay.WithMonitor(nullmetrics.New()),
		standardblockrelay.WithMajordomo(g.source),
		standardblockrelay.WithScheduler(g.sched),
		standardblockrelay.WithListenAddress("127.0.0.1:0"),
		standardblockrelay.WithChainTime(c17ChainTime(100)),
		standardblockrelay.WithConfigURL("file:///execution-config.json"),
		standardblockrelay.WithFallbackFeeRecipient(fee),
		standardblockrelay.WithFallbackGasLimit(30000000),
		standardblockrelay.WithAccountsProvider(accounts),
		standardblockrelay.WithValidatorsProvider(&c17Node{}),
		standardblockrelay.WithValidatingAccountsProvider(accounts),
		standardblockrelay.WithValidatorRegistrationSigner(&c17Signer{}),
		standardblockrelay.WithReleaseVersion("verif"),
		standardblockrelay.WithBuilderBidProvider(best),
		standardblockrelay.WithBuilderConfigs(map[phase0.BLSPubKey]*blockrelay.BuilderConfig{}),
	)
	if err != nil {
		panic("c17 harness: block relay: " + err.Error())
	}
	return g
}

func (g *c17BuilderClients) address(r int) string {
	return fmt.Sprintf("%s/%s", g.relays.server.URL, g.key(r))
}

func (g *c17BuilderClients) key(r int) string { return fmt.Sprintf("h%dr%d", g.hist, r) }

// Reset: the instance is kept (ONE process-wide client map, one block relay); the history works on relays of its
// own, so none of them has a client yet; its prologue sets the configuration absolutely.
func (g *c17BuilderClients) Reset(_ context.Context) {
	g.hist++
	g.relays.forget()
	g.mu.Lock()
	g.cfg = nil
	g.clients = map[string]builderclient.Service{}
	g.mu.Unlock()
}

func (g *c17BuilderClients) fire(ctx context.Context, prefix string) {
	for _, name := range g.sched.ListJobs(ctx) {
		if strings.HasPrefix(name, prefix) {
			g.sched.Fire(ctx, name)
			return
		}
	}
	panic("c17 harness: no job " + prefix)
}

func (g *c17BuilderClients) configured() []int {
	g.mu.Lock()
	defer g.mu.Unlock()
	return append([]int{}, g.cfg...)
}

// slot of a bid request: starts about 5 ms from now (the deadline strategy counts its deadline from there), the
// last digit is the call id (the relays tell the calls' requests apart by the slot)
func (g *c17BuilderClients) slotOf(id int) uint64 {
	n := uint64(time.Since(g.clock.Genesis)/c17BCSlot) + 50
	return n/10*10 + 10 + uint64(id%10)
}

func (g *c17BuilderClients) Call(ctx context.Context, id int, op c17Op) int {
	val := c17ValidatorOfCall(id)
	switch op.Name() {
	case "Config":
		rs := op.Set("x")
		addrs := make([]string, 0, len(rs))
		for _, r := range rs {
			addrs = append(addrs, g.address(r))
		}
		g.source.mu.Lock()
		g.source.relays = addrs
		g.source.mu.Unlock()
		g.fire(ctx, "Fetch execution configuration")
		g.mu.Lock()
		g.cfg = rs
		g.mu.Unlock()
		return 0
	case "Round":
		pk := strings.ToLower(fmt.Sprintf("%#x", c17Pubkey(val)))
		count := func() map[int]int {
			res := map[int]int{}
			g.relays.mu.Lock()
			for r := 1; r <= 3; r++ {
				res[r] = g.relays.regs[g.key(r)][pk]
			}
			g.relays.mu.Unlock()
			return res
		}
		before := count()
		if err := g.s.SubmitValidatorRegistrations(ctx, map[phase0.ValidatorIndex]e2wtypes.Account{phase0.ValidatorIndex(val): c17Account1(val)}); err != nil {
			return -1
		}
		after := count()
		res := 0
		for r := 1; r <= 3; r++ {
			if after[r] > before[r] {
				res += 1 << (r - 1)
			}
		}
		return res
	case "Bid":
		slot := g.slotOf(id)
		parent := phase0.Hash32{0x04, byte(id)}
		strategy, _ := op["s"].(string)
		switch {
		case strategy == "deadline":
			// as auctionBlock does: the proposer's settings from the active configuration, then the strategy
			pc, err := g.s.ProposerConfig(ctx, c17Account1(val), c17Pubkey(val))
			if err != nil {
				return -1
			}
			if len(pc.Relays) > 0 {
				if _, err := g.deadline.BuilderBid(ctx, phase0.Slot(slot), parent, c17Pubkey(val), pc, map[phase0.BLSPubKey]*blockrelay.BuilderConfig{}); err != nil {
					return -1
				}
			}
		case id%2 == 0:
			// a beacon node's REST request for a validator that is not ours: immediate auction
			if _, err := g.s.BuilderBid(ctx, phase0.Slot(slot), parent, phase0.BLSPubKey{0x0b, byte(g.hist), byte(g.hist >> 8), byte(id)}); err != nil {
				return -1
			}
		default:
			// a proposal duty job
			if _, err := g.s.AuctionBlock(ctx, phase0.Slot(slot), parent, c17Pubkey(val)); err != nil {
				return -1
			}
		}
		res := 0
		g.relays.mu.Lock()
		for r := 1; r <= 3; r++ {
			if g.relays.asked[g.key(r)][slot] {
				res += 1 << (r - 1)
			}
		}
		g.relays.mu.Unlock()
		return res
	case "Fetch":
		addr := g.address(op.Int("r"))
		client, err := util.FetchBuilderClient(ctx, addr, nullmetrics.New(), "verif")
		if err != nil || client == nil {
			return -1
		}
		// ... and once more (the loop of the next request): one client per relay
		again, err := util.FetchBuilderClient(ctx, addr, nullmetrics.New(), "verif")
		if err != nil {
			return -1
		}
		if again != client {
			return -2
		}
		g.mu.Lock()
		defer g.mu.Unlock()
		if first, ok := g.clients[addr]; ok && first != client {
			return -2
		}
		g.clients[addr] = client
		return 1
	}
	panic("c17 harness: builderclients op " + op.Name())
}

func (g *c17BuilderClients) Close() { g.relays.server.Close() }

func init() {
	c17Groups["builderclients"] = c17NewBuilderClients
}
