package c17

// c17Signer signs everything with a fixed non-zero signature, one per account handed in (a nil
// account gets the zero signature, as the real signer does for an account it cannot use).

import (
	"context"

	builderapi "github.com/attestantio/go-builder-client/api"
	"github.com/attestantio/go-eth2-client/spec/altair"
	"github.com/attestantio/go-eth2-client/spec/phase0"
	e2wtypes "github.com/wealdtech/go-eth2-wallet-types/v2"
)

type c17Signer struct{}

func c17Sig() phase0.BLSSignature {
	var s phase0.BLSSignature
	s[0], s[95] = 0xa5, 0x5a
	return s
}

func c17Sigs(accounts []e2wtypes.Account) []phase0.BLSSignature {
	res := make([]phase0.BLSSignature, len(accounts))
	for i := range accounts {
		if accounts[i] != nil {
			res[i] = c17Sig()
		}
	}
	return res
}

func (*c17Signer) SignAggregateAndProof(_ context.Context, _ e2wtypes.Account, _ phase0.Slot, _ phase0.Root) (phase0.BLSSignature, error) {
	return c17Sig(), nil
}

func (*c17Signer) SignBeaconAttestation(_ context.Context, _ e2wtypes.Account, _ phase0.Slot, _ phase0.CommitteeIndex, _ phase0.Root, _ phase0.Epoch, _ phase0.Root, _ phase0.Epoch, _ phase0.Root) (phase0.BLSSignature, error) {
	return c17Sig(), nil
}

func (*c17Signer) SignBeaconAttestations(_ context.Context, accounts []e2wtypes.Account, _ phase0.Slot, _ []phase0.CommitteeIndex, _ phase0.Root, _ phase0.Epoch, _ phase0.Root, _ phase0.Epoch, _ phase0.Root) ([]phase0.BLSSignature, error) {
	return c17Sigs(accounts), nil
}

func (*c17Signer) SignBeaconBlockProposal(_ context.Context, _ e2wtypes.Account, _ phase0.Slot, _ phase0.ValidatorIndex, _ phase0.Root, _ phase0.Root, _ phase0.Root) (phase0.BLSSignature, error) {
	return c17Sig(), nil
}

func (*c17Signer) SignRANDAOReveal(_ context.Context, _ e2wtypes.Account, _ phase0.Slot) (phase0.BLSSignature, error) {
	return c17Sig(), nil
}

func (*c17Signer) SignSlotSelections(_ context.Context, accounts []e2wtypes.Account, _ phase0.Slot) ([]phase0.BLSSignature, error) {
	return c17Sigs(accounts), nil
}

func (*c17Signer) SignSlotSelection(_ context.Context, _ e2wtypes.Account, _ phase0.Slot) (phase0.BLSSignature, error) {
	return c17Sig(), nil
}

func (*c17Signer) SignContributionAndProofs(_ context.Context, accounts []e2wtypes.Account, _ []*altair.ContributionAndProof) ([]phase0.BLSSignature, error) {
	return c17Sigs(accounts), nil
}

func (*c17Signer) SignContributionAndProof(_ context.Context, _ e2wtypes.Account, _ *altair.ContributionAndProof) (phase0.BLSSignature, error) {
	return c17Sig(), nil
}

func (*c17Signer) SignSyncCommitteeRoots(_ context.Context, accounts []e2wtypes.Account, _ phase0.Epoch, _ phase0.Root) ([]phase0.BLSSignature, error) {
	return c17Sigs(accounts), nil
}

func (*c17Signer) SignSyncCommitteeRoot(_ context.Context, _ e2wtypes.Account, _ phase0.Epoch, _ phase0.Root) (phase0.BLSSignature, error) {
	return c17Sig(), nil
}

func (*c17Signer) SignSyncCommitteeSelections(_ context.Context, accounts []e2wtypes.Account, _ phase0.Slot, _ []uint64) ([]phase0.BLSSignature, error) {
	return c17Sigs(accounts), nil
}

func (*c17Signer) SignSyncCommitteeSelection(_ context.Context, _ e2wtypes.Account, _ phase0.Slot, _ uint64) (phase0.BLSSignature, error) {
	return c17Sig(), nil
}

func (*c17Signer) SignValidatorRegistration(_ context.Context, _ e2wtypes.Account, _ *builderapi.VersionedValidatorRegistration) (phase0.BLSSignature, error) {
	return c17Sig(), nil
}

func (*c17Signer) SignBlobSidecar(_ context.Context, _ e2wtypes.Account, _ phase0.Slot, _ phase0.Root) (phase0.BLSSignature, error) {
	return c17Sig(), nil
}
