package c17

// Shared fakes of the C17 drivers: accounts with distinct public keys, a validating accounts
// provider, recording submitters.  Every fake that is touched by several goroutines takes its own
// lock: a race report involving harness code would be a defect of the harness, not of Vouch.

import (
	"context"
	"fmt"
	"sync"
	"time"

	"github.com/attestantio/go-eth2-client/spec/altair"
	"github.com/attestantio/go-eth2-client/spec/phase0"
	"github.com/attestantio/vouch/testutil"
	"github.com/attestantio/vouch/verifsupport"
	e2types "github.com/wealdtech/go-eth2-types/v2"
	e2wtypes "github.com/wealdtech/go-eth2-wallet-types/v2"
)

const c17PrivKey = "0x25295f0d1d592a90b333e26e85149708208e9f8e8bc18f6c77bd62f8ad7a6866"

// c17Account is a real (scratch store) account with its name and public key replaced, so that
// several distinct validators exist without paying for a key store encryption each.
type c17Account struct {
	e2wtypes.Account
	name string
	pk   e2types.PublicKey
}

func (a *c17Account) Name() string                 { return a.name }
func (a *c17Account) PublicKey() e2types.PublicKey { return a.pk }

var (
	c17AccountsOnce sync.Once
	c17AccountList  map[uint64]*c17Account
)

func c17Accounts() map[uint64]*c17Account {
	c17AccountsOnce.Do(func() {
		base, err := testutil.CreateTestWalletAndAccounts([]phase0.ValidatorIndex{0}, c17PrivKey)
		if err != nil {
			panic("c17 harness: cannot create the base account: " + err.Error())
		}
		c17AccountList = map[uint64]*c17Account{}
		for i := uint64(1); i <= 3; i++ {
			b := make([]byte, 32)
			b[0], b[31] = 0x01, byte(i)
			sk, err := e2types.BLSPrivateKeyFromBytes(b)
			if err != nil {
				panic("c17 harness: key: " + err.Error())
			}
			c17AccountList[i] = &c17Account{Account: base[0], name: fmt.Sprintf("Validator %d", i), pk: sk.PublicKey()}
		}
	})
	return c17AccountList
}

func c17Account1(i uint64) e2wtypes.Account { return c17Accounts()[i] }

func c17Pubkey(i uint64) phase0.BLSPubKey {
	var pk phase0.BLSPubKey
	copy(pk[:], c17Accounts()[i].PublicKey().Marshal())
	return pk
}

// c17IndexOfPubkey maps a public key back to the validator number (0 = unknown).
func c17IndexOfPubkey(pk phase0.BLSPubKey) int {
	for i := uint64(1); i <= 3; i++ {
		if c17Pubkey(i) == pk {
			return int(i)
		}
	}
	return 0
}

// c17ValidatingAccounts provides the accounts of validators 1..n.
type c17ValidatingAccounts struct{ n uint64 }

func (p *c17ValidatingAccounts) all() map[phase0.ValidatorIndex]e2wtypes.Account {
	res := map[phase0.ValidatorIndex]e2wtypes.Account{}
	for i := uint64(1); i <= p.n; i++ {
		res[phase0.ValidatorIndex(i)] = c17Account1(i)
	}
	return res
}

func (p *c17ValidatingAccounts) ValidatingAccountsForEpoch(_ context.Context, _ phase0.Epoch) (map[phase0.ValidatorIndex]e2wtypes.Account, error) {
	return p.all(), nil
}

func (p *c17ValidatingAccounts) ValidatingAccountsForEpochByIndex(_ context.Context, _ phase0.Epoch, indices []phase0.ValidatorIndex) (map[phase0.ValidatorIndex]e2wtypes.Account, error) {
	res := map[phase0.ValidatorIndex]e2wtypes.Account{}
	for _, i := range indices {
		if uint64(i) >= 1 && uint64(i) <= p.n {
			res[i] = c17Account1(uint64(i))
		}
	}
	return res, nil
}

func (p *c17ValidatingAccounts) SyncCommitteeAccountsForEpoch(ctx context.Context, e phase0.Epoch) (map[phase0.ValidatorIndex]e2wtypes.Account, error) {
	return p.ValidatingAccountsForEpoch(ctx, e)
}

func (p *c17ValidatingAccounts) SyncCommitteeAccountsForEpochByIndex(ctx context.Context, e phase0.Epoch, indices []phase0.ValidatorIndex) (map[phase0.ValidatorIndex]e2wtypes.Account, error) {
	return p.ValidatingAccountsForEpochByIndex(ctx, e, indices)
}

func (p *c17ValidatingAccounts) AccountByPublicKey(_ context.Context, pk phase0.BLSPubKey) (e2wtypes.Account, error) {
	if i := c17IndexOfPubkey(pk); i > 0 {
		return c17Account1(uint64(i)), nil
	}
	return nil, fmt.Errorf("unknown account")
}

// c17Sink accepts every submission.
type c17Sink struct{}

func (*c17Sink) SubmitAttestations(_ context.Context, _ []*phase0.Attestation) error { return nil }
func (*c17Sink) SubmitSyncCommitteeMessages(_ context.Context, _ []*altair.SyncCommitteeMessage) error {
	return nil
}

func c17ChainTime(slot uint64) *verifsupport.ChainTime {
	ct := verifsupport.NewChainTime(32, 12*time.Second)
	ct.SetSlot(slot)
	return ct
}
