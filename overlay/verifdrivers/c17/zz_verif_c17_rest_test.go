package c17

// Groups "registrar", "bids" and "restcfg": the REST (MEV-boost) entry points of the block relay service
// overlapped with the operations production runs on other goroutines.  The REST daemon
// (go-block-relay/services/daemon/rest) decodes a request and calls the service's Go methods with the
// request's context:
//
//	POST /eth/v1/builder/validators                      -> ValidatorRegistrations(ctx, registrations)
//	GET  /eth/v1/builder/header/{slot}/{parent}/{pubkey} -> BuilderBid(ctx, slot, parentHash, pubkey)
//	POST /eth/v1/builder/blinded_blocks                  -> UnblindBlock(ctx, signedBlindedBeaconBlock)
//	GET  /eth/v1/builder/status                          -> (the daemon answers itself: no state of Vouch)
//
// The drivers call the same methods with the same arguments.
//
//	registrar: registration rounds (SubmitValidatorRegistrations, the periodic job) || ValidatorRegistrations.
//	           An abstract validator of the specification is a BLOCK of c17BlockSize accounts that every
//	           operation of the history handles alike, so that a request really overlaps a round (many
//	           accounts per round, many registrations per request); a block of which only a part was
//	           forwarded is the result c17Torn, which no sequential meaning produces.  Every history has
//	           validators of its own (the history number is part of the public keys).
//	bids:      AuctionBlock || BuilderBid on two auction keys of a slot that belongs to the history; the
//	           builder-bid strategy is a fake that returns the bid value the operation names.
//	restcfg:   config fetch || ValidatorRegistrations / BuilderBid / UnblindBlock || AuctionBlock: result = the
//	           configuration document the call worked from (read off the relay that was used).

import (
	"context"
	"encoding/binary"
	"errors"
	"math/big"
	"strings"
	"sync"
	"time"

	"github.com/attestantio/go-block-relay/services/blockauctioneer"
	relaytypes "github.com/attestantio/go-block-relay/types"
	builderclient "github.com/attestantio/go-builder-client"
	builderapi "github.com/attestantio/go-builder-client/api"
	builderdeneb "github.com/attestantio/go-builder-client/api/deneb"
	builderspec "github.com/attestantio/go-builder-client/spec"
	"github.com/attestantio/go-eth2-client/api"
	apiv1 "github.com/attestantio/go-eth2-client/api/v1"
	apiv1deneb "github.com/attestantio/go-eth2-client/api/v1/deneb"
	"github.com/attestantio/go-eth2-client/spec"
	"github.com/attestantio/go-eth2-client/spec/bellatrix"
	"github.com/attestantio/go-eth2-client/spec/deneb"
	"github.com/attestantio/go-eth2-client/spec/phase0"
	"github.com/attestantio/vouch/services/beaconblockproposer"
	"github.com/attestantio/vouch/services/blockrelay"
	standardblockrelay "github.com/attestantio/vouch/services/blockrelay/standard"
	nullmetrics "github.com/attestantio/vouch/services/metrics/null"
	"github.com/attestantio/vouch/util"
	"github.com/attestantio/vouch/verifsupport"
	"github.com/holiman/uint256"
	e2types "github.com/wealdtech/go-eth2-types/v2"
	e2wtypes "github.com/wealdtech/go-eth2-wallet-types/v2"
)

const (
	c17BlockSize = 24 // accounts per abstract validator of group registrar
	c17Torn      = -2 // a block of accounts was handled in part
	c17RestTag   = 0xf0
)

type c17BidKey struct{}

// c17BytesKey is a public key that is nothing but its bytes (Vouch only copies the bytes of the
// accounts' keys in the paths driven here; signing is done by the fake signer).
type c17BytesKey [48]byte

func (k c17BytesKey) Marshal() []byte             { b := make([]byte, 48); copy(b, k[:]); return b }
func (c17BytesKey) Aggregate(_ e2types.PublicKey) {}
func (k c17BytesKey) Copy() e2types.PublicKey     { return k }

// c17BlockPubkey is the public key of account i of block b in history h.
func c17BlockPubkey(h int, b int, i int) phase0.BLSPubKey {
	var pk phase0.BLSPubKey
	pk[0] = 0xb1
	binary.BigEndian.PutUint32(pk[1:5], uint32(h))
	pk[5], pk[6] = byte(b), byte(i)
	return pk
}

func c17BlockOf(pk phase0.BLSPubKey) (int, int) { return int(pk[5]), int(pk[6]) }

func c17BlockAccounts(h int, blocks []int) map[phase0.ValidatorIndex]e2wtypes.Account {
	base := c17Accounts()[1].Account
	res := map[phase0.ValidatorIndex]e2wtypes.Account{}
	for _, b := range blocks {
		for i := 0; i < c17BlockSize; i++ {
			res[phase0.ValidatorIndex(1000*b+i)] = &c17Account{Account: base, name: "Block account", pk: c17BytesKey(c17BlockPubkey(h, b, i))}
		}
	}
	return res
}

// c17RestAccounts is the accounts provider of the block relay: the accounts of the current history; it
// notes which calls (by the call id in the context) asked for the validating accounts.
type c17RestAccounts struct {
	mu  sync.Mutex
	cur map[phase0.ValidatorIndex]e2wtypes.Account
	ran map[int]bool
}

func (p *c17RestAccounts) set(cur map[phase0.ValidatorIndex]e2wtypes.Account) {
	p.mu.Lock()
	p.cur, p.ran = cur, map[int]bool{}
	p.mu.Unlock()
}

func (p *c17RestAccounts) ValidatingAccountsForEpoch(ctx context.Context, _ phase0.Epoch) (map[phase0.ValidatorIndex]e2wtypes.Account, error) {
	p.mu.Lock()
	defer p.mu.Unlock()
	if id, ok := ctx.Value(c17CallKey{}).(int); ok {
		p.ran[id] = true
	}
	res := make(map[phase0.ValidatorIndex]e2wtypes.Account, len(p.cur))
	for k, v := range p.cur {
		res[k] = v
	}
	return res, nil
}

func (p *c17RestAccounts) ValidatingAccountsForEpochByIndex(ctx context.Context, e phase0.Epoch, indices []phase0.ValidatorIndex) (map[phase0.ValidatorIndex]e2wtypes.Account, error) {
	all, _ := p.ValidatingAccountsForEpoch(ctx, e)
	res := map[phase0.ValidatorIndex]e2wtypes.Account{}
	for _, i := range indices {
		if a, ok := all[i]; ok {
			res[i] = a
		}
	}
	return res, nil
}

func (p *c17RestAccounts) SyncCommitteeAccountsForEpoch(ctx context.Context, e phase0.Epoch) (map[phase0.ValidatorIndex]e2wtypes.Account, error) {
	return p.ValidatingAccountsForEpoch(ctx, e)
}

func (p *c17RestAccounts) SyncCommitteeAccountsForEpochByIndex(ctx context.Context, e phase0.Epoch, indices []phase0.ValidatorIndex) (map[phase0.ValidatorIndex]e2wtypes.Account, error) {
	return p.ValidatingAccountsForEpochByIndex(ctx, e, indices)
}

func (p *c17RestAccounts) AccountByPublicKey(_ context.Context, pk phase0.BLSPubKey) (e2wtypes.Account, error) {
	p.mu.Lock()
	defer p.mu.Unlock()
	for _, a := range p.cur {
		if util.ValidatorPubkey(a) == pk {
			return a, nil
		}
	}
	return nil, errors.New("unknown account")
}

// c17RestRelay is a fake relay: it records the registrations it receives - those a REST request forwarded
// (their signature carries the request's call id) apart from those Vouch signed itself - and the calls
// that asked it to unblind a block.
type c17RestRelay struct {
	v       int
	mu      sync.Mutex
	fwd     map[int]map[phase0.BLSPubKey]int
	own     map[phase0.BLSPubKey]int
	unblind map[int]int
}

func (r *c17RestRelay) reset() {
	r.mu.Lock()
	r.fwd, r.own, r.unblind = map[int]map[phase0.BLSPubKey]int{}, map[phase0.BLSPubKey]int{}, map[int]int{}
	r.mu.Unlock()
}

func (r *c17RestRelay) Name() string            { return "fake relay" }
func (r *c17RestRelay) Address() string         { return c17RelayAddress(r.v) }
func (*c17RestRelay) Pubkey() *phase0.BLSPubKey { return nil }

func (r *c17RestRelay) SubmitValidatorRegistrations(_ context.Context, opts *builderapi.SubmitValidatorRegistrationsOpts) error {
	r.mu.Lock()
	defer r.mu.Unlock()
	for _, reg := range opts.Registrations {
		pk, err := reg.PubKey()
		if err != nil || reg.V1 == nil {
			continue
		}
		if reg.V1.Signature[0] == c17RestTag {
			id := int(reg.V1.Signature[1])
			if r.fwd[id] == nil {
				r.fwd[id] = map[phase0.BLSPubKey]int{}
			}
			r.fwd[id][pk]++
		} else {
			r.own[pk]++
		}
	}
	return nil
}

func (r *c17RestRelay) UnblindProposal(ctx context.Context, opts *builderapi.UnblindProposalOpts) (*builderapi.Response[*api.VersionedSignedProposal], error) {
	id, _ := ctx.Value(c17CallKey{}).(int)
	r.mu.Lock()
	r.unblind[id]++
	r.mu.Unlock()
	return &builderapi.Response[*api.VersionedSignedProposal]{
		Data: &api.VersionedSignedProposal{Version: spec.DataVersionDeneb, Deneb: &apiv1deneb.SignedBlockContents{
			SignedBlock: &deneb.SignedBeaconBlock{Message: &deneb.BeaconBlock{Slot: opts.Proposal.Deneb.Message.Slot, ProposerIndex: opts.Proposal.Deneb.Message.ProposerIndex}},
		}},
		Metadata: map[string]any{},
	}, nil
}

// c17RestBids is the builder-bid strategy: the winning bid has the value the operation names (context),
// no winner for value 0; it records the configuration document of the relay list of every call.
type c17RestBids struct {
	mu   sync.Mutex
	seen map[int]int // call id -> document of the relay list
}

func c17Bid(value uint64) *builderspec.VersionedSignedBuilderBid {
	return &builderspec.VersionedSignedBuilderBid{Version: spec.DataVersionDeneb,
		Deneb: &builderdeneb.SignedBuilderBid{Message: &builderdeneb.BuilderBid{Value: uint256.NewInt(value)}}}
}

func c17BidValue(bid *builderspec.VersionedSignedBuilderBid) int {
	if bid == nil {
		return 0
	}
	v, err := bid.Value()
	if err != nil || v == nil {
		return -3
	}
	return int(v.Uint64())
}

func (b *c17RestBids) BuilderBid(ctx context.Context, _ phase0.Slot, _ phase0.Hash32, _ phase0.BLSPubKey,
	pc *beaconblockproposer.ProposerConfig, _ map[phase0.BLSPubKey]*blockrelay.BuilderConfig,
) (*blockauctioneer.Results, error) {
	id, _ := ctx.Value(c17CallKey{}).(int)
	value, _ := ctx.Value(c17BidKey{}).(int)
	doc := 0
	if len(pc.Relays) > 0 {
		doc = c17VersionOfAddress(pc.Relays[0].Address)
	}
	b.mu.Lock()
	b.seen[id] = doc
	b.mu.Unlock()
	res := &blockauctioneer.Results{
		Participation: map[string]*blockauctioneer.Participation{},
		AllProviders:  []builderclient.BuilderBidProvider{},
		Providers:     []builderclient.BuilderBidProvider{},
	}
	if value > 0 {
		res.WinningParticipation = &blockauctioneer.Participation{Category: "Standard", Score: big.NewInt(int64(value)), Bid: c17Bid(uint64(value))}
	}
	return res, nil
}

func (b *c17RestBids) take(id int) int {
	b.mu.Lock()
	defer b.mu.Unlock()
	v, ok := b.seen[id]
	if !ok {
		return 0 // no relays in the proposer configuration: the strategy is not consulted
	}
	delete(b.seen, id)
	return v
}

// c17RestNode knows every validator index it is asked for (UnblindBlock looks the proposer up).
type c17RestNode struct{}

func (*c17RestNode) Validators(_ context.Context, opts *api.ValidatorsOpts) (*api.Response[map[phase0.ValidatorIndex]*apiv1.Validator], error) {
	res := map[phase0.ValidatorIndex]*apiv1.Validator{}
	for _, i := range opts.Indices {
		pk := c17BlockPubkey(0, 8, int(i))
		res[i] = &apiv1.Validator{Index: i, Status: apiv1.ValidatorStateActiveOngoing,
			Validator: &phase0.Validator{PublicKey: pk, ExitEpoch: 0xffffffffffffffff, WithdrawableEpoch: 0xffffffffffffffff}}
	}
	return &api.Response[map[phase0.ValidatorIndex]*apiv1.Validator]{Data: res, Metadata: map[string]any{}}, nil
}

type c17Rest struct {
	group    string
	s        *standardblockrelay.Service
	source   *c17ConfigSource
	sched    *verifsupport.Scheduler
	relays   map[int]*c17RestRelay
	bids     *c17RestBids
	accounts *c17RestAccounts
	hist     int
}

func c17NewRest(group string) func(ctx context.Context) c17Group {
	return func(ctx context.Context) c17Group {
		g := &c17Rest{group: group, source: &c17ConfigSource{}, sched: verifsupport.NewScheduler(), relays: map[int]*c17RestRelay{},
			bids: &c17RestBids{seen: map[int]int{}}, accounts: &c17RestAccounts{}}
		for v := 1; v <= 2; v++ {
			g.relays[v] = &c17RestRelay{v: v}
			g.relays[v].reset()
			util.VerifSetBuilderClient(c17RelayAddress(v), g.relays[v])
		}
		if group != "restcfg" {
			g.source.src = 2 // a version 2 document with relay 2 is active from the start
		}
		initial := map[phase0.ValidatorIndex]e2wtypes.Account{}
		for i := uint64(1); i <= 3; i++ {
			initial[phase0.ValidatorIndex(i)] = c17Account1(i)
		}
		g.accounts.set(initial)
		var fee bellatrix.ExecutionAddress
		fee[0] = 0xfa
		s, err := standardblockrelay.New(ctx,
			standardblockrelay.WithLogLevel(c17LogLevel()),
			standardblockrelay.WithMonitor(nullmetrics.New()),
			standardblockrelay.WithMajordomo(g.source),
			standardblockrelay.WithScheduler(g.sched),
			standardblockrelay.WithListenAddress("127.0.0.1:0"),
			standardblockrelay.WithChainTime(c17ChainTime(100)),
			standardblockrelay.WithConfigURL("file:///execution-config.json"),
			standardblockrelay.WithFallbackFeeRecipient(fee),
			standardblockrelay.WithFallbackGasLimit(30000000),
			standardblockrelay.WithAccountsProvider(g.accounts),
			standardblockrelay.WithValidatorsProvider(&c17RestNode{}),
			standardblockrelay.WithValidatingAccountsProvider(g.accounts),
			standardblockrelay.WithValidatorRegistrationSigner(&c17Signer{}),
			standardblockrelay.WithReleaseVersion("verif"),
			standardblockrelay.WithBuilderBidProvider(g.bids),
			standardblockrelay.WithBuilderConfigs(map[phase0.BLSPubKey]*blockrelay.BuilderConfig{}),
		)
		if err != nil {
			panic("c17 harness: block relay: " + err.Error())
		}
		g.s = s
		// New() starts a registration round of its own on a goroutine: let it finish (it holds the activity
		// semaphore of the periodic job) before the first history
		if group != "restcfg" {
			deadline := time.Now().Add(5 * time.Second)
			for {
				g.relays[2].mu.Lock()
				n := len(g.relays[2].own)
				g.relays[2].mu.Unlock()
				if n >= len(initial) {
					break
				}
				if time.Now().After(deadline) {
					panic("c17 harness: the start-up registration round did not reach the relay")
				}
				time.Sleep(2 * time.Millisecond)
			}
			// ... and has released the semaphore: a job-round fired now runs (instead of skipping)
			for g.group == "registrar" {
				g.fire(context.WithValue(ctx, c17CallKey{}, -1), "Submit validator registrations")
				g.accounts.mu.Lock()
				ran := g.accounts.ran[-1]
				g.accounts.mu.Unlock()
				if ran {
					break
				}
				if time.Now().After(deadline) {
					panic("c17 harness: the start-up registration round does not release the activity semaphore")
				}
				time.Sleep(2 * time.Millisecond)
			}
		}
		return g
	}
}

// Reset: the service is reused (New starts a REST daemon).  Groups registrar and bids work on validators /
// slots that belong to the history; group restcfg sets the configuration absolutely in its prologue.
func (g *c17Rest) Reset(_ context.Context) {
	g.hist++
	for _, r := range g.relays {
		r.reset()
	}
	switch g.group {
	case "registrar":
		g.accounts.set(c17BlockAccounts(g.hist, []int{1, 2}))
	case "restcfg":
		g.source.mu.Lock()
		g.source.src = 0
		g.source.mu.Unlock()
	}
}

func (g *c17Rest) fire(ctx context.Context, prefix string) {
	for _, name := range g.sched.ListJobs(ctx) {
		if strings.HasPrefix(name, prefix) {
			g.sched.Fire(ctx, name)
			return
		}
	}
	panic("c17 harness: no job " + prefix)
}

func c17Registration(pk phase0.BLSPubKey, id int) *relaytypes.SignedValidatorRegistration {
	var sig phase0.BLSSignature
	sig[0], sig[1] = c17RestTag, byte(id)
	var fee bellatrix.ExecutionAddress
	fee[0] = 0xbe
	return &relaytypes.SignedValidatorRegistration{
		Message:   &relaytypes.ValidatorRegistration{FeeRecipient: fee, GasLimit: 30000000, Timestamp: time.Unix(1700000000, 0), Pubkey: pk},
		Signature: sig,
	}
}

// forwarded: what the relays received from REST call id, per block: 1 = all of the block, 0 = none.
func (g *c17Rest) forwarded(id int, blocks []int) int {
	count := map[int]int{}
	for _, r := range g.relays {
		r.mu.Lock()
		for pk := range r.fwd[id] {
			b, _ := c17BlockOf(pk)
			count[b]++
		}
		r.mu.Unlock()
	}
	mask := 0
	for _, b := range blocks {
		switch count[b] {
		case 0:
		case c17BlockSize:
			mask += b
		default:
			return c17Torn
		}
	}
	return mask
}

func (g *c17Rest) blindedBlock(id int) *api.VersionedSignedBlindedBeaconBlock {
	return &api.VersionedSignedBlindedBeaconBlock{Version: spec.DataVersionDeneb, Deneb: &apiv1deneb.SignedBlindedBeaconBlock{
		Message: &apiv1deneb.BlindedBeaconBlock{Slot: phase0.Slot(100), ProposerIndex: phase0.ValidatorIndex(id)},
	}}
}

func (g *c17Rest) Call(ctx context.Context, id int, op c17Op) int {
	ctx = context.WithValue(ctx, c17CallKey{}, id)
	switch g.group + "/" + op.Name() {
	// ---------------------------------------------------------------- registrar
	case "registrar/Round":
		if err := g.s.SubmitValidatorRegistrations(ctx, c17BlockAccounts(g.hist, op.Set("v"))); err != nil {
			return -1
		}
		return 0
	case "registrar/RoundJob":
		g.fire(ctx, "Submit validator registrations")
		g.accounts.mu.Lock()
		defer g.accounts.mu.Unlock()
		if g.accounts.ran[id] {
			return 3
		}
		return 0 // skipped: another job-round holds the activity semaphore
	case "registrar/RestRegs":
		blocks := op.Set("v")
		regs := make([]*relaytypes.SignedValidatorRegistration, 0, len(blocks)*c17BlockSize)
		for i := 0; i < c17BlockSize; i++ {
			for _, b := range blocks {
				regs = append(regs, c17Registration(c17BlockPubkey(g.hist, b, i), id))
			}
		}
		if _, err := g.s.ValidatorRegistrations(ctx, regs); err != nil {
			return -1
		}
		return g.forwarded(id, blocks)
	// ---------------------------------------------------------------- bids
	case "bids/Auction":
		res, err := g.s.AuctionBlock(context.WithValue(ctx, c17BidKey{}, op.Int("b")), phase0.Slot(1000+g.hist), phase0.Hash32{0x01}, c17Pubkey(uint64(op.Int("k"))))
		if err != nil {
			return -1
		}
		if res.WinningParticipation == nil {
			return 0
		}
		return c17BidValue(res.WinningParticipation.Bid)
	case "bids/RestBid":
		bid, err := g.s.BuilderBid(context.WithValue(ctx, c17BidKey{}, op.Int("b")), phase0.Slot(1000+g.hist), phase0.Hash32{0x01}, c17Pubkey(uint64(op.Int("k"))))
		if err != nil {
			return -1
		}
		return c17BidValue(bid)
	// ---------------------------------------------------------------- restcfg
	case "restcfg/SourceSet":
		g.source.mu.Lock()
		g.source.src = op.Int("x")
		g.source.mu.Unlock()
		return 0
	case "restcfg/Fetch":
		g.fire(ctx, "Fetch execution configuration")
		return 0
	case "restcfg/RestRegs":
		// a validator Vouch does not control: the registration is forwarded to the relays of the active document
		if _, err := g.s.ValidatorRegistrations(ctx, []*relaytypes.SignedValidatorRegistration{c17Registration(c17BlockPubkey(g.hist, 9, id), id)}); err != nil {
			return -1
		}
		res := 0
		for v, r := range g.relays {
			r.mu.Lock()
			if len(r.fwd[id]) > 0 {
				res += v
			}
			r.mu.Unlock()
		}
		return res
	case "restcfg/RestBid":
		// no cached bid for this key: an immediate auction with the relays of the active document
		if _, err := g.s.BuilderBid(context.WithValue(ctx, c17BidKey{}, 1), phase0.Slot(16*g.hist+id), phase0.Hash32{0x02}, c17BlockPubkey(g.hist, 9, id)); err != nil {
			return -1
		}
		return g.bids.take(id)
	case "restcfg/RestUnblind":
		if _, err := g.s.UnblindBlock(ctx, g.blindedBlock(id)); err != nil {
			if strings.Contains(err.Error(), "no unblinders obtained") {
				return 0 // the active document names no relays
			}
			return -1
		}
		res := 0
		for v, r := range g.relays {
			r.mu.Lock()
			if r.unblind[id] > 0 {
				res += v
			}
			r.mu.Unlock()
		}
		return res
	case "restcfg/Auction":
		if _, err := g.s.AuctionBlock(context.WithValue(ctx, c17BidKey{}, 1), phase0.Slot(16*g.hist+id), phase0.Hash32{0x03}, c17Pubkey(c17ValidatorOfCall(id))); err != nil {
			return -1
		}
		return g.bids.take(id)
	}
	panic("c17 harness: " + g.group + " op " + op.Name())
}

func (*c17Rest) Close() {}

func init() {
	for _, group := range []string{"registrar", "bids", "restcfg"} {
		c17Groups[group] = c17NewRest(group)
	}
}
