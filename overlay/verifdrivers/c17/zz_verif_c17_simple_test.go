package c17

// Groups "messenger", "cache", "validators" and "attester".

import (
	"context"
	"errors"
	"sync"
	"time"

	eth2client "github.com/attestantio/go-eth2-client"
	"github.com/attestantio/go-eth2-client/api"
	apiv1 "github.com/attestantio/go-eth2-client/api/v1"
	"github.com/attestantio/go-eth2-client/spec/phase0"
	"github.com/attestantio/vouch/mock"
	"github.com/attestantio/vouch/services/attester"
	standardattester "github.com/attestantio/vouch/services/attester/standard"
	standardcache "github.com/attestantio/vouch/services/cache/standard"
	nullmetrics "github.com/attestantio/vouch/services/metrics/null"
	"github.com/attestantio/vouch/services/synccommitteeaggregator"
	"github.com/attestantio/vouch/services/synccommitteemessenger"
	standardsyncmessenger "github.com/attestantio/vouch/services/synccommitteemessenger/standard"
	standardvalidators "github.com/attestantio/vouch/services/validatorsmanager/standard"
	"github.com/attestantio/vouch/verifsupport"
)

// ---------------------------------------------------------------------------------------------
// messenger: Message || GetDataUsedForSlot || RemoveHistoricDataUsedForSlotVerification

type c17Roots struct {
	mu   sync.Mutex
	next map[int]byte // call id -> root byte to serve
}

type c17CallKey struct{}

func (r *c17Roots) BeaconBlockRoot(ctx context.Context, _ *api.BeaconBlockRootOpts) (*api.Response[*phase0.Root], error) {
	id, _ := ctx.Value(c17CallKey{}).(int)
	r.mu.Lock()
	b := r.next[id]
	r.mu.Unlock()
	root := phase0.Root{b}
	return &api.Response[*phase0.Root]{Data: &root, Metadata: map[string]any{}}, nil
}

type c17SyncAggregatorStub struct{}

func (*c17SyncAggregatorStub) SetBeaconBlockRoot(_ phase0.Slot, _ phase0.Root)              {}
func (*c17SyncAggregatorStub) Aggregate(_ context.Context, _ *synccommitteeaggregator.Duty) {}

type c17Messenger struct {
	s     *standardsyncmessenger.Service
	roots *c17Roots
}

func (m *c17Messenger) Reset(ctx context.Context) {
	m.roots = &c17Roots{next: map[int]byte{}}
	s, err := standardsyncmessenger.New(ctx,
		standardsyncmessenger.WithLogLevel(c17LogLevel()),
		standardsyncmessenger.WithProcessConcurrency(2),
		standardsyncmessenger.WithMonitor(nullmetrics.New()),
		standardsyncmessenger.WithChainTimeService(c17ChainTime(100)),
		standardsyncmessenger.WithSyncCommitteeAggregator(&c17SyncAggregatorStub{}),
		standardsyncmessenger.WithSpecProvider(mock.NewSpecProvider()),
		standardsyncmessenger.WithBeaconBlockRootProvider(m.roots),
		standardsyncmessenger.WithSyncCommitteeMessagesSubmitter(&c17Sink{}),
		standardsyncmessenger.WithValidatingAccountsProvider(&c17ValidatingAccounts{n: 2}),
		standardsyncmessenger.WithSyncCommitteeRootSigner(&c17Signer{}),
		standardsyncmessenger.WithSyncCommitteeSelectionSigner(&c17Signer{}),
		standardsyncmessenger.WithSyncCommitteeSubscriptionsSubmitter(mock.NewSyncCommitteeSubscriptionsSubmitter()),
	)
	if err != nil {
		panic("c17 harness: messenger: " + err.Error())
	}
	// more records than the clean-up threshold, all young enough to stay whatever the history records or
	// removes (recording a slot may clear what is older than that slot: youngest first)
	for slot := phase0.Slot(2104); slot >= 2000; slot-- {
		s.UpdateSyncCommitteeDataRecord(slot, phase0.Root{0xee}, map[phase0.ValidatorIndex][]phase0.CommitteeIndex{})
	}
	m.s = s
}

func (m *c17Messenger) Call(ctx context.Context, id int, op c17Op) int {
	switch op.Name() {
	case "Message":
		m.roots.mu.Lock()
		m.roots.next[id] = byte(op.Int("r"))
		m.roots.mu.Unlock()
		duty := synccommitteemessenger.NewDuty(phase0.Slot(op.Int("s")), map[phase0.ValidatorIndex][]phase0.CommitteeIndex{1: {3}})
		duty.SetAccount(1, c17Account1(1))
		if _, err := m.s.Message(context.WithValue(ctx, c17CallKey{}, id), duty); err != nil {
			return -1
		}
		return 0
	case "GetData":
		data, found := m.s.GetDataUsedForSlot(phase0.Slot(op.Int("s")))
		if !found {
			return 0
		}
		return int(data.Root[0])
	case "Remove":
		m.s.RemoveHistoricDataUsedForSlotVerification(phase0.Slot(op.Int("cur")))
		return 0
	}
	panic("c17 harness: messenger op " + op.Name())
}

func (*c17Messenger) Close() {}

// ---------------------------------------------------------------------------------------------
// cache: block events || BlockRootToSlot || clean

type c17Events struct {
	mu       sync.Mutex
	handlers map[string]eth2client.EventHandlerFunc
}

func (e *c17Events) Events(_ context.Context, topics []string, handler eth2client.EventHandlerFunc) error {
	e.mu.Lock()
	defer e.mu.Unlock()
	for _, t := range topics {
		e.handlers[t] = handler
	}
	return nil
}

type c17Headers struct{}

func (*c17Headers) BeaconBlockHeader(_ context.Context, opts *api.BeaconBlockHeaderOpts) (*api.Response[*apiv1.BeaconBlockHeader], error) {
	for r := 1; r <= 2; r++ {
		root := phase0.Root{byte(r)}
		if root.String() == opts.Block {
			return &api.Response[*apiv1.BeaconBlockHeader]{Data: &apiv1.BeaconBlockHeader{Root: root, Canonical: true,
				Header: &phase0.SignedBeaconBlockHeader{Message: &phase0.BeaconBlockHeader{Slot: phase0.Slot(r)}}}, Metadata: map[string]any{}}, nil
		}
	}
	return nil, errors.New("unknown block")
}

type c17Cache struct {
	s      *standardcache.Service
	events *c17Events
	sched  *verifsupport.Scheduler
}

func (c *c17Cache) Reset(ctx context.Context) {
	c.events = &c17Events{handlers: map[string]eth2client.EventHandlerFunc{}}
	c.sched = verifsupport.NewScheduler()
	s, err := standardcache.New(ctx,
		standardcache.WithLogLevel(c17LogLevel()),
		standardcache.WithMonitor(nullmetrics.New()),
		standardcache.WithChainTime(c17ChainTime(3)),
		standardcache.WithSignedBeaconBlockProvider(mock.NewErroringSignedBeaconBlockProvider()),
		standardcache.WithBeaconBlockHeadersProvider(&c17Headers{}),
		standardcache.WithEventsProvider(c.events),
		standardcache.WithScheduler(c.sched),
	)
	if err != nil {
		panic("c17 harness: cache: " + err.Error())
	}
	c.s = s
}

func (c *c17Cache) Call(ctx context.Context, _ int, op c17Op) int {
	switch op.Name() {
	case "BlockEvent":
		r := op.Int("r")
		c.events.handlers["block"](&apiv1.Event{Topic: "block", Data: &apiv1.BlockEvent{Slot: phase0.Slot(r), Block: phase0.Root{byte(r)}}})
		return 0
	case "Lookup":
		slot, err := c.s.BlockRootToSlot(ctx, phase0.Root{byte(op.Int("r"))})
		if err != nil {
			return -1
		}
		return int(slot)
	case "Clean":
		for _, name := range c.sched.ListJobs(ctx) {
			c.sched.Fire(ctx, name)
		}
		return 0
	}
	panic("c17 harness: cache op " + op.Name())
}

func (*c17Cache) Close() {}

// ---------------------------------------------------------------------------------------------
// validators manager: refresh || lookups

type c17Node struct {
	mu  sync.Mutex
	set []int
}

func (n *c17Node) Validators(_ context.Context, _ *api.ValidatorsOpts) (*api.Response[map[phase0.ValidatorIndex]*apiv1.Validator], error) {
	n.mu.Lock()
	set := append([]int{}, n.set...)
	n.mu.Unlock()
	res := map[phase0.ValidatorIndex]*apiv1.Validator{}
	for _, i := range set {
		res[phase0.ValidatorIndex(i)] = &apiv1.Validator{Index: phase0.ValidatorIndex(i), Status: apiv1.ValidatorStateActiveOngoing,
			Validator: &phase0.Validator{PublicKey: c17Pubkey(uint64(i)), ExitEpoch: 0xffffffffffffffff, WithdrawableEpoch: 0xffffffffffffffff}}
	}
	return &api.Response[map[phase0.ValidatorIndex]*apiv1.Validator]{Data: res, Metadata: map[string]any{}}, nil
}

type c17Validators struct {
	s    *standardvalidators.Service
	node *c17Node
}

func (v *c17Validators) Reset(ctx context.Context) {
	v.node = &c17Node{}
	s, err := standardvalidators.New(ctx,
		standardvalidators.WithLogLevel(c17LogLevel()),
		standardvalidators.WithMonitor(nullmetrics.New()),
		standardvalidators.WithClientMonitor(nullmetrics.New()),
		standardvalidators.WithValidatorsProvider(v.node),
		standardvalidators.WithFarFutureEpoch(0xffffffffffffffff),
	)
	if err != nil {
		panic("c17 harness: validators manager: " + err.Error())
	}
	v.s = s
}

func (v *c17Validators) Call(ctx context.Context, _ int, op c17Op) int {
	switch op.Name() {
	case "NodeSet":
		v.node.mu.Lock()
		v.node.set = op.Set("x")
		v.node.mu.Unlock()
		return 0
	case "Refresh":
		if err := v.s.RefreshValidatorsFromBeaconNode(ctx, []phase0.BLSPubKey{c17Pubkey(1), c17Pubkey(2)}); err != nil {
			return -1
		}
		return 0
	case "ByIndex":
		res := v.s.ValidatorsByIndex(ctx, []phase0.ValidatorIndex{1, 2})
		byKey := v.s.ValidatorsByPubKey(ctx, []phase0.BLSPubKey{c17Pubkey(1), c17Pubkey(2)})
		mask := 0
		for i := range res {
			mask += int(i)
		}
		_ = byKey
		// the third reader of the maps (the account managers ask it for every account)
		for i := range res {
			if _, err := v.s.ValidatorStateAtEpoch(ctx, i, 3); err != nil {
				return -1
			}
		}
		return mask
	}
	panic("c17 harness: validators op " + op.Name())
}

func (*c17Validators) Close() {}

// ---------------------------------------------------------------------------------------------
// attester: concurrent Attest

type c17AttData struct{}

func (*c17AttData) AttestationData(_ context.Context, opts *api.AttestationDataOpts) (*api.Response[*phase0.AttestationData], error) {
	time.Sleep(2 * time.Millisecond) // a beacon node takes time: overlapping Attest calls really overlap
	return &api.Response[*phase0.AttestationData]{Data: &phase0.AttestationData{
		Slot: opts.Slot, Index: opts.CommitteeIndex, BeaconBlockRoot: phase0.Root{0xbb},
		Source: &phase0.Checkpoint{Epoch: 1, Root: phase0.Root{0x51}}, Target: &phase0.Checkpoint{Epoch: 2, Root: phase0.Root{0x52}},
	}, Metadata: map[string]any{}}, nil
}

type c17Attester struct {
	s *standardattester.Service
}

func (a *c17Attester) Reset(ctx context.Context) {
	s, err := standardattester.New(ctx,
		standardattester.WithLogLevel(c17LogLevel()),
		standardattester.WithProcessConcurrency(2),
		standardattester.WithMonitor(nullmetrics.New()),
		standardattester.WithChainTime(c17ChainTime(70)),
		standardattester.WithSpecProvider(mock.NewSpecProvider()),
		standardattester.WithAttestationDataProvider(&c17AttData{}),
		standardattester.WithAttestationsSubmitter(&c17Sink{}),
		standardattester.WithValidatingAccountsProvider(&c17ValidatingAccounts{n: 2}),
		standardattester.WithBeaconAttestationsSigner(&c17Signer{}),
	)
	if err != nil {
		panic("c17 harness: attester: " + err.Error())
	}
	a.s = s
}

func (a *c17Attester) Call(ctx context.Context, _ int, op c17Op) int {
	vs := op.Set("v")
	indices := make([]phase0.ValidatorIndex, 0, len(vs))
	committees := make([]phase0.CommitteeIndex, 0, len(vs))
	vcis := make([]uint64, 0, len(vs))
	lengths := map[phase0.CommitteeIndex]uint64{}
	for _, v := range vs {
		// validator v sits alone in committee v: the committee index of an attestation names its validator
		indices = append(indices, phase0.ValidatorIndex(v))
		committees = append(committees, phase0.CommitteeIndex(v))
		vcis = append(vcis, 0)
		lengths[phase0.CommitteeIndex(v)] = 4
	}
	duty, err := attester.NewDuty(ctx, 70, 4, indices, committees, vcis, lengths)
	if err != nil {
		panic("c17 harness: duty: " + err.Error())
	}
	atts, err := a.s.Attest(ctx, duty)
	if err != nil {
		return 0
	}
	mask := 0
	for _, att := range atts {
		mask += int(att.Data.Index)
	}
	return mask
}

func (*c17Attester) Close() {}

func init() {
	c17Groups["messenger"] = func(_ context.Context) c17Group { return &c17Messenger{} }
	c17Groups["cache"] = func(_ context.Context) c17Group { return &c17Cache{} }
	c17Groups["validators"] = func(_ context.Context) c17Group { return &c17Validators{} }
	c17Groups["attester"] = func(_ context.Context) c17Group { return &c17Attester{} }
}

// c17WalletNode is the beacon node of the wallet group: one active validator with the wallet's key.
type c17WalletNode struct{ pk phase0.BLSPubKey }

func (n *c17WalletNode) Validators(_ context.Context, _ *api.ValidatorsOpts) (*api.Response[map[phase0.ValidatorIndex]*apiv1.Validator], error) {
	return &api.Response[map[phase0.ValidatorIndex]*apiv1.Validator]{Data: map[phase0.ValidatorIndex]*apiv1.Validator{
		1: {Index: 1, Status: apiv1.ValidatorStateActiveOngoing, Validator: &phase0.Validator{PublicKey: n.pk, ExitEpoch: 0xffffffffffffffff, WithdrawableEpoch: 0xffffffffffffffff}},
	}, Metadata: map[string]any{}}, nil
}
