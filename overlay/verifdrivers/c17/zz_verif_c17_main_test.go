package c17

// Conformance drivers of property C17 (spec/Concurrency.tla) for the groups whose services can be
// built from outside their packages.  Injected with -overlay by /verif/check, BUILT WITH -race; never
// committed to the repository.  The schedule runner is verifdrivers/c17run.

import (
	"context"
	"testing"

	"github.com/attestantio/vouch/verifdrivers/c17run"
	"github.com/rs/zerolog"
)

type (
	c17Op    = c17run.Op
	c17Group = c17run.Group
)

var c17Groups = map[string]func(ctx context.Context) c17Group{}

func c17LogLevel() zerolog.Level { return c17run.LogLevel() }

// c17T is the running test (the key store encryptor only accepts a reduced cost from a test).
var c17T *testing.T

func TestVerifC17(t *testing.T) {
	c17T = t
	c17run.Run(t, c17Groups)
}
