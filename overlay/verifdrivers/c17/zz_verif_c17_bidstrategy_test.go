package c17

// Group "bidstrategy": the builder-bid strategies ("best", "deadline") remember the parsed public keys of
// the relays whose bids they verified.  AuctionBlock of a proposal job and the immediate auction of a REST
// BuilderBid request run the same strategy at the same time (only REST requests are serialised among
// themselves): Bid || Bid on the real strategies with two fake relays that sign their bids properly.

import (
	"context"
	"errors"
	"sync"
	"time"

	"github.com/attestantio/go-block-relay/services/blockauctioneer"
	builderapi "github.com/attestantio/go-builder-client/api"
	builderdeneb "github.com/attestantio/go-builder-client/api/deneb"
	builderspec "github.com/attestantio/go-builder-client/spec"
	"github.com/attestantio/go-eth2-client/api"
	"github.com/attestantio/go-eth2-client/spec"
	"github.com/attestantio/go-eth2-client/spec/bellatrix"
	"github.com/attestantio/go-eth2-client/spec/deneb"
	"github.com/attestantio/go-eth2-client/spec/phase0"
	"github.com/attestantio/vouch/mock"
	"github.com/attestantio/vouch/services/beaconblockproposer"
	"github.com/attestantio/vouch/services/blockrelay"
	nullmetrics "github.com/attestantio/vouch/services/metrics/null"
	bestbuilderbid "github.com/attestantio/vouch/strategies/builderbid/best"
	deadlinebuilderbid "github.com/attestantio/vouch/strategies/builderbid/deadline"
	"github.com/attestantio/vouch/util"
	"github.com/attestantio/vouch/verifsupport"
	"github.com/holiman/uint256"
	"github.com/shopspring/decimal"
	e2types "github.com/wealdtech/go-eth2-types/v2"
)

func c17BidRelayAddress(i int) string {
	return c17RelayAddress(10 + i)
}

// c17BidClock is the chain time of the current history: slot 100 starts when the history starts (the deadline
// strategy counts its deadline from the start of the slot).
type c17BidClock struct {
	mu sync.Mutex
	ct *verifsupport.ChainTime
}

func (c *c17BidClock) get() *verifsupport.ChainTime {
	c.mu.Lock()
	defer c.mu.Unlock()
	return c.ct
}

type c17BidRelay struct {
	i      int
	sk     *e2types.BLSPrivateKey
	pk     phase0.BLSPubKey
	domain phase0.Domain
	clock  *c17BidClock
}

func (r *c17BidRelay) Name() string              { return "fake bidding relay" }
func (r *c17BidRelay) Address() string           { return c17BidRelayAddress(r.i) }
func (r *c17BidRelay) Pubkey() *phase0.BLSPubKey { pk := r.pk; return &pk }

func (r *c17BidRelay) BuilderBid(_ context.Context, opts *builderapi.BuilderBidOpts) (*builderapi.Response[*builderspec.VersionedSignedBuilderBid], error) {
	bid := &builderspec.VersionedSignedBuilderBid{Version: spec.DataVersionDeneb, Deneb: &builderdeneb.SignedBuilderBid{Message: &builderdeneb.BuilderBid{
		Header: &deneb.ExecutionPayloadHeader{
			ParentHash: opts.ParentHash, FeeRecipient: bellatrix.ExecutionAddress{0x11, 0x22}, StateRoot: phase0.Root{0x51}, BlockNumber: 100,
			GasLimit: 30000000, GasUsed: 21000, Timestamp: uint64(r.clock.get().StartOfSlot(opts.Slot).Unix()), ExtraData: []byte{}, BaseFeePerGas: uint256.NewInt(7),
			BlockHash: phase0.Hash32{0xb1, byte(r.i)}, TransactionsRoot: phase0.Root{0x7a},
		},
		BlobKZGCommitments: []deneb.KZGCommitment{},
		Value:              uint256.NewInt(uint64(5 + r.i)), Pubkey: phase0.BLSPubKey{0xbb, byte(r.i)},
	}}}
	root, err := bid.MessageHashTreeRoot()
	if err != nil {
		panic("c17 harness: bid root: " + err.Error())
	}
	signingRoot, err := (&phase0.SigningData{ObjectRoot: root, Domain: r.domain}).HashTreeRoot()
	if err != nil {
		panic("c17 harness: signing root: " + err.Error())
	}
	copy(bid.Deneb.Signature[:], r.sk.Sign(signingRoot[:]).Marshal())
	return &builderapi.Response[*builderspec.VersionedSignedBuilderBid]{Data: bid, Metadata: map[string]any{}}, nil
}

// UnblindProposal: the strategies only ask relays that can also unblind the block they bid for.
func (*c17BidRelay) UnblindProposal(_ context.Context, _ *builderapi.UnblindProposalOpts) (*builderapi.Response[*api.VersionedSignedProposal], error) {
	return nil, errors.New("not part of this group")
}

type c17Bidder interface {
	BuilderBid(ctx context.Context, slot phase0.Slot, parentHash phase0.Hash32, pubkey phase0.BLSPubKey,
		proposerConfig *beaconblockproposer.ProposerConfig, builderConfigs map[phase0.BLSPubKey]*blockrelay.BuilderConfig,
	) (*blockauctioneer.Results, error)
}

type c17BidStrategies struct {
	once       sync.Once
	clock      c17BidClock
	strategies map[string]c17Bidder
	hist       int
}

func (b *c17BidStrategies) setup(ctx context.Context) {
	if err := e2types.InitBLS(); err != nil {
		panic(err)
	}
	domain, err := mock.NewDomainProvider().GenesisDomain(ctx, phase0.DomainType{0x00, 0x00, 0x00, 0x01})
	if err != nil {
		panic("c17 harness: domain: " + err.Error())
	}
	for i := 1; i <= 2; i++ {
		raw := make([]byte, 32)
		raw[0], raw[31] = 0x02, byte(i)
		sk, err := e2types.BLSPrivateKeyFromBytes(raw)
		if err != nil {
			panic("c17 harness: relay key: " + err.Error())
		}
		r := &c17BidRelay{i: i, sk: sk, domain: domain, clock: &b.clock}
		copy(r.pk[:], sk.PublicKey().Marshal())
		util.VerifSetBuilderClient(r.Address(), r)
	}
}

// Reset: fresh strategies, so that every history starts without remembered relay keys.
func (b *c17BidStrategies) Reset(ctx context.Context) {
	b.once.Do(func() { b.setup(ctx) })
	b.hist++
	ct := c17ChainTime(100)
	ct.Genesis = time.Now().Add(-100 * ct.SlotDuration) // slot 100 starts now
	b.clock.mu.Lock()
	b.clock.ct = ct
	b.clock.mu.Unlock()
	best, err := bestbuilderbid.New(ctx,
		bestbuilderbid.WithLogLevel(c17LogLevel()),
		bestbuilderbid.WithMonitor(nullmetrics.New()),
		bestbuilderbid.WithSpecProvider(mock.NewSpecProvider()),
		bestbuilderbid.WithDomainProvider(mock.NewDomainProvider()),
		bestbuilderbid.WithChainTime(ct),
		bestbuilderbid.WithTimeout(2*time.Second),
		bestbuilderbid.WithReleaseVersion("verif"),
	)
	if err != nil {
		panic("c17 harness: best builder bid strategy: " + err.Error())
	}
	deadline, err := deadlinebuilderbid.New(ctx,
		deadlinebuilderbid.WithLogLevel(c17LogLevel()),
		deadlinebuilderbid.WithMonitor(nullmetrics.New()),
		deadlinebuilderbid.WithSpecProvider(mock.NewSpecProvider()),
		deadlinebuilderbid.WithDomainProvider(mock.NewDomainProvider()),
		deadlinebuilderbid.WithChainTime(ct),
		deadlinebuilderbid.WithDeadline(40*time.Millisecond),
		deadlinebuilderbid.WithBidGap(10*time.Millisecond),
		deadlinebuilderbid.WithReleaseVersion("verif"),
	)
	if err != nil {
		panic("c17 harness: deadline builder bid strategy: " + err.Error())
	}
	b.strategies = map[string]c17Bidder{"best": best, "deadline": deadline}
}

func (b *c17BidStrategies) Call(ctx context.Context, id int, op c17Op) int {
	name, _ := op["s"].(string)
	pc := &beaconblockproposer.ProposerConfig{FeeRecipient: bellatrix.ExecutionAddress{0x11, 0x22}}
	for i := 1; i <= 2; i++ {
		pc.Relays = append(pc.Relays, &beaconblockproposer.RelayConfig{Address: c17BidRelayAddress(i),
			FeeRecipient: bellatrix.ExecutionAddress{0x11, 0x22}, GasLimit: 30000000, MinValue: decimal.Zero})
	}
	res, err := b.strategies[name].BuilderBid(ctx, phase0.Slot(100), phase0.Hash32{byte(id)}, c17Pubkey(1), pc, map[phase0.BLSPubKey]*blockrelay.BuilderConfig{})
	if err != nil {
		return -1
	}
	if res == nil || res.WinningParticipation == nil {
		return 0
	}
	return 1
}

func (*c17BidStrategies) Close() {}

func init() {
	c17Groups["bidstrategy"] = func(_ context.Context) c17Group { return &c17BidStrategies{} }
}
