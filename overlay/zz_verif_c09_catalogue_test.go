package main

// C09 (family catalogue): histories of spec/BuilderCatalogue.tla replayed on the real obtainBuilderConfigs of package
// main.  The configuration is a generated YAML document read by viper (as fetchConfig does); every Build step
// calls the real function and logs the whole catalogue it returned, or its refusal.  Injected with go test -overlay.

import (
	"bytes"
	"context"
	"fmt"
	"math/rand"
	"sort"
	"strings"
	"testing"

	"github.com/attestantio/go-eth2-client/spec/phase0"
	"github.com/attestantio/vouch/verifsupport"
	"github.com/rs/zerolog"
	"github.com/spf13/viper"
)

type c09cStep struct {
	Ev  string `json:"ev"`
	B   string `json:"b"`
	Cat string `json:"cat"`
	Fac string `json:"fac"`
	Off string `json:"off"`
}

type c09cScenario struct {
	Sc    int        `json:"sc"`
	Steps []c09cStep `json:"steps"`
}

var c09cByte = map[string]byte{"b1": 0xa1, "b2": 0xb2, "b3": 0xc3}

func c09cKey(b string) phase0.BLSPubKey {
	var k phase0.BLSPubKey
	for i := range k {
		k[i] = c09cByte[b]
	}
	return k
}

// one spelling of a builder key: with or without 0x, hex digits in either case
func c09cSpell(rnd *rand.Rand, b string) string {
	s := fmt.Sprintf("%x", c09cKey(b))
	if rnd.Intn(2) == 0 {
		s = strings.ToUpper(s)
	}
	if rnd.Intn(3) != 0 {
		s = "0x" + s
	}
	return s
}

func c09cNumber(rnd *rand.Rand, abstract string) string {
	v := map[string]string{"neg": "-5", "bad": "x1"}[abstract]
	if v == "" {
		v = abstract
	}
	if v != "x1" && rnd.Intn(2) == 0 {
		return v // a bare YAML number
	}
	return "'" + v + "'"
}

func TestVerifC09Catalogue(t *testing.T) {
	var scenarios []c09cScenario
	verifsupport.Scenarios(t, &scenarios)
	tr := verifsupport.OpenTrace(t)
	defer tr.Close()
	zerolog.SetGlobalLevel(zerolog.Disabled)
	defer viper.Reset()

	names := map[phase0.BLSPubKey]string{}
	for b := range c09cByte {
		names[c09cKey(b)] = b
	}

	for _, sc := range scenarios {
		rnd := rand.New(rand.NewSource(verifsupport.Seed()*1000003 + int64(sc.Sc)))
		var excl, priv []string
		cfgs := map[string]c09cStep{}
		var order []string
		for _, st := range sc.Steps {
			ev := verifsupport.Ev{"sc": sc.Sc, "ev": st.Ev}
			switch st.Ev {
			case "Reset":
				excl, priv, cfgs, order = nil, nil, map[string]c09cStep{}, nil
			case "Exclude":
				excl = append(excl, st.B)
				ev["b"] = st.B
			case "Privilege":
				priv = append(priv, st.B)
				ev["b"] = st.B
			case "Configure":
				if _, ok := cfgs[st.B]; !ok {
					order = append(order, st.B)
				}
				cfgs[st.B] = st
				ev["b"], ev["cat"], ev["fac"], ev["off"] = st.B, st.Cat, st.Fac, st.Off
			case "Build":
				var doc bytes.Buffer
				doc.WriteString("blockrelay:\n")
				list := func(key string, bs []string) {
					if len(bs) == 0 {
						return
					}
					fmt.Fprintf(&doc, "  %s:\n", key)
					for _, b := range bs {
						fmt.Fprintf(&doc, "    - '%s'\n", c09cSpell(rnd, b))
					}
				}
				list("excluded-builders", excl)
				list("privileged-builders", priv)
				if len(order) > 0 {
					doc.WriteString("  builder-configs:\n")
					for _, b := range order {
						c := cfgs[b]
						if c.Cat == "nil" && c.Fac == "nil" && c.Off == "nil" {
							fmt.Fprintf(&doc, "    '%s': {}\n", c09cSpell(rnd, b))
							continue
						}
						fmt.Fprintf(&doc, "    '%s':\n", c09cSpell(rnd, b))
						if c.Cat != "nil" {
							fmt.Fprintf(&doc, "      %s: %s\n", []string{"category", "Category"}[rnd.Intn(2)], c.Cat)
						}
						if c.Fac != "nil" {
							fmt.Fprintf(&doc, "      %s: %s\n", []string{"factor", "Factor"}[rnd.Intn(2)], c09cNumber(rnd, c.Fac))
						}
						if c.Off != "nil" {
							fmt.Fprintf(&doc, "      offset: %s\n", c09cNumber(rnd, c.Off))
						}
					}
				}
				viper.Reset()
				viper.SetConfigType("yaml")
				if err := viper.ReadConfig(&doc); err != nil {
					t.Fatalf("scenario %d: generated configuration does not parse: %v", sc.Sc, err)
				}
				res, err := obtainBuilderConfigs(context.Background())
				cat := []map[string]string{}
				if err != nil {
					ev["reply"] = "error"
				} else {
					ev["reply"] = "ok"
					for k, e := range res {
						b, ok := names[k]
						if !ok {
							b = "?" + fmt.Sprintf("%x", k[:4])
						}
						row := map[string]string{"b": b, "cat": "nilentry", "fac": "nil", "off": "nil"}
						if e != nil {
							row["cat"] = e.Category
							if e.Factor != nil {
								row["fac"] = e.Factor.String()
							}
							if e.Offset != nil {
								row["off"] = e.Offset.String()
							}
						}
						cat = append(cat, row)
					}
					sort.Slice(cat, func(i, j int) bool { return cat[i]["b"] < cat[j]["b"] })
				}
				ev["catalogue"] = cat
			default:
				t.Fatalf("scenario %d: unknown step %q", sc.Sc, st.Ev)
			}
			tr.Emit(ev)
		}
	}
}
