package strategies

// Conformance driver for property C20 (spec/Unblind.tla, Trace_Unblind.tla), part (b): goroutines the
// `first` strategies start.  Injected with -overlay by /verif/check; nothing of it is committed.
//
// Every scenario is an initial state of Unblind.tla with kind "first" (number of beacon nodes, what each
// does: ok / err / nil / silent).  The driver builds the REAL strategy with New(...) over scripted
// nodes, calls it once, lets the nodes answer one after the other - a node that has the answer gives it
// whatever has happened to the request's context meanwhile - and, after the call has returned, every
// node has answered or seen its request cancelled and a quiescence period has passed, looks at the
// goroutines that are still parked inside the strategy: one parked in a channel send is logged as
// BlockedSender (an event no action of the specification allows).

import (
	"context"
	"errors"
	"fmt"
	"runtime"
	"strings"
	"sync"
	"testing"
	"time"

	eth2client "github.com/attestantio/go-eth2-client"
	"github.com/attestantio/go-eth2-client/api"
	apiv1 "github.com/attestantio/go-eth2-client/api/v1"
	"github.com/attestantio/go-eth2-client/spec"
	"github.com/attestantio/go-eth2-client/spec/altair"
	"github.com/attestantio/go-eth2-client/spec/phase0"
	nullmetrics "github.com/attestantio/vouch/services/metrics/null"
	aggfirst "github.com/attestantio/vouch/strategies/aggregateattestation/first"
	attfirst "github.com/attestantio/vouch/strategies/attestationdata/first"
	headerfirst "github.com/attestantio/vouch/strategies/beaconblockheader/first"
	propfirst "github.com/attestantio/vouch/strategies/beaconblockproposal/first"
	rootfirst "github.com/attestantio/vouch/strategies/beaconblockroot/first"
	blockfirst "github.com/attestantio/vouch/strategies/signedbeaconblock/first"
	contribfirst "github.com/attestantio/vouch/strategies/synccommitteecontribution/first"
	"github.com/attestantio/vouch/verifsupport"
	"github.com/prysmaticlabs/go-bitfield"
	"github.com/rs/zerolog"
)

type c20Scenario struct {
	Sc      int      `json:"sc"`
	Site    string   `json:"site"` // e.g. attestationdata/first
	Kind    string   `json:"kind"`
	N       int      `json:"n"`
	Plan    []string `json:"plan"`
	T       int      `json:"T"`       // strategy time-out, ms
	// Hist: the plans of EARLIER calls made on the same strategy instance before the call of Plan (the instance
	// is long-lived: one scenario = one history of calls on one real instance)
	Hist [][]string `json:"hist"`
	Patient int      `json:"patient"` // 1 on confirmation runs: longer quiescence period
}

// c20Node is one scripted beacon node.
type c20Node struct {
	idx     int
	plan    string
	entered chan struct{} // closed when the request has arrived
	release chan struct{} // closed by the driver: answer now
	done    chan struct{} // closed when the request has been answered
	once    sync.Once
	onReply func(idx int, r string)
}

func c20NewNode(idx int, plan string, onReply func(int, string)) *c20Node {
	return &c20Node{idx: idx, plan: plan, entered: make(chan struct{}), release: make(chan struct{}), done: make(chan struct{}), onReply: onReply}
}

// rescript prepares the node for the next call of the history (the previous request has been answered).
func (n *c20Node) rescript(plan string) {
	n.plan = plan
	n.entered, n.release, n.done = make(chan struct{}), make(chan struct{}), make(chan struct{})
	n.once = sync.Once{}
}

// serve is the body of every provider method: "ok", "err", "nil" or (silent) the context's error.
func (n *c20Node) serve(ctx context.Context) string {
	first := false
	n.once.Do(func() { first = true; close(n.entered) })
	if !first {
		return "err"
	}
	r := n.plan
	if n.plan == "silent" {
		<-ctx.Done()
		r = "err"
	} else {
		<-n.release // a node that has the answer gives it, whatever has happened to the context
	}
	n.onReply(n.idx, r)
	close(n.done)
	return r
}

func c20Answer[T any](n *c20Node, ctx context.Context, data T) (*api.Response[T], error) {
	switch n.serve(ctx) {
	case "ok":
		return &api.Response[T]{Data: data, Metadata: map[string]any{}}, nil
	case "nil":
		var zero T
		return &api.Response[T]{Data: zero, Metadata: map[string]any{}}, nil
	}
	if ctx.Err() != nil {
		return nil, ctx.Err()
	}
	return nil, errors.New("c20: scripted node error")
}

type c20AttP struct{ n *c20Node }

func (p *c20AttP) AttestationData(ctx context.Context, _ *api.AttestationDataOpts) (*api.Response[*phase0.AttestationData], error) {
	return c20Answer(p.n, ctx, &phase0.AttestationData{Slot: 100, Source: &phase0.Checkpoint{Epoch: 2}, Target: &phase0.Checkpoint{Epoch: 3}})
}

type c20AggP struct{ n *c20Node }

func (p *c20AggP) AggregateAttestation(ctx context.Context, _ *api.AggregateAttestationOpts) (*api.Response[*phase0.Attestation], error) {
	return c20Answer(p.n, ctx, &phase0.Attestation{AggregationBits: bitfield.NewBitlist(8),
		Data: &phase0.AttestationData{Slot: 100, Source: &phase0.Checkpoint{Epoch: 2}, Target: &phase0.Checkpoint{Epoch: 3}}})
}

type c20PropP struct{ n *c20Node }

func (p *c20PropP) Proposal(ctx context.Context, _ *api.ProposalOpts) (*api.Response[*api.VersionedProposal], error) {
	return c20Answer(p.n, ctx, &api.VersionedProposal{Version: spec.DataVersionPhase0, Phase0: &phase0.BeaconBlock{Slot: 100}})
}

type c20ContribP struct{ n *c20Node }

func (p *c20ContribP) SyncCommitteeContribution(ctx context.Context, _ *api.SyncCommitteeContributionOpts) (*api.Response[*altair.SyncCommitteeContribution], error) {
	return c20Answer(p.n, ctx, &altair.SyncCommitteeContribution{Slot: 100, AggregationBits: bitfield.NewBitvector128()})
}

type c20RootP struct{ n *c20Node }

func (p *c20RootP) BeaconBlockRoot(ctx context.Context, _ *api.BeaconBlockRootOpts) (*api.Response[*phase0.Root], error) {
	return c20Answer(p.n, ctx, &phase0.Root{0x20})
}

type c20HeaderP struct{ n *c20Node }

func (p *c20HeaderP) BeaconBlockHeader(ctx context.Context, _ *api.BeaconBlockHeaderOpts) (*api.Response[*apiv1.BeaconBlockHeader], error) {
	return c20Answer(p.n, ctx, &apiv1.BeaconBlockHeader{Root: phase0.Root{0x20}, Canonical: true,
		Header: &phase0.SignedBeaconBlockHeader{Message: &phase0.BeaconBlockHeader{Slot: 100}}})
}

type c20BlockP struct{ n *c20Node }

func (p *c20BlockP) SignedBeaconBlock(ctx context.Context, _ *api.SignedBeaconBlockOpts) (*api.Response[*spec.VersionedSignedBeaconBlock], error) {
	return c20Answer(p.n, ctx, &spec.VersionedSignedBeaconBlock{Version: spec.DataVersionPhase0,
		Phase0: &phase0.SignedBeaconBlock{Message: &phase0.BeaconBlock{Slot: 100, Body: &phase0.BeaconBlockBody{ETH1Data: &phase0.ETH1Data{BlockHash: make([]byte, 32)}}}}})
}

func c20Map[P any](nodes []*c20Node, wrap func(*c20Node) P) map[string]P {
	m := make(map[string]P, len(nodes))
	for _, n := range nodes {
		m[fmt.Sprintf("node%d", n.idx)] = wrap(n)
	}
	return m
}

// c20Build constructs the real strategy of the site; the returned function calls it once and says
// whether it returned a result ("ok") or an error ("err").
func c20Build(ctx context.Context, site string, nodes []*c20Node, timeout time.Duration) (func(context.Context) string, error) {
	res := func(err error, nildata bool) string {
		if err != nil {
			return "err"
		}
		if nildata {
			return "nildata"
		}
		return "ok"
	}
	mon := nullmetrics.New()
	switch site {
	case "attestationdata/first":
		s, err := attfirst.New(ctx, attfirst.WithLogLevel(zerolog.Disabled), attfirst.WithClientMonitor(mon), attfirst.WithTimeout(timeout),
			attfirst.WithAttestationDataProviders(c20Map(nodes, func(n *c20Node) eth2client.AttestationDataProvider { return &c20AttP{n} })))
		if err != nil {
			return nil, err
		}
		return func(ctx context.Context) string {
			r, err := s.AttestationData(ctx, &api.AttestationDataOpts{Slot: 100})
			return res(err, err == nil && (r == nil || r.Data == nil))
		}, nil
	case "aggregateattestation/first":
		s, err := aggfirst.New(ctx, aggfirst.WithLogLevel(zerolog.Disabled), aggfirst.WithClientMonitor(mon), aggfirst.WithTimeout(timeout),
			aggfirst.WithAggregateAttestationProviders(c20Map(nodes, func(n *c20Node) eth2client.AggregateAttestationProvider { return &c20AggP{n} })))
		if err != nil {
			return nil, err
		}
		return func(ctx context.Context) string {
			r, err := s.AggregateAttestation(ctx, &api.AggregateAttestationOpts{Slot: 100})
			return res(err, err == nil && (r == nil || r.Data == nil))
		}, nil
	case "beaconblockproposal/first":
		s, err := propfirst.New(ctx, propfirst.WithLogLevel(zerolog.Disabled), propfirst.WithClientMonitor(mon), propfirst.WithTimeout(timeout),
			propfirst.WithProposalProviders(c20Map(nodes, func(n *c20Node) eth2client.ProposalProvider { return &c20PropP{n} })))
		if err != nil {
			return nil, err
		}
		return func(ctx context.Context) string {
			r, err := s.Proposal(ctx, &api.ProposalOpts{Slot: 100})
			return res(err, err == nil && (r == nil || r.Data == nil))
		}, nil
	case "synccommitteecontribution/first":
		s, err := contribfirst.New(ctx, contribfirst.WithLogLevel(zerolog.Disabled), contribfirst.WithClientMonitor(mon), contribfirst.WithTimeout(timeout),
			contribfirst.WithSyncCommitteeContributionProviders(c20Map(nodes, func(n *c20Node) eth2client.SyncCommitteeContributionProvider { return &c20ContribP{n} })))
		if err != nil {
			return nil, err
		}
		return func(ctx context.Context) string {
			r, err := s.SyncCommitteeContribution(ctx, &api.SyncCommitteeContributionOpts{Slot: 100})
			return res(err, err == nil && (r == nil || r.Data == nil))
		}, nil
	case "beaconblockroot/first":
		s, err := rootfirst.New(ctx, rootfirst.WithLogLevel(zerolog.Disabled), rootfirst.WithClientMonitor(mon), rootfirst.WithTimeout(timeout),
			rootfirst.WithBeaconBlockRootProviders(c20Map(nodes, func(n *c20Node) eth2client.BeaconBlockRootProvider { return &c20RootP{n} })))
		if err != nil {
			return nil, err
		}
		return func(ctx context.Context) string {
			r, err := s.BeaconBlockRoot(ctx, &api.BeaconBlockRootOpts{Block: "head"})
			return res(err, err == nil && (r == nil || r.Data == nil))
		}, nil
	case "beaconblockheader/first":
		s, err := headerfirst.New(ctx, headerfirst.WithLogLevel(zerolog.Disabled), headerfirst.WithClientMonitor(mon), headerfirst.WithTimeout(timeout),
			headerfirst.WithBeaconBlockHeadersProviders(c20Map(nodes, func(n *c20Node) eth2client.BeaconBlockHeadersProvider { return &c20HeaderP{n} })))
		if err != nil {
			return nil, err
		}
		return func(ctx context.Context) string {
			r, err := s.BeaconBlockHeader(ctx, &api.BeaconBlockHeaderOpts{Block: "head"})
			return res(err, err == nil && (r == nil || r.Data == nil))
		}, nil
	case "signedbeaconblock/first":
		s, err := blockfirst.New(ctx, blockfirst.WithLogLevel(zerolog.Disabled), blockfirst.WithClientMonitor(mon), blockfirst.WithTimeout(timeout),
			blockfirst.WithSignedBeaconBlockProviders(c20Map(nodes, func(n *c20Node) eth2client.SignedBeaconBlockProvider { return &c20BlockP{n} })))
		if err != nil {
			return nil, err
		}
		return func(ctx context.Context) string {
			r, err := s.SignedBeaconBlock(ctx, &api.SignedBeaconBlockOpts{Block: "head"})
			return res(err, err == nil && (r == nil || r.Data == nil))
		}, nil
	}
	return nil, fmt.Errorf("unknown site %q", site)
}

// c20Parked counts the goroutines that sit inside the site's provider closure: all of them, and
// those parked in a channel send.
func c20Parked(site string) (total int, sending int) {
	buf := make([]byte, 16<<20)
	n := runtime.Stack(buf, true)
	marker := "/strategies/" + site + ".(*Service)."
	for _, g := range strings.Split(string(buf[:n]), "\n\n") {
		if !strings.Contains(g, marker) || !strings.Contains(g, ".func") {
			continue
		}
		total++
		if strings.HasPrefix(g, "goroutine ") && strings.Contains(strings.SplitN(g, "\n", 2)[0], "[chan send") {
			sending++
		}
	}
	return total, sending
}

// c20Settle waits until the number of goroutines parked in the site's closures has not changed for
// the quiescence period and returns the counts.
func c20Settle(site string, quiet time.Duration) (int, int) {
	total, sending := c20Parked(site)
	since := time.Now()
	deadline := time.Now().Add(20 * quiet)
	for time.Since(since) < quiet && time.Now().Before(deadline) {
		time.Sleep(quiet / 8)
		t, s := c20Parked(site)
		if t != total || s != sending {
			total, sending, since = t, s, time.Now()
		}
	}
	return total, sending
}

func c20RunCall(emit func(verifsupport.Ev), sc *c20Scenario) error {
	ctx, cancel := context.WithCancel(context.Background())
	defer cancel()
	quiet := 60 * time.Millisecond
	if sc.Patient > 0 {
		quiet = 500 * time.Millisecond
	}
	var mu sync.Mutex
	ev := func(e verifsupport.Ev) {
		mu.Lock()
		defer mu.Unlock()
		e["sc"] = sc.Sc
		emit(e)
	}
	nodes := make([]*c20Node, sc.N)
	for i := range nodes {
		nodes[i] = c20NewNode(i+1, sc.Plan[i], func(idx int, r string) { ev(verifsupport.Ev{"ev": "Reply", "p": idx, "r": r}) })
	}
	// ONE real strategy instance for the whole history
	call, err := c20Build(ctx, sc.Site, nodes, time.Duration(sc.T)*time.Millisecond)
	if err != nil {
		return fmt.Errorf("c20: %s: %w", sc.Site, err)
	}
	plans := append(append([][]string{}, sc.Hist...), sc.Plan)
	for ci, plan := range plans {
		if len(plan) != sc.N {
			return fmt.Errorf("c20: %s: scenario %d: call %d has %d plans for %d nodes", sc.Site, sc.Sc, ci+1, len(plan), sc.N)
		}
		for i, n := range nodes {
			n.rescript(plan[i])
		}
		if err := c20OneCall(ctx, ev, sc, call, nodes, plan, ci+1, quiet); err != nil {
			return err
		}
	}
	return nil
}

// c20OneCall makes one call of the history on the instance and judges what it leaves behind.
func c20OneCall(ctx context.Context, ev func(verifsupport.Ev), sc *c20Scenario, call func(context.Context) string, nodes []*c20Node,
	plan []string, number int, quiet time.Duration,
) error {
	_, before := c20Settle(sc.Site, quiet/2)
	ev(verifsupport.Ev{"ev": "Call", "site": sc.Site, "kind": "first", "n": sc.N, "deadline": true, "plan": plan, "call": number})
	ret := make(chan string, 1)
	go func() { ret <- call(ctx) }()
	// Every request is with its node before the first answer is given.
	for _, n := range nodes {
		select {
		case <-n.entered:
		case <-time.After(20 * time.Second):
			return fmt.Errorf("c20: %s: request does not reach node %d", sc.Site, n.idx)
		}
	}
	for _, n := range nodes {
		if n.plan == "silent" {
			continue
		}
		close(n.release)
		<-n.done
		time.Sleep(2 * time.Millisecond) // let the strategy's goroutine take the answer to the channel
	}
	var res string
	select {
	case res = <-ret:
	case <-time.After(time.Duration(sc.T)*time.Millisecond + 20*time.Second):
		return fmt.Errorf("c20: %s: the call does not return", sc.Site)
	}
	ev(verifsupport.Ev{"ev": "Return", "res": res})
	// Silent nodes see their request cancelled when the strategy returns.
	for _, n := range nodes {
		select {
		case <-n.done:
		case <-time.After(20 * time.Second):
			return fmt.Errorf("c20: %s: node %d's request was never cancelled", sc.Site, n.idx)
		}
	}
	total, sending := c20Settle(sc.Site, quiet)
	if sending > before {
		ev(verifsupport.Ev{"ev": "BlockedSender", "site": sc.Site, "count": sending - before, "parked": total})
	} else {
		ev(verifsupport.Ev{"ev": "Quiet", "left": total - before})
	}
	return nil
}

func TestVerifC20Strategies(t *testing.T) {
	var scenarios []c20Scenario
	verifsupport.Scenarios(t, &scenarios)
	tr := verifsupport.OpenTrace(t)
	defer tr.Close()
	// One worker per site: blocked goroutines are told apart by the site's frames; the calls of one
	// site run one after the other.  The events of a call are written together.
	bySite := map[string][]*c20Scenario{}
	for i := range scenarios {
		bySite[scenarios[i].Site] = append(bySite[scenarios[i].Site], &scenarios[i])
	}
	var wg sync.WaitGroup
	var out sync.Mutex
	for _, list := range bySite {
		wg.Add(1)
		go func(list []*c20Scenario) {
			defer wg.Done()
			for _, sc := range list {
				var evs []verifsupport.Ev
				if err := c20RunCall(func(e verifsupport.Ev) { evs = append(evs, e) }, sc); err != nil {
					t.Errorf("%v", err) // a broken run (exit 2), never a verdict
					return
				}
				out.Lock()
				for _, e := range evs {
					tr.Emit(e)
				}
				out.Unlock()
			}
		}(list)
	}
	wg.Wait()
}
