// The WIRED family of the C07 driver (spec/CollectorLookup.tla, spec/Trace_CollectorLookup.tla): the four
// strategies that consult the block-root cache - attestationdata/best, beaconblockroot/latest (in the provider
// goroutine, before the response is handed over), attestationdata/majority, beaconblockroot/majority (in the
// collector, after the loops) - are constructed over the REAL cache service (services/cache/standard, built as
// main.go's startCache does) whose header provider is the REAL beaconblockheader 'first' strategy over
// scripted header nodes (main.go's default; "direct": the node client itself, main.go's other branch).  The
// fakes sit one layer further out: beacon nodes that answer the data request, and beacon nodes that answer
// (or do not answer) the header request of a root - per root of a call: at once (ok0), 0.5 T later (ok1),
// with an error (fail; direct wiring only: 'first' turns a failing node into silence), never.  The cache is
// told the roots the scenario marks `pre` beforehand, through SetBlockRootToSlot (what the block event does).
// ONE wired instance (header nodes, header strategy, cache, strategy) per history.
package strategies

import (
	"context"
	"encoding/hex"
	"errors"
	"fmt"
	"strings"
	"sync"
	"time"

	eth2client "github.com/attestantio/go-eth2-client"
	"github.com/attestantio/go-eth2-client/api"
	apiv1 "github.com/attestantio/go-eth2-client/api/v1"
	"github.com/attestantio/go-eth2-client/spec/phase0"
	"github.com/attestantio/vouch/mock"
	standardcache "github.com/attestantio/vouch/services/cache/standard"
	nullmetrics "github.com/attestantio/vouch/services/metrics/null"
	attbest "github.com/attestantio/vouch/strategies/attestationdata/best"
	attmajority "github.com/attestantio/vouch/strategies/attestationdata/majority"
	headerfirst "github.com/attestantio/vouch/strategies/beaconblockheader/first"
	rootlatest "github.com/attestantio/vouch/strategies/beaconblockroot/latest"
	rootmajority "github.com/attestantio/vouch/strategies/beaconblockroot/majority"
	"github.com/attestantio/vouch/verifsupport"
	"github.com/rs/zerolog"
)

// c07HdrReq is one header request as a header node saw it.
type c07HdrReq struct {
	root       phase0.Root
	node       int
	start, end time.Time
	ok         bool
}

// c07World is the part of a wired instance behind the strategy: header nodes, header strategy, cache.
type c07World struct {
	h     *c07Hist
	calls []c07Call
	T     time.Duration
	cache *standardcache.Service

	mu   sync.Mutex
	reqs []c07HdrReq
	// per call and node: the head root the node reports (valid responses only)
	roots [][]*phase0.Root
}

// c07SlotOfRoot is what the chain says: the slot of the block is written in the root (as c07Cache reads it).
func c07SlotOfRoot(root phase0.Root) phase0.Slot {
	return phase0.Slot(300 + 32*int(root[2]) + int(root[1]))
}

// class and call of a root: byte 0 is the root class of the scenario (1..), byte 3 the call (1-based)
func (w *c07World) script(root phase0.Root) (kind string, pre bool, known bool) {
	j, r := int(root[3])-1, int(root[0])
	if j < 0 || j >= len(w.calls) || r < 1 || r > len(w.calls[j].Hdr) {
		return "", false, false
	}
	return w.calls[j].Hdr[r-1], w.calls[j].Pre[r-1], true
}

// c07HdrNode is a beacon node asked for a block header.
type c07HdrNode struct {
	w    *c07World
	node int
}

func (hn *c07HdrNode) BeaconBlockHeader(ctx context.Context, opts *api.BeaconBlockHeaderOpts) (*api.Response[*apiv1.BeaconBlockHeader], error) {
	w := hn.w
	start := time.Now()
	var root phase0.Root
	b, err := hex.DecodeString(strings.TrimPrefix(opts.Block, "0x"))
	if err != nil || len(b) != 32 {
		return nil, fmt.Errorf("c07: header requested for %q", opts.Block)
	}
	copy(root[:], b)
	kind, _, known := w.script(root)
	if !known {
		return nil, errors.New("c07: header requested for an unknown root")
	}
	done := func(ok bool) {
		w.mu.Lock()
		w.reqs = append(w.reqs, c07HdrReq{root: root, node: hn.node, start: start, end: time.Now(), ok: ok})
		w.mu.Unlock()
	}
	var wait time.Duration
	switch kind {
	case "ok0":
		wait = time.Duration(2*hn.node) * time.Millisecond
	case "ok1":
		wait = w.T/2 + time.Duration(3*hn.node)*time.Millisecond
	case "fail":
		done(false)
		return nil, errors.New("c07: scripted header failure")
	default: // never
		<-ctx.Done()
		done(false)
		return nil, ctx.Err()
	}
	// (a node client gives up when the request's context ends)
	select {
	case <-ctx.Done():
		done(false)
		return nil, ctx.Err()
	case <-time.After(wait):
	}
	done(true)
	return &api.Response[*apiv1.BeaconBlockHeader]{
		Data: &apiv1.BeaconBlockHeader{
			Root:      root,
			Canonical: true,
			Header:    &phase0.SignedBeaconBlockHeader{Message: &phase0.BeaconBlockHeader{Slot: c07SlotOfRoot(root)}},
		},
		Metadata: map[string]any{},
	}, nil
}

// c07TwinCache answers what an ideal cache would: used by a twin strategy instance to compute the score the real
// score function gives a response when its lookup succeeds / fails.
type c07TwinCache struct{ fail bool }

func (c c07TwinCache) BlockRootToSlot(_ context.Context, root phase0.Root) (phase0.Slot, error) {
	if c.fail {
		return 0, errors.New("c07: lookup failed")
	}
	return c07SlotOfRoot(root), nil
}

func c07NewWorld(ctx context.Context, h *c07Hist, calls []c07Call) (*c07World, error) {
	sc := h.sc
	w := &c07World{h: h, calls: calls, T: time.Duration(sc.T) * time.Millisecond, roots: make([][]*phase0.Root, len(calls))}
	for j := range calls {
		if len(calls[j].Hdr) == 0 || len(calls[j].Hdr) != len(calls[j].Pre) {
			return nil, fmt.Errorf("scenario %d call %d: no header script", sc.Sc, j+1)
		}
		w.roots[j] = make([]*phase0.Root, sc.N)
	}
	var headers eth2client.BeaconBlockHeadersProvider
	if sc.Wired == "direct" {
		// main.go, strategies.beaconblockheader.style other than "first": the client itself
		headers = &c07HdrNode{w: w, node: 1}
	} else {
		nodes := map[string]eth2client.BeaconBlockHeadersProvider{}
		for i := 1; i <= 2; i++ {
			nodes[c07Name(i)] = &c07HdrNode{w: w, node: i}
		}
		// main.go selectBeaconHeaderProvider: every strategy's time-out is the global one unless configured
		s, err := headerfirst.New(ctx, headerfirst.WithLogLevel(zerolog.Disabled), headerfirst.WithClientMonitor(nullmetrics.New()),
			headerfirst.WithTimeout(w.T), headerfirst.WithBeaconBlockHeadersProviders(nodes))
		if err != nil {
			return nil, err
		}
		headers = s
	}
	ct := verifsupport.NewChainTime(32, 12*time.Second)
	ct.SetSlot(c07Slot)
	// main.go startCache
	cache, err := standardcache.New(ctx,
		standardcache.WithLogLevel(zerolog.Disabled),
		standardcache.WithMonitor(nullmetrics.New()),
		standardcache.WithScheduler(verifsupport.NewScheduler()),
		standardcache.WithChainTime(ct),
		standardcache.WithEventsProvider(mock.NewEventsProvider()),
		standardcache.WithSignedBeaconBlockProvider(mock.NewSignedBeaconBlockProvider()),
		standardcache.WithBeaconBlockHeadersProvider(headers),
	)
	if err != nil {
		return nil, err
	}
	w.cache = cache
	return w, nil
}

// preload tells the cache the roots of call j that the scenario marks as known (the block event arrived).
func (w *c07World) preload(j int) {
	for _, root := range w.roots[j] {
		if root == nil {
			continue
		}
		if _, pre, known := w.script(*root); known && pre {
			w.cache.SetBlockRootToSlot(*root, c07SlotOfRoot(*root))
		}
	}
}

// c07WiredRoot is the head root of class r reported in call c.call: byte 0 the class, byte 1 the slot offset,
// byte 2 the epoch offset of the call's slot, byte 3 the call, byte 31 a tag (0: shared by the nodes).
func c07WiredRoot(r, slotOff, tag int, c *c07Core, sc *c07Scenario) phase0.Root {
	root := c07Root(r, slotOff, tag)
	root[30] = 0xc8
	root[2] = byte(sc.epochOff(c.call))
	root[3] = byte(c.call + 1)
	return root
}

// c07WiredAtt: attestation data of node c.idx in call c.call.  The head is the root of class R (its block is R
// slots behind); the score classes are realised by the source epoch (best) - the head bonus comes on top when the
// lookup succeeds.  For the majority strategy the value is the head root alone.
func c07WiredAtt(c *c07Core, sc *c07Scenario, majority bool) *phase0.AttestationData {
	p := c.script
	if p.K == "invalid" && p.Inv == "nil" {
		return nil
	}
	epoch := c07Epoch + sc.epochOff(c.call)
	r := p.R
	if r == 0 {
		r = 1
	}
	source, tag := epoch-3+p.S, c.idx
	if majority {
		source, tag = epoch-1, 0
	}
	d := &phase0.AttestationData{
		Slot:            sc.slot(c.call),
		Index:           phase0.CommitteeIndex(tag),
		BeaconBlockRoot: c07WiredRoot(r, 25-r, 0, c, sc),
		Source:          &phase0.Checkpoint{Epoch: phase0.Epoch(source), Root: c07Root(0, 0, 0)},
		Target:          &phase0.Checkpoint{Epoch: phase0.Epoch(epoch), Root: c07Root(0, 1, 0)},
	}
	if p.K == "invalid" {
		switch p.Inv {
		case "niltarget":
			d.Target = nil
		case "badtarget":
			d.Target.Epoch = phase0.Epoch(epoch - 1)
		}
	}
	return d
}

// c07WiredRootData: the root node c.idx reports in call c.call.  latest: each node its own root (the tag tells
// whose), the block's slot grows with the score class; majority: the root of class V = R, shared.
func c07WiredRootData(c *c07Core, sc *c07Scenario, counting bool) *phase0.Root {
	p := c.script
	if p.K != "valid" {
		return nil
	}
	r := p.R
	if r == 0 {
		r = 1
	}
	var root phase0.Root
	if counting {
		root = c07WiredRoot(r, 20+r, 0, c, sc)
	} else {
		root = c07WiredRoot(r, 5+10*p.S+r, c.idx, c, sc)
	}
	return &root
}

// c07WiredKit builds the wired instance of a history: world (header nodes, header strategy, real cache) and the
// real strategy over it; scores[node][call] is the real score with a successful lookup, h.failScores the score
// the real score function gives when the lookup fails (both from a twin instance with an ideal cache).
func c07WiredKit(strat string) c07Kit {
	return func(ctx context.Context, h *c07Hist, _ int) (func(context.Context, int) c07Out, [][]int, error) {
		sc := h.sc
		calls := sc.Calls
		w, err := c07NewWorld(ctx, h, calls)
		if err != nil {
			return nil, nil, err
		}
		h.world = w
		timeout := w.T
		ct := verifsupport.NewChainTime(32, 12*time.Second)
		ct.SetSlot(c07Slot)
		switch strat {
		case "attestationdata/best", "attestationdata/majority":
			majority := strat == "attestationdata/majority"
			provs, ds := c07Providers(h,
				func(c *c07Core) *phase0.AttestationData { return c07WiredAtt(c, sc, majority) },
				func(f *c07Fake[*phase0.AttestationData]) eth2client.AttestationDataProvider { return &c07AttP{f} })
			for i := range ds {
				for j := range ds[i] {
					if d := ds[i][j]; d != nil && h.cores[j][i].script.K == "valid" {
						root := d.BeaconBlockRoot
						w.roots[j][i] = &root
					}
				}
			}
			opts := func(j int) *api.AttestationDataOpts { return &api.AttestationDataOpts{Slot: sc.slot(j), CommitteeIndex: 0} }
			if majority {
				s, err := attmajority.New(ctx, attmajority.WithLogLevel(zerolog.Disabled), attmajority.WithClientMonitor(nullmetrics.New()),
					attmajority.WithTimeout(timeout), attmajority.WithAttestationDataProviders(provs), attmajority.WithChainTime(ct),
					attmajority.WithBlockRootToSlotCache(w.cache), attmajority.WithProcessConcurrency(sc.pc()), attmajority.WithThreshold(sc.Thr))
				if err != nil {
					return nil, nil, err
				}
				h.failScores = c07Scores(h, ds, nil)
				return func(ctx context.Context, j int) c07Out { return c07AttOut(s.AttestationData(ctx, opts(j))) }, c07Scores(h, ds, nil), nil
			}
			s, err := attbest.New(ctx, attbest.WithLogLevel(zerolog.Disabled), attbest.WithClientMonitor(nullmetrics.New()),
				attbest.WithTimeout(timeout), attbest.WithAttestationDataProviders(provs), attbest.WithChainTime(ct),
				attbest.WithBlockRootToSlotCache(w.cache), attbest.WithProcessConcurrency(sc.pc()))
			if err != nil {
				return nil, nil, err
			}
			twin := func(fail bool) ([][]int, error) {
				t, err := attbest.New(ctx, attbest.WithLogLevel(zerolog.Disabled), attbest.WithClientMonitor(nullmetrics.New()),
					attbest.WithTimeout(timeout), attbest.WithAttestationDataProviders(provs), attbest.WithChainTime(ct),
					attbest.WithBlockRootToSlotCache(c07TwinCache{fail: fail}), attbest.WithProcessConcurrency(sc.pc()))
				if err != nil {
					return nil, err
				}
				return c07Scores(h, ds, func(name string, d *phase0.AttestationData) float64 { return t.VerifC07Score(ctx, name, d) }), nil
			}
			scores, err := twin(false)
			if err != nil {
				return nil, nil, err
			}
			if h.failScores, err = twin(true); err != nil {
				return nil, nil, err
			}
			return func(ctx context.Context, j int) c07Out { return c07AttOut(s.AttestationData(ctx, opts(j))) }, scores, nil
		case "beaconblockroot/latest", "beaconblockroot/majority":
			counting := strat == "beaconblockroot/majority"
			provs, ds := c07Providers(h,
				func(c *c07Core) *phase0.Root { return c07WiredRootData(c, sc, counting) },
				func(f *c07Fake[*phase0.Root]) eth2client.BeaconBlockRootProvider { return &c07RootP{f} })
			for i := range ds {
				for j := range ds[i] {
					w.roots[j][i] = ds[i][j]
				}
			}
			opts := func(j int) *api.BeaconBlockRootOpts { return &api.BeaconBlockRootOpts{Block: sc.block(j)} }
			out := func(r *api.Response[*phase0.Root], err error) c07Out {
				if err != nil {
					return c07Out{err: err}
				}
				if r == nil || r.Data == nil {
					return c07Out{nildata: true}
				}
				return c07Out{who: int(r.Data[31]), val: int(r.Data[0]), of: int(r.Data[3])}
			}
			if counting {
				s, err := rootmajority.New(ctx, rootmajority.WithLogLevel(zerolog.Disabled), rootmajority.WithClientMonitor(nullmetrics.New()),
					rootmajority.WithTimeout(timeout), rootmajority.WithBeaconBlockRootProviders(provs), rootmajority.WithProcessConcurrency(sc.pc()),
					rootmajority.WithBlockRootToSlotCache(w.cache))
				if err != nil {
					return nil, nil, err
				}
				h.failScores = c07Scores(h, ds, nil)
				return func(ctx context.Context, j int) c07Out { return out(s.BeaconBlockRoot(ctx, opts(j))) }, c07Scores(h, ds, nil), nil
			}
			s, err := rootlatest.New(ctx, rootlatest.WithLogLevel(zerolog.Disabled), rootlatest.WithClientMonitor(nullmetrics.New()),
				rootlatest.WithTimeout(timeout), rootlatest.WithBeaconBlockRootProviders(provs), rootlatest.WithProcessConcurrency(sc.pc()),
				rootlatest.WithBlockRootToSlotCache(w.cache))
			if err != nil {
				return nil, nil, err
			}
			// `latest` scores a root by the slot of its block (0 when the lookup fails)
			scores := make([][]int, len(ds))
			h.failScores = make([][]int, len(ds))
			for i := range ds {
				scores[i] = make([]int, len(ds[i]))
				h.failScores[i] = make([]int, len(ds[i]))
				for j := range ds[i] {
					if ds[i][j] != nil {
						scores[i][j] = int(c07SlotOfRoot(*ds[i][j]))
					}
				}
			}
			return func(ctx context.Context, j int) c07Out { return out(s.BeaconBlockRoot(ctx, opts(j))) }, scores, nil
		}
		return nil, nil, fmt.Errorf("strategy %q does not consult the cache", strat)
	}
}

// c07WiredObs adds to the observation of node i in call j what the wired family's trace specification needs: the
// root class the node reported, the score without the head's slot; and - for the explanation of a rejection only -
// when the response was available by the lookup's own duration (avail: the answer instant for a root the cache
// knows or learnt before, plus the header's scripted latency otherwise; the hard deadline when the context cuts it).
func (w *c07World) obs(o verifsupport.Ev, j, i int, t0 time.Time, failScore int) {
	c := w.h.cores[j][i]
	r := c.script.R
	if r == 0 {
		r = 1
	}
	o["r"] = r
	o["sf"] = 0
	o["avail"] = o["t"]
	if o["k"] == "valid" {
		o["sf"] = failScore
	}
	root := w.roots[j][i]
	if root == nil || o["k"] != "valid" {
		return
	}
	kind, pre, _ := w.script(*root)
	at := o["t"].(int)
	avail := at
	if !pre && w.h.sc.Variant == "Best" {
		hit := false
		w.mu.Lock()
		for _, q := range w.reqs {
			if q.root == *root && q.ok && int(q.end.Sub(t0)/time.Millisecond) <= at {
				hit = true
			}
		}
		w.mu.Unlock()
		T := w.h.sc.T
		if !hit {
			switch kind {
			case "ok1":
				avail = at + T/2
			case "never":
				avail = T
			}
		}
		if avail >= T && at < T {
			// the lookup is made under the strategy's hard context: the fetch is cut AT the deadline, the lookup
			// fails and the response is handed over then, with the score a failed lookup leaves it
			avail = T
			o["s"] = failScore
		}
	}
	o["avail"] = avail
}

// hdrObs is what the header nodes saw for the roots of call j (explanation only).
func (w *c07World) hdrObs(j int, t0 time.Time) []verifsupport.Ev {
	w.mu.Lock()
	defer w.mu.Unlock()
	var res []verifsupport.Ev
	for _, q := range w.reqs {
		if int(q.root[3])-1 != j {
			continue
		}
		res = append(res, verifsupport.Ev{"r": int(q.root[0]), "tag": int(q.root[31]), "node": q.node,
			"start": int(q.start.Sub(t0) / time.Millisecond), "end": int(q.end.Sub(t0) / time.Millisecond), "ok": q.ok})
	}
	if res == nil {
		res = []verifsupport.Ev{}
	}
	return res
}
