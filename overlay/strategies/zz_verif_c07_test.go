// Package strategies (test only) holds the conformance driver for property C07 (spec/Collector.tla,
// spec/CollectorInst.tla): it builds every real multi-node strategy with scripted provider fakes and runs a
// HISTORY of calls on that ONE instance in real time (a scenario with a single call is the history of length
// one): per call the fakes follow that call's script, and the driver records what they actually returned (and
// when) and what the strategy returned (and when).  Calls of a history run one after the other or - as the
// history says - overlapped (the second call is started while the first is in flight).  The instance is
// constructed as main.go does (process concurrency, time-out, threshold); nothing is rebuilt between calls.
// The fakes learn which call a request belongs to from a value in the request's context (the strategies pass
// the caller's context down to the node clients); every response object carries the number of the call it was
// made for, so that an object kept by the instance from an earlier call is told from a fresh one.
// Injected with -overlay by /verif/check; nothing of it is committed to the repository.
package strategies

import (
	"bytes"
	"context"
	"errors"
	"fmt"
	"math"
	"math/big"
	"math/rand"
	"os"
	"regexp"
	"runtime/pprof"
	"sort"
	"strconv"
	"strings"
	"sync"
	"sync/atomic"
	"testing"
	"time"

	eth2client "github.com/attestantio/go-eth2-client"
	"github.com/attestantio/go-eth2-client/api"
	apiv1 "github.com/attestantio/go-eth2-client/api/v1"
	"github.com/attestantio/go-eth2-client/spec"
	"github.com/attestantio/go-eth2-client/spec/altair"
	"github.com/attestantio/go-eth2-client/spec/bellatrix"
	"github.com/attestantio/go-eth2-client/spec/capella"
	"github.com/attestantio/go-eth2-client/spec/phase0"
	"github.com/attestantio/vouch/mock"
	nullmetrics "github.com/attestantio/vouch/services/metrics/null"
	aggbest "github.com/attestantio/vouch/strategies/aggregateattestation/best"
	aggfirst "github.com/attestantio/vouch/strategies/aggregateattestation/first"
	attbest "github.com/attestantio/vouch/strategies/attestationdata/best"
	attfirst "github.com/attestantio/vouch/strategies/attestationdata/first"
	attmajority "github.com/attestantio/vouch/strategies/attestationdata/majority"
	headerfirst "github.com/attestantio/vouch/strategies/beaconblockheader/first"
	propbest "github.com/attestantio/vouch/strategies/beaconblockproposal/best"
	propfirst "github.com/attestantio/vouch/strategies/beaconblockproposal/first"
	rootfirst "github.com/attestantio/vouch/strategies/beaconblockroot/first"
	rootlatest "github.com/attestantio/vouch/strategies/beaconblockroot/latest"
	rootmajority "github.com/attestantio/vouch/strategies/beaconblockroot/majority"
	blockfirst "github.com/attestantio/vouch/strategies/signedbeaconblock/first"
	contribbest "github.com/attestantio/vouch/strategies/synccommitteecontribution/best"
	contribfirst "github.com/attestantio/vouch/strategies/synccommitteecontribution/first"
	"github.com/attestantio/vouch/verifsupport"
	"github.com/prysmaticlabs/go-bitfield"
	"github.com/rs/zerolog"
)

const (
	c07Epoch = 10
	c07Slot  = 32*c07Epoch + 5
)

// c07Prov is what one node does in a scenario (an initial state of Collector.tla).
type c07Prov struct {
	K   string `json:"k"`   // valid | invalid | error | silent
	V   int    `json:"v"`   // value identity (majority variants)
	S   int    `json:"s"`   // score class (best variants)
	Ph  string `json:"ph"`  // early | mid | late
	Inv string `json:"inv"` // concrete rule an invalid response breaks: nil | niltarget | badtarget | zerofee
	R   int    `json:"r"`   // wired family: the class of the head root the node reports (1..)
}

// c07Call is one call of a history: what every node does this time and when the call starts: "seq" after
// every earlier call has returned, "early" together with the previous call, "mid" when the previous call has
// passed its soft time-out (and is still in flight).
type c07Call struct {
	At    string    `json:"at"`
	Provs []c07Prov `json:"provs"`
	// wired family (zz_verif_c07_wired_test.go), per root class of the call: what a header fetch does
	// (ok0 | ok1 | fail | never) and whether the cache has been told the root beforehand
	Hdr []string `json:"hdr"`
	Pre []bool   `json:"pre"`
}

type c07Scenario struct {
	Sc      int       `json:"sc"`
	Strat   string    `json:"strat"`
	Variant string    `json:"variant"`
	N       int       `json:"n"`
	Thr     int       `json:"thr"`
	Cap     int       `json:"cap"`
	T       int       `json:"T"` // time-out in ms
	Seed    int64     `json:"seed"`
	PC      int       `json:"pc"`    // process concurrency the instance is constructed with (0: 4)
	Slots   string    `json:"slots"` // "distinct": every call asks for another slot / block; otherwise the same one
	Provs   []c07Prov `json:"provs"` // a single call on a fresh instance
	Calls   []c07Call `json:"calls"` // a history of calls on one instance
	// wired family: the strategy consults the REAL cache service behind which the header provider is the real
	// beaconblockheader 'first' strategy ("first") or the node client itself ("direct"); "" otherwise
	Wired string `json:"wired"`
}

func (sc *c07Scenario) pc() int64 {
	if sc.PC > 0 {
		return int64(sc.PC)
	}
	return 4
}

// epochOff is the number of epochs the slot of call j lies after that of call 0.
func (sc *c07Scenario) epochOff(j int) int {
	if sc.Slots == "distinct" {
		return j
	}
	return 0
}

func (sc *c07Scenario) slot(j int) phase0.Slot { return phase0.Slot(c07Slot + 32*sc.epochOff(j)) }

func (sc *c07Scenario) block(j int) string {
	if sc.Slots == "distinct" {
		return strconv.Itoa(int(sc.slot(j)))
	}
	return "head"
}

// c07Core is the scripted part of a provider fake: it sleeps to its phase point (a silent node
// waits for the end of the request's context) and records the instant it actually returned.
type c07Core struct {
	idx       int // node, 1-based
	call      int // call of the history, 0-based
	script    c07Prov
	delay     time.Duration
	maxSilent time.Duration
	t0        time.Time

	mu     sync.Mutex
	called int
	kind   string
	at     time.Duration
	done   chan struct{}
}

func (c *c07Core) wait(ctx context.Context) string {
	c.mu.Lock()
	c.called++
	first := c.called == 1
	c.mu.Unlock()
	kind := c.script.K
	if kind == "silent" {
		select {
		case <-ctx.Done():
		case <-time.After(c.maxSilent - time.Since(c.t0)):
		}
	} else if d := c.delay - time.Since(c.t0); d > 0 {
		// A node answers when it answers: the request is already with it.
		time.Sleep(d)
	}
	if first {
		c.mu.Lock()
		c.kind = kind
		c.at = time.Since(c.t0)
		c.mu.Unlock()
		close(c.done)
	}
	return kind
}

// c07Hist is one history on one instance: the cores of every call and node.
type c07Hist struct {
	sc     *c07Scenario
	cores  [][]*c07Core // [call][node]
	latest atomic.Int32 // the call started last (for a request whose context does not say)
	noctx  atomic.Int32 // requests whose context did not carry the call
	// wired family: what is behind the strategy, and the score of every response when its lookup fails
	world      *c07World
	failScores [][]int
}

type c07CallKey struct{}

func (h *c07Hist) core(ctx context.Context, node int) *c07Core {
	j, ok := ctx.Value(c07CallKey{}).(int)
	if !ok {
		h.noctx.Add(1)
		j = int(h.latest.Load())
	}
	return h.cores[j][node-1]
}

// c07Fake is node `node` of the instance: per call it follows that call's core and hands out that call's data.
type c07Fake[T any] struct {
	h    *c07Hist
	node int
	data []T // per call
}

func (f *c07Fake[T]) get(ctx context.Context) (*api.Response[T], error) {
	c := f.h.core(ctx, f.node)
	switch c.wait(ctx) {
	case "error":
		return nil, errors.New("c07: scripted node error")
	case "silent":
		if ctx.Err() != nil {
			return nil, ctx.Err()
		}
		return nil, errors.New("c07: silent node gave up")
	}
	return &api.Response[T]{Data: f.data[c.call], Metadata: map[string]any{}}, nil
}

type c07AttP struct {
	*c07Fake[*phase0.AttestationData]
}

func (p *c07AttP) AttestationData(ctx context.Context, _ *api.AttestationDataOpts) (*api.Response[*phase0.AttestationData], error) {
	return p.get(ctx)
}

type c07AggP struct{ *c07Fake[*phase0.Attestation] }

func (p *c07AggP) AggregateAttestation(ctx context.Context, _ *api.AggregateAttestationOpts) (*api.Response[*phase0.Attestation], error) {
	return p.get(ctx)
}

type c07PropP struct {
	*c07Fake[*api.VersionedProposal]
}

func (p *c07PropP) Proposal(ctx context.Context, _ *api.ProposalOpts) (*api.Response[*api.VersionedProposal], error) {
	return p.get(ctx)
}

type c07ContribP struct {
	*c07Fake[*altair.SyncCommitteeContribution]
}

func (p *c07ContribP) SyncCommitteeContribution(ctx context.Context, _ *api.SyncCommitteeContributionOpts) (*api.Response[*altair.SyncCommitteeContribution], error) {
	return p.get(ctx)
}

type c07RootP struct{ *c07Fake[*phase0.Root] }

func (p *c07RootP) BeaconBlockRoot(ctx context.Context, _ *api.BeaconBlockRootOpts) (*api.Response[*phase0.Root], error) {
	return p.get(ctx)
}

type c07HeaderP struct {
	*c07Fake[*apiv1.BeaconBlockHeader]
}

func (p *c07HeaderP) BeaconBlockHeader(ctx context.Context, _ *api.BeaconBlockHeaderOpts) (*api.Response[*apiv1.BeaconBlockHeader], error) {
	return p.get(ctx)
}

type c07BlockP struct {
	*c07Fake[*spec.VersionedSignedBeaconBlock]
}

func (p *c07BlockP) SignedBeaconBlock(ctx context.Context, _ *api.SignedBeaconBlockOpts) (*api.Response[*spec.VersionedSignedBeaconBlock], error) {
	return p.get(ctx)
}

// c07Cache is the scripted block-root-to-slot cache: the slot is written in the root (byte 2: epochs after
// the first call's slot, byte 1: slot offset).
type c07Cache struct{}

func (c07Cache) BlockRootToSlot(_ context.Context, root phase0.Root) (phase0.Slot, error) {
	return phase0.Slot(300 + 32*int(root[2]) + int(root[1])), nil
}

func c07Name(i int) string { return fmt.Sprintf("node%d", i) }

// ---------------------------------------------------------------------------------------------
// response content

func c07Root(v, slotOff, tag int) phase0.Root {
	var r phase0.Root
	r[0] = byte(v)
	r[1] = byte(slotOff)
	r[31] = byte(tag)
	r[30] = 0xc7
	return r
}

// c07CallRoot is c07Root marked with the call the object is made for (byte 3: call number, 1-based) and the
// epoch offset of that call's slot (byte 2, read by the cache).
func c07CallRoot(v, slotOff, tag int, c *c07Core, sc *c07Scenario) phase0.Root {
	r := c07Root(v, slotOff, tag)
	r[2] = byte(sc.epochOff(c.call))
	r[3] = byte(c.call + 1)
	return r
}

// c07AttData: score = source + target + 1/(1 + slot - head slot); three ways of realising the
// score classes 0 < 1 < 2 with the real score function's inputs.  Slot and epochs are those of the call.
func c07AttData(c *c07Core, sc *c07Scenario, p c07Prov, tag int, style int, sameForAll bool) *phase0.AttestationData {
	if p.K == "invalid" && p.Inv == "nil" {
		return nil
	}
	epoch := c07Epoch + sc.epochOff(c.call)
	source, dist := epoch-1, 1
	if !sameForAll {
		switch style % 3 {
		case 0:
			dist = []int{3, 1, 0}[p.S]
		case 1:
			source = epoch - 3 + p.S
		case 2:
			source = []int{epoch - 2, epoch - 2, epoch - 1}[p.S]
			dist = []int{1, 0, 3}[p.S]
		}
	} else {
		tag = 0
		dist = p.V % 2
	}
	d := &phase0.AttestationData{
		Slot:            sc.slot(c.call),
		Index:           phase0.CommitteeIndex(tag),
		BeaconBlockRoot: c07CallRoot(p.V, 25-dist, tag, c, sc),
		Source:          &phase0.Checkpoint{Epoch: phase0.Epoch(source), Root: c07Root(0, 0, 0)},
		Target:          &phase0.Checkpoint{Epoch: phase0.Epoch(epoch), Root: c07Root(0, 1, 0)},
	}
	if p.K == "invalid" {
		switch p.Inv {
		case "niltarget":
			d.Target = nil
		case "badtarget":
			// (the previous epoch is the target of a node that is late with the epoch transition - and, in a
			// history over distinct slots, the valid target of the previous call)
			if style%2 == 0 {
				d.Target.Epoch = phase0.Epoch(epoch + 1)
			} else {
				d.Target.Epoch = phase0.Epoch(epoch - 1)
			}
		}
	}
	return d
}

func c07Aggregate(c *c07Core, sc *c07Scenario, style int) *phase0.Attestation {
	p, tag := c.script, c.idx
	if p.K == "invalid" {
		return nil
	}
	length := []uint64{8, 16, 10}[style%3]
	set := [][]int{{2, 4, 6}, {3, 7, 12}, {1, 5, 10}}[style%3][p.S]
	bits := bitfield.NewBitlist(length)
	for i := 0; i < set; i++ {
		bits.SetBitAt(uint64((i*3+tag)%int(length)), true)
	}
	for i := uint64(0); bits.Count() < uint64(set); i++ {
		bits.SetBitAt(i, true)
	}
	return &phase0.Attestation{
		AggregationBits: bits,
		Data:            c07AttData(c, sc, c07Prov{K: "valid", S: 1}, tag, 0, false),
	}
}

func c07Contribution(c *c07Core, sc *c07Scenario, style int) *altair.SyncCommitteeContribution {
	p, tag := c.script, c.idx
	if p.K == "invalid" {
		return nil
	}
	bits := bitfield.NewBitvector128()
	for i := 0; i < 1+4*p.S+style%3; i++ {
		bits.SetBitAt(uint64(i*5+tag), true)
	}
	return &altair.SyncCommitteeContribution{
		Slot:              sc.slot(c.call),
		BeaconBlockRoot:   c07Root(0, 25, 0),
		SubcommitteeIndex: uint64(tag),
		AggregationBits:   bits,
		Signature:         phase0.BLSSignature{byte(c.call + 1)},
	}
}

func c07Proposal(c *c07Core, sc *c07Scenario, style int) *api.VersionedProposal {
	p, tag := c.script, c.idx
	if p.K == "invalid" && p.Inv == "nil" {
		return nil
	}
	fee := bellatrix.ExecutionAddress{0xfe, byte(tag)}
	if p.K == "invalid" && p.Inv == "zerofee" {
		fee = bellatrix.ExecutionAddress{}
	}
	consensus, execution := int64(1000*(p.S+1)+style%7), int64(7)
	if style%2 == 1 {
		consensus, execution = 5, int64(1000*(p.S+1))
	}
	prop := &api.VersionedProposal{
		ConsensusValue: big.NewInt(consensus),
		ExecutionValue: big.NewInt(execution),
	}
	eth1 := &phase0.ETH1Data{BlockHash: make([]byte, 32)}
	graffiti := [32]byte{byte(c.call + 1)}
	if style%4 < 2 {
		prop.Version = spec.DataVersionBellatrix
		prop.Bellatrix = &bellatrix.BeaconBlock{
			Slot:          sc.slot(c.call),
			ProposerIndex: phase0.ValidatorIndex(tag),
			Body: &bellatrix.BeaconBlockBody{
				ETH1Data:         eth1,
				Graffiti:         graffiti,
				SyncAggregate:    &altair.SyncAggregate{SyncCommitteeBits: bitfield.NewBitvector512()},
				ExecutionPayload: &bellatrix.ExecutionPayload{FeeRecipient: fee},
			},
		}
	} else {
		prop.Version = spec.DataVersionCapella
		prop.Capella = &capella.BeaconBlock{
			Slot:          sc.slot(c.call),
			ProposerIndex: phase0.ValidatorIndex(tag),
			Body: &capella.BeaconBlockBody{
				ETH1Data:         eth1,
				Graffiti:         graffiti,
				SyncAggregate:    &altair.SyncAggregate{SyncCommitteeBits: bitfield.NewBitvector512()},
				ExecutionPayload: &capella.ExecutionPayload{FeeRecipient: fee},
			},
		}
	}
	return prop
}

// c07ProposalTag: whose proposal (proposer index) and of which call (graffiti).
func c07ProposalTag(p *api.VersionedProposal) (int, int) {
	switch {
	case p.Bellatrix != nil:
		return int(p.Bellatrix.ProposerIndex), int(p.Bellatrix.Body.Graffiti[0])
	case p.Capella != nil:
		return int(p.Capella.ProposerIndex), int(p.Capella.Body.Graffiti[0])
	}
	return 0, 0
}

func c07RootData(c *c07Core, sc *c07Scenario, style int, counting bool) *phase0.Root {
	p, tag := c.script, c.idx
	if p.K == "invalid" {
		return nil
	}
	var r phase0.Root
	if counting {
		r = c07Root(p.V, (p.V*(style%3))%4, 0)
	} else {
		r = c07Root(0, p.S*(1+style%3), tag)
	}
	r[3] = byte(c.call + 1)
	return &r
}

func c07Header(c *c07Core, sc *c07Scenario) *apiv1.BeaconBlockHeader {
	p, tag := c.script, c.idx
	if p.K == "invalid" {
		return nil
	}
	root := c07Root(0, 0, tag)
	root[3] = byte(c.call + 1)
	return &apiv1.BeaconBlockHeader{
		Root:      root,
		Canonical: true,
		Header: &phase0.SignedBeaconBlockHeader{
			Message: &phase0.BeaconBlockHeader{Slot: sc.slot(c.call), ProposerIndex: phase0.ValidatorIndex(tag)},
		},
	}
}

func c07Block(c *c07Core, sc *c07Scenario) *spec.VersionedSignedBeaconBlock {
	p, tag := c.script, c.idx
	if p.K == "invalid" {
		return nil
	}
	parent := c07Root(0, 0, 0)
	parent[3] = byte(c.call + 1)
	return &spec.VersionedSignedBeaconBlock{
		Version: spec.DataVersionPhase0,
		Phase0: &phase0.SignedBeaconBlock{
			Message: &phase0.BeaconBlock{
				Slot:          sc.slot(c.call),
				ProposerIndex: phase0.ValidatorIndex(tag),
				ParentRoot:    parent,
				Body:          &phase0.BeaconBlockBody{ETH1Data: &phase0.ETH1Data{BlockHash: make([]byte, 32)}},
			},
		},
	}
}

// ---------------------------------------------------------------------------------------------
// the 17 strategies

// c07Out is what a strategy call returned: whose object (tag embedded in the data), which value
// (majority variants), for which call of the history the object was made, whether it reported success with
// missing data.
type c07Out struct {
	who, val, of int
	nildata      bool
	err          error
}

// c07Kit builds the ONE real strategy instance of a history over the nodes' fakes; it returns the call
// (j: which call of the history - only the slot / block asked for depends on it) and the real score of every
// node's response in every call (scaled by 1000; 0 where the strategy has no score), [node][call].
type c07Kit func(ctx context.Context, h *c07Hist, style int) (func(ctx context.Context, j int) c07Out, [][]int, error)

func c07Scaled(score float64) int { return int(math.Round(score * 1000)) }

func c07Providers[T any, P any](h *c07Hist, data func(c *c07Core) T, wrap func(*c07Fake[T]) P) (map[string]P, [][]T) {
	n := h.sc.N
	m := make(map[string]P, n)
	ds := make([][]T, n)
	for i := 0; i < n; i++ {
		ds[i] = make([]T, len(h.cores))
		for j := range h.cores {
			ds[i][j] = data(h.cores[j][i])
		}
		m[c07Name(i+1)] = wrap(&c07Fake[T]{h: h, node: i + 1, data: ds[i]})
	}
	return m, ds
}

// c07Scores applies the real score function (through the instance's seam) to every valid response of the history.
func c07Scores[T any](h *c07Hist, ds [][]T, score func(name string, d T) float64) [][]int {
	scores := make([][]int, len(ds))
	for i := range ds {
		scores[i] = make([]int, len(ds[i]))
		for j := range ds[i] {
			if h.cores[j][i].script.K == "valid" && score != nil {
				scores[i][j] = c07Scaled(score(c07Name(i+1), ds[i][j]))
			}
		}
	}
	return scores
}

func c07AttOut(r *api.Response[*phase0.AttestationData], err error) c07Out {
	if err != nil {
		return c07Out{err: err}
	}
	if r == nil || r.Data == nil {
		return c07Out{nildata: true}
	}
	return c07Out{who: int(r.Data.Index), val: int(r.Data.BeaconBlockRoot[0]), of: int(r.Data.BeaconBlockRoot[3])}
}

func c07AttKit(impl string) c07Kit {
	return func(ctx context.Context, h *c07Hist, style int) (func(context.Context, int) c07Out, [][]int, error) {
		sc := h.sc
		provs, ds := c07Providers(h,
			func(c *c07Core) *phase0.AttestationData {
				return c07AttData(c, sc, c.script, c.idx, style, impl == "majority")
			},
			func(f *c07Fake[*phase0.AttestationData]) eth2client.AttestationDataProvider { return &c07AttP{f} })
		ct := verifsupport.NewChainTime(32, 12*time.Second)
		ct.SetSlot(c07Slot)
		timeout := time.Duration(sc.T) * time.Millisecond
		opts := func(j int) *api.AttestationDataOpts { return &api.AttestationDataOpts{Slot: sc.slot(j), CommitteeIndex: 0} }
		switch impl {
		case "best":
			s, err := attbest.New(ctx, attbest.WithLogLevel(zerolog.Disabled), attbest.WithClientMonitor(nullmetrics.New()),
				attbest.WithTimeout(timeout), attbest.WithAttestationDataProviders(provs), attbest.WithChainTime(ct),
				attbest.WithBlockRootToSlotCache(c07Cache{}), attbest.WithProcessConcurrency(sc.pc()))
			if err != nil {
				return nil, nil, err
			}
			scores := c07Scores(h, ds, func(name string, d *phase0.AttestationData) float64 { return s.VerifC07Score(ctx, name, d) })
			return func(ctx context.Context, j int) c07Out { return c07AttOut(s.AttestationData(ctx, opts(j))) }, scores, nil
		case "majority":
			s, err := attmajority.New(ctx, attmajority.WithLogLevel(zerolog.Disabled), attmajority.WithClientMonitor(nullmetrics.New()),
				attmajority.WithTimeout(timeout), attmajority.WithAttestationDataProviders(provs), attmajority.WithChainTime(ct),
				attmajority.WithBlockRootToSlotCache(c07Cache{}), attmajority.WithProcessConcurrency(sc.pc()), attmajority.WithThreshold(sc.Thr))
			if err != nil {
				return nil, nil, err
			}
			return func(ctx context.Context, j int) c07Out { return c07AttOut(s.AttestationData(ctx, opts(j))) }, c07Scores(h, ds, nil), nil
		default:
			s, err := attfirst.New(ctx, attfirst.WithLogLevel(zerolog.Disabled), attfirst.WithClientMonitor(nullmetrics.New()),
				attfirst.WithTimeout(timeout), attfirst.WithAttestationDataProviders(provs))
			if err != nil {
				return nil, nil, err
			}
			return func(ctx context.Context, j int) c07Out { return c07AttOut(s.AttestationData(ctx, opts(j))) }, c07Scores(h, ds, nil), nil
		}
	}
}

func c07AggKit(impl string) c07Kit {
	return func(ctx context.Context, h *c07Hist, style int) (func(context.Context, int) c07Out, [][]int, error) {
		sc := h.sc
		provs, ds := c07Providers(h,
			func(c *c07Core) *phase0.Attestation { return c07Aggregate(c, sc, style) },
			func(f *c07Fake[*phase0.Attestation]) eth2client.AggregateAttestationProvider { return &c07AggP{f} })
		timeout := time.Duration(sc.T) * time.Millisecond
		opts := func(j int) *api.AggregateAttestationOpts { return &api.AggregateAttestationOpts{Slot: sc.slot(j)} }
		out := func(r *api.Response[*phase0.Attestation], err error) c07Out {
			if err != nil {
				return c07Out{err: err}
			}
			if r == nil || r.Data == nil {
				return c07Out{nildata: true}
			}
			return c07Out{who: int(r.Data.Data.Index), of: int(r.Data.Data.BeaconBlockRoot[3])}
		}
		if impl == "best" {
			s, err := aggbest.New(ctx, aggbest.WithLogLevel(zerolog.Disabled), aggbest.WithClientMonitor(nullmetrics.New()),
				aggbest.WithTimeout(timeout), aggbest.WithAggregateAttestationProviders(provs), aggbest.WithProcessConcurrency(sc.pc()))
			if err != nil {
				return nil, nil, err
			}
			scores := c07Scores(h, ds, func(name string, d *phase0.Attestation) float64 { return s.VerifC07Score(ctx, name, d) })
			return func(ctx context.Context, j int) c07Out { return out(s.AggregateAttestation(ctx, opts(j))) }, scores, nil
		}
		s, err := aggfirst.New(ctx, aggfirst.WithLogLevel(zerolog.Disabled), aggfirst.WithClientMonitor(nullmetrics.New()),
			aggfirst.WithTimeout(timeout), aggfirst.WithAggregateAttestationProviders(provs))
		if err != nil {
			return nil, nil, err
		}
		return func(ctx context.Context, j int) c07Out { return out(s.AggregateAttestation(ctx, opts(j))) }, c07Scores(h, ds, nil), nil
	}
}

func c07PropKit(impl string) c07Kit {
	return func(ctx context.Context, h *c07Hist, style int) (func(context.Context, int) c07Out, [][]int, error) {
		sc := h.sc
		provs, ds := c07Providers(h,
			func(c *c07Core) *api.VersionedProposal { return c07Proposal(c, sc, style) },
			func(f *c07Fake[*api.VersionedProposal]) eth2client.ProposalProvider { return &c07PropP{f} })
		timeout := time.Duration(sc.T) * time.Millisecond
		opts := func(j int) *api.ProposalOpts { return &api.ProposalOpts{Slot: sc.slot(j)} }
		out := func(r *api.Response[*api.VersionedProposal], err error) c07Out {
			if err != nil {
				return c07Out{err: err}
			}
			if r == nil || r.Data == nil {
				return c07Out{nildata: true}
			}
			who, of := c07ProposalTag(r.Data)
			return c07Out{who: who, of: of}
		}
		if impl == "best" {
			ct := verifsupport.NewChainTime(32, 12*time.Second)
			ct.SetSlot(c07Slot)
			s, err := propbest.New(ctx, propbest.WithLogLevel(zerolog.Disabled), propbest.WithClientMonitor(nullmetrics.New()),
				propbest.WithTimeout(timeout), propbest.WithProposalProviders(provs), propbest.WithProcessConcurrency(sc.pc()),
				propbest.WithEventsProvider(mock.NewEventsProvider()), propbest.WithChainTimeService(ct),
				propbest.WithSpecProvider(mock.NewSpecProvider()), propbest.WithSignedBeaconBlockProvider(mock.NewSignedBeaconBlockProvider()),
				propbest.WithBlockRootToSlotCache(c07Cache{}))
			if err != nil {
				return nil, nil, err
			}
			scores := c07Scores(h, ds, func(name string, d *api.VersionedProposal) float64 { return s.VerifC07Score(ctx, name, d) })
			return func(ctx context.Context, j int) c07Out { return out(s.Proposal(ctx, opts(j))) }, scores, nil
		}
		s, err := propfirst.New(ctx, propfirst.WithLogLevel(zerolog.Disabled), propfirst.WithClientMonitor(nullmetrics.New()),
			propfirst.WithTimeout(timeout), propfirst.WithProposalProviders(provs))
		if err != nil {
			return nil, nil, err
		}
		return func(ctx context.Context, j int) c07Out { return out(s.Proposal(ctx, opts(j))) }, c07Scores(h, ds, nil), nil
	}
}

func c07ContribKit(impl string) c07Kit {
	return func(ctx context.Context, h *c07Hist, style int) (func(context.Context, int) c07Out, [][]int, error) {
		sc := h.sc
		provs, ds := c07Providers(h,
			func(c *c07Core) *altair.SyncCommitteeContribution { return c07Contribution(c, sc, style) },
			func(f *c07Fake[*altair.SyncCommitteeContribution]) eth2client.SyncCommitteeContributionProvider {
				return &c07ContribP{f}
			})
		timeout := time.Duration(sc.T) * time.Millisecond
		opts := func(j int) *api.SyncCommitteeContributionOpts {
			return &api.SyncCommitteeContributionOpts{Slot: sc.slot(j), SubcommitteeIndex: 0, BeaconBlockRoot: c07Root(0, 25, 0)}
		}
		out := func(r *api.Response[*altair.SyncCommitteeContribution], err error) c07Out {
			if err != nil {
				return c07Out{err: err}
			}
			if r == nil || r.Data == nil {
				return c07Out{nildata: true}
			}
			return c07Out{who: int(r.Data.SubcommitteeIndex), of: int(r.Data.Signature[0])}
		}
		if impl == "best" {
			s, err := contribbest.New(ctx, contribbest.WithLogLevel(zerolog.Disabled), contribbest.WithClientMonitor(nullmetrics.New()),
				contribbest.WithTimeout(timeout), contribbest.WithSyncCommitteeContributionProviders(provs), contribbest.WithProcessConcurrency(sc.pc()))
			if err != nil {
				return nil, nil, err
			}
			scores := c07Scores(h, ds, func(name string, d *altair.SyncCommitteeContribution) float64 { return s.VerifC07Score(ctx, name, d) })
			return func(ctx context.Context, j int) c07Out { return out(s.SyncCommitteeContribution(ctx, opts(j))) }, scores, nil
		}
		s, err := contribfirst.New(ctx, contribfirst.WithLogLevel(zerolog.Disabled), contribfirst.WithClientMonitor(nullmetrics.New()),
			contribfirst.WithTimeout(timeout), contribfirst.WithSyncCommitteeContributionProviders(provs))
		if err != nil {
			return nil, nil, err
		}
		return func(ctx context.Context, j int) c07Out { return out(s.SyncCommitteeContribution(ctx, opts(j))) }, c07Scores(h, ds, nil), nil
	}
}

func c07RootKit(impl string) c07Kit {
	return func(ctx context.Context, h *c07Hist, style int) (func(context.Context, int) c07Out, [][]int, error) {
		sc := h.sc
		provs, ds := c07Providers(h,
			func(c *c07Core) *phase0.Root { return c07RootData(c, sc, style, impl == "majority") },
			func(f *c07Fake[*phase0.Root]) eth2client.BeaconBlockRootProvider { return &c07RootP{f} })
		timeout := time.Duration(sc.T) * time.Millisecond
		opts := func(j int) *api.BeaconBlockRootOpts { return &api.BeaconBlockRootOpts{Block: sc.block(j)} }
		out := func(r *api.Response[*phase0.Root], err error) c07Out {
			if err != nil {
				return c07Out{err: err}
			}
			if r == nil || r.Data == nil {
				return c07Out{nildata: true}
			}
			return c07Out{who: int(r.Data[31]), val: int(r.Data[0]), of: int(r.Data[3])}
		}
		switch impl {
		case "latest":
			s, err := rootlatest.New(ctx, rootlatest.WithLogLevel(zerolog.Disabled), rootlatest.WithClientMonitor(nullmetrics.New()),
				rootlatest.WithTimeout(timeout), rootlatest.WithBeaconBlockRootProviders(provs), rootlatest.WithProcessConcurrency(sc.pc()),
				rootlatest.WithBlockRootToSlotCache(c07Cache{}))
			if err != nil {
				return nil, nil, err
			}
			// `latest` scores a root by the slot of its block, which it reads from the cache.
			scores := make([][]int, len(ds))
			for i := range ds {
				scores[i] = make([]int, len(ds[i]))
				for j := range ds[i] {
					if h.cores[j][i].script.K == "valid" {
						slot, _ := c07Cache{}.BlockRootToSlot(ctx, *ds[i][j])
						scores[i][j] = int(slot)
					}
				}
			}
			return func(ctx context.Context, j int) c07Out { return out(s.BeaconBlockRoot(ctx, opts(j))) }, scores, nil
		case "majority":
			s, err := rootmajority.New(ctx, rootmajority.WithLogLevel(zerolog.Disabled), rootmajority.WithClientMonitor(nullmetrics.New()),
				rootmajority.WithTimeout(timeout), rootmajority.WithBeaconBlockRootProviders(provs), rootmajority.WithProcessConcurrency(sc.pc()),
				rootmajority.WithBlockRootToSlotCache(c07Cache{}))
			if err != nil {
				return nil, nil, err
			}
			return func(ctx context.Context, j int) c07Out { return out(s.BeaconBlockRoot(ctx, opts(j))) }, c07Scores(h, ds, nil), nil
		default:
			s, err := rootfirst.New(ctx, rootfirst.WithLogLevel(zerolog.Disabled), rootfirst.WithClientMonitor(nullmetrics.New()),
				rootfirst.WithTimeout(timeout), rootfirst.WithBeaconBlockRootProviders(provs))
			if err != nil {
				return nil, nil, err
			}
			return func(ctx context.Context, j int) c07Out { return out(s.BeaconBlockRoot(ctx, opts(j))) }, c07Scores(h, ds, nil), nil
		}
	}
}

func c07HeaderKit() c07Kit {
	return func(ctx context.Context, h *c07Hist, _ int) (func(context.Context, int) c07Out, [][]int, error) {
		sc := h.sc
		provs, ds := c07Providers(h,
			func(c *c07Core) *apiv1.BeaconBlockHeader { return c07Header(c, sc) },
			func(f *c07Fake[*apiv1.BeaconBlockHeader]) eth2client.BeaconBlockHeadersProvider { return &c07HeaderP{f} })
		s, err := headerfirst.New(ctx, headerfirst.WithLogLevel(zerolog.Disabled), headerfirst.WithClientMonitor(nullmetrics.New()),
			headerfirst.WithTimeout(time.Duration(sc.T)*time.Millisecond), headerfirst.WithBeaconBlockHeadersProviders(provs))
		if err != nil {
			return nil, nil, err
		}
		return func(ctx context.Context, j int) c07Out {
			r, err := s.BeaconBlockHeader(ctx, &api.BeaconBlockHeaderOpts{Block: sc.block(j)})
			if err != nil {
				return c07Out{err: err}
			}
			if r == nil || r.Data == nil || r.Data.Header == nil || r.Data.Header.Message == nil {
				return c07Out{nildata: true}
			}
			return c07Out{who: int(r.Data.Header.Message.ProposerIndex), of: int(r.Data.Root[3])}
		}, c07Scores(h, ds, nil), nil
	}
}

func c07BlockKit() c07Kit {
	return func(ctx context.Context, h *c07Hist, _ int) (func(context.Context, int) c07Out, [][]int, error) {
		sc := h.sc
		provs, ds := c07Providers(h,
			func(c *c07Core) *spec.VersionedSignedBeaconBlock { return c07Block(c, sc) },
			func(f *c07Fake[*spec.VersionedSignedBeaconBlock]) eth2client.SignedBeaconBlockProvider { return &c07BlockP{f} })
		s, err := blockfirst.New(ctx, blockfirst.WithLogLevel(zerolog.Disabled), blockfirst.WithClientMonitor(nullmetrics.New()),
			blockfirst.WithTimeout(time.Duration(sc.T)*time.Millisecond), blockfirst.WithSignedBeaconBlockProviders(provs))
		if err != nil {
			return nil, nil, err
		}
		return func(ctx context.Context, j int) c07Out {
			r, err := s.SignedBeaconBlock(ctx, &api.SignedBeaconBlockOpts{Block: sc.block(j)})
			if err != nil {
				return c07Out{err: err}
			}
			if r == nil || r.Data == nil || r.Data.Phase0 == nil || r.Data.Phase0.Message == nil {
				return c07Out{nildata: true}
			}
			return c07Out{who: int(r.Data.Phase0.Message.ProposerIndex), of: int(r.Data.Phase0.Message.ParentRoot[3])}
		}, c07Scores(h, ds, nil), nil
	}
}

var c07Kits = map[string]c07Kit{
	"attestationdata/best":            c07AttKit("best"),
	"attestationdata/majority":        c07AttKit("majority"),
	"attestationdata/first":           c07AttKit("first"),
	"aggregateattestation/best":       c07AggKit("best"),
	"aggregateattestation/first":      c07AggKit("first"),
	"beaconblockproposal/best":        c07PropKit("best"),
	"beaconblockproposal/first":       c07PropKit("first"),
	"synccommitteecontribution/best":  c07ContribKit("best"),
	"synccommitteecontribution/first": c07ContribKit("first"),
	"beaconblockroot/first":           c07RootKit("first"),
	"beaconblockroot/latest":          c07RootKit("latest"),
	"beaconblockroot/majority":        c07RootKit("majority"),
	"beaconblockheader/first":         c07HeaderKit(),
	"signedbeaconblock/first":         c07BlockKit(),
}

// ---------------------------------------------------------------------------------------------
// scheduling-delay monitor: a scenario during which this process was stalled is not judged

type c07Stall struct {
	at   time.Time
	over time.Duration
}

type c07Monitor struct {
	mu     sync.Mutex
	stalls []c07Stall
	stop   chan struct{}
}

func c07StartMonitor() *c07Monitor {
	m := &c07Monitor{stop: make(chan struct{})}
	go func() {
		const tick = 2 * time.Millisecond
		for {
			select {
			case <-m.stop:
				return
			default:
			}
			t := time.Now()
			time.Sleep(tick)
			if over := time.Since(t) - tick; over > 8*time.Millisecond {
				m.mu.Lock()
				m.stalls = append(m.stalls, c07Stall{at: t, over: over})
				m.mu.Unlock()
			}
		}
	}()
	return m
}

func (m *c07Monitor) maxBetween(from, to time.Time) time.Duration {
	m.mu.Lock()
	defer m.mu.Unlock()
	var worst time.Duration
	for _, s := range m.stalls {
		if s.at.Add(s.over+2*time.Millisecond).After(from) && s.at.Before(to) && s.over > worst {
			worst = s.over
		}
	}
	return worst
}

// ---------------------------------------------------------------------------------------------

type c07Record struct {
	reset, ret verifsupport.Ev
}

// c07CallRun is one call of a history while it runs.
type c07CallRun struct {
	started  time.Time
	done     chan struct{}
	out      c07Out        // valid after done
	at       time.Duration // valid after done
	noreturn bool
	wdAt     time.Duration
}

// c07Run runs one history on one real instance and returns two records (Reset, Return) per call that was started.
// A call that has not returned 2.5 T after its start is recorded as `noreturn` (no action of the specification
// explains it) and the instance is abandoned: the remaining calls of the history are not made.
func c07Run(sc *c07Scenario, mon *c07Monitor) ([]c07Record, error) {
	kit, ok := c07Kits[sc.Strat]
	if !ok {
		return nil, fmt.Errorf("unknown strategy %q", sc.Strat)
	}
	if sc.Wired != "" {
		if len(sc.Calls) == 0 {
			return nil, fmt.Errorf("scenario %d: a wired scenario is a history", sc.Sc)
		}
		kit = c07WiredKit(sc.Strat)
	}
	calls := sc.Calls
	if len(calls) == 0 {
		calls = []c07Call{{At: "seq", Provs: sc.Provs}}
	}
	rnd := rand.New(rand.NewSource(sc.Seed))
	T := time.Duration(sc.T) * time.Millisecond
	style := rnd.Intn(12)
	h := &c07Hist{sc: sc, cores: make([][]*c07Core, len(calls))}
	for j := range calls {
		if len(calls[j].Provs) != sc.N {
			return nil, fmt.Errorf("scenario %d call %d: %d nodes scripted, the instance has %d", sc.Sc, j+1, len(calls[j].Provs), sc.N)
		}
		h.cores[j] = make([]*c07Core, sc.N)
		for i := range h.cores[j] {
			var frac float64
			switch calls[j].Provs[i].Ph {
			case "early":
				frac = 0.20 * rnd.Float64()
			case "mid":
				frac = 0.65 + 0.15*rnd.Float64()
			default:
				frac = 1.30 + 0.15*rnd.Float64()
			}
			h.cores[j][i] = &c07Core{idx: i + 1, call: j, script: calls[j].Provs[i], delay: time.Duration(frac * float64(T)),
				maxSilent: 3 * T, done: make(chan struct{})}
		}
	}
	ctx := context.Background()
	call, scores, err := kit(ctx, h, style)
	if err != nil {
		return nil, fmt.Errorf("scenario %d: cannot build %s: %w", sc.Sc, sc.Strat, err)
	}

	runs := make([]*c07CallRun, len(calls))
	histStart := time.Now()
	abandoned := false
	// wait for call j to return; its watchdog fires 2.5 T after its start
	waitFor := func(j int) {
		r := runs[j]
		if r == nil || r.noreturn {
			return
		}
		select {
		case <-r.done:
			return
		default:
		}
		select {
		case <-r.done:
		case <-time.After(time.Until(r.started.Add(5 * T / 2))):
			r.noreturn = true
			r.wdAt = time.Since(r.started)
			abandoned = true
		}
	}
	launch := func(j int) {
		if h.world != nil {
			h.world.preload(j)
		}
		r := &c07CallRun{started: time.Now(), done: make(chan struct{})}
		runs[j] = r
		for _, c := range h.cores[j] {
			c.t0 = r.started
		}
		h.latest.Store(int32(j))
		cctx := context.WithValue(ctx, c07CallKey{}, j)
		go pprof.Do(cctx, pprof.Labels("c07sc", strconv.Itoa(sc.Sc)), func(ctx context.Context) {
			out := call(ctx, j)
			r.out, r.at = out, time.Since(r.started)
			close(r.done)
		})
	}
	for j := range calls {
		switch {
		case j == 0:
		case calls[j].At == "early":
			// together with the previous call
		case calls[j].At == "mid":
			// when the previous call has passed its soft time-out (if it has returned by then: at once)
			prev := runs[j-1]
			select {
			case <-prev.done:
			case <-time.After(time.Until(prev.started.Add(time.Duration((0.55 + 0.05*rnd.Float64()) * float64(T))))):
			}
		default:
			for k := 0; k < j; k++ {
				waitFor(k)
			}
		}
		if abandoned {
			break
		}
		launch(j)
	}
	for j := range calls {
		waitFor(j)
	}
	// Let every fake of the calls made finish (late nodes answer after the strategy has gone).
	for j, r := range runs {
		if r == nil {
			continue
		}
		limit := r.started.Add(3*T + 200*time.Millisecond)
		for _, c := range h.cores[j] {
			select {
			case <-c.done:
			case <-time.After(time.Until(limit)):
			}
		}
	}

	var recs []c07Record
	for j, r := range runs {
		if r == nil {
			continue
		}
		var out c07Out
		retAt := r.wdAt
		if !r.noreturn {
			out, retAt = r.out, r.at
		}
		last := retAt
		obs := make([]verifsupport.Ev, sc.N)
		for i, c := range h.cores[j] {
			c.mu.Lock()
			kind, at, called := c.kind, c.at, c.called
			c.mu.Unlock()
			if called == 0 || kind == "" {
				kind = "none"
			}
			if at > last {
				last = at
			}
			o := verifsupport.Ev{"k": kind, "v": 0, "s": 0, "t": int(at / time.Millisecond), "inv": c.script.Inv, "calls": called}
			if kind == "valid" {
				o["v"] = c.script.V
				o["s"] = scores[i][j]
			}
			if h.world != nil {
				h.world.obs(o, j, i, r.started, h.failScores[i][j])
			}
			obs[i] = o
		}
		reset := verifsupport.Ev{"sc": sc.Sc, "ev": "Reset", "strat": sc.Strat, "variant": sc.Variant, "n": sc.N, "thr": sc.Thr,
			"cap": sc.Cap, "T": sc.T, "obs": obs, "call": j + 1, "calls": len(calls), "pcy": int(sc.pc()), "at": calls[j].At,
			"t0": int(r.started.Sub(histStart) / time.Millisecond), "slot": int(sc.slot(j))}
		if h.world != nil {
			reset["wired"], reset["hdr"], reset["pre"] = sc.Wired, calls[j].Hdr, calls[j].Pre
			reset["hobs"] = h.world.hdrObs(j, r.started)
		}
		ret := verifsupport.Ev{"sc": sc.Sc, "ev": "Return", "call": j + 1, "noreturn": r.noreturn, "ok": !r.noreturn && out.err == nil,
			"who": out.who, "val": out.val, "of": out.of, "nildata": out.nildata, "t": int(retAt / time.Millisecond),
			"jit": int(mon.maxBetween(r.started, r.started.Add(last)) / time.Millisecond), "blocked": 0,
			"noctx": int(h.noctx.Load())}
		if out.err != nil {
			ret["err"] = out.err.Error()
		}
		recs = append(recs, c07Record{reset: reset, ret: ret})
	}
	return recs, nil
}

var (
	c07LabelRe = regexp.MustCompile(`"c07sc":"(\d+)"`)
	c07CountRe = regexp.MustCompile(`^(\d+) @`)
)

// c07Blocked counts, per scenario, the goroutines started by the strategy call that are still alive
// after the call has returned and every fake has answered: provider goroutines stuck in a channel
// send nobody will receive (goroutine labels are inherited from the calling goroutine; the profile
// elides runtime frames, so the innermost frame is the strategy's own send statement).
func c07Blocked() map[int]int {
	var buf bytes.Buffer
	_ = pprof.Lookup("goroutine").WriteTo(&buf, 1)
	res := map[int]int{}
	for _, block := range strings.Split(buf.String(), "\n\n") {
		if !strings.Contains(block, "github.com/attestantio/vouch/strategies/") {
			continue
		}
		m := c07LabelRe.FindStringSubmatch(block)
		c := c07CountRe.FindStringSubmatch(block)
		if m == nil || c == nil {
			continue
		}
		id, _ := strconv.Atoi(m[1])
		k, _ := strconv.Atoi(c[1])
		res[id] += k
	}
	return res
}

func TestVerifC07(t *testing.T) {
	var scenarios []c07Scenario
	verifsupport.Scenarios(t, &scenarios)
	tr := verifsupport.OpenTrace(t)
	defer tr.Close()
	zerolog.SetGlobalLevel(zerolog.Disabled)

	par := 96
	if v, err := strconv.Atoi(os.Getenv("VERIF_C07_PAR")); err == nil && v > 0 {
		par = v
	}
	if par > len(scenarios) {
		par = len(scenarios)
	}
	began := time.Now()
	mon := c07StartMonitor()
	records := make([][]c07Record, len(scenarios))
	errs := make([]error, len(scenarios))
	next := make(chan int)
	var wg sync.WaitGroup
	for w := 0; w < par; w++ {
		wg.Add(1)
		go func(w int) {
			defer wg.Done()
			// de-synchronise the workers so that deadlines do not all fall on the same instant
			time.Sleep(time.Duration(w) * 7 * time.Millisecond)
			for i := range next {
				records[i], errs[i] = c07Run(&scenarios[i], mon)
			}
		}(w)
	}
	// longest histories first: the batch ends when the last one does
	order := make([]int, len(scenarios))
	for i := range order {
		order[i] = i
	}
	sort.SliceStable(order, func(a, b int) bool { return len(scenarios[order[a]].Calls) > len(scenarios[order[b]].Calls) })
	for _, i := range order {
		next <- i
	}
	close(next)
	wg.Wait()
	close(mon.stop)
	if dbg := os.Getenv("VERIF_C07_STALLS"); dbg != "" {
		var sb strings.Builder
		mon.mu.Lock()
		for _, st := range mon.stalls {
			if st.over > 30*time.Millisecond {
				fmt.Fprintf(&sb, "stall of %v at +%v\n", st.over, st.at.Sub(began))
			}
		}
		mon.mu.Unlock()
		_ = os.WriteFile(dbg, []byte(sb.String()), 0o600)
	}
	for _, err := range errs {
		if err != nil {
			t.Fatal(err)
		}
	}
	time.Sleep(100 * time.Millisecond)
	blocked := c07Blocked()
	for i := range records {
		// (goroutines are labelled per history: the count is put on its last call)
		if k := len(records[i]); k > 0 && records[i][k-1].ret["noreturn"] == false {
			records[i][k-1].ret["blocked"] = blocked[scenarios[i].Sc]
		}
		for _, r := range records[i] {
			tr.Emit(r.reset)
			tr.Emit(r.ret)
		}
	}
}
