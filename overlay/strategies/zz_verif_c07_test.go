// Package strategies (test only) holds the conformance driver for property C07 (spec/Collector.tla): it builds every real
// multi-node strategy with scripted provider fakes, calls it once per scenario in real time and
// records what the fakes actually returned (and when) and what the strategy returned (and when).
// Injected with -overlay by /verif/check; nothing of it is committed to the repository.
package strategies

import (
	"bytes"
	"context"
	"errors"
	"fmt"
	"math"
	"math/big"
	"math/rand"
	"os"
	"regexp"
	"runtime/pprof"
	"strconv"
	"strings"
	"sync"
	"testing"
	"time"

	eth2client "github.com/attestantio/go-eth2-client"
	"github.com/attestantio/go-eth2-client/api"
	apiv1 "github.com/attestantio/go-eth2-client/api/v1"
	"github.com/attestantio/go-eth2-client/spec"
	"github.com/attestantio/go-eth2-client/spec/altair"
	"github.com/attestantio/go-eth2-client/spec/bellatrix"
	"github.com/attestantio/go-eth2-client/spec/capella"
	"github.com/attestantio/go-eth2-client/spec/phase0"
	"github.com/attestantio/vouch/mock"
	nullmetrics "github.com/attestantio/vouch/services/metrics/null"
	aggbest "github.com/attestantio/vouch/strategies/aggregateattestation/best"
	aggfirst "github.com/attestantio/vouch/strategies/aggregateattestation/first"
	attbest "github.com/attestantio/vouch/strategies/attestationdata/best"
	attfirst "github.com/attestantio/vouch/strategies/attestationdata/first"
	attmajority "github.com/attestantio/vouch/strategies/attestationdata/majority"
	headerfirst "github.com/attestantio/vouch/strategies/beaconblockheader/first"
	propbest "github.com/attestantio/vouch/strategies/beaconblockproposal/best"
	propfirst "github.com/attestantio/vouch/strategies/beaconblockproposal/first"
	rootfirst "github.com/attestantio/vouch/strategies/beaconblockroot/first"
	rootlatest "github.com/attestantio/vouch/strategies/beaconblockroot/latest"
	rootmajority "github.com/attestantio/vouch/strategies/beaconblockroot/majority"
	blockfirst "github.com/attestantio/vouch/strategies/signedbeaconblock/first"
	contribbest "github.com/attestantio/vouch/strategies/synccommitteecontribution/best"
	contribfirst "github.com/attestantio/vouch/strategies/synccommitteecontribution/first"
	"github.com/attestantio/vouch/verifsupport"
	"github.com/prysmaticlabs/go-bitfield"
	"github.com/rs/zerolog"
)

const (
	c07Epoch = 10
	c07Slot  = 32*c07Epoch + 5
)

// c07Prov is what one node does in a scenario (an initial state of Collector.tla).
type c07Prov struct {
	K   string `json:"k"`   // valid | invalid | error | silent
	V   int    `json:"v"`   // value identity (majority variants)
	S   int    `json:"s"`   // score class (best variants)
	Ph  string `json:"ph"`  // early | mid | late
	Inv string `json:"inv"` // concrete rule an invalid response breaks: nil | niltarget | badtarget | zerofee
}

type c07Scenario struct {
	Sc      int       `json:"sc"`
	Strat   string    `json:"strat"`
	Variant string    `json:"variant"`
	N       int       `json:"n"`
	Thr     int       `json:"thr"`
	Cap     int       `json:"cap"`
	T       int       `json:"T"` // time-out in ms
	Seed    int64     `json:"seed"`
	Provs   []c07Prov `json:"provs"`
}

// c07Core is the scripted part of a provider fake: it sleeps to its phase point (a silent node
// waits for the end of the request's context) and records the instant it actually returned.
type c07Core struct {
	idx       int
	script    c07Prov
	delay     time.Duration
	maxSilent time.Duration
	t0        time.Time

	mu     sync.Mutex
	called int
	kind   string
	at     time.Duration
	done   chan struct{}
}

func (c *c07Core) wait(ctx context.Context) string {
	c.mu.Lock()
	c.called++
	first := c.called == 1
	c.mu.Unlock()
	kind := c.script.K
	if kind == "silent" {
		select {
		case <-ctx.Done():
		case <-time.After(c.maxSilent - time.Since(c.t0)):
		}
	} else if d := c.delay - time.Since(c.t0); d > 0 {
		// A node answers when it answers: the request is already with it.
		time.Sleep(d)
	}
	if first {
		c.mu.Lock()
		c.kind = kind
		c.at = time.Since(c.t0)
		c.mu.Unlock()
		close(c.done)
	}
	return kind
}

type c07Fake[T any] struct {
	*c07Core
	data T
}

func (f *c07Fake[T]) get(ctx context.Context) (*api.Response[T], error) {
	switch f.wait(ctx) {
	case "error":
		return nil, errors.New("c07: scripted node error")
	case "silent":
		if ctx.Err() != nil {
			return nil, ctx.Err()
		}
		return nil, errors.New("c07: silent node gave up")
	}
	return &api.Response[T]{Data: f.data, Metadata: map[string]any{}}, nil
}

type c07AttP struct {
	c07Fake[*phase0.AttestationData]
}

func (p *c07AttP) AttestationData(ctx context.Context, _ *api.AttestationDataOpts) (*api.Response[*phase0.AttestationData], error) {
	return p.get(ctx)
}

type c07AggP struct{ c07Fake[*phase0.Attestation] }

func (p *c07AggP) AggregateAttestation(ctx context.Context, _ *api.AggregateAttestationOpts) (*api.Response[*phase0.Attestation], error) {
	return p.get(ctx)
}

type c07PropP struct {
	c07Fake[*api.VersionedProposal]
}

func (p *c07PropP) Proposal(ctx context.Context, _ *api.ProposalOpts) (*api.Response[*api.VersionedProposal], error) {
	return p.get(ctx)
}

type c07ContribP struct {
	c07Fake[*altair.SyncCommitteeContribution]
}

func (p *c07ContribP) SyncCommitteeContribution(ctx context.Context, _ *api.SyncCommitteeContributionOpts) (*api.Response[*altair.SyncCommitteeContribution], error) {
	return p.get(ctx)
}

type c07RootP struct{ c07Fake[*phase0.Root] }

func (p *c07RootP) BeaconBlockRoot(ctx context.Context, _ *api.BeaconBlockRootOpts) (*api.Response[*phase0.Root], error) {
	return p.get(ctx)
}

type c07HeaderP struct {
	c07Fake[*apiv1.BeaconBlockHeader]
}

func (p *c07HeaderP) BeaconBlockHeader(ctx context.Context, _ *api.BeaconBlockHeaderOpts) (*api.Response[*apiv1.BeaconBlockHeader], error) {
	return p.get(ctx)
}

type c07BlockP struct {
	c07Fake[*spec.VersionedSignedBeaconBlock]
}

func (p *c07BlockP) SignedBeaconBlock(ctx context.Context, _ *api.SignedBeaconBlockOpts) (*api.Response[*spec.VersionedSignedBeaconBlock], error) {
	return p.get(ctx)
}

// c07Cache is the scripted block-root-to-slot cache: the slot is written in the root.
type c07Cache struct{}

func (c07Cache) BlockRootToSlot(_ context.Context, root phase0.Root) (phase0.Slot, error) {
	return phase0.Slot(300 + int(root[1])), nil
}

func c07Name(i int) string { return fmt.Sprintf("node%d", i) }

// ---------------------------------------------------------------------------------------------
// response content

func c07Root(v, slotOff, tag int) phase0.Root {
	var r phase0.Root
	r[0] = byte(v)
	r[1] = byte(slotOff)
	r[31] = byte(tag)
	r[30] = 0xc7
	return r
}

// c07AttData: score = source + target + 1/(1 + slot - head slot); three ways of realising the
// score classes 0 < 1 < 2 with the real score function's inputs.
func c07AttData(p c07Prov, tag int, style int, sameForAll bool) *phase0.AttestationData {
	if p.K == "invalid" && p.Inv == "nil" {
		return nil
	}
	source, dist := c07Epoch-1, 1
	if !sameForAll {
		switch style % 3 {
		case 0:
			dist = []int{3, 1, 0}[p.S]
		case 1:
			source = c07Epoch - 3 + p.S
		case 2:
			source = []int{c07Epoch - 2, c07Epoch - 2, c07Epoch - 1}[p.S]
			dist = []int{1, 0, 3}[p.S]
		}
	} else {
		tag = 0
		dist = p.V % 2
	}
	d := &phase0.AttestationData{
		Slot:            c07Slot,
		Index:           phase0.CommitteeIndex(tag),
		BeaconBlockRoot: c07Root(p.V, 25-dist, tag),
		Source:          &phase0.Checkpoint{Epoch: phase0.Epoch(source), Root: c07Root(0, 0, 0)},
		Target:          &phase0.Checkpoint{Epoch: c07Epoch, Root: c07Root(0, 1, 0)},
	}
	if p.K == "invalid" {
		switch p.Inv {
		case "niltarget":
			d.Target = nil
		case "badtarget":
			if style%2 == 0 {
				d.Target.Epoch = c07Epoch + 1
			} else {
				d.Target.Epoch = c07Epoch - 1
			}
		}
	}
	return d
}

func c07Aggregate(p c07Prov, tag int, style int) *phase0.Attestation {
	if p.K == "invalid" {
		return nil
	}
	length := []uint64{8, 16, 10}[style%3]
	set := [][]int{{2, 4, 6}, {3, 7, 12}, {1, 5, 10}}[style%3][p.S]
	bits := bitfield.NewBitlist(length)
	for i := 0; i < set; i++ {
		bits.SetBitAt(uint64((i*3+tag)%int(length)), true)
	}
	for i := uint64(0); bits.Count() < uint64(set); i++ {
		bits.SetBitAt(i, true)
	}
	return &phase0.Attestation{
		AggregationBits: bits,
		Data:            c07AttData(c07Prov{K: "valid", S: 1}, tag, 0, false),
	}
}

func c07Contribution(p c07Prov, tag int, style int) *altair.SyncCommitteeContribution {
	if p.K == "invalid" {
		return nil
	}
	bits := bitfield.NewBitvector128()
	for i := 0; i < 1+4*p.S+style%3; i++ {
		bits.SetBitAt(uint64(i*5+tag), true)
	}
	return &altair.SyncCommitteeContribution{
		Slot:              c07Slot,
		BeaconBlockRoot:   c07Root(0, 25, 0),
		SubcommitteeIndex: uint64(tag),
		AggregationBits:   bits,
	}
}

func c07Proposal(p c07Prov, tag int, style int) *api.VersionedProposal {
	if p.K == "invalid" && p.Inv == "nil" {
		return nil
	}
	fee := bellatrix.ExecutionAddress{0xfe, byte(tag)}
	if p.K == "invalid" && p.Inv == "zerofee" {
		fee = bellatrix.ExecutionAddress{}
	}
	consensus, execution := int64(1000*(p.S+1)+style%7), int64(7)
	if style%2 == 1 {
		consensus, execution = 5, int64(1000*(p.S+1))
	}
	prop := &api.VersionedProposal{
		ConsensusValue: big.NewInt(consensus),
		ExecutionValue: big.NewInt(execution),
	}
	eth1 := &phase0.ETH1Data{BlockHash: make([]byte, 32)}
	if style%4 < 2 {
		prop.Version = spec.DataVersionBellatrix
		prop.Bellatrix = &bellatrix.BeaconBlock{
			Slot:          c07Slot,
			ProposerIndex: phase0.ValidatorIndex(tag),
			Body: &bellatrix.BeaconBlockBody{
				ETH1Data:         eth1,
				SyncAggregate:    &altair.SyncAggregate{SyncCommitteeBits: bitfield.NewBitvector512()},
				ExecutionPayload: &bellatrix.ExecutionPayload{FeeRecipient: fee},
			},
		}
	} else {
		prop.Version = spec.DataVersionCapella
		prop.Capella = &capella.BeaconBlock{
			Slot:          c07Slot,
			ProposerIndex: phase0.ValidatorIndex(tag),
			Body: &capella.BeaconBlockBody{
				ETH1Data:         eth1,
				SyncAggregate:    &altair.SyncAggregate{SyncCommitteeBits: bitfield.NewBitvector512()},
				ExecutionPayload: &capella.ExecutionPayload{FeeRecipient: fee},
			},
		}
	}
	return prop
}

func c07ProposalTag(p *api.VersionedProposal) int {
	switch {
	case p.Bellatrix != nil:
		return int(p.Bellatrix.ProposerIndex)
	case p.Capella != nil:
		return int(p.Capella.ProposerIndex)
	}
	return 0
}

func c07RootData(p c07Prov, tag int, style int, counting bool) *phase0.Root {
	if p.K == "invalid" {
		return nil
	}
	var r phase0.Root
	if counting {
		r = c07Root(p.V, (p.V*(style%3))%4, 0)
	} else {
		r = c07Root(0, p.S*(1+style%3), tag)
	}
	return &r
}

func c07Header(p c07Prov, tag int) *apiv1.BeaconBlockHeader {
	if p.K == "invalid" {
		return nil
	}
	return &apiv1.BeaconBlockHeader{
		Root:      c07Root(0, 0, tag),
		Canonical: true,
		Header: &phase0.SignedBeaconBlockHeader{
			Message: &phase0.BeaconBlockHeader{Slot: c07Slot, ProposerIndex: phase0.ValidatorIndex(tag)},
		},
	}
}

func c07Block(p c07Prov, tag int) *spec.VersionedSignedBeaconBlock {
	if p.K == "invalid" {
		return nil
	}
	return &spec.VersionedSignedBeaconBlock{
		Version: spec.DataVersionPhase0,
		Phase0: &phase0.SignedBeaconBlock{
			Message: &phase0.BeaconBlock{
				Slot:          c07Slot,
				ProposerIndex: phase0.ValidatorIndex(tag),
				Body:          &phase0.BeaconBlockBody{ETH1Data: &phase0.ETH1Data{BlockHash: make([]byte, 32)}},
			},
		},
	}
}

// ---------------------------------------------------------------------------------------------
// the 17 strategies

// c07Out is what a strategy call returned: whose object (tag embedded in the data), which value
// (majority variants), whether it reported success with missing data.
type c07Out struct {
	who, val int
	nildata  bool
	err      error
}

// c07Kit builds the real strategy over the cores' fakes; it returns the call and the real score of
// every node's response (scaled by 1000; 0 where the strategy has no score).
type c07Kit func(ctx context.Context, sc *c07Scenario, cores []*c07Core, style int) (func(context.Context) c07Out, []int, error)

func c07Scaled(score float64) int { return int(math.Round(score * 1000)) }

func c07Providers[T any, P any](cores []*c07Core, data func(c *c07Core) T, wrap func(c07Fake[T]) P) (map[string]P, []T) {
	m := make(map[string]P, len(cores))
	ds := make([]T, len(cores))
	for i, c := range cores {
		ds[i] = data(c)
		m[c07Name(c.idx)] = wrap(c07Fake[T]{c07Core: c, data: ds[i]})
	}
	return m, ds
}

func c07AttOut(n int) func(*api.Response[*phase0.AttestationData], error) c07Out {
	return func(r *api.Response[*phase0.AttestationData], err error) c07Out {
		if err != nil {
			return c07Out{err: err}
		}
		if r == nil || r.Data == nil {
			return c07Out{nildata: true}
		}
		return c07Out{who: int(r.Data.Index), val: int(r.Data.BeaconBlockRoot[0])}
	}
}

func c07AttKit(impl string) c07Kit {
	return func(ctx context.Context, sc *c07Scenario, cores []*c07Core, style int) (func(context.Context) c07Out, []int, error) {
		provs, ds := c07Providers(cores,
			func(c *c07Core) *phase0.AttestationData { return c07AttData(c.script, c.idx, style, impl == "majority") },
			func(f c07Fake[*phase0.AttestationData]) eth2client.AttestationDataProvider { return &c07AttP{f} })
		ct := verifsupport.NewChainTime(32, 12*time.Second)
		ct.SetSlot(c07Slot)
		timeout := time.Duration(sc.T) * time.Millisecond
		opts := &api.AttestationDataOpts{Slot: c07Slot, CommitteeIndex: 0}
		scores := make([]int, len(cores))
		out := c07AttOut(sc.N)
		switch impl {
		case "best":
			s, err := attbest.New(ctx, attbest.WithLogLevel(zerolog.Disabled), attbest.WithClientMonitor(nullmetrics.New()),
				attbest.WithTimeout(timeout), attbest.WithAttestationDataProviders(provs), attbest.WithChainTime(ct),
				attbest.WithBlockRootToSlotCache(c07Cache{}), attbest.WithProcessConcurrency(4))
			if err != nil {
				return nil, nil, err
			}
			for i, c := range cores {
				if c.script.K == "valid" {
					scores[i] = c07Scaled(s.VerifC07Score(ctx, c07Name(c.idx), ds[i]))
				}
			}
			return func(ctx context.Context) c07Out { return out(s.AttestationData(ctx, opts)) }, scores, nil
		case "majority":
			s, err := attmajority.New(ctx, attmajority.WithLogLevel(zerolog.Disabled), attmajority.WithClientMonitor(nullmetrics.New()),
				attmajority.WithTimeout(timeout), attmajority.WithAttestationDataProviders(provs), attmajority.WithChainTime(ct),
				attmajority.WithBlockRootToSlotCache(c07Cache{}), attmajority.WithProcessConcurrency(4), attmajority.WithThreshold(sc.Thr))
			if err != nil {
				return nil, nil, err
			}
			return func(ctx context.Context) c07Out { return out(s.AttestationData(ctx, opts)) }, scores, nil
		default:
			s, err := attfirst.New(ctx, attfirst.WithLogLevel(zerolog.Disabled), attfirst.WithClientMonitor(nullmetrics.New()),
				attfirst.WithTimeout(timeout), attfirst.WithAttestationDataProviders(provs))
			if err != nil {
				return nil, nil, err
			}
			return func(ctx context.Context) c07Out { return out(s.AttestationData(ctx, opts)) }, scores, nil
		}
	}
}

func c07AggKit(impl string) c07Kit {
	return func(ctx context.Context, sc *c07Scenario, cores []*c07Core, style int) (func(context.Context) c07Out, []int, error) {
		provs, ds := c07Providers(cores,
			func(c *c07Core) *phase0.Attestation { return c07Aggregate(c.script, c.idx, style) },
			func(f c07Fake[*phase0.Attestation]) eth2client.AggregateAttestationProvider { return &c07AggP{f} })
		timeout := time.Duration(sc.T) * time.Millisecond
		opts := &api.AggregateAttestationOpts{Slot: c07Slot}
		scores := make([]int, len(cores))
		out := func(r *api.Response[*phase0.Attestation], err error) c07Out {
			if err != nil {
				return c07Out{err: err}
			}
			if r == nil || r.Data == nil {
				return c07Out{nildata: true}
			}
			return c07Out{who: int(r.Data.Data.Index)}
		}
		if impl == "best" {
			s, err := aggbest.New(ctx, aggbest.WithLogLevel(zerolog.Disabled), aggbest.WithClientMonitor(nullmetrics.New()),
				aggbest.WithTimeout(timeout), aggbest.WithAggregateAttestationProviders(provs), aggbest.WithProcessConcurrency(4))
			if err != nil {
				return nil, nil, err
			}
			for i, c := range cores {
				if c.script.K == "valid" {
					scores[i] = c07Scaled(s.VerifC07Score(ctx, c07Name(c.idx), ds[i]))
				}
			}
			return func(ctx context.Context) c07Out { return out(s.AggregateAttestation(ctx, opts)) }, scores, nil
		}
		s, err := aggfirst.New(ctx, aggfirst.WithLogLevel(zerolog.Disabled), aggfirst.WithClientMonitor(nullmetrics.New()),
			aggfirst.WithTimeout(timeout), aggfirst.WithAggregateAttestationProviders(provs))
		if err != nil {
			return nil, nil, err
		}
		return func(ctx context.Context) c07Out { return out(s.AggregateAttestation(ctx, opts)) }, scores, nil
	}
}

func c07PropKit(impl string) c07Kit {
	return func(ctx context.Context, sc *c07Scenario, cores []*c07Core, style int) (func(context.Context) c07Out, []int, error) {
		provs, ds := c07Providers(cores,
			func(c *c07Core) *api.VersionedProposal { return c07Proposal(c.script, c.idx, style) },
			func(f c07Fake[*api.VersionedProposal]) eth2client.ProposalProvider { return &c07PropP{f} })
		timeout := time.Duration(sc.T) * time.Millisecond
		opts := &api.ProposalOpts{Slot: c07Slot}
		scores := make([]int, len(cores))
		out := func(r *api.Response[*api.VersionedProposal], err error) c07Out {
			if err != nil {
				return c07Out{err: err}
			}
			if r == nil || r.Data == nil {
				return c07Out{nildata: true}
			}
			return c07Out{who: c07ProposalTag(r.Data)}
		}
		if impl == "best" {
			ct := verifsupport.NewChainTime(32, 12*time.Second)
			ct.SetSlot(c07Slot)
			s, err := propbest.New(ctx, propbest.WithLogLevel(zerolog.Disabled), propbest.WithClientMonitor(nullmetrics.New()),
				propbest.WithTimeout(timeout), propbest.WithProposalProviders(provs), propbest.WithProcessConcurrency(4),
				propbest.WithEventsProvider(mock.NewEventsProvider()), propbest.WithChainTimeService(ct),
				propbest.WithSpecProvider(mock.NewSpecProvider()), propbest.WithSignedBeaconBlockProvider(mock.NewSignedBeaconBlockProvider()),
				propbest.WithBlockRootToSlotCache(c07Cache{}))
			if err != nil {
				return nil, nil, err
			}
			for i, c := range cores {
				if c.script.K == "valid" {
					scores[i] = c07Scaled(s.VerifC07Score(ctx, c07Name(c.idx), ds[i]))
				}
			}
			return func(ctx context.Context) c07Out { return out(s.Proposal(ctx, opts)) }, scores, nil
		}
		s, err := propfirst.New(ctx, propfirst.WithLogLevel(zerolog.Disabled), propfirst.WithClientMonitor(nullmetrics.New()),
			propfirst.WithTimeout(timeout), propfirst.WithProposalProviders(provs))
		if err != nil {
			return nil, nil, err
		}
		return func(ctx context.Context) c07Out { return out(s.Proposal(ctx, opts)) }, scores, nil
	}
}

func c07ContribKit(impl string) c07Kit {
	return func(ctx context.Context, sc *c07Scenario, cores []*c07Core, style int) (func(context.Context) c07Out, []int, error) {
		provs, ds := c07Providers(cores,
			func(c *c07Core) *altair.SyncCommitteeContribution { return c07Contribution(c.script, c.idx, style) },
			func(f c07Fake[*altair.SyncCommitteeContribution]) eth2client.SyncCommitteeContributionProvider {
				return &c07ContribP{f}
			})
		timeout := time.Duration(sc.T) * time.Millisecond
		opts := &api.SyncCommitteeContributionOpts{Slot: c07Slot, SubcommitteeIndex: 0, BeaconBlockRoot: c07Root(0, 25, 0)}
		scores := make([]int, len(cores))
		out := func(r *api.Response[*altair.SyncCommitteeContribution], err error) c07Out {
			if err != nil {
				return c07Out{err: err}
			}
			if r == nil || r.Data == nil {
				return c07Out{nildata: true}
			}
			return c07Out{who: int(r.Data.SubcommitteeIndex)}
		}
		if impl == "best" {
			s, err := contribbest.New(ctx, contribbest.WithLogLevel(zerolog.Disabled), contribbest.WithClientMonitor(nullmetrics.New()),
				contribbest.WithTimeout(timeout), contribbest.WithSyncCommitteeContributionProviders(provs), contribbest.WithProcessConcurrency(4))
			if err != nil {
				return nil, nil, err
			}
			for i, c := range cores {
				if c.script.K == "valid" {
					scores[i] = c07Scaled(s.VerifC07Score(ctx, c07Name(c.idx), ds[i]))
				}
			}
			return func(ctx context.Context) c07Out { return out(s.SyncCommitteeContribution(ctx, opts)) }, scores, nil
		}
		s, err := contribfirst.New(ctx, contribfirst.WithLogLevel(zerolog.Disabled), contribfirst.WithClientMonitor(nullmetrics.New()),
			contribfirst.WithTimeout(timeout), contribfirst.WithSyncCommitteeContributionProviders(provs))
		if err != nil {
			return nil, nil, err
		}
		return func(ctx context.Context) c07Out { return out(s.SyncCommitteeContribution(ctx, opts)) }, scores, nil
	}
}

func c07RootKit(impl string) c07Kit {
	return func(ctx context.Context, sc *c07Scenario, cores []*c07Core, style int) (func(context.Context) c07Out, []int, error) {
		provs, ds := c07Providers(cores,
			func(c *c07Core) *phase0.Root { return c07RootData(c.script, c.idx, style, impl == "majority") },
			func(f c07Fake[*phase0.Root]) eth2client.BeaconBlockRootProvider { return &c07RootP{f} })
		timeout := time.Duration(sc.T) * time.Millisecond
		opts := &api.BeaconBlockRootOpts{Block: "head"}
		scores := make([]int, len(cores))
		out := func(r *api.Response[*phase0.Root], err error) c07Out {
			if err != nil {
				return c07Out{err: err}
			}
			if r == nil || r.Data == nil {
				return c07Out{nildata: true}
			}
			return c07Out{who: int(r.Data[31]), val: int(r.Data[0])}
		}
		switch impl {
		case "latest":
			s, err := rootlatest.New(ctx, rootlatest.WithLogLevel(zerolog.Disabled), rootlatest.WithClientMonitor(nullmetrics.New()),
				rootlatest.WithTimeout(timeout), rootlatest.WithBeaconBlockRootProviders(provs), rootlatest.WithProcessConcurrency(4),
				rootlatest.WithBlockRootToSlotCache(c07Cache{}))
			if err != nil {
				return nil, nil, err
			}
			// `latest` scores a root by the slot of its block, which it reads from the cache.
			for i, c := range cores {
				if c.script.K == "valid" {
					slot, _ := c07Cache{}.BlockRootToSlot(ctx, *ds[i])
					scores[i] = int(slot)
				}
			}
			return func(ctx context.Context) c07Out { return out(s.BeaconBlockRoot(ctx, opts)) }, scores, nil
		case "majority":
			s, err := rootmajority.New(ctx, rootmajority.WithLogLevel(zerolog.Disabled), rootmajority.WithClientMonitor(nullmetrics.New()),
				rootmajority.WithTimeout(timeout), rootmajority.WithBeaconBlockRootProviders(provs), rootmajority.WithProcessConcurrency(4),
				rootmajority.WithBlockRootToSlotCache(c07Cache{}))
			if err != nil {
				return nil, nil, err
			}
			return func(ctx context.Context) c07Out { return out(s.BeaconBlockRoot(ctx, opts)) }, scores, nil
		default:
			s, err := rootfirst.New(ctx, rootfirst.WithLogLevel(zerolog.Disabled), rootfirst.WithClientMonitor(nullmetrics.New()),
				rootfirst.WithTimeout(timeout), rootfirst.WithBeaconBlockRootProviders(provs))
			if err != nil {
				return nil, nil, err
			}
			return func(ctx context.Context) c07Out { return out(s.BeaconBlockRoot(ctx, opts)) }, scores, nil
		}
	}
}

func c07HeaderKit() c07Kit {
	return func(ctx context.Context, sc *c07Scenario, cores []*c07Core, _ int) (func(context.Context) c07Out, []int, error) {
		provs, _ := c07Providers(cores,
			func(c *c07Core) *apiv1.BeaconBlockHeader { return c07Header(c.script, c.idx) },
			func(f c07Fake[*apiv1.BeaconBlockHeader]) eth2client.BeaconBlockHeadersProvider { return &c07HeaderP{f} })
		s, err := headerfirst.New(ctx, headerfirst.WithLogLevel(zerolog.Disabled), headerfirst.WithClientMonitor(nullmetrics.New()),
			headerfirst.WithTimeout(time.Duration(sc.T)*time.Millisecond), headerfirst.WithBeaconBlockHeadersProviders(provs))
		if err != nil {
			return nil, nil, err
		}
		opts := &api.BeaconBlockHeaderOpts{Block: "head"}
		return func(ctx context.Context) c07Out {
			r, err := s.BeaconBlockHeader(ctx, opts)
			if err != nil {
				return c07Out{err: err}
			}
			if r == nil || r.Data == nil || r.Data.Header == nil || r.Data.Header.Message == nil {
				return c07Out{nildata: true}
			}
			return c07Out{who: int(r.Data.Header.Message.ProposerIndex)}
		}, make([]int, len(cores)), nil
	}
}

func c07BlockKit() c07Kit {
	return func(ctx context.Context, sc *c07Scenario, cores []*c07Core, _ int) (func(context.Context) c07Out, []int, error) {
		provs, _ := c07Providers(cores,
			func(c *c07Core) *spec.VersionedSignedBeaconBlock { return c07Block(c.script, c.idx) },
			func(f c07Fake[*spec.VersionedSignedBeaconBlock]) eth2client.SignedBeaconBlockProvider { return &c07BlockP{f} })
		s, err := blockfirst.New(ctx, blockfirst.WithLogLevel(zerolog.Disabled), blockfirst.WithClientMonitor(nullmetrics.New()),
			blockfirst.WithTimeout(time.Duration(sc.T)*time.Millisecond), blockfirst.WithSignedBeaconBlockProviders(provs))
		if err != nil {
			return nil, nil, err
		}
		opts := &api.SignedBeaconBlockOpts{Block: "head"}
		return func(ctx context.Context) c07Out {
			r, err := s.SignedBeaconBlock(ctx, opts)
			if err != nil {
				return c07Out{err: err}
			}
			if r == nil || r.Data == nil || r.Data.Phase0 == nil || r.Data.Phase0.Message == nil {
				return c07Out{nildata: true}
			}
			return c07Out{who: int(r.Data.Phase0.Message.ProposerIndex)}
		}, make([]int, len(cores)), nil
	}
}

var c07Kits = map[string]c07Kit{
	"attestationdata/best":            c07AttKit("best"),
	"attestationdata/majority":        c07AttKit("majority"),
	"attestationdata/first":           c07AttKit("first"),
	"aggregateattestation/best":       c07AggKit("best"),
	"aggregateattestation/first":      c07AggKit("first"),
	"beaconblockproposal/best":        c07PropKit("best"),
	"beaconblockproposal/first":       c07PropKit("first"),
	"synccommitteecontribution/best":  c07ContribKit("best"),
	"synccommitteecontribution/first": c07ContribKit("first"),
	"beaconblockroot/first":           c07RootKit("first"),
	"beaconblockroot/latest":          c07RootKit("latest"),
	"beaconblockroot/majority":        c07RootKit("majority"),
	"beaconblockheader/first":         c07HeaderKit(),
	"signedbeaconblock/first":         c07BlockKit(),
}

// ---------------------------------------------------------------------------------------------
// scheduling-delay monitor: a scenario during which this process was stalled is not judged

type c07Stall struct {
	at   time.Time
	over time.Duration
}

type c07Monitor struct {
	mu     sync.Mutex
	stalls []c07Stall
	stop   chan struct{}
}

func c07StartMonitor() *c07Monitor {
	m := &c07Monitor{stop: make(chan struct{})}
	go func() {
		const tick = 2 * time.Millisecond
		for {
			select {
			case <-m.stop:
				return
			default:
			}
			t := time.Now()
			time.Sleep(tick)
			if over := time.Since(t) - tick; over > 8*time.Millisecond {
				m.mu.Lock()
				m.stalls = append(m.stalls, c07Stall{at: t, over: over})
				m.mu.Unlock()
			}
		}
	}()
	return m
}

func (m *c07Monitor) maxBetween(from, to time.Time) time.Duration {
	m.mu.Lock()
	defer m.mu.Unlock()
	var worst time.Duration
	for _, s := range m.stalls {
		if s.at.Add(s.over+2*time.Millisecond).After(from) && s.at.Before(to) && s.over > worst {
			worst = s.over
		}
	}
	return worst
}

// ---------------------------------------------------------------------------------------------

type c07Record struct {
	reset, ret verifsupport.Ev
}

func c07Run(sc *c07Scenario, mon *c07Monitor) (c07Record, error) {
	kit, ok := c07Kits[sc.Strat]
	if !ok {
		return c07Record{}, fmt.Errorf("unknown strategy %q", sc.Strat)
	}
	rnd := rand.New(rand.NewSource(sc.Seed))
	T := time.Duration(sc.T) * time.Millisecond
	style := rnd.Intn(12)
	cores := make([]*c07Core, sc.N)
	for i := range cores {
		var frac float64
		switch sc.Provs[i].Ph {
		case "early":
			frac = 0.20 * rnd.Float64()
		case "mid":
			frac = 0.65 + 0.15*rnd.Float64()
		default:
			frac = 1.30 + 0.15*rnd.Float64()
		}
		cores[i] = &c07Core{idx: i + 1, script: sc.Provs[i], delay: time.Duration(frac * float64(T)), maxSilent: 3 * T,
			done: make(chan struct{})}
	}
	ctx := context.Background()
	call, scores, err := kit(ctx, sc, cores, style)
	if err != nil {
		return c07Record{}, fmt.Errorf("scenario %d: cannot build %s: %w", sc.Sc, sc.Strat, err)
	}

	type result struct {
		out c07Out
		at  time.Duration
	}
	resCh := make(chan result, 1)
	start := time.Now()
	for _, c := range cores {
		c.t0 = start
	}
	go pprof.Do(ctx, pprof.Labels("c07sc", strconv.Itoa(sc.Sc)), func(ctx context.Context) {
		out := call(ctx)
		resCh <- result{out: out, at: time.Since(start)}
	})
	var res result
	noreturn := false
	select {
	case res = <-resCh:
	case <-time.After(5 * T / 2):
		noreturn = true
		res.at = time.Since(start)
	}
	// Let every fake finish (late nodes answer after the strategy has gone).
	limit := time.NewTimer(time.Until(start.Add(3*T + 200*time.Millisecond)))
	defer limit.Stop()
	for _, c := range cores {
		select {
		case <-c.done:
		case <-limit.C:
		}
	}
	end := time.Now()

	obs := make([]verifsupport.Ev, sc.N)
	for i, c := range cores {
		c.mu.Lock()
		kind, at, called := c.kind, c.at, c.called
		c.mu.Unlock()
		if called == 0 || kind == "" {
			kind = "none"
		}
		o := verifsupport.Ev{"k": kind, "v": 0, "s": 0, "t": int(at / time.Millisecond), "inv": c.script.Inv, "calls": called}
		if kind == "valid" {
			o["v"] = c.script.V
			o["s"] = scores[i]
		}
		obs[i] = o
	}
	reset := verifsupport.Ev{"sc": sc.Sc, "ev": "Reset", "strat": sc.Strat, "variant": sc.Variant, "n": sc.N, "thr": sc.Thr,
		"cap": sc.Cap, "T": sc.T, "obs": obs}
	ret := verifsupport.Ev{"sc": sc.Sc, "ev": "Return", "noreturn": noreturn, "ok": !noreturn && res.out.err == nil,
		"who": res.out.who, "val": res.out.val, "nildata": res.out.nildata, "t": int(res.at / time.Millisecond),
		"jit": int(mon.maxBetween(start, end) / time.Millisecond), "blocked": 0}
	if res.out.err != nil {
		ret["err"] = res.out.err.Error()
	}
	return c07Record{reset: reset, ret: ret}, nil
}

var (
	c07LabelRe = regexp.MustCompile(`"c07sc":"(\d+)"`)
	c07CountRe = regexp.MustCompile(`^(\d+) @`)
)

// c07Blocked counts, per scenario, the goroutines started by the strategy call that are still alive
// after the call has returned and every fake has answered: provider goroutines stuck in a channel
// send nobody will receive (goroutine labels are inherited from the calling goroutine; the profile
// elides runtime frames, so the innermost frame is the strategy's own send statement).
func c07Blocked() map[int]int {
	var buf bytes.Buffer
	_ = pprof.Lookup("goroutine").WriteTo(&buf, 1)
	res := map[int]int{}
	for _, block := range strings.Split(buf.String(), "\n\n") {
		if !strings.Contains(block, "github.com/attestantio/vouch/strategies/") {
			continue
		}
		m := c07LabelRe.FindStringSubmatch(block)
		c := c07CountRe.FindStringSubmatch(block)
		if m == nil || c == nil {
			continue
		}
		id, _ := strconv.Atoi(m[1])
		k, _ := strconv.Atoi(c[1])
		res[id] += k
	}
	return res
}

func TestVerifC07(t *testing.T) {
	var scenarios []c07Scenario
	verifsupport.Scenarios(t, &scenarios)
	tr := verifsupport.OpenTrace(t)
	defer tr.Close()
	zerolog.SetGlobalLevel(zerolog.Disabled)

	par := 96
	if v, err := strconv.Atoi(os.Getenv("VERIF_C07_PAR")); err == nil && v > 0 {
		par = v
	}
	if par > len(scenarios) {
		par = len(scenarios)
	}
	mon := c07StartMonitor()
	records := make([]c07Record, len(scenarios))
	errs := make([]error, len(scenarios))
	next := make(chan int)
	var wg sync.WaitGroup
	for w := 0; w < par; w++ {
		wg.Add(1)
		go func(w int) {
			defer wg.Done()
			// de-synchronise the workers so that deadlines do not all fall on the same instant
			time.Sleep(time.Duration(w) * 7 * time.Millisecond)
			for i := range next {
				records[i], errs[i] = c07Run(&scenarios[i], mon)
			}
		}(w)
	}
	for i := range scenarios {
		next <- i
	}
	close(next)
	wg.Wait()
	close(mon.stop)
	for _, err := range errs {
		if err != nil {
			t.Fatal(err)
		}
	}
	time.Sleep(100 * time.Millisecond)
	blocked := c07Blocked()
	for i := range records {
		if records[i].ret["noreturn"] == false {
			records[i].ret["blocked"] = blocked[scenarios[i].Sc]
		}
		tr.Emit(records[i].reset)
		tr.Emit(records[i].ret)
	}
}
