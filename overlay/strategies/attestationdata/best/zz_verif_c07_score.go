//go:build verif

package best

import (
	"context"

	"github.com/attestantio/go-eth2-client/spec/phase0"
)

// VerifC07Score exposes the real score function to the C07 conformance driver (declaration only;
// injected with -overlay by /verif/check, never committed to the repository).
func (s *Service) VerifC07Score(ctx context.Context, name string, data *phase0.AttestationData) float64 {
	return s.scoreAttestationData(ctx, name, data)
}
