//go:build verif

package best

import (
	"context"

	"github.com/attestantio/go-eth2-client/spec/altair"
)

// VerifC07Score exposes the real score function to the C07 conformance driver (declaration only;
// injected with -overlay by /verif/check, never committed to the repository).
func (s *Service) VerifC07Score(ctx context.Context, name string, contribution *altair.SyncCommitteeContribution) float64 {
	return s.scoreSyncCommitteeContribution(ctx, name, contribution)
}
