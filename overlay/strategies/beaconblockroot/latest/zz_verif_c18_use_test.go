// Conformance driver of property C18 (spec/Cache.tla) for the CONSUMERS the property is
// anchored in: the "latest" and "majority" beacon block root strategies and the "best" attestation data strategy,
// wired to the REAL block-root cache the way main.go wires them.  The TLC-generated behaviours of Cache.tla
// (block events, head events, lookups, cleaning, clock) are run on the real cache through its public interface;
// a Use step asks a real strategy, whose scripted beacon nodes answer the step's roots, for its choice.
// Injected with -overlay by /verif/check; never committed to the repository.
package latest_test

import (
	"context"
	"errors"
	"fmt"
	"testing"
	"time"

	eth2client "github.com/attestantio/go-eth2-client"
	"github.com/attestantio/go-eth2-client/api"
	apiv1 "github.com/attestantio/go-eth2-client/api/v1"
	"github.com/attestantio/go-eth2-client/spec"
	"github.com/attestantio/go-eth2-client/spec/altair"
	"github.com/attestantio/go-eth2-client/spec/phase0"
	cachestandard "github.com/attestantio/vouch/services/cache/standard"
	nullmetrics "github.com/attestantio/vouch/services/metrics/null"
	bestattestationdata "github.com/attestantio/vouch/strategies/attestationdata/best"
	latestroot "github.com/attestantio/vouch/strategies/beaconblockroot/latest"
	majorityroot "github.com/attestantio/vouch/strategies/beaconblockroot/majority"
	"github.com/attestantio/vouch/verifsupport"
	"github.com/rs/zerolog"
)

type step struct {
	Ev     string   `json:"ev"`
	Root   int      `json:"root"`
	Fetch  string   `json:"fetch"`
	Now    uint64   `json:"now"`
	Chain  []uint64 `json:"chain"`
	Parent []int    `json:"parent"`
	Ok     bool     `json:"ok"`
	Kind   string   `json:"kind"`
	Roots  []int    `json:"roots"`
}

type scenario struct {
	Sc    int    `json:"sc"`
	Steps []step `json:"steps"`
}

func rootOf(i int) phase0.Root {
	var r phase0.Root
	if i == 0 {
		r[0], r[1] = 0xee, 0xee // a block outside the model
		return r
	}
	r[0] = byte(i)
	r[31] = byte(i)
	return r
}

func indexOf(r phase0.Root) int {
	if r[0] == r[31] && r[0] != 0 {
		return int(r[0])
	}
	return -1
}

type eventsProvider struct {
	handlers map[string]eth2client.EventHandlerFunc
}

func (e *eventsProvider) Events(_ context.Context, topics []string, handler eth2client.EventHandlerFunc) error {
	for _, t := range topics {
		e.handlers[t] = handler
	}
	return nil
}

// node is the scripted beacon node behind the cache: headers and (Altair) signed blocks of the chain.
type node struct {
	chain  []uint64
	parent []int
	mode   string // outcome of the next header fetches
	called string
	bmode  string
	bcall  string
}

func (n *node) index(block string) int {
	for i := range n.chain {
		if rootOf(i+1).String() == block {
			return i
		}
	}
	return -1
}

func (n *node) BeaconBlockHeader(_ context.Context, opts *api.BeaconBlockHeaderOpts) (*api.Response[*apiv1.BeaconBlockHeader], error) {
	i := n.index(opts.Block)
	if n.mode == "err" || i < 0 {
		n.called = "err"
		return nil, errors.New("scripted failure")
	}
	n.called = "ok"
	return &api.Response[*apiv1.BeaconBlockHeader]{
		Data: &apiv1.BeaconBlockHeader{Root: rootOf(i + 1), Canonical: true,
			Header: &phase0.SignedBeaconBlockHeader{Message: &phase0.BeaconBlockHeader{Slot: phase0.Slot(n.chain[i])}}},
		Metadata: map[string]any{},
	}, nil
}

func (n *node) SignedBeaconBlock(_ context.Context, opts *api.SignedBeaconBlockOpts) (*api.Response[*spec.VersionedSignedBeaconBlock], error) {
	i := n.index(opts.Block)
	if n.bmode == "err" || i < 0 {
		n.bcall = "err"
		return nil, errors.New("scripted failure")
	}
	n.bcall = "ok"
	return &api.Response[*spec.VersionedSignedBeaconBlock]{
		Data: &spec.VersionedSignedBeaconBlock{Version: spec.DataVersionAltair,
			Altair: &altair.SignedBeaconBlock{Message: &altair.BeaconBlock{Slot: phase0.Slot(n.chain[i]),
				ParentRoot: rootOf(n.parent[i]), Body: &altair.BeaconBlockBody{}}}},
		Metadata: map[string]any{},
	}, nil
}

// answer is one beacon node behind a strategy: it answers the root the step gives it.
type answer struct {
	root    phase0.Root
	attSlot phase0.Slot
	epoch   phase0.Epoch
}

func (a *answer) BeaconBlockRoot(_ context.Context, _ *api.BeaconBlockRootOpts) (*api.Response[*phase0.Root], error) {
	r := a.root
	return &api.Response[*phase0.Root]{Data: &r, Metadata: map[string]any{}}, nil
}

func (a *answer) AttestationData(_ context.Context, _ *api.AttestationDataOpts) (*api.Response[*phase0.AttestationData], error) {
	src := phase0.Epoch(0)
	if a.epoch > 0 {
		src = a.epoch - 1
	}
	return &api.Response[*phase0.AttestationData]{
		Data: &phase0.AttestationData{Slot: a.attSlot, BeaconBlockRoot: a.root,
			Source: &phase0.Checkpoint{Epoch: src}, Target: &phase0.Checkpoint{Epoch: a.epoch}},
		Metadata: map[string]any{},
	}, nil
}

func TestVerifC18Use(t *testing.T) {
	var scenarios []scenario
	verifsupport.Scenarios(t, &scenarios)
	tr := verifsupport.OpenTrace(t)
	defer tr.Close()
	ctx := context.Background()

	for _, sc := range scenarios {
		var cache *cachestandard.Service
		var n *node
		var events *eventsProvider
		var sched *verifsupport.Scheduler
		var ct *verifsupport.ChainTime

		project := func() [][2]uint64 {
			res := make([][2]uint64, 0, len(n.chain))
			mode := n.mode
			n.mode = "err"
			for i := range n.chain {
				if slot, err := cache.BlockRootToSlot(ctx, rootOf(i+1)); err == nil {
					res = append(res, [2]uint64{uint64(i + 1), uint64(slot)})
				}
			}
			n.mode = mode
			return res
		}

		for _, st := range sc.Steps {
			switch st.Ev {
			case "Reset":
				ct = verifsupport.NewChainTime(32, 12*time.Second)
				ct.SetSlot(st.Now)
				parent := st.Parent
				if parent == nil {
					parent = make([]int, len(st.Chain))
				}
				n = &node{chain: st.Chain, parent: parent, mode: "ok", bmode: "ok"}
				events = &eventsProvider{handlers: map[string]eth2client.EventHandlerFunc{}}
				sched = verifsupport.NewScheduler()
				var err error
				cache, err = cachestandard.New(ctx,
					cachestandard.WithLogLevel(zerolog.Disabled),
					cachestandard.WithMonitor(nullmetrics.New()),
					cachestandard.WithChainTime(ct),
					cachestandard.WithSignedBeaconBlockProvider(n),
					cachestandard.WithBeaconBlockHeadersProvider(n),
					cachestandard.WithEventsProvider(events),
					cachestandard.WithScheduler(sched),
				)
				if err != nil {
					t.Fatalf("cache New: %v", err)
				}
				tr.Emit(verifsupport.Ev{"sc": sc.Sc, "ev": "Reset", "chain": st.Chain, "parent": parent, "now": st.Now})
			case "Advance":
				ct.SetSlot(st.Now)
				tr.Emit(verifsupport.Ev{"sc": sc.Sc, "ev": "Advance", "now": st.Now})
			case "BlockEvent", "CtlBlockEvent":
				// (the controller's handler is driven in TestVerifC18Ctl; here both are the cache's own handler)
				events.handlers["block"](&apiv1.Event{Topic: "block",
					Data: &apiv1.BlockEvent{Slot: phase0.Slot(n.chain[st.Root-1]), Block: rootOf(st.Root)}})
				tr.Emit(verifsupport.Ev{"sc": sc.Sc, "ev": "BlockEvent", "root": st.Root, "map": project()})
			case "CtlHeadEvent", "ExecHead":
				// not this driver's business
			case "HeadEvent":
				n.bcall = "none"
				n.bmode = "ok"
				if !st.Ok {
					n.bmode = "err"
				}
				events.handlers["head"](&apiv1.Event{Topic: "head",
					Data: &apiv1.HeadEvent{Slot: phase0.Slot(n.chain[st.Root-1]), Block: rootOf(st.Root)}})
				tr.Emit(verifsupport.Ev{"sc": sc.Sc, "ev": "HeadEvent", "root": st.Root, "ok": n.bcall == "ok", "ehead": 0, "map": project()})
			case "Lookup":
				n.called = "none"
				n.mode = "ok"
				if st.Fetch == "err" {
					n.mode = "err"
				}
				slot, err := cache.BlockRootToSlot(ctx, rootOf(st.Root))
				ev := verifsupport.Ev{"sc": sc.Sc, "ev": "Lookup", "root": st.Root, "fetch": n.called}
				if err != nil {
					ev["ok"] = false
					ev["slot"] = -1
				} else {
					ev["ok"] = true
					ev["slot"] = uint64(slot)
				}
				ev["map"] = project()
				tr.Emit(ev)
			case "Clean":
				ran := false
				for _, name := range sched.ListJobs(ctx) {
					if sched.Fire(ctx, name) {
						ran = true
					}
				}
				if !ran {
					t.Fatalf("cache registered no periodic job")
				}
				tr.Emit(verifsupport.Ev{"sc": sc.Sc, "ev": "Clean", "map": project()})
			case "Use":
				// the attestation is for a slot after every block of the chain
				attSlot := phase0.Slot(0)
				for _, s := range n.chain {
					if phase0.Slot(s) >= attSlot {
						attSlot = phase0.Slot(s) + 1
					}
				}
				stratClock := verifsupport.NewChainTime(32, 12*time.Second)
				stratClock.SetSlot(uint64(attSlot))
				rootProviders := map[string]eth2client.BeaconBlockRootProvider{}
				dataProviders := map[string]eth2client.AttestationDataProvider{}
				for i, r := range st.Roots {
					a := &answer{root: rootOf(r), attSlot: attSlot, epoch: phase0.Epoch(uint64(attSlot) / 32)}
					rootProviders[fmt.Sprintf("node%d", i+1)] = a
					dataProviders[fmt.Sprintf("node%d", i+1)] = a
				}
				n.mode = "ok"
				if !st.Ok {
					n.mode = "err"
				}
				chosen := -1
				var err error
				switch st.Kind {
				case "latest":
					var s *latestroot.Service
					s, err = latestroot.New(ctx, latestroot.WithLogLevel(zerolog.Disabled), latestroot.WithClientMonitor(nullmetrics.New()),
						latestroot.WithProcessConcurrency(4), latestroot.WithTimeout(2*time.Second),
						latestroot.WithBeaconBlockRootProviders(rootProviders), latestroot.WithBlockRootToSlotCache(cache))
					if err == nil {
						var res *api.Response[*phase0.Root]
						res, err = s.BeaconBlockRoot(ctx, &api.BeaconBlockRootOpts{Block: "head"})
						if err == nil {
							chosen = indexOf(*res.Data)
						}
					}
				case "majority":
					var s *majorityroot.Service
					s, err = majorityroot.New(ctx, majorityroot.WithLogLevel(zerolog.Disabled), majorityroot.WithClientMonitor(nullmetrics.New()),
						majorityroot.WithProcessConcurrency(4), majorityroot.WithTimeout(2*time.Second),
						majorityroot.WithBeaconBlockRootProviders(rootProviders), majorityroot.WithBlockRootToSlotCache(cache))
					if err == nil {
						var res *api.Response[*phase0.Root]
						res, err = s.BeaconBlockRoot(ctx, &api.BeaconBlockRootOpts{Block: "head"})
						if err == nil {
							chosen = indexOf(*res.Data)
						}
					}
				case "best":
					var s *bestattestationdata.Service
					s, err = bestattestationdata.New(ctx, bestattestationdata.WithLogLevel(zerolog.Disabled), bestattestationdata.WithClientMonitor(nullmetrics.New()),
						bestattestationdata.WithProcessConcurrency(4), bestattestationdata.WithTimeout(2*time.Second),
						bestattestationdata.WithChainTime(stratClock),
						bestattestationdata.WithAttestationDataProviders(dataProviders), bestattestationdata.WithBlockRootToSlotCache(cache))
					if err == nil {
						var res *api.Response[*phase0.AttestationData]
						res, err = s.AttestationData(ctx, &api.AttestationDataOpts{Slot: attSlot, CommitteeIndex: 0})
						if err == nil {
							chosen = indexOf(res.Data.BeaconBlockRoot)
						}
					}
				default:
					t.Fatalf("unknown strategy %q", st.Kind)
				}
				ev := verifsupport.Ev{"sc": sc.Sc, "ev": "Use", "kind": st.Kind, "roots": st.Roots, "ok": st.Ok, "root": chosen}
				if err != nil {
					ev["err"] = err.Error()
				}
				ev["map"] = project()
				tr.Emit(ev)
			default:
				t.Fatalf("unknown step %q", st.Ev)
			}
		}
	}
}
