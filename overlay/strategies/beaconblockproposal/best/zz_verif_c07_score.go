//go:build verif

package best

import (
	"context"

	"github.com/attestantio/go-eth2-client/api"
)

// VerifC07Score exposes the real score function to the C07 conformance driver (declaration only;
// injected with -overlay by /verif/check, never committed to the repository).
func (s *Service) VerifC07Score(ctx context.Context, name string, proposal *api.VersionedProposal) float64 {
	return s.scoreBeaconBlockProposal(ctx, name, proposal)
}
