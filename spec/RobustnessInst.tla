--------------------------- MODULE RobustnessInst ---------------------------
(* Property C16 over HISTORIES: no data from a beacon node, relay or configuration can crash Vouch - *)
(* not on the first call of a fresh service object and not on the hundredth call of the object that   *)
(* has been consuming outside data since Vouch started.                                                *)
(*                                                                                                    *)
(* Robustness.tla judges ONE input on a fresh instance.  In production the strategies and services     *)
(* that consume outside data are built once in main.go and live as long as the process: the builder-   *)
(* bid strategy is asked on every proposal, the block relay service fetches its configuration every     *)
(* epoch and runs an auction per proposal, the attester / aggregators / sync committee services are     *)
(* called by a scheduler job per slot, the cache handles every head event, the submitter is called by   *)
(* all of them.  Whatever such an object keeps between two calls (a memo of parsed relay keys, a       *)
(* cached lookup, a pooled buffer, a flag, a lock that was not given back) is a second path by which   *)
(* an outside input reaches code: the input of call n is met again, through that state, by call n+k.   *)
(*                                                                                                    *)
(* This module makes the INSTANCE and its HISTORY explicit:                                            *)
(*   NewInstance(ep, s)  a service object of entry point ep is built with the configuration part of    *)
(*                       shape s (InstDims: what is fixed at construction, e.g. which strategy, which  *)
(*                       configuration source, whether an auctioneer is configured);                   *)
(*   Call(s)             the environment delivers an input of shape s to THAT object - every shape of  *)
(*                       the lattice that fits the instance's configuration, in any order, the same    *)
(*                       shape (the same relay, key, validator, file) again and again, well-formed      *)
(*                       after degenerate and degenerate after well-formed;                             *)
(*   Aux(c, class)       the environment answers an AUXILIARY request of call c (the node version        *)
(*                       request behind a {{CLIENT}} marker) with a value or with a fault, as chosen by     *)
(*                       the input of that call - per call, so a history mixes faults and values at the      *)
(*                       same node, and a fault may arrive next to another call in flight;                   *)
(*   Use / Return / Undeliverable / DecoderPanic  as in Robustness.tla, per call;                       *)
(* and, where production OVERLAPS calls on the object (Overlaps: scheduler jobs of neighbouring slots,  *)
(* head events of two nodes, REST requests of the beacon nodes, the periodic fetch job, the auction of  *)
(* a proposal - every scheduler job runs in its own goroutine and nothing serialises them), a second   *)
(* call may be started before the first returned (call and return are separate actions, the            *)
(* environment resolves the overlap).                                                                  *)
(*                                                                                                    *)
(* The property, for EVERY call of the history:                                                        *)
(*   - it ends ok / with an error / with a fallback (Return); the vocabulary of recorded traces also    *)
(*     has Crash (panic or fatal error anywhere in the process) and Hung (the call never came back: a   *)
(*     lock or semaphore slot that an earlier call kept) and NO ACTION PRODUCES THEM;                  *)
(*   - its outcome depends on ITS OWN input and on the state the services make persistent ON PURPOSE   *)
(*     (Persistent, named below), not on what earlier calls were fed: HistoryIndependent.  The oracle   *)
(*     for that is the PROBE input of the instance's configuration (ProbeOf: the well-formed member of   *)
(*     the lattice): what it yields on a FRESH instance (action Probe, observed on a second object       *)
(*     built for that purpose) is what it has to yield after any history and next to any overlapping    *)
(*     call.  Degenerate inputs may end in any of the three ways, as in Robustness.tla.                 *)
(*                                                                                                    *)
(* Calls advance the chain: call number k is for a later slot / epoch / block height than call k-1     *)
(* (as production's are), so state that is keyed by slot, epoch or height on purpose (Persistent) is    *)
(* never addressed twice; relays, relay keys, validators, accounts, nodes, files, configuration URLs    *)
(* ARE the same objects in every call.                                                                  *)
EXTENDS RobustnessShapes

CONSTANTS EPs,          \* entry points explored (subset of LongLived)
          MaxCalls,     \* length of a history
          MaxInFlight   \* calls in flight at the same time on one instance (1 = sequential histories only)

(* Entry points whose real counterpart is a long-lived object (the four exec* decoder entry points    *)
(* produce values, not objects; the value's life inside the block relay service is "execservice").     *)
LongLived == {"execservice", "graffiti", "builderbid", "proposalbest", "proposer", "attester", "aggregator",
              "syncmessenger", "syncaggregator", "mergeduties", "cacheevents", "submitclassify"}

(* What production runs concurrently on one object: AuctionBlock / BuilderBid REST requests / fetch and  *)
(* registration jobs on the block relay service and through it on the builder-bid strategy; Propose of   *)
(* neighbouring slots (a late proposal and the next one) and through it the proposal strategy and the    *)
(* graffiti provider; Attest / Aggregate / Prepare+Message of neighbouring slots; head and block events  *)
(* of several nodes; submissions of every duty service.                                                  *)
Overlaps(ep) == ep \in LongLived

(* The dimensions of a shape that are CONFIGURATION of the instance (fixed when it is built); every      *)
(* other dimension is input of a call.                                                                   *)
(*   execservice    source (where the configuration URL points), strat (the builder-bid strategy main.go   *)
(*                  wired behind the service);  doc / prior / addr / pk / bid.. are per call:              *)
(*                  what the source holds when the periodic fetch runs (prior = a good document of that   *)
(*                  version is fetched first; for the FIRST call prior none = found by New)               *)
(*   graffiti       fallback, loc, use (who consumes the provider); the file content is per call          *)
(*   builderbid     strat; relay address, relay key, relay answers (the poll sequence), second relay are   *)
(*                  per call (they come                                                                    *)
(*                  with the proposer configuration of every auction)                                      *)
(*   proposalbest   strat, n, clen (the strategy, the nodes and what they are called) and, per node,       *)
(*                  whether the provider implements the optional NodeClientProvider interface               *)
(*   proposer       whether an auctioneer / a graffiti provider is configured at all, whether the provider  *)
(*                  implements the optional interface                                                       *)
(*   aggregator     account (the accounts provider);  submitclassify  server (the node's software)        *)
InstDims(ep) ==
    CASE ep = "execservice" -> {"source", "strat"}
      [] ep = "graffiti" -> {"fallback", "loc", "use"}
      [] ep = "builderbid" -> {"strat"}
      [] ep = "proposalbest" -> {"strat", "n", "clen"}
      [] ep = "aggregator" -> {"account", "style"}
      [] ep = "submitclassify" -> {"server"}
      [] ep \in {"attester", "syncmessenger", "syncaggregator", "cacheevents"} -> {"style"}   \* the strategy (and its nodes) wired by main.go
      [] OTHER -> {}

Absent(x) == x \in {"absent", "na"}       \* no optional interface behind this provider (or no such provider)
SameInstance(ep, s, t) ==
    /\ \A d \in InstDims(ep) : s[d] = t[d]
    /\ ep = "proposer" => /\ (s.auction = "none") = (t.auction = "none")
                          /\ (s.graffiti = "none") = (t.graffiti = "none")
                          /\ Absent(s.nodeclient) = Absent(t.nodeclient)
    /\ ep = "graffiti" => Absent(s.nodeclient) = Absent(t.nodeclient)
    /\ ep = "proposalbest" => /\ Absent(s.nodeclient) = Absent(t.nodeclient)
                              /\ Absent(s.nodeclient1) = Absent(t.nodeclient1)

(* The PROBE input of the configuration of shape s: the well-formed member of the lattice.               *)
Node1Probe(s) == IF s.style = "direct" THEN "none" ELSE "valid"
ProbeOf(ep, s) ==
    CASE ep = "execservice" -> [doc |-> "valid2", source |-> s.source, prior |-> "none", addr |-> "good", pk |-> "none",
                                strat |-> s.strat, bid |-> "valid", bid2 |-> "same", bid3 |-> "same"]
      [] ep = "graffiti" -> [file |-> "one", fallback |-> IF s.nodeclient = "absent" THEN "none" ELSE s.fallback, loc |-> s.loc, use |-> s.use,
                             nodeclient |-> IF Absent(s.nodeclient) THEN s.nodeclient ELSE "ok"]
      [] ep = "builderbid" -> [strat |-> s.strat, addr |-> "good", bid |-> "valid", bid2 |-> "same", bid3 |-> "same",
                               second |-> "none", pkcfg |-> "none"]
      [] ep = "proposalbest" -> [strat |-> s.strat, graffiti |-> IF s.clen = "10" THEN "plain" ELSE "client", clen |-> s.clen,
                                 nodeclient |-> IF Absent(s.nodeclient) THEN s.nodeclient ELSE "ok",
                                 nodeclient1 |-> IF Absent(s.nodeclient1) THEN s.nodeclient1 ELSE "ok",
                                 proposal |-> "ok", n |-> s.n]
      [] ep = "proposer" -> [auction |-> IF s.auction = "none" THEN "none" ELSE "won", ver |-> "deneb", blinded |-> "n",
                             body |-> "valid", unblind |-> "ok", graffiti |-> IF s.graffiti = "none" THEN "none" ELSE "short",
                             nodeclient |-> IF Absent(s.nodeclient) THEN s.nodeclient ELSE "ok"]
      [] ep = "attester" -> [body |-> "valid", slot |-> "64", duty |-> "one", style |-> s.style, node1 |-> Node1Probe(s)]
      [] ep = "aggregator" -> [body |-> "valid", slot |-> "64", account |-> s.account, style |-> s.style, node1 |-> Node1Probe(s)]
      [] ep = "syncmessenger" -> [body |-> "valid", accounts |-> "all", slot |-> "64", style |-> s.style, node1 |-> Node1Probe(s)]
      [] ep = "syncaggregator" -> [body |-> "valid", root |-> "known", slot |-> "64", style |-> s.style, node1 |-> Node1Probe(s)]
      [] ep = "mergeduties" -> [n |-> "3", dup |-> "none", range |-> "ok", zero |-> "none", entry |-> "ok"]
      [] ep = "cacheevents" -> [event |-> "head", ver |-> "deneb", body |-> "valid", style |-> s.style, node1 |-> Node1Probe(s)]
      [] ep = "submitclassify" -> [op |-> "messages", server |-> s.server, err |-> "known"]

(* Inputs whose outcome must not depend on the history: the probe input of the instance.                  *)
Stable(ep, of, s) == s = of

(* State that the services keep between calls ON PURPOSE (the functional properties C01..C15 rely on it);  *)
(* everything else an object carries from one call to the next must be invisible in the outcomes.  Every    *)
(* item is either keyed by something that advances with the call number (slot, epoch, height) or is         *)
(* rewritten by the call's own input (the active configuration by the fetched document).                    *)
Persistent(ep) ==
    CASE ep = "execservice" -> {"active execution configuration (last accepted document)", "registrations by validator",
                                "bids by slot", "controlled validators"}
      [] ep = "builderbid" -> {"parsed relay public keys by key bytes (values of successful parses only)",
                               "builder clients by address (util.FetchBuilderClient)"}
      [] ep = "attester" -> {"attested marks by (epoch, validator)"}
      [] ep = "mergeduties" -> {"attested marks by (epoch, validator)"}
      [] ep = "syncmessenger" -> {"slot data by slot"}
      [] ep = "syncaggregator" -> {"head roots by slot"}
      [] ep = "cacheevents" -> {"execution head (monotonic in the block number)", "slot by block root"}
      [] ep = "proposalbest" -> {"votes of prior blocks by root"}
      [] OTHER -> {}

(* the lattice, evaluated once *)
Lattice == [ep \in LongLived |-> Shapes(ep)]

ASSUME EPs \subseteq LongLived
ASSUME \A ep \in EPs : \A s \in Lattice[ep] :
            /\ ProbeOf(ep, s) \in Lattice[ep]
            /\ SameInstance(ep, s, ProbeOf(ep, s))
            /\ ProbeOf(ep, ProbeOf(ep, s)) = ProbeOf(ep, s)

-----------------------------------------------------------------------------
VARIABLES inst,       \* the long-lived object: NoInst or [ep, of] (of = the probe shape: names its configuration)
          ncalls,     \* calls started on it so far
          inflight,   \* call number -> [stable, uses, gated, aux, done, faulted]: started and not yet returned
          ended,      \* the set of [stable, outcome] with which calls of the history have ended
          fresh,      \* what the probe input yields on a FRESH instance of this configuration ("none": not observed)
          alive       \* the process keeps running

ivars == <<inst, ncalls, inflight, ended, fresh, alive>>

NoInst == [ep |-> "none"]
Ends == Outcomes \cup {"undeliverable"}

Init == /\ inst = NoInst /\ ncalls = 0 /\ inflight = << >> /\ ended = {} /\ fresh = "none" /\ alive = TRUE

InFlight == DOMAIN inflight
Without(f, c) == [x \in DOMAIN f \ {c} |-> f[x]]

NewInstance(ep, s) ==
    /\ alive /\ inst = NoInst
    /\ ep \in EPs /\ s \in Lattice[ep]
    /\ inst' = [ep |-> ep, of |-> ProbeOf(ep, s)]
    /\ UNCHANGED <<ncalls, inflight, ended, fresh, alive>>

(* The reference: the probe input on a FRESH object of the same configuration ended with o (observed      *)
(* before the history on the long-lived object starts).                                                    *)
Probe(o) ==
    /\ alive /\ inst # NoInst /\ fresh = "none" /\ ncalls = 0
    /\ o \in Outcomes
    /\ fresh' = o
    /\ UNCHANGED <<inst, ncalls, inflight, ended, alive>>

(* What the model keeps of an input: whether its outcome is pinned (Stable), which consumers belong to    *)
(* the call (Uses), whether a library decoder stands between the driver and Vouch (Gated).                 *)
(* ... and what the environment has chosen for its auxiliary requests: "none" (it has none), "values"     *)
(* (every one is answered with a value), "faults" (at least one is answered with a fault).                 *)
AuxKinds == {"none", "values", "faults"}
AuxKind(ep, s) == IF AuxRequests(ep, s) = {} THEN "none"
                  ELSE IF \E a \in AuxRequests(ep, s) : a.answer \in AuxFaults THEN "faults" ELSE "values"
\* ... and whether its relays may be POLLED repeatedly on behalf of the call (the sequence of answers is part of the input)
KindOf(ep, of, s) == [stable |-> Stable(ep, of, s), uses |-> Uses(ep, s), gated |-> Gated(ep, s), aux |-> AuxKind(ep, s),
                      polled |-> Polled(ep)]

(* the kinds of input every configuration of every entry point can be fed (evaluated once)                 *)
Kinds == [ep \in LongLived |->
            [of \in {ProbeOf(ep, s) : s \in Lattice[ep]} |->
                {KindOf(ep, of, s) : s \in {x \in Lattice[ep] : SameInstance(ep, x, of)}}]]

(* The environment delivers an input to the long-lived object; another call may still be in flight.       *)
(* A call that is still in flight when the next one starts had a SLOW environment (that is how the         *)
(* overlap comes about: its relay / node / file store has not answered yet) - a slow answer is an input     *)
(* dimension of its own, so that call is no longer the probe input and its outcome is not pinned; the       *)
(* call that runs next to it is.                                                                            *)
CallKind(k) ==
    /\ alive /\ inst # NoInst
    /\ ncalls < MaxCalls
    /\ Cardinality(InFlight) < (IF Overlaps(inst.ep) THEN MaxInFlight ELSE 1)
    /\ ncalls' = ncalls + 1
    /\ LET envs == {inflight[c].aux : c \in InFlight} \cup {k.aux}
           \* the nodes are SHARED by the calls in flight: what one call's input makes them answer to auxiliary
           \* requests, they may answer to the requests of the call next to it as well
           shared == IF "faults" \in envs THEN "faults" ELSE IF "values" \in envs THEN "values" ELSE "none"
       IN  inflight' = [c \in InFlight \cup {ncalls + 1} |->
                        IF c = ncalls + 1 THEN [stable |-> k.stable, uses |-> k.uses, gated |-> k.gated, aux |-> shared,
                                                polled |-> k.polled, done |-> {}, faulted |-> FALSE]
                                          ELSE [inflight[c] EXCEPT !.stable = FALSE, !.aux = shared]]     \* see above
    /\ UNCHANGED <<inst, ended, fresh, alive>>

Call(s) ==
    /\ inst # NoInst
    /\ s \in Lattice[inst.ep] /\ SameInstance(inst.ep, s, inst.of)
    /\ CallKind(KindOf(inst.ep, inst.of, s))

(* An auxiliary request of call c is answered with a value or a fault: what the input of c chose or - the  *)
(* nodes being shared (CallKind) - what the input of a call that was in flight next to it chose.  Whatever   *)
(* the answer, call c goes on to one of its allowed ends.                                                   *)
Aux(c, cl) ==
    /\ c \in InFlight /\ cl \in AuxClasses
    /\ inflight[c].aux # "none" /\ (cl = "fault" => inflight[c].aux = "faults")
    /\ inflight' = [inflight EXCEPT ![c].faulted = @ \/ (cl = "fault")]
    /\ UNCHANGED <<inst, ncalls, ended, fresh, alive>>

(* A relay answered a poll made on behalf of call c (the n-th of that call: the answer is the one the input of  *)
(* c chose for it, Trace_RobustnessInst checks that).  Whatever the sequence of answers, call c goes on to one    *)
(* of its allowed ends; a poll may also be answered while another call is in flight.  (The per-input           *)
(* bookkeeping of the answers given is in Robustness.tla: PollSequencesSurvived; here a poll changes nothing.)    *)
MaxPoll == 3        \* the third and every later poll is answered alike (RobustnessShapes!BidAtOf)
Poll(c) ==
    /\ c \in InFlight
    /\ inflight[c].polled
    /\ UNCHANGED ivars

Use(c, u, o) ==
    /\ c \in InFlight
    /\ u \in inflight[c].uses \ inflight[c].done
    /\ o \in Outcomes
    /\ inflight' = [inflight EXCEPT ![c].done = @ \cup {u}]
    /\ UNCHANGED <<inst, ncalls, ended, fresh, alive>>

(* The call came back.  Any of the three outcomes for any input - but a stable input yields what it      *)
(* yields on a fresh instance, whatever the object has been fed before and whatever runs next to it.      *)
Return(c, o) ==
    /\ c \in InFlight
    /\ inflight[c].uses \subseteq inflight[c].done
    /\ o \in Outcomes
    /\ (inflight[c].stable /\ fresh # "none") => o = fresh
    /\ ended' = ended \cup {[stable |-> inflight[c].stable, outcome |-> o]}
    /\ inflight' = Without(inflight, c)
    /\ UNCHANGED <<inst, ncalls, fresh, alive>>

Undeliverable(c) ==
    /\ c \in InFlight /\ inflight[c].gated
    /\ ended' = ended \cup {[stable |-> FALSE, outcome |-> "undeliverable"]}
    /\ inflight' = Without(inflight, c)
    /\ UNCHANGED <<inst, ncalls, fresh, alive>>

(* A client library's HTTP decoding layer panicked beneath call c: no value is delivered (outside the      *)
(* property's quantifier, see Robustness.tla).  If that happens in a goroutine Vouch started, the process   *)
(* is gone with every call in flight (DecoderPanicFatal) and the history ends there.                        *)
DecoderPanic(c) ==
    /\ c \in InFlight
    /\ ended' = ended \cup {[stable |-> FALSE, outcome |-> "undeliverable"]}
    /\ inflight' = Without(inflight, c)
    /\ UNCHANGED <<inst, ncalls, fresh, alive>>

DecoderPanicFatal ==
    /\ ncalls > 0         \* a goroutine a call started; the call itself may have come back already (a strategy returns
                          \* with the first node's answer and leaves the requests to the other nodes behind)
    /\ ended' = ended \cup {[stable |-> FALSE, outcome |-> "undeliverable"]}
    /\ inflight' = << >> /\ ncalls' = MaxCalls
    /\ UNCHANGED <<inst, fresh, alive>>

\* There is deliberately no action Crash and no action Hung.

Next ==
    \/ \E ep \in EPs : \E s \in Lattice[ep] : NewInstance(ep, s)
    \/ \E o \in Outcomes : Probe(o)
    \/ \E k \in (IF inst = NoInst THEN {} ELSE Kinds[inst.ep][inst.of]) : CallKind(k)   \* = \E s : Call(s)
    \/ \E c \in InFlight : \E cl \in AuxClasses : Aux(c, cl)
    \/ \E c \in InFlight : Poll(c)
    \/ \E c \in InFlight : \E u \in UseNames : \E o \in Outcomes : Use(c, u, o)
    \/ \E c \in InFlight : \E o \in Outcomes : Return(c, o)
    \/ \E c \in InFlight : Undeliverable(c)
    \/ \E c \in InFlight : DecoderPanic(c)
    \/ DecoderPanicFatal

Spec == Init /\ [][Next]_ivars

(* every call that was started comes back (no call waits for something an earlier call kept)              *)
FairSpec == Spec /\ WF_ivars(\E c \in InFlight : \E u \in UseNames : \E o \in Outcomes : Use(c, u, o))
                 /\ WF_ivars(\E c \in InFlight : \E o \in Outcomes : Return(c, o))

-----------------------------------------------------------------------------
TypeOK ==
    /\ alive \in BOOLEAN
    /\ ncalls \in 0..MaxCalls
    /\ inst = NoInst \/ (inst.ep \in EPs /\ inst.of \in Lattice[inst.ep])
    /\ InFlight \subseteq 1..MaxCalls
    /\ \A c \in InFlight : /\ inflight[c].stable \in BOOLEAN /\ inflight[c].gated \in BOOLEAN
                           /\ inflight[c].done \subseteq inflight[c].uses /\ inflight[c].uses \subseteq UseNames
                           /\ inflight[c].aux \in AuxKinds /\ inflight[c].faulted \in BOOLEAN
                           /\ inflight[c].polled \in BOOLEAN
    /\ ended \subseteq [stable : BOOLEAN, outcome : Ends]
    /\ fresh \in Outcomes \cup {"none"}
    /\ inst = NoInst => ncalls = 0 /\ fresh = "none"

\* C16: the process keeps running, after every call of every history
KeepsRunning == alive

\* C16: every call ended ok / error / fallback (or its input was not deliverable)
EndsProperly == \A e \in ended : e.outcome \in Ends

\* C16 for the auxiliary requests: a fault answered to any call in flight leaves the process running
AuxFaultsSurvived == (\E c \in InFlight : inflight[c].faulted) => alive

\* the history is invisible: a stable input yields, at any point of any history and next to any
\* overlapping call, what it yields on a fresh instance
HistoryIndependent == \A e \in ended : (e.stable /\ fresh # "none") => e.outcome = fresh

\* production overlaps, the model does too - but never more than the bound
BoundedOverlap == Cardinality(InFlight) <= MaxInFlight

\* no call in flight is ever without a next step towards an allowed end (nothing an earlier call did
\* disables it): the safety half of "every call returns"
Total ==
    \A c \in InFlight :
        \/ ENABLED (\E u \in UseNames : \E o \in Outcomes : Use(c, u, o))
        \/ ENABLED (\E o \in Outcomes : Return(c, o))

\* ... and the liveness half, under FairSpec
EveryCallReturns == \A c \in 1..MaxCalls : (c \in InFlight) ~> (c \notin InFlight)

ClassSizes == [ep \in EPs |-> Cardinality({ProbeOf(ep, s) : s \in Lattice[ep]})]
=============================================================================
