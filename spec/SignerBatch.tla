---------------------------- MODULE SignerBatch ----------------------------
(* The signer service between the attester and the accounts (services/signer/standard:         *)
(* SignBeaconAttestations / signBeaconAttestations / SignBeaconAttestation).  C01 counts the   *)
(* signature requests that reach THE SIGNER - for Dirk accounts a remote process: a request    *)
(* that came back as an error has still been received there.  Attester.tla judges the calls    *)
(* the attester makes to this service; this module judges what one such call becomes at the    *)
(* accounts: however the service groups the accounts (one batch request for accounts that can  *)
(* sign in batches - distributed accounts apart from the others - or one request per account), *)
(* and whatever the replies are, no account is asked twice within the call.                    *)
EXTENDS Naturals, FiniteSets

CONSTANTS Accts,        \* accounts
          Deviation     \* "none"; "retry-individually": after a failed batch every account of it is asked again by itself

VARIABLES kind,         \* account -> "plain" (signs by itself only) / "multi" (can sign in batches) / "dist" (distributed, batches)
          call,         \* the accounts of the call in progress
          asked,        \* account -> number of requests for it that reached the signer during the call
          failed,       \* some request of the call came back as an error
          st            \* "idle" / "running" / "returned"

vars == <<kind, call, asked, failed, st>>

\* one account manager hands out the accounts: a wallet (every account signs by itself) or Dirk (batches)
KindAssignments == [Accts -> {"plain"}] \cup [Accts -> {"multi", "dist"}]

Init == kind \in KindAssignments /\ call = {} /\ asked = [a \in Accts |-> 0] /\ failed = FALSE /\ st = "idle"

Call(S) ==
    /\ st # "running" /\ S # {} /\ S \subseteq Accts
    /\ call' = S /\ asked' = [a \in Accts |-> 0] /\ failed' = FALSE /\ st' = "running" /\ UNCHANGED kind

\* one batch request: it reaches the signer for every account in it, whatever comes back
AskBatch(G, ok) ==
    /\ st = "running" /\ G # {} /\ G \subseteq call
    /\ (\A a \in G : kind[a] = "multi") \/ (\A a \in G : kind[a] = "dist")
    /\ \A a \in G : asked[a] = 0
    /\ asked' = [a \in Accts |-> IF a \in G THEN asked[a] + 1 ELSE asked[a]]
    /\ failed' = (failed \/ ~ok) /\ UNCHANGED <<kind, call, st>>

AskOne(a, ok) ==
    /\ st = "running" /\ a \in call
    /\ asked[a] = 0 \/ (Deviation = "retry-individually" /\ failed /\ asked[a] = 1)
    /\ asked' = [asked EXCEPT ![a] = @ + 1]
    /\ failed' = (failed \/ ~ok) /\ UNCHANGED <<kind, call, st>>

\* the call returns: an error iff a request failed; without an error every account was asked
Return(err) ==
    /\ st = "running" /\ err = failed
    /\ ~err => \A a \in call : asked[a] >= 1
    /\ st' = "returned" /\ UNCHANGED <<kind, call, asked, failed>>

Next == \/ \E S \in SUBSET Accts : Call(S)
        \/ \E G \in SUBSET Accts, ok \in BOOLEAN : AskBatch(G, ok)
        \/ \E a \in Accts, ok \in BOOLEAN : AskOne(a, ok)
        \/ \E err \in BOOLEAN : Return(err)

Spec == Init /\ [][Next]_vars

\* C01 at the accounts: within one call of the attester no account is asked for a second signature
AtMostOnce == \A a \in Accts : asked[a] <= 1
\* only the accounts of the call are asked
OnlyCalled == \A a \in Accts : asked[a] > 0 => a \in call
=============================================================================
