SPECIFICATION FairSpec
CONSTANTS
  Callers = {"c1", "c2"}
  Cancellers = {"k1"}
  Periodic = FALSE
  DeleteByName = FALSE
  ClaimIgnoresCancel = FALSE
  PrefixCancellers = {}
  BlockingSend = FALSE
  DropOnClaim = FALSE
  MaxRuns = 1
INVARIANTS TypeOK AtMostOnce NoOverlap NoPanic NoLostRun NotDropped CancelBranchNoRun CancelOkNeverRuns NameReusable NameSlotUnique SuccessorReachable LockFreeAtEnd
PROPERTIES Terminates NoStuckCaller
CHECK_DEADLOCK FALSE
