------------------------ MODULE Trace_HierConfigWire ------------------------
(* Trace specification for the wired family of C19: a trace recorded from the real wiring of      *)
(* package main (fetchConfig, select* / start* / fetchClient, the real strategies, submitters,   *)
(* modules and go-eth2-client HTTP clients against fake beacon nodes) is a behaviour of           *)
(* HierConfigWire with PathRule = "documented".                                                   *)
(* Boot lines carry what the driver loaded and read back from viper after the real fetchConfig():  *)
(* per kind the tree (real component names, canonical value strings), the setting's value when    *)
(* nothing is configured, the configured styles, and the member addresses of every address-list    *)
(* value.  Start lines carry the service, the implementation that was OBSERVED running (type of    *)
(* the constructed service), every hierarchical setting the constructed service holds (read from   *)
(* the service itself) and, where the driver made a real call through it, the fake beacon nodes    *)
(* that received the request.                                                                      *)
EXTENDS HierConfigWire, TraceLib

VARIABLES l, mem      \* mem: canonical address-list value -> set of member addresses
tvars == <<vars, l, mem>>

TraceInit ==
    /\ l = 1
    /\ Init
    /\ mem = NoFn
    /\ InitHWM

IsEvent(e) == l <= TraceLen /\ Trace[l].ev = e /\ l' = l + 1

TreeOf(line, k) ==
    LET es == {e \in SeqToSet(line.cfg) : e.k = k}
    IN  [q \in {e.p : e \in es} |-> (CHOOSE e \in es : e.p = q).v]
Unique(line) == Cardinality({<<e.k, e.p>> : e \in SeqToSet(line.cfg)}) = Len(line.cfg)
DfltOf(line) == [k \in Kinds |-> (CHOOSE e \in SeqToSet(line.dflt) : e.k = k).v]
StyleOf(line) == [s \in Services |->
                    IF \E e \in SeqToSet(line.styles) : e.s = s
                    THEN (CHOOSE e \in SeqToSet(line.styles) : e.s = s).st ELSE ""]

\* a new process (the driver resets every process-wide state of package main it knows of)
TraceBoot ==
    /\ IsEvent("Boot")
    /\ Unique(Trace[l])
    /\ \A k \in Kinds : \E e \in SeqToSet(Trace[l].dflt) : e.k = k
    /\ up' = TRUE
    /\ cfg' = [k \in Kinds |-> TreeOf(Trace[l], k)]
    /\ dflt' = DfltOf(Trace[l])
    /\ style' = StyleOf(Trace[l])
    /\ got' = NoFn
    /\ last' = <<>>
    /\ starts' = 0
    /\ focus' = {}
    /\ mem' = [v \in {e.v : e \in SeqToSet(Trace[l].members)} |->
                 SeqToSet((CHOOSE e \in SeqToSet(Trace[l].members) : e.v = v).a)]

TraceStart ==
    /\ IsEvent("Start")
    /\ LET s == Trace[l].svc
           i == Trace[l].impl
           used == SeqToSet(Trace[l].used)
       IN  /\ s \in Services
           /\ StartAs(s, i)
           \* the driver observed every hierarchical setting the model says this implementation takes ...
           /\ {e.u : e \in used} = UseNames(s, i)
           \* ... and the service holds what the specification says it is given
           /\ \A e \in used : got'[<<s, i>>][e.u] = e.got
           \* a real call through the service reaches only nodes of the address list it should have
           /\ "asked" \in DOMAIN Trace[l] =>
                  /\ "addresses" \in UseNames(s, i)
                  /\ Len(Trace[l].asked) > 0
                  /\ LET v == got'[<<s, i>>]["addresses"]
                     IN  v \in DOMAIN mem /\ SeqToSet(Trace[l].asked) \subseteq mem[v]
    /\ UNCHANGED mem

TraceNext == TraceBoot \/ TraceStart
TraceSpec == TraceInit /\ [][TraceNext]_tvars

HWM == UpdateHWM(l)
TraceAccepted == TraceAcceptedUpTo
=============================================================================
