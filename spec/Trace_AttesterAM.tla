--------------------------- MODULE Trace_AttesterAM ---------------------------
(* Trace specification of the WIRED stack: a trace recorded from the real attester with the REAL  *)
(* dirk / wallet account manager, the real validators manager and the real signer behind it is a  *)
(* behaviour of AttesterAM.  The lines of Trace_Attester, with these differences:                *)
(*   Reset     names the account manager wired (am), the accounts offered to it (held) and the   *)
(*             node's validator records (recs)                                                   *)
(*   Refresh   the account manager's refresh job ran: what was offered, the node's records       *)
(*             (known = the validators whose account it holds afterwards: information)           *)
(*   Accounts  recorded by a pass-through around the REAL account manager: the request it got    *)
(*             and the validators of the map it returned, each identified BY THE KEY of the      *)
(*             account (bad = map entries whose index is not the index of the account's key)     *)
(*             -> AMByIndexAns: the attester takes the map as it comes; the account manager's    *)
(*             contract is the invariant ByIndexSubset                                           *)
(*   Probe     the same operation asked directly (empty / repeated / unknown indices)            *)
(*             -> AMAskAns                                                                       *)
(*   Sign      recorded by a pass-through in front of the REAL signer: one [validator, committee] *)
(*             pair per position of the account list, the validator identified by the account's  *)
(*             KEY (what will sign) -> SignAMSeq: no guard keeps a validator the run did not     *)
(*             claim out; SignOnlyClaimed and NoDoubleSign judge the call                        *)
EXTENDS Trace_Attester, AttesterAM

tavars == <<vars, amvars, l>>

RecOf(j) == [known |-> j.known, act |-> j.act, exit |-> j.exit]
RecsOf(line) == [v \in AllVals |-> IF v <= Len(line.recs) THEN RecOf(line.recs[v]) ELSE UnknownRec]

WTraceInit == l = 1 /\ Init /\ InitHWM /\ amKind = "none" /\ held = {} /\ vrec = [v \in AllVals |-> UnknownRec] /\ amLast = NoCall

WTraceReset ==
    /\ TraceReset
    /\ amKind' = Line.am /\ held' = Range(Line.held) /\ vrec' = RecsOf(Line) /\ amLast' = NoCall

WTraceRefresh ==
    /\ IsEvent("Refresh")
    /\ Refresh(Range(Line.held), RecsOf(Line))

\* the request shows which validators the run claimed; the answer is the real account manager's
WTraceAccounts ==
    /\ IsEvent("Accounts")
    /\ Range(Line.req) = run[Line.run].claimed
    /\ IF Line.err THEN Lift(AccountsErr(Line.run)) ELSE AMByIndexAns(Line.run, Range(Line.accts))
    /\ StateMatches

WTraceProbe ==
    /\ IsEvent("Probe")
    /\ AMAskAns(Line.epoch, Line.idxs, Range(Line.res))

WTraceSign ==
    /\ IsEvent("Sign")
    /\ SignAMSeq(Line.run, Line.req, Line.data)
    /\ StateMatches

WTraceNext ==
    \/ WTraceReset \/ WTraceRefresh \/ WTraceAccounts \/ WTraceProbe \/ WTraceSign
    \/ Lift(TraceDeliver) \/ Lift(TraceFetch) \/ Lift(TraceSignRet) \/ Lift(TraceSubmit) \/ Lift(TraceSubmitRet)
    \/ Lift(TraceReturn) \/ Lift(Silent)

WTraceSpec == WTraceInit /\ [][WTraceNext]_tavars

WTraceAttestedMonotone == [][(l <= TraceLen /\ Trace[l].ev = "Reset") \/ AttestedMonotoneStep]_tavars
=============================================================================
