SPECIFICATION Spec
CONSTANTS
  NCalls = 2
  NNodes = 2
  IClientSet = {"lighthouse"}
  IConcSet = {2}
  IKinds = {"att"}
  IOutcomes = {"accept", "reject", "heldok"}
  IFailOutcomes = {}
  Design = "sharedflag"
INVARIANTS TypeOK SuccessIffC OfferedC IndependenceC
CHECK_DEADLOCK FALSE
