---------------------------- MODULE MC_ChainTime ----------------------------
(* Exhaustive check of the agreement laws of ChainTime over small parameter ranges: every       *)
(* initial state is one combination (genesis, slot duration, slots per epoch, slot, instant).   *)
EXTENDS ChainTime

CONSTANTS Gs, Ds, Ps, MaxSlot, Ts,
          Shift      \* cfg files cannot hold negative numbers: genesis = x - Shift, instant = y - Shift

VARIABLES c, s, t
vars == <<c, s, t>>

Init ==
    /\ c \in [g : {x - Shift : x \in Gs}, d : Ds, p : Ps]
    /\ s \in 0..MaxSlot
    /\ t \in {y - Shift : y \in Ts}

Next == UNCHANGED vars
Spec == Init /\ [][Next]_vars

Slots == SlotLaws(c, s)
Epochs == EpochLaws(c, s)          \* s doubles as an epoch number
Times == TimeLaws(c, t)
\* the instant t lies in the slot SlotAt says it lies in (after genesis)
TimeInsideSlot == t >= c.g => (StartOfSlot(c, SlotAt(c, t)) <= t /\ t < StartOfSlot(c, SlotAt(c, t) + 1))
TimeInsideEpoch == t >= c.g => (StartOfEpoch(c, EpochAt(c, t)) <= t /\ t < StartOfEpoch(c, EpochAt(c, t) + 1))
=============================================================================
