SPECIFICATION Spec
CONSTANTS
  Mode = "vec"
  DKinds = {"prepdirect"}
  DItemSet = {3}
  DNodeCounts = {1, 2, 3}
  DLens = {1}
  DOuts = {"accept", "reject", "inactive", "gaveup", "slowok1", "slowok2", "slowrej1", "hang"}
INVARIANTS Emit
CHECK_DEADLOCK FALSE
