SPECIFICATION TraceSpec
CONSTANTS
  EPs = {"execv2", "execv1", "execmutate", "execdoc", "execservice", "graffiti", "builderbid", "proposalbest", "proposer", "attester", "aggregator", "syncmessenger", "syncaggregator", "mergeduties", "cacheevents", "submitclassify"}
INVARIANTS TypeOK KeepsRunning EndsProperly UsedOnlyIfDecoded AuxFaultsSurvived PollSequencesSurvived
CONSTRAINT HWM
POSTCONDITION TraceAccepted
CHECK_DEADLOCK FALSE
