SPECIFICATION TraceSpec
CONSTANTS
  EPs = {"execv2", "execv1", "execmutate", "graffiti", "builderbid", "proposalbest", "proposer", "attester", "aggregator", "syncmessenger", "syncaggregator", "mergeduties", "cacheevents", "submitclassify"}
INVARIANTS TypeOK KeepsRunning EndsProperly
CONSTRAINT HWM
POSTCONDITION TraceAccepted
CHECK_DEADLOCK FALSE
