SPECIFICATION DevSpec
CONSTANTS
  DevStrategy = "best"
  UsedStrategies = {"deadline"}
  DutySlots = {9}
  Validators = {2}
  SlotsPerEpoch = 4
  Relays = {1, 2}
  AllChoices = {{}}
  Versions = {"altair", "deneb"}
  Blindable = {"deneb"}
  Outcomes = {"full"}
  Dslots <- FwdDslots
  MaxCalls = 1
  NDuties = 1
  SlotGaps = {1}
  MaxOpen = 1
  MaxInFlight = 1
  InitCfgs <- WiredCfgs
  LaterAllChoices = {{}}
  LaterVersions = {"deneb"}
  LaterOutcomes = {"full"}
  LaterDslots = {0}

INVARIANTS TypeOK OnlyDutySigner SignedIsSelected SubmittedIntact NothingWithoutUnblind DegradesNotSkips CompletesDuty HistoryIndependent
CHECK_DEADLOCK TRUE
