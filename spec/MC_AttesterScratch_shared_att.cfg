SPECIFICATION ScSpec
CONSTANTS
  RunIds = {1, 2}
  SlotsPerEpoch = 2
  Roots = {1}
  Strict01 = TRUE
  Strict04 = FALSE
  MCSlots = {2, 4}
  MCVals = {1, 2}
  MCMaxLen = 2
  MCComms = {0, 1}
  MCAllComms = TRUE
  MCPre = FALSE
  MCLean = TRUE
  MCMaxAlive = 2
  ReturnCopy = FALSE
  SizeMemo = FALSE
CONSTRAINT AliveBound
INVARIANTS AssignmentExact
CHECK_DEADLOCK FALSE
