SPECIFICATION SpecC12
CONSTANTS
  Validators = {1, 2}
  Externals = {}
  Relays = {1, 2}
  Nodes = {1, 2}
  DocIds = {1, 3}
  FailKinds = {"error"}
  Ops = {1, 2, 3}
  MaxInFlight = 3
  AuctionImpl = "intended"
  Resolution = "snapshot"
  MaxRounds = 0
INVARIANTS TypeOKC12 KeepsLastGood FallbackWhenNone AnswersRight AnswersInForce LockBalanced LockAccounting
PROPERTY NoWedge
CHECK_DEADLOCK FALSE
