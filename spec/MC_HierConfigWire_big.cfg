SPECIFICATION Spec
CONSTANTS
  PathRule = "documented"
  FocusSets = {{"attestationdata", "attestingnodes"}, {"aggregateattestation"}, {"beaconblockproposal"}, {"synccommitteecontribution"}, {"beaconblockroot"}, {"signedbeaconblock"}, {"beaconblockheader"}, {"builderbid"}, {"submitter"}, {"eth2client"}, {"multiclient"}, {"scheduler"}, {"graffiti"}, {"validatorsmanager"}, {"cache"}, {"beaconblockproposer"}, {"attester"}, {"attestationaggregator"}, {"beaconcommitteesubscriber"}, {"signedbeaconblock", "beaconblockheader"}, {"attestationdata", "aggregateattestation"}, {"beaconblockroot", "eth2client"}}
  LatticeDuties = {"attestation", "proposal", "synccommitteemessage"}
  Nodes = {"n1", "n2"}
  MaxStarts = 3
INVARIANTS TypeOK MostSpecificUsed FromLongestPrefixOfDocPath DirectMatchUsed OthersIrrelevantUsed
PROPERTIES RepeatStartSame
CHECK_DEADLOCK FALSE
