SPECIFICATION Spec
CONSTANTS
  Builders = {"b1", "b2"}
  Cats = {"nil", "excluded", "other"}
  Facs = {"nil", "0", "150", "bad"}
  Offs = {"nil", "-2", "bad"}
  Vals = {0, 1, 5, 100}
  Deviation = "none"
INVARIANTS ExcludedNeverScores OwnEntryWins PrivilegedOutranksExcluded OnlyNamed RefusedIffUnreadable
CHECK_DEADLOCK FALSE
