---------------------------- MODULE AttesterChain ----------------------------
(* C04 with the boundary of the specification drawn where the PROPERTY draws it: "every          *)
(* attestation Vouch submits carries exactly its validator's assignment and is signed by that   *)
(* validator's account".  Which account is "that validator's" is not decided in attest.go: the  *)
(* attester signs with whatever account it is handed under a validator index.  The path from    *)
(* the property's inputs to its observable outputs, as main.go wires it:                        *)
(*                                                                                              *)
(*   beacon node (validator registry)                                                           *)
(*     -> validators manager (standard): RefreshValidatorsFromBeaconNode fills THREE maps       *)
(*        (validatorsByIndex, validatorsByPubKey, validatorPubKeyToIndex); ValidatorsByPubKey   *)
(*        answers from two of them                                                              *)
(*     -> account manager (wallet | dirk - two implementations of one operation): Refresh =     *)
(*        accounts from the store, then the validators manager's refresh for their keys;        *)
(*        ValidatingAccountsForEpoch / ...ByIndex build index -> account from ValidatorsByPubKey *)
(*     -> controller: validating indices of the epoch -> attester duties of exactly those       *)
(*        indices from the beacon node -> attester.MergeDuties -> one Attest per slot           *)
(*     -> attester (standard): ...ByIndex(indices of the duty) -> signer (standard, the         *)
(*        account's key) -> submitter (immediate) -> beacon node                                *)
(*                                                                                              *)
(* The validator records are STATE with a HISTORY here (they were an oracle "the accounts       *)
(* provider answers A" in Attester.tla): every refresh meets a node that knows all, some or     *)
(* none of the validators asked for, or fails.  Keys: validator i of the chain has key i, so a  *)
(* pair <<index, key>> is true iff index = key.  The judge is the beacon node: an attestation   *)
(* it received is attributed to the validator the duty oracle puts at (slot, committee index,   *)
(* set bit), and its signature must verify under THAT validator's key.                          *)
(*                                                                                              *)
(* Actions:                                                                                     *)
(*   Refresh(offer, knows, ok, dsg)  accountmanager.Refresh: the store offers `offer`; the node *)
(*                          knows `knows` (answers with those of the keys asked for) or fails;  *)
(*                          dsg = what the validators manager does with an answer that omits a  *)
(*                          validator it holds                                                  *)
(*   Plan(e, m)             controller accountsAndIndicesForEpoch(e): m = the map the account   *)
(*                          manager builds; its indices are the ones duties are asked for       *)
(*   Attest(s, m, A)        the slot's job: duty of the planned indices at s, accounts by index *)
(*                          (m), one signature per account, attestations A reach the node       *)
(* Sibling implementations are values: mgr \in Managers (variable fixed at Init), dsg \in        *)
(* VMDesigns.  Deviations (control models TLC must reject): "carry2of3" = a validator the node  *)
(* omitted is carried into validatorsByIndex and validatorsByPubKey but not into                *)
(* validatorPubKeyToIndex (ValidatorsByPubKey reports it under Go's zero index);                *)
(* "index_by_rank" = the index map is filled with the position in the answer.                   *)
EXTENDS Integers, FiniteSets, Sequences, TLC

CONSTANTS Chain,       \* validator indices of the chain = key ids
          OursSets,    \* the possible sets of keys in Vouch's store
          Managers,    \* subset of {"wallet", "dirk"}
          VMDesigns,   \* subset of {"replace", "retain", "carry2of3", "index_by_rank"}
          SPE,         \* slots per epoch
          Epochs,      \* epochs of the history
          StrictVM,    \* trace validation: the validators manager's table is judged (else taken from the log)
          Lean,        \* every signed attestation is submitted (else any subset)
          AllOffers    \* model checking: the store may offer any subset of the keys (else all, all but one, none)

VARIABLES mgr, ours,
          held,        \* keys the account manager holds
          byIdx,       \* validatorsByIndex:      index -> key of the record
          byKey,       \* validatorsByPubKey:     keys with a record
          k2i,         \* validatorPubKeyToIndex: key -> index
          plan,        \* epoch -> indices duties were asked for (NoPlan: not yet)
          done,        \* slots whose job has run
          submitted    \* history: every attestation the node received

vars == <<mgr, ours, held, byIdx, byKey, k2i, plan, done, submitted>>

NoPlan == {-1}
Epoch(s) == s \div SPE
Empty == [x \in {} |-> 0]

-----------------------------------------------------------------------------
(* The beacon node's duty oracle: every validator of the chain attests once per epoch.  Position *)
(* is injective per validator, so (slot, committee, position) names one validator.              *)
SlotOf(i, e) == e * SPE + 1 + ((i + e) % 2)
CommOf(i, e) == (i + 2 * e) % 3
PosOf(i, e) == i + 3 * (e % 2)
SizeOfC(c, s) == 10 + c + (s % 2)
Slots == {SlotOf(i, e) : i \in Chain, e \in Epochs}
\* the duties the node returns for the indices asked (unknown indices are ignored by the node)
DutyVals(s, I) == {i \in I \cap Chain : SlotOf(i, Epoch(s)) = s}
Attributed(s, c, p) ==
    LET S == {i \in Chain : SlotOf(i, Epoch(s)) = s /\ CommOf(i, Epoch(s)) = c /\ PosOf(i, Epoch(s)) = p} IN
    IF S = {} THEN -1 ELSE CHOOSE i \in S : TRUE
DataRoot(s) == s

-----------------------------------------------------------------------------
(* The validators manager.  A Go map lookup of a missing key yields the zero value.             *)
IdxOf(k) == IF k \in DOMAIN k2i THEN k2i[k] ELSE 0
\* ValidatorsByPubKey(K) as the relation index ~ key ...
ByPubKey(K) == {<<IdxOf(k), k>> : k \in K \cap byKey}
\* ... and as the Go maps it can yield (one entry per index: a later key overwrites an earlier one)
ByPubKeyMaps(K) ==
    LET R == ByPubKey(K)
        D == {p[1] : p \in R} IN
    {m \in [D -> K] : \A i \in D : <<i, m[i]>> \in R}
Restrict(m, I) == [i \in DOMAIN m \cap I |-> m[i]]
Table == ByPubKey(Chain)

\* rank of k in S (0-based)
Rank(k, S) == Cardinality({x \in S : x < k})

VMRefresh(asked, ans, ok, dsg) ==
    IF ~ok \/ ans = {}
    THEN UNCHANGED <<byIdx, byKey, k2i>>      \* error / empty answer: nothing is replaced
    ELSE LET carried == (byKey \cap asked) \ ans
             oldIdx(k) == CHOOSE i \in DOMAIN byIdx : byIdx[i] = k IN
         CASE dsg = "replace" ->
                /\ byIdx' = [i \in ans |-> i] /\ byKey' = ans /\ k2i' = [k \in ans |-> k]
           [] dsg = "retain" ->      \* omitted validators keep their records - in ALL three maps
                /\ byKey' = ans \cup carried
                /\ k2i' = [k \in ans \cup carried |-> IF k \in ans THEN k ELSE IdxOf(k)]
                /\ byIdx' = [i \in ans \cup {IdxOf(k) : k \in carried} |->
                                IF i \in ans THEN i ELSE CHOOSE k \in carried : IdxOf(k) = i]
           [] dsg = "carry2of3" ->   \* DEVIATION: ... in two of the three
                /\ byKey' = ans \cup carried
                /\ k2i' = [k \in ans |-> k]
                /\ byIdx' = [i \in ans \cup {IdxOf(k) : k \in carried} |->
                                IF i \in ans THEN i ELSE CHOOSE k \in carried : IdxOf(k) = i]
           [] dsg = "index_by_rank" ->   \* DEVIATION: the index is the place in the answer
                /\ byKey' = ans
                /\ k2i' = [k \in ans |-> Rank(k, ans)]
                /\ byIdx' = [i \in {Rank(k, ans) : k \in ans} |-> CHOOSE k \in ans : Rank(k, ans) = i]

Init ==
    /\ mgr \in Managers
    /\ ours \in OursSets
    /\ held = {} /\ byIdx = Empty /\ byKey = {} /\ k2i = Empty
    /\ plan = [e \in Epochs |-> NoPlan]
    /\ done = {} /\ submitted = {}

\* accountmanager.Refresh: the accounts part (dirk keeps its list when the store offers nothing), then the
\* validators part for the keys held (dirk: skipped while it holds none)
HeldAfter(offer) == IF mgr = "dirk" /\ offer = {} /\ held # {} THEN held ELSE offer
\* ... given the accounts held after the accounts part (which accounts those are is C13's subject)
RefreshH(h, knows, ok, dsg) ==
    /\ h \subseteq ours
    /\ held' = h
    /\ IF mgr = "dirk" /\ h = {}
       THEN UNCHANGED <<byIdx, byKey, k2i>>
       ELSE VMRefresh(h, knows \cap h, ok, dsg)
    /\ UNCHANGED <<mgr, ours, plan, done, submitted>>
Refresh(offer, knows, ok, dsg) == offer \subseteq ours /\ RefreshH(HeldAfter(offer), knows, ok, dsg)

\* controller: the validating indices of the epoch
Plan(e, m) ==
    /\ m \in ByPubKeyMaps(held)
    /\ plan' = [plan EXCEPT ![e] = DOMAIN m]
    /\ UNCHANGED <<mgr, ours, held, byIdx, byKey, k2i, done, submitted>>

\* the attestation for validator i of the duty at slot s signed with key k
Att(s, i, k) ==
    LET e == Epoch(s) IN
    [slot |-> s, index |-> CommOf(i, e), size |-> SizeOfC(CommOf(i, e), s), bits |-> {PosOf(i, e)},
     src |-> IF e = 0 THEN 0 ELSE e - 1, tgt |-> e, root |-> DataRoot(s), by |-> k]

\* the slot's job (the controller calls Attest only with a duty that has a validator; a slot runs once)
Attest(s, m, A) ==
    LET vals == DutyVals(s, plan[Epoch(s)]) IN
    /\ plan[Epoch(s)] # NoPlan
    /\ s \notin done
    /\ done' = done \cup {s}
    /\ IF vals = {}
       THEN A = {}
       ELSE /\ m \in {Restrict(f, vals) : f \in ByPubKeyMaps(held)}
            /\ A \subseteq {Att(s, i, m[i]) : i \in DOMAIN m}
            /\ Lean => A = {Att(s, i, m[i]) : i \in DOMAIN m}
    /\ submitted' = submitted \cup A
    /\ UNCHANGED <<mgr, ours, held, byIdx, byKey, k2i, plan>>

\* what the store offers: everything, everything but one account, nothing (AllOffers: any subset)
OfferSets == IF AllOffers THEN SUBSET ours ELSE {ours, {}} \cup {ours \ {k} : k \in ours}

Next ==
    \* (what the node knows of validators Vouch does not ask for does not reach the answer; a failing node has no answer)
    \/ \E offer \in OfferSets, knows \in SUBSET ours, dsg \in VMDesigns : Refresh(offer, knows, TRUE, dsg)
    \/ \E offer \in OfferSets, dsg \in VMDesigns : Refresh(offer, {}, FALSE, dsg)
    \/ \E e \in Epochs : \E m \in ByPubKeyMaps(held) : Plan(e, m)
    \/ \E s \in Slots : \E f \in ByPubKeyMaps(held) :
            LET m == Restrict(f, DutyVals(s, plan[Epoch(s)])) IN
            \E A \in (IF Lean THEN {{Att(s, i, m[i]) : i \in DOMAIN m}} ELSE SUBSET {Att(s, i, m[i]) : i \in DOMAIN m}) :
                Attest(s, m, A)

Spec == Init /\ [][Next]_vars

-----------------------------------------------------------------------------
TypeOK ==
    /\ held \subseteq ours /\ byKey \subseteq Chain
    /\ DOMAIN k2i \subseteq Chain /\ DOMAIN byIdx \subseteq Int
    /\ done \subseteq Slots

(* C04 at the node.  Every attestation received: exactly one bit; (slot, committee, bit) is the   *)
(* assignment of a validator of the chain; the bitlist has that committee's size; the data is   *)
(* the data served for the slot; the signature verifies under the key of THAT validator.        *)
SignedByAssignee ==
    \A a \in submitted :
        /\ Cardinality(a.bits) = 1
        /\ LET v == Attributed(a.slot, a.index, CHOOSE p \in a.bits : TRUE) IN
            /\ v # -1
            /\ a.by = v
        /\ a.size = SizeOfC(a.index, a.slot)
        /\ a.tgt = Epoch(a.slot) /\ a.src <= a.tgt /\ a.root = DataRoot(a.slot)

\* Vouch attests for validators whose key it holds only
OnlyOurs == \A a \in submitted : a.by \in ours

\* what the neighbour owes the attester: the three maps in step, every pair a pair of the chain
MapsInStep ==
    /\ DOMAIN k2i = byKey
    /\ \A k \in byKey : k2i[k] = k
    /\ \A i \in DOMAIN byIdx : byIdx[i] = i /\ i \in byKey
    /\ \A k \in byKey : k \in DOMAIN byIdx
ViewSound == \A p \in Table : p[1] = p[2]

(* What ANY validators manager owes after a refresh, whatever it does with omitted validators   *)
(* (forget them: "replace", keep them: "retain", keep some): the maps stay in step and hold     *)
(* pairs of the chain only, nothing appears that was neither answered nor held before, and a    *)
(* non-empty answer is taken in.  The trace specification judges the recorded table by this.    *)
SoundRefresh(ans, ok) ==
    /\ MapsInStep'
    /\ byKey' \subseteq ans \cup byKey
    /\ (ok /\ ans # {}) => ans \subseteq byKey'
=============================================================================
