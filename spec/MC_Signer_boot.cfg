SPECIFICATION SpecAtomic
CONSTANTS
  SlotsPerEpoch = 32
  Slots = {100}
  GivenEpochs = {3}
  MaxBatch = 1
  NReq = 1
  ForkEpochs = {4}
  LawBatch = 1
  HistOps = {}
  HistKinds = {}
  HistFails = {}
  Boots <- BootsWide
INVARIANTS TypeOK DomainRight Memoryless HandedOwn SigCorrect NoSignatureWithoutDomain ErrorHasNoSignatures RefusedForCause
PROPERTIES ReplyStable
CHECK_DEADLOCK FALSE
