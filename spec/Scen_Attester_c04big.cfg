SPECIFICATION SSpec
CONSTANTS
  RunIds = {1, 2}
  SlotsPerEpoch = 32
  Roots = {1, 2}
  Strict01 = TRUE
  Strict04 = TRUE
  ScenMode = "c04"
  ScenLen = 40
  ScenVals = {1, 2, 3, 4, 5}
  ScenMaxLen = 5
  ScenSlots = {67, 70, 95}
  ScenComms = {0, 1, 2}
  ScenPrepSlot = 66
INVARIANTS Emit AssignmentExact UnsignedYieldNothing
CHECK_DEADLOCK FALSE
