SPECIFICATION SemSpec
CONSTANTS
  MaxN = 1
  Variants = {"Majority"}
  Values = {1, 2}
  Scores = {0}
  FirstCap = 0
  PC = 2
  Deviation = "SharedTally"
INVARIANTS TypeOK SemTypeOK MajorityRule
