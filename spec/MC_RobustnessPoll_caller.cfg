SPECIFICATION PSpec
CONSTANTS
  Designs = {"firstraw"}
  Styles = {"best", "deadline"}
  Scripts = "lattice"
INVARIANTS PTypeOK CallerSeesNoPanic
CHECK_DEADLOCK FALSE
