---------------------------- MODULE Scen_Attester ----------------------------
(* Scenario generator for Attester.tla.  A scenario is the sequence of environment steps of a  *)
(* behaviour of the specification (duties delivered, answers of the beacon node, the account    *)
(* manager, the signer and the submitter); the internal steps of the attester are not recorded. *)
(*   ScenMode = "hist"  C01: multi-run histories on one service instance, runs overlapping at   *)
(*                      the granularity of the interface calls (the marking loop of a run is    *)
(*                      not interrupted here: it cannot be gated in the real code; its          *)
(*                      interleavings are model-checked and met by the free-running rounds)     *)
(*   ScenMode = "c04"   C04: an optional preparatory run that makes a subset of the validators  *)
(*                      "already attested", then the duty under test with any subset without    *)
(*                      account and any subset unsigned                                         *)
(*   ScenMode = "c04ovl" C04: histories of several runs on ONE instance with duties of          *)
(*                      DIFFERENT composition (slot, validators, committee assignment,          *)
(*                      positions and committee sizes all vary from run to run; validators,     *)
(*                      committee indices and slots are re-used across runs with other values), *)
(*                      every failure branch, and OVERLAP.  The first record of the history     *)
(*                      names the plan: hold = a pc value: run 1 is held at that point (before  *)
(*                      the signer has read its request: "sign", inside the signer: "signing",  *)
(*                      before / inside the submitter: "submit" / "submitting", inside the data *)
(*                      fetch / accounts lookup) while run 2 - another duty - runs from start   *)
(*                      to end, then run 1 goes on, later runs follow one after the other       *)
(*                      (state carried); hold = "any": the runs interleave freely               *)
(*   ScenMode = "shape" C01: THE SHAPE OF A DUTY, enumerated exhaustively: an optional           *)
(*                      preparatory run that makes any subset of the validators "already        *)
(*                      attested", then ONE duty out of every sequence of entries over the      *)
(*                      validators - a validator listed once, twice, three times, next to each  *)
(*                      other or with another in between, repeated entries in the same or in    *)
(*                      another committee - with any subset of the claimed validators without   *)
(*                      account, any subset unsigned, or the signer failing                     *)
EXTENDS Attester, Json

CONSTANTS ScenMode, ScenLen, ScenVals, ScenMaxLen, ScenSlots, ScenComms, ScenPrepSlot

VARIABLES hist, succ
svars == <<vars, hist, succ>>

NC == Cardinality(ScenComms)
SizeTab(c) == 6 + 2 * c
Sizes == [i \in 1..NC |-> <<i - 1, SizeTab(i - 1)>>]

AnySeqs == UNION {[1..n -> ScenVals] : n \in 1..ScenMaxLen}
InjSeqs == {vs \in AnySeqs : \A i, j \in DOMAIN vs : vs[i] = vs[j] => i = j}
\* sequences that list some validator more than once
RepSeqs == AnySeqs \ InjSeqs

\* a small family of committee / position assignments (k, j), or every assignment in c04 mode
MkDuty(s, vs, k, j) ==
    [slot |-> s, vals |-> vs,
     comm |-> [i \in DOMAIN vs |-> (vs[i] * k + j) % NC],
     pos |-> [i \in DOMAIN vs |-> (vs[i] * 3 + j + s) % 5],
     sizes |-> Sizes]
HistDuties == {MkDuty(s, vs, k, j) : s \in ScenSlots, vs \in InjSeqs, k \in 1..2, j \in 0..(NC - 1)}
\* ... with the committee and the position following the ENTRY by m per place (m = 0: a validator listed again
\* comes with the same committee and position, m > 0: with other ones)
MkDutyE(s, vs, k, j, m) ==
    [slot |-> s, vals |-> vs,
     comm |-> [i \in DOMAIN vs |-> (vs[i] * k + j + m * i) % NC],
     pos |-> [i \in DOMAIN vs |-> (vs[i] * 3 + j + s + m * i) % 5],
     sizes |-> Sizes]

TestDuties ==
    {[slot |-> s, vals |-> vs, comm |-> cs, pos |-> [i \in DOMAIN vs |-> (vs[i] * 3 + s) % 5], sizes |-> Sizes]
        : s \in ScenSlots, vs \in InjSeqs, cs \in UNION {[1..n -> ScenComms] : n \in 1..ScenMaxLen}}
C04Duties == {d \in TestDuties : Len(d.comm) = Len(d.vals)}

RECURSIVE SortedSeq(_)
Min(S) == CHOOSE x \in S : \A y \in S : x <= y
SortedSeq(S) == IF S = {} THEN <<>> ELSE <<Min(S)>> \o SortedSeq(S \ {Min(S)})
PrepDuties == {[slot |-> ScenPrepSlot, vals |-> SortedSeq(S), comm |-> [i \in 1..Cardinality(S) |-> 0],
                pos |-> [i \in 1..Cardinality(S) |-> SortedSeq(S)[i] % 5], sizes |-> Sizes]
                    : S \in (SUBSET ScenVals) \ {{}}}

SInit == /\ Init /\ succ = {}
         /\ IF ScenMode = "c04ovl"
            THEN hist \in {<<[ev |-> "Reset", spe |-> SlotsPerEpoch, mode |-> ScenMode, hold |-> h]>> :
                             h \in {"fetch", "accounts", "sign", "signing", "submit", "submitting", "any"}}
            ELSE hist = <<[ev |-> "Reset", spe |-> SlotsPerEpoch, mode |-> ScenMode]>>

H(e) == hist' = Append(hist, e)
Marking == {r \in RunIds : run[r].pc = "mark"}
GoodData(d, k) == [slot |-> d.slot, src |-> Max(Epoch(d.slot) - 1, 0), tgt |-> Epoch(d.slot), root |-> k]

Internal(r) ==
    \/ Validate(r, DataOK(run[r].duty, run[r].data))
    \/ Build(r, {ExpectedAtt(run[r].duty, v, run[r].data) : v \in Signed(run[r])})
    \/ /\ run[r].pc = "ret"
       /\ Housekeep(r, IF r \in succ THEN {p \in attested : p[1] + 2 = Epoch(run[r].duty.slot)} ELSE {})

\* one randomly drawn duty per step (TLC simulation; RandomElement follows -seed), so that the many
\* possible duties do not outweigh the other steps
\* (the argument keeps TLC from caching the drawn value as a constant)
\* every fourth duty lists a validator more than once (same or other committee for the repeated entry)
RandomDuty(x) == IF RandomElement(IF x >= 0 THEN 1..4 ELSE {}) = 1
                 THEN MkDutyE(RandomElement(ScenSlots), RandomElement(RepSeqs), RandomElement(1..2), RandomElement(0..(NC - 1)), RandomElement(0..1))
                 ELSE MkDuty(RandomElement(IF x >= 0 THEN ScenSlots ELSE {}), RandomElement(InjSeqs), RandomElement(1..2), RandomElement(0..(NC - 1)))
\* ... or a duty already delivered (re-delivery after a reorg, retry), possibly moved to another slot
Redeliver(x) == LET S == {run[q].duty : q \in Started} IN
                IF S = {} THEN RandomDuty(x)
                ELSE LET d == RandomElement(S) IN
                     IF RandomElement(1..2) = 1 THEN d ELSE [d EXCEPT !.slot = RandomElement(IF x >= 0 THEN ScenSlots ELSE {})]

\* what an interface fails with (the attester treats them alike; the fakes return the real error values):
\* taken in turn along the history, so that the weight of the failure branches stays what it was
ErrKind == <<"other", "deadline", "canceled">>[(Len(hist) % 3) + 1]
\* how a response is incomplete: 1 = no data, 2 = no source checkpoint, 3 = no target checkpoint
IncKind(a) == IF a = Incomplete THEN (Len(hist) % 3) + 1 ELSE 0

HistNext ==
    \/ \E r \in RunIds, n \in 1..3 :
            /\ \A q \in RunIds : q < r => run[q].pc # "idle"
            /\ LET d == IF n = 1 THEN Redeliver(Len(hist)) ELSE RandomDuty(Len(hist)) IN
                 Deliver(r, d) /\ H([ev |-> "Deliver", run |-> r, duty |-> run'[r].duty]) /\ UNCHANGED succ
    \/ \E r \in RunIds :
        \/ \E a \in DataChoices(run[r].duty) \cup {GoodData(run[r].duty, k) : k \in Roots} :
                Fetch(r, a) /\ H([ev |-> "Fetch", run |-> r, err |-> FALSE, data |-> a, inc |-> IncKind(a)]) /\ UNCHANGED succ
        \/ \E n \in 1..6 : Fetch(r, GoodData(run[r].duty, 1)) /\ H([ev |-> "Fetch", run |-> r, err |-> FALSE, data |-> GoodData(run[r].duty, 1)]) /\ UNCHANGED succ
        \/ FetchErr(r) /\ H([ev |-> "Fetch", run |-> r, err |-> TRUE, kind |-> ErrKind]) /\ UNCHANGED succ
        \/ \E A \in SUBSET run[r].claimed :
                Accounts(r, A) /\ H([ev |-> "Accounts", run |-> r, err |-> FALSE, accts |-> A]) /\ UNCHANGED succ
        \/ \E n \in 1..4 : Accounts(r, run[r].claimed) /\ H([ev |-> "Accounts", run |-> r, err |-> FALSE, accts |-> run[r].claimed]) /\ UNCHANGED succ
        \/ AccountsErr(r) /\ H([ev |-> "Accounts", run |-> r, err |-> TRUE, kind |-> ErrKind]) /\ UNCHANGED succ
        \/ SignCall(r, ExpectedReq(run[r]), SignData(run[r])) /\ H([ev |-> "Sign", run |-> r]) /\ UNCHANGED succ
        \/ \E Z \in SUBSET ReqVals(run[r].req) :
                SignRet(r, Z, TRUE) /\ H([ev |-> "SignRet", run |-> r, err |-> FALSE, zero |-> Z]) /\ UNCHANGED succ
        \/ \E n \in 1..4 : SignRet(r, {}, TRUE) /\ H([ev |-> "SignRet", run |-> r, err |-> FALSE, zero |-> {}]) /\ UNCHANGED succ
        \/ SignRet(r, {}, FALSE) /\ H([ev |-> "SignRet", run |-> r, err |-> TRUE, zero |-> {}, kind |-> ErrKind]) /\ UNCHANGED succ
        \/ SubmitCall(r) /\ H([ev |-> "Submit", run |-> r]) /\ UNCHANGED succ
        \/ \E n \in 1..4 :
                LET ok == n > 1 IN
                SubmitRet(r, ok) /\ H([ev |-> "SubmitRet", run |-> r, err |-> ~ok, kind |-> IF ok THEN "" ELSE ErrKind])
                /\ succ' = IF ok THEN succ \cup {r} ELSE succ
        \/ Internal(r) /\ UNCHANGED <<hist, succ>>

(* ---- shape: every shape of ONE duty, on a fresh or a pre-marked instance (exhaustive) ---- *)
\* every sequence of entries; the committee of an entry: by the validator or by the entry (variants k), the
\* position in the committee by the entry (so that a repeated validator's entries differ there too)
ShapeDuties ==
    {[slot |-> s, vals |-> vs,
      comm |-> [i \in DOMAIN vs |-> IF k = 0 THEN vs[i] % NC ELSE (vs[i] + i) % NC],
      pos |-> [i \in DOMAIN vs |-> (vs[i] * 3 + i) % 5], sizes |-> Sizes]
        : s \in ScenSlots, vs \in AnySeqs, k \in 0..1}

\* run 1 = preparatory run (optional, everything succeeds), run 2 = the duty under study
ShapeNext ==
    \/ /\ run[1].pc = "idle" /\ run[2].pc = "idle"
       /\ \E d \in PrepDuties : Deliver(1, d) /\ H([ev |-> "Deliver", run |-> 1, duty |-> d]) /\ UNCHANGED succ
    \/ /\ run[1].pc \in {"idle", "done"} /\ run[2].pc = "idle"
       /\ \E d \in ShapeDuties : Deliver(2, d) /\ H([ev |-> "Deliver", run |-> 2, duty |-> d]) /\ UNCHANGED succ
    \/ /\ Fetch(1, GoodData(run[1].duty, 1)) /\ H([ev |-> "Fetch", run |-> 1, err |-> FALSE, data |-> GoodData(run[1].duty, 1)]) /\ UNCHANGED succ
    \/ /\ Accounts(1, run[1].claimed) /\ H([ev |-> "Accounts", run |-> 1, err |-> FALSE, accts |-> run[1].claimed]) /\ UNCHANGED succ
    \/ \E r \in {1, 2} : SignCall(r, ExpectedReq(run[r]), SignData(run[r])) /\ H([ev |-> "Sign", run |-> r]) /\ UNCHANGED succ
    \/ \E r \in {1, 2} : SubmitCall(r) /\ H([ev |-> "Submit", run |-> r]) /\ UNCHANGED succ
    \/ /\ SignRet(1, {}, TRUE) /\ H([ev |-> "SignRet", run |-> 1, err |-> FALSE, zero |-> {}]) /\ UNCHANGED succ
    \/ /\ SubmitRet(1, TRUE) /\ H([ev |-> "SubmitRet", run |-> 1, err |-> FALSE]) /\ succ' = succ \cup {1}
    \/ /\ Fetch(2, GoodData(run[2].duty, 1)) /\ H([ev |-> "Fetch", run |-> 2, err |-> FALSE, data |-> GoodData(run[2].duty, 1)]) /\ UNCHANGED succ
    \/ \E A \in SUBSET run[2].claimed :
            Accounts(2, A) /\ H([ev |-> "Accounts", run |-> 2, err |-> FALSE, accts |-> A]) /\ UNCHANGED succ
    \/ \E Z \in SUBSET ReqVals(run[2].req) :
            SignRet(2, Z, TRUE) /\ H([ev |-> "SignRet", run |-> 2, err |-> FALSE, zero |-> Z]) /\ UNCHANGED succ
    \/ /\ SignRet(2, {}, FALSE) /\ H([ev |-> "SignRet", run |-> 2, err |-> TRUE, zero |-> {}, kind |-> "other"]) /\ UNCHANGED succ
    \/ /\ SubmitRet(2, TRUE) /\ H([ev |-> "SubmitRet", run |-> 2, err |-> FALSE]) /\ succ' = succ \cup {2}
    \/ \E r \in RunIds : Internal(r) /\ UNCHANGED <<hist, succ>>

\* run 1 = preparatory run (optional, everything succeeds), run 2 = duty under test
C04Next ==
    \/ /\ run[1].pc = "idle" /\ run[2].pc = "idle"
       /\ \E d \in PrepDuties : Deliver(1, d) /\ H([ev |-> "Deliver", run |-> 1, duty |-> d]) /\ UNCHANGED succ
    \/ /\ run[1].pc \in {"idle", "done"} /\ run[2].pc = "idle"
       /\ ScenMaxLen <= 3
       /\ \E d \in C04Duties :
            /\ {p[2] : p \in attested} \subseteq Range(d.vals)
            /\ Deliver(2, d) /\ H([ev |-> "Deliver", run |-> 2, duty |-> d]) /\ UNCHANGED succ
    \* larger duties: one random draw (TLC simulation), bound variables so that each is drawn once
    \/ /\ run[1].pc \in {"idle", "done"} /\ run[2].pc = "idle"
       /\ ScenMaxLen > 3
       /\ LET P == {p[2] : p \in attested} IN
          \E X \in {RandomElement(SUBSET (ScenVals \ P))} :
          \E S \in {IF P \cup X = {} THEN {RandomElement(ScenVals)} ELSE P \cup X} :
          \E vs \in {RandomElement({f \in [1..Cardinality(S) -> S] : \A i, j \in DOMAIN f : f[i] = f[j] => i = j})} :
          \E cs \in {RandomElement([1..Cardinality(S) -> ScenComms])} :
          \E s \in {RandomElement(ScenSlots)}, j \in {RandomElement(0..4)} :
            LET d == [slot |-> s, vals |-> vs, comm |-> cs, pos |-> [i \in DOMAIN vs |-> (vs[i] * 3 + j) % 5], sizes |-> Sizes] IN
            Deliver(2, d) /\ H([ev |-> "Deliver", run |-> 2, duty |-> run'[2].duty]) /\ UNCHANGED succ
    \/ /\ Fetch(1, GoodData(run[1].duty, 1)) /\ H([ev |-> "Fetch", run |-> 1, err |-> FALSE, data |-> GoodData(run[1].duty, 1)]) /\ UNCHANGED succ
    \/ /\ Accounts(1, run[1].claimed) /\ H([ev |-> "Accounts", run |-> 1, err |-> FALSE, accts |-> run[1].claimed]) /\ UNCHANGED succ
    \/ \E r \in {1, 2} : SignCall(r, ExpectedReq(run[r]), SignData(run[r])) /\ H([ev |-> "Sign", run |-> r]) /\ UNCHANGED succ
    \/ \E r \in {1, 2} : SubmitCall(r) /\ H([ev |-> "Submit", run |-> r]) /\ UNCHANGED succ
    \/ /\ SignRet(1, {}, TRUE) /\ H([ev |-> "SignRet", run |-> 1, err |-> FALSE, zero |-> {}]) /\ UNCHANGED succ
    \/ /\ SubmitRet(1, TRUE) /\ H([ev |-> "SubmitRet", run |-> 1, err |-> FALSE]) /\ succ' = succ \cup {1}
    \/ \E k \in Roots : Fetch(2, GoodData(run[2].duty, k)) /\ H([ev |-> "Fetch", run |-> 2, err |-> FALSE, data |-> GoodData(run[2].duty, k)]) /\ UNCHANGED succ
    \/ \E A \in SUBSET run[2].claimed :
            Accounts(2, A) /\ H([ev |-> "Accounts", run |-> 2, err |-> FALSE, accts |-> A]) /\ UNCHANGED succ
    \/ \E Z \in SUBSET ReqVals(run[2].req) :
            SignRet(2, Z, TRUE) /\ H([ev |-> "SignRet", run |-> 2, err |-> FALSE, zero |-> Z]) /\ UNCHANGED succ
    \/ \E ok \in BOOLEAN : SubmitRet(2, ok) /\ H([ev |-> "SubmitRet", run |-> 2, err |-> ~ok]) /\ succ' = IF ok THEN succ \cup {2} ELSE succ
    \/ \E r \in RunIds : Internal(r) /\ UNCHANGED <<hist, succ>>


(* ---- c04ovl: heterogeneous, overlapping histories on one instance ---- *)
Hold == hist[1].hold

\* may run r take a step of its own now?  (plan "any": always)
MayStep(r) ==
    \/ Hold = "any"
    \/ r = 1 /\ (run[1].pc # Hold \/ run[2].pc = "done")
    \/ r = 2 /\ run[1].pc \in {Hold, "done"}
    \/ r > 2 /\ \A q \in RunIds : q < r => run[q].pc = "done"

\* committee sizes differ from duty to duty (a committee index does not determine its size)
OvlSizes(s, j) == [i \in 1..NC |-> <<i - 1, 6 + 2 * (i - 1) + ((s + j) % 3)>>]

OvlNext ==
    \/ \E r \in RunIds :
        /\ run[r].pc = "idle" /\ \A q \in RunIds : q < r => run[q].pc # "idle"
        /\ MayStep(r)
        \* one random draw per step; bound variables so that each value is drawn once
        /\ \E s \in {RandomElement(IF Len(hist) >= 0 THEN ScenSlots ELSE {})} :
           \E vs \in {RandomElement(IF Len(hist) >= 0 THEN InjSeqs ELSE {})} :
           \E cs \in {RandomElement([1..Len(vs) -> ScenComms])} :
           \E j \in {RandomElement(0..4)} :
             LET d == [slot |-> s, vals |-> vs, comm |-> cs,
                       pos |-> [i \in DOMAIN vs |-> (vs[i] * 3 + j) % 5], sizes |-> OvlSizes(s, j)] IN
             Deliver(r, d) /\ H([ev |-> "Deliver", run |-> r, duty |-> run'[r].duty]) /\ UNCHANGED succ
    \/ \E r \in RunIds :
        /\ MayStep(r)
        /\ \/ \E n \in 1..6, k \in Roots : Fetch(r, GoodData(run[r].duty, k)) /\ H([ev |-> "Fetch", run |-> r, err |-> FALSE, data |-> GoodData(run[r].duty, k)]) /\ UNCHANGED succ
           \/ FetchErr(r) /\ H([ev |-> "Fetch", run |-> r, err |-> TRUE]) /\ UNCHANGED succ
           \/ \E A \in SUBSET run[r].claimed :
                   Accounts(r, A) /\ H([ev |-> "Accounts", run |-> r, err |-> FALSE, accts |-> A]) /\ UNCHANGED succ
           \/ \E n \in 1..6 : Accounts(r, run[r].claimed) /\ H([ev |-> "Accounts", run |-> r, err |-> FALSE, accts |-> run[r].claimed]) /\ UNCHANGED succ
           \/ AccountsErr(r) /\ H([ev |-> "Accounts", run |-> r, err |-> TRUE]) /\ UNCHANGED succ
           \/ SignCall(r, ExpectedReq(run[r]), SignData(run[r])) /\ H([ev |-> "Sign", run |-> r]) /\ UNCHANGED succ
           \/ \E Z \in SUBSET ReqVals(run[r].req) :
                   SignRet(r, Z, TRUE) /\ H([ev |-> "SignRet", run |-> r, err |-> FALSE, zero |-> Z]) /\ UNCHANGED succ
           \/ \E n \in 1..6 : SignRet(r, {}, TRUE) /\ H([ev |-> "SignRet", run |-> r, err |-> FALSE, zero |-> {}]) /\ UNCHANGED succ
           \/ SignRet(r, {}, FALSE) /\ H([ev |-> "SignRet", run |-> r, err |-> TRUE, zero |-> {}]) /\ UNCHANGED succ
           \/ SubmitCall(r) /\ H([ev |-> "Submit", run |-> r]) /\ UNCHANGED succ
           \/ \E n \in 1..4 :
                   LET ok == n > 1 IN
                   SubmitRet(r, ok) /\ H([ev |-> "SubmitRet", run |-> r, err |-> ~ok])
                   /\ succ' = IF ok THEN succ \cup {r} ELSE succ
           \/ Internal(r) /\ UNCHANGED <<hist, succ>>

SNext ==
    /\ Len(hist) <= ScenLen
    /\ IF Marking # {}
       THEN \E r \in Marking, claim \in BOOLEAN : MarkOne(r, claim) /\ UNCHANGED <<hist, succ>>
       ELSE IF ScenMode = "hist" THEN HistNext ELSE IF ScenMode = "c04ovl" THEN OvlNext
            ELSE IF ScenMode = "shape" THEN ShapeNext ELSE C04Next

SSpec == SInit /\ [][SNext]_svars

Finished == IF ScenMode \in {"hist", "c04ovl"}
            THEN Len(hist) = ScenLen + 1 \/ \A r \in RunIds : run[r].pc = "done"
            ELSE run[2].pc = "done"
Emit == Finished => PrintT(ToJson(hist))
=============================================================================
