------------------------------ MODULE BlockRelay ------------------------------
(* Block relay of Vouch: services/blockrelay/standard/{service,executionconfig,proposerconfig,   *)
(* auctionblock,submitvalidatorregistrations,validatorregistrations}.go and                      *)
(* services/proposalpreparer/standard/updatepreparations.go.                                     *)
(*                                                                                               *)
(* CONFIGURATION PART (property C12).  The active execution configuration, the Go sync.RWMutex    *)
(* that guards it (readers / writer / waiting writers; a waiting writer blocks new readers), and  *)
(* the operations that use it.  One action per lock operation / interface call:                   *)
(*   Start(o,k,a)                       an operation is called (fetch job, ProposerConfig,        *)
(*                                      AuctionBlock, registration job)                           *)
(*   FetchRLock/FetchRUnlock            fetchExecutionConfig reads the current configuration      *)
(*   FetchSource(o,out)                 the configuration source answers (environment)            *)
(*   FetchLockReq/FetchLockAcq/FetchWriteUnlock   executionConfigMu.Lock() .. Unlock()            *)
(*   LookupRLock/LookupRUnlock          ProposerConfig                                            *)
(*   AuctionRLock/AuctionRUnlock        auctionBlock obtaining the proposer configuration; the    *)
(*                                      lock is released on EVERY path, including the error one   *)
(*   AuctionBid(o,b)                    the builder-bid strategy answers (environment)            *)
(*   RegisterRun(o)                     the registration round                                    *)
(*   Return(o)                          the call returns                                          *)
(* The service instance and its history are explicit: an operation is an interval Start .. Return   *)
(* on the ONE long-lived service, operations overlap as the environment decides, during[o] holds     *)
(* the configurations in force during the interval, and AnswersInForce demands of every lookup and   *)
(* auction an answer from one of them, whatever the instance has seen before.  Resolution selects    *)
(* how the settings are worked out (under the lock / from a snapshot afterwards) and two control      *)
(* models that remember worked-out settings on the instance ("memo": rejected, "memochecked").        *)
(* AuctionImpl = "pinned" renders auctionBlock as it is written on the pinned tree (outer RLock,   *)
(* nested RLock inside ProposerConfig, no RUnlock on the error return); it exists only to show     *)
(* that the model discriminates (LockBalanced and NoWedge fail for it).  "intended" is the         *)
(* behaviour the property demands.                                                                *)
(*                                                                                               *)
(* REGISTRATION PART (property C11).  Registration rounds, preparation rounds and forwarding of    *)
(* registrations received over REST, with the configuration changing in between                   *)
(* (ConfigFetch = the atomic rendering of a fetch).  The observation actions Record* only record   *)
(* what was signed / submitted; the invariants judge the record.  The guarded actions (SignReq,    *)
(* RelayStart, ...) are the permitted behaviours; TLC checks that they imply the invariants.       *)
(* The fan-out to the relays, to the secondary beacon nodes and to the preparation nodes is        *)
(* explicit: every call is a process of its own (XStart ... XFinish) that overlaps the others in   *)
(* any order, carries its own context, and is answered by an environment that honours that         *)
(* context like an HTTP client: a call whose context is cancelled before it completes fails with   *)
(* a context error and the rest of its payload is never delivered.  The intended protocol never    *)
(* cancels the context of one call because of another; SpecC11SharedCancelR/N/P render a fan-out   *)
(* with one derived context that the first failing call cancels (errgroup.WithContext) and exist   *)
(* only to show that FailureIsolated / PreparationIsolated / ForwardedAll discriminate.            *)
(* Calls follow each other on one long-lived instance in any order and with any outcome; what a     *)
(* round may leave behind for later calls is named (signedEver / latestSigned, controlled, the        *)
(* active configuration), everything else is reset per round; every call returns (RoundReturns,      *)
(* F2Returns, CallsProgress).  Overlap: a fetch inside a round that waits for its relays (MidRound)   *)
(* and a REST forwarding call with a lane of its own (fw, F2...).  SpecC11Slot(leaky) are control      *)
(* models with a per-relay submission slot kept on the service (leaky: rejected).                    *)
(* The KIND of a failure is an environment choice (ErrKinds): a relay / beacon node client answers an  *)
(* ordinary error, an error that wraps context.DeadlineExceeded or context.Canceled although the      *)
(* CALLER's context is live (the client's own per-call time-out: go-eth2-client / go-builder-client   *)
(* wrap every request in context.WithTimeout and return errors.Join(.., url.Error{Err: ctx error})),  *)
(* or ErrNotActive - at any point of its call, whatever its position among the configured nodes.      *)
(* None of them may keep another relay / node from its registrations / preparations.  SpecC11Prep-    *)
(* GiveUp / SpecC11RegGiveUp / SpecC11KindCancel are control models that treat the time-out kinds as  *)
(* "our own context is done": right under the narrow alphabet the model used to have (ErrKindsPlain), *)
(* rejected by TLC under the full one.                                                              *)
EXTENDS Integers, FiniteSets, Sequences, TLC

CONSTANTS Validators,    \* validators Vouch holds accounts for          (subset of {1,2})
          Externals,     \* validators only seen in REST registrations   (subset of {3})
          Relays,        \* relay ids                                    (subset of {1,2})
          Nodes,         \* beacon node ids
          DocIds,        \* documents of the catalogue the source may serve (subset of 1..6)
          Ops,           \* operation instances (1..N)
          MaxInFlight,   \* concurrent operations
          AuctionImpl,   \* "intended" | "pinned"
          FailKinds,     \* failing answers of the source: subset of {"error", "malformed", "empty"}
          MaxRounds,     \* bound on rounds+fetches of the registration part (model checking only)
          Resolution     \* how ProposerConfig / auctionBlock work out a validator's settings:
                         \*   "locked"      under the configuration read lock (the code as written)
                         \*   "snapshot"    the configuration is read under the lock, the settings are worked out
                         \*                 from that snapshot after the lock was released (equally permitted)
                         \*   "memo"        CONTROL MODEL, not permitted: as snapshot, and the result is kept per
                         \*                 validator in a memo that every fetch empties (right on every fresh
                         \*                 instance and in every sequential history)
                         \*   "memochecked" as memo, but a result is only kept while its configuration is still
                         \*                 the active one (permitted: the property does not forbid remembering)

AllV == Validators \cup Externals

-----------------------------------------------------------------------------
(* The catalogue of configuration documents.  fee / gas ids: 0 = not specified at that level      *)
(* (relay fee 0 inherits the validator-level fee, validator fee 0 is the fallback fee recipient,   *)
(* gas 0 is the fallback gas limit).  rel[v] = set of <<relay, fee, gas>>.  bad = validators whose  *)
(* settings cannot be resolved with this document (ProposerConfig returns an error).  The driver   *)
(* renders a document as version-2 JSON from exactly this description (it is part of "Reset").     *)
Catalogue(k) ==
  CASE k = 1 -> [bad  |-> {},
                 vfee |-> (1 :> 1 @@ 2 :> 1 @@ 3 :> 1),
                 rel  |-> (1 :> {<<1, 0, 1>>, <<2, 0, 1>>} @@ 2 :> {<<1, 0, 1>>, <<2, 0, 1>>} @@ 3 :> {<<1, 0, 1>>})]
    [] k = 2 -> [bad  |-> {},
                 vfee |-> (1 :> 1 @@ 2 :> 2 @@ 3 :> 1),
                 rel  |-> (1 :> {<<1, 2, 1>>, <<2, 0, 2>>} @@ 2 :> {<<1, 0, 0>>} @@ 3 :> {<<2, 2, 2>>})]
    [] k = 3 -> [bad  |-> {2},
                 vfee |-> (1 :> 1 @@ 2 :> 0 @@ 3 :> 1),
                 rel  |-> (1 :> {<<1, 0, 1>>, <<2, 0, 1>>} @@ 2 :> {} @@ 3 :> {<<1, 0, 1>>})]
    [] k = 4 -> [bad  |-> {},
                 vfee |-> (1 :> 0 @@ 2 :> 0 @@ 3 :> 0),
                 rel  |-> (1 :> {} @@ 2 :> {} @@ 3 :> {})]
    [] k = 5 -> [bad  |-> {},
                 vfee |-> (1 :> 1 @@ 2 :> 1 @@ 3 :> 2),
                 rel  |-> (1 :> {<<1, 0, 2>>, <<2, 0, 2>>} @@ 2 :> {<<1, 0, 1>>, <<2, 0, 1>>} @@ 3 :> {})]
    [] k = 6 -> [bad  |-> {1, 3},
                 vfee |-> (1 :> 0 @@ 2 :> 2 @@ 3 :> 0),
                 rel  |-> (1 :> {} @@ 2 :> {<<2, 1, 1>>} @@ 3 :> {})]

ASSUME /\ Validators \subseteq {1, 2} /\ Externals \subseteq {3} /\ Relays = {1, 2} /\ DocIds \subseteq 1..6
       /\ AuctionImpl \in {"intended", "pinned"}
       /\ Resolution \in {"locked", "snapshot", "memo", "memochecked"}

(* What ProposerConfig is to answer for validator v when document d is active; d = 0 is the      *)
(* configuration Vouch starts with (empty version-2 configuration: fallback values, no relays).   *)
Resolve(d, v) ==
  IF d = 0 THEN [ok |-> TRUE, fee |-> 0, rel |-> {}]
  ELSE LET doc == Catalogue(d) IN
       IF v \in doc.bad THEN [ok |-> FALSE, fee |-> 0, rel |-> {}]
       ELSE [ok  |-> TRUE,
             fee |-> doc.vfee[v],
             rel |-> {<<t[1], IF t[2] = 0 THEN doc.vfee[v] ELSE t[2], t[3]>> : t \in doc.rel[v]}]

Fallback == [ok |-> TRUE, fee |-> 0, rel |-> {}]

Outcomes == {[t |-> "good", doc |-> k] : k \in DocIds}
            \cup {[t |-> x, doc |-> 0] : x \in FailKinds}

NoOutcome == [t |-> "none", doc |-> 0]
NoRes == [ok |-> TRUE, fee |-> 0, rel |-> {}, src |-> 0, bid |-> "none"]
NoMemo == -1
\* the second forwarding lane at rest
NoFw == [on |-> FALSE, ended |-> FALSE, in |-> {}, cfg |-> 0, ctl |-> {},
         sent |-> [r \in Relays |-> {}], call |-> [r \in Relays |-> "idle"],
         pend |-> [r \in Relays |-> {}], got |-> [r \in Relays |-> {}], cx |-> {}]

-----------------------------------------------------------------------------
VARIABLES active,     \* document id of the active configuration (0 = initial)
          lastGood,   \* document id of the last document obtained successfully (0 = never)
          readers,    \* executionConfigMu: number of read locks held
          writer,     \* executionConfigMu: write lock held
          waiting,    \* executionConfigMu: operations blocked in Lock() (they block new readers)
          pc, kind, arg, got, res,   \* per operation instance
          snap,       \* per operation: the configuration it read (Resolution # "locked")
          during,     \* per operation: the configurations that were in force at some time during the call
          memo,       \* per validator: document the remembered settings were worked out from, or NoMemo
                      \* (control model Resolution = "memo" / "memochecked" only; state carried between calls)
          \* registration part
          phase,        \* "idle" | "reg" | "prep" | "fwd"
          lastKind,     \* kind of the last round that started
          rAccts,       \* accounts of the round
          rCfg,         \* configuration active during the round
          rLatest0,     \* latestSigned when the round started
          rSigned,      \* <<v,fee,gas>> signed successfully in this round
          rFailed,      \* <<v,fee,gas>> whose signing request failed in this round
          sentR, doneR, \* per relay: registrations handed to the relay's client in this round; relays called
          sentN, doneN, \* per node: registrations handed to the node's client in this round; nodes called
          prepN, donePrep,  \* per node: preparations handed over; nodes called
          callR, callN, callP, \* per relay / node / preparation node: state of its call in this round:
                        \* "idle" | "flight" | outcome ("ok" | a failure of its own: one of ErrKindsAll |
                        \* "ctx" = context error)
          pendR, gotR,  \* per relay: handed over and not yet delivered / delivered (batch by batch)
          cancelled,    \* calls whose context is cancelled: <<"R", r>>, <<"N", n>>, <<"P", n>>
          fwdIn,        \* registrations received over REST in this forwarding round
          signedEver,   \* <<v,fee,gas>> ever signed successfully
          latestSigned, \* per validator: <<fee,gas>> of the last successful signing, or <<>>
          controlled,   \* validators of the last registration round
          rounds,       \* counter (bounds model checking only)
          fw,           \* the second forwarding lane: a REST forwarding call that runs WHILE a registration round
                        \* is in flight (ValidatorRegistrations and the periodic round both end in the relay fan-out);
                        \* a record of its own, so that the two calls' submissions are judged apart
          slotHeld      \* relays whose submission slot is taken - exists ONLY in the control models
                        \* SpecC11Slot(leaky): a per-relay slot kept on the service across rounds

cfgVars  == <<active, lastGood>>
lockVars == <<readers, writer, waiting>>
auxVars  == <<snap, during, memo>>
opVars   == <<pc, kind, arg, got, res, auxVars>>
callVars == <<callR, callN, callP, pendR, gotR, cancelled>>
regCore  == <<phase, lastKind, rAccts, rCfg, rLatest0, rSigned, rFailed, sentR, doneR, sentN, doneN,
              prepN, donePrep, fwdIn, signedEver, latestSigned, controlled, rounds, callVars>>
devVars  == <<fw, slotHeld>>
regVars  == <<regCore, devVars>>
vars     == <<cfgVars, lockVars, opVars, regVars>>

InitCfg == active = 0 /\ lastGood = 0
InitLock == readers = 0 /\ writer = FALSE /\ waiting = {}
InitOps ==
    /\ pc = [o \in Ops |-> "idle"]
    /\ kind = [o \in Ops |-> "none"]
    /\ arg = [o \in Ops |-> 0]
    /\ got = [o \in Ops |-> NoOutcome]
    /\ res = [o \in Ops |-> NoRes]
    /\ snap = [o \in Ops |-> 0]
    /\ during = [o \in Ops |-> {}]
    /\ memo = [v \in AllV |-> NoMemo]
InitReg ==
    /\ phase = "idle" /\ lastKind = "none"
    /\ rAccts = {} /\ rCfg = 0
    /\ rLatest0 = [v \in AllV |-> <<>>]
    /\ rSigned = {} /\ rFailed = {}
    /\ sentR = [r \in Relays |-> {}] /\ doneR = {}
    /\ sentN = [n \in Nodes |-> {}] /\ doneN = {}
    /\ prepN = [n \in Nodes |-> {}] /\ donePrep = {}
    /\ callR = [r \in Relays |-> "idle"] /\ callN = [n \in Nodes |-> "idle"] /\ callP = [n \in Nodes |-> "idle"]
    /\ pendR = [r \in Relays |-> {}] /\ gotR = [r \in Relays |-> {}]
    /\ cancelled = {}
    /\ fwdIn = {}
    /\ signedEver = {}
    /\ latestSigned = [v \in AllV |-> <<>>]
    /\ controlled = {}
    /\ rounds = 0
    /\ fw = NoFw
    /\ slotHeld = {}
Init == InitCfg /\ InitLock /\ InitOps /\ InitReg


-----------------------------------------------------------------------------
(*                         CONFIGURATION PART  (C12)                          *)
InFlight == {o \in Ops : pc[o] \notin {"idle", "done"}}
Quiescent == InFlight = {}

\* sync.RWMutex: RLock succeeds iff no writer holds the lock and no writer is waiting for it
CanRLock == ~writer /\ waiting = {}
LockFree == readers = 0 /\ ~writer /\ waiting = {}

SetPc(o, p) == pc' = [pc EXCEPT ![o] = p]
SetRes(o, r) == res' = [res EXCEPT ![o] = r]

\* Env_SingleFetcher: the scheduler never runs the periodic fetch job twice at the same time.
\* A call is an interval on the one long-lived service instance: Start(o) ... Return(o); calls overlap as the
\* environment (scheduler, REST daemon, proposal preparer, auctions) decides.  during[o] collects every
\* configuration that is in force at some time of the interval.
Start(o, k, a) ==
    /\ pc[o] = "idle"
    /\ \A p \in Ops : p < o => pc[p] # "idle"
    /\ Cardinality(InFlight) < MaxInFlight
    /\ k = "fetch" => \A p \in InFlight : kind[p] # "fetch"
    /\ \/ k \in {"fetch", "register"} /\ a = 0
       \/ k = "lookup" /\ a \in AllV
       \/ k = "auction" /\ a \in Validators
    /\ SetPc(o, "start")
    /\ kind' = [kind EXCEPT ![o] = k]
    /\ arg' = [arg EXCEPT ![o] = a]
    /\ during' = [during EXCEPT ![o] = {active}]
    /\ UNCHANGED <<cfgVars, lockVars, got, res, snap, memo, regVars>>

\* ---- fetchExecutionConfig ----
FetchRLock(o) ==
    /\ pc[o] = "start" /\ kind[o] = "fetch" /\ CanRLock
    /\ readers' = readers + 1
    /\ SetPc(o, "f_r")
    /\ UNCHANGED <<cfgVars, writer, waiting, kind, arg, got, res, auxVars, regVars>>

FetchRUnlock(o) ==
    /\ pc[o] = "f_r"
    /\ readers' = readers - 1
    /\ SetPc(o, "f_src")
    /\ UNCHANGED <<cfgVars, writer, waiting, kind, arg, got, res, auxVars, regVars>>

\* the source answers: a document of the catalogue, an error, malformed or empty content
FetchSource(o, out) ==
    /\ pc[o] = "f_src" /\ out \in Outcomes
    /\ got' = [got EXCEPT ![o] = out]
    /\ lastGood' = IF out.t = "good" THEN out.doc ELSE lastGood
    /\ SetPc(o, "f_got")
    /\ UNCHANGED <<active, lockVars, kind, arg, res, auxVars, regVars>>

FetchLockReq(o) ==
    /\ pc[o] = "f_got"
    /\ waiting' = waiting \cup {o}
    /\ SetPc(o, "f_wait")
    /\ UNCHANGED <<cfgVars, readers, writer, kind, arg, got, res, auxVars, regVars>>

FetchLockAcq(o) ==
    /\ pc[o] = "f_wait" /\ readers = 0 /\ ~writer
    /\ writer' = TRUE
    /\ waiting' = waiting \ {o}
    /\ SetPc(o, "f_w")
    /\ UNCHANGED <<cfgVars, readers, kind, arg, got, res, auxVars, regVars>>

\* keep-current-on-error: only a document obtained successfully replaces the active one.  The configuration
\* installed here is in force for every call that is in flight at this moment.  (The control model empties
\* its memo whenever the configuration is stored again.)
FetchWriteUnlock(o) ==
    /\ pc[o] = "f_w"
    /\ active' = IF got[o].t = "good" THEN got[o].doc ELSE active
    /\ writer' = FALSE
    /\ SetPc(o, "ret")
    /\ SetRes(o, [NoRes EXCEPT !.ok = (got[o].t = "good")])
    /\ during' = [p \in Ops |-> IF pc[p] \notin {"idle", "done"} THEN during[p] \cup {active'} ELSE during[p]]
    /\ memo' = [v \in AllV |-> NoMemo]
    /\ UNCHANGED <<lastGood, readers, waiting, kind, arg, got, snap, regVars>>

\* the property does not oblige a failed fetch to take the write lock at all
FetchSkipWrite(o) ==
    /\ pc[o] = "f_got" /\ got[o].t # "good"
    /\ SetPc(o, "ret")
    /\ SetRes(o, [NoRes EXCEPT !.ok = FALSE])
    /\ UNCHANGED <<cfgVars, lockVars, kind, arg, got, auxVars, regVars>>

\* ---- ProposerConfig ----
LookupRLock(o) ==
    /\ pc[o] = "start" /\ kind[o] = "lookup" /\ CanRLock
    /\ readers' = readers + 1
    /\ SetPc(o, "l_r")
    /\ UNCHANGED <<cfgVars, writer, waiting, kind, arg, got, res, auxVars, regVars>>

Answer(d, v) == LET r == Resolve(d, v) IN [ok |-> r.ok, fee |-> r.fee, rel |-> r.rel, src |-> d, bid |-> "none"]

Memoising == Resolution \in {"memo", "memochecked"}
MemoHit(v) == Memoising /\ memo[v] # NoMemo
\* what is remembered after the settings of v were worked out from document d
MemoAfter(v, d) ==
    IF Resolution = "memo" \/ (Resolution = "memochecked" /\ active = d)
    THEN [memo EXCEPT ![v] = d] ELSE memo

\* the read lock is released: with the settings worked out under it ("locked"), or with the configuration
\* only read and the working out still to come ("snapshot"; the memoising designs on a miss), or with the
\* remembered settings (the memoising designs on a hit)
LookupRUnlock(o) ==
    /\ pc[o] = "l_r"
    /\ readers' = readers - 1
    /\ IF Resolution = "locked" THEN /\ SetRes(o, Answer(active, arg[o])) /\ SetPc(o, "ret") /\ UNCHANGED snap
       ELSE IF MemoHit(arg[o]) THEN /\ SetRes(o, Answer(memo[arg[o]], arg[o])) /\ SetPc(o, "ret") /\ UNCHANGED snap
       ELSE /\ snap' = [snap EXCEPT ![o] = active] /\ SetPc(o, "l_res") /\ UNCHANGED res
    /\ UNCHANGED <<cfgVars, writer, waiting, kind, arg, got, during, memo, regVars>>

\* the settings are worked out from the configuration read earlier (the accounts' names are asked for on the
\* way: an interface call that can take any time)
LookupResolve(o) ==
    /\ pc[o] = "l_res"
    /\ SetRes(o, Answer(snap[o], arg[o]))
    /\ SetPc(o, "ret")
    /\ memo' = IF Memoising THEN MemoAfter(arg[o], snap[o]) ELSE memo
    /\ UNCHANGED <<cfgVars, lockVars, kind, arg, got, snap, during, regVars>>

\* ---- auctionBlock ----
AuctionRLock(o) ==
    /\ pc[o] = "start" /\ kind[o] = "auction" /\ CanRLock
    /\ readers' = readers + 1
    /\ SetPc(o, IF AuctionImpl = "pinned" THEN "a_outer" ELSE "a_r")
    /\ UNCHANGED <<cfgVars, writer, waiting, kind, arg, got, res, auxVars, regVars>>

\* after the proposer configuration is known: error return / no relays / ask the bid strategy
AuctionAfterConfig(o, a) ==
    /\ SetRes(o, a)
    /\ SetPc(o, IF ~a.ok \/ a.rel = {} THEN "ret" ELSE "a_bid")

\* intended: the read lock is released on every path, including the error return
AuctionRUnlock(o) ==
    /\ pc[o] = "a_r"
    /\ readers' = readers - 1
    /\ IF Resolution = "locked" THEN AuctionAfterConfig(o, Answer(active, arg[o])) /\ UNCHANGED snap
       ELSE IF MemoHit(arg[o]) THEN AuctionAfterConfig(o, Answer(memo[arg[o]], arg[o])) /\ UNCHANGED snap
       ELSE /\ snap' = [snap EXCEPT ![o] = active] /\ SetPc(o, "a_res") /\ UNCHANGED res
    /\ UNCHANGED <<cfgVars, writer, waiting, kind, arg, got, during, memo, regVars>>

AuctionResolve(o) ==
    /\ pc[o] = "a_res"
    /\ AuctionAfterConfig(o, Answer(snap[o], arg[o]))
    /\ memo' = IF Memoising THEN MemoAfter(arg[o], snap[o]) ELSE memo
    /\ UNCHANGED <<cfgVars, lockVars, kind, arg, got, snap, during, regVars>>

\* pinned tree: ProposerConfig takes the read lock again while auctionBlock holds it ...
AuctionRLockInner(o) ==
    /\ pc[o] = "a_outer" /\ CanRLock
    /\ readers' = readers + 1
    /\ SetPc(o, "a_inner")
    /\ UNCHANGED <<cfgVars, writer, waiting, kind, arg, got, res, auxVars, regVars>>

\* ... releases its own, and auctionBlock returns on error without releasing the outer one
AuctionRUnlockInner(o) ==
    /\ pc[o] = "a_inner"
    /\ readers' = readers - 1
    /\ LET a == Answer(active, arg[o]) IN
         /\ SetRes(o, a)
         /\ SetPc(o, IF ~a.ok THEN "ret" ELSE "a_outer2")
    /\ UNCHANGED <<cfgVars, writer, waiting, kind, arg, got, auxVars, regVars>>

AuctionRUnlockOuter(o) ==
    /\ pc[o] = "a_outer2"
    /\ readers' = readers - 1
    /\ SetPc(o, IF res[o].rel = {} THEN "ret" ELSE "a_bid")
    /\ UNCHANGED <<cfgVars, writer, waiting, kind, arg, got, res, auxVars, regVars>>

Bids == {"win", "nobid", "err"}

\* the builder-bid strategy answers (environment); an error there is the auction's error
AuctionBid(o, b) ==
    /\ pc[o] = "a_bid" /\ b \in Bids
    /\ SetRes(o, [res[o] EXCEPT !.bid = b, !.ok = (b # "err")])
    /\ SetPc(o, "ret")
    /\ UNCHANGED <<cfgVars, lockVars, kind, arg, got, auxVars, regVars>>

\* ---- registration round (its content is the registration part; here it only has to return) ----
RegisterRun(o) ==
    /\ pc[o] = "start" /\ kind[o] = "register"
    /\ SetRes(o, [NoRes EXCEPT !.src = active])
    /\ SetPc(o, "ret")
    /\ UNCHANGED <<cfgVars, lockVars, kind, arg, got, auxVars, regVars>>

Return(o) ==
    /\ pc[o] = "ret"
    /\ SetPc(o, "done")
    /\ UNCHANGED <<cfgVars, lockVars, kind, arg, got, res, auxVars, regVars>>

\* every step of an operation that is not visible at an interface
Internal(o) ==
    \/ FetchRLock(o) \/ FetchRUnlock(o) \/ FetchLockReq(o) \/ FetchLockAcq(o)
    \/ FetchWriteUnlock(o) \/ FetchSkipWrite(o)
    \/ LookupRLock(o) \/ LookupRUnlock(o) \/ LookupResolve(o)
    \/ AuctionRLock(o) \/ AuctionRUnlock(o) \/ AuctionResolve(o)
    \/ AuctionRLockInner(o) \/ AuctionRUnlockInner(o) \/ AuctionRUnlockOuter(o)
    \/ RegisterRun(o)

OpStep(o) ==
    \/ Internal(o)
    \/ \E out \in Outcomes : FetchSource(o, out)
    \/ \E b \in Bids : AuctionBid(o, b)
    \/ Return(o)

NextC12 ==
    \/ \E o \in Ops, k \in {"fetch", "lookup", "auction", "register"}, a \in {0} \cup AllV : Start(o, k, a)
    \/ \E o \in Ops : OpStep(o)

\* Env_Responds: the source and the bid strategy answer; the Go scheduler runs every goroutine
FairC12 == \A o \in Ops : WF_vars(OpStep(o))
SpecC12 == Init /\ [][NextC12]_vars /\ FairC12

TypeOKC12 ==
    /\ active \in {0} \cup DocIds /\ lastGood \in {0} \cup DocIds
    /\ readers \in 0..(2 * Cardinality(Ops)) /\ writer \in BOOLEAN /\ waiting \subseteq Ops
    /\ \A o \in Ops : kind[o] \in {"none", "fetch", "lookup", "auction", "register"}
    /\ \A o \in Ops : snap[o] \in {0} \cup DocIds /\ during[o] \subseteq {0} \cup DocIds
    /\ \A v \in AllV : memo[v] \in {NoMemo, 0} \cup DocIds

\* C12: Vouch keeps using the last configuration it obtained successfully
KeepsLastGood == (\A o \in Ops : pc[o] \notin {"f_got", "f_wait", "f_w"}) => active = lastGood

\* C12: ... or its fallback values if there never was one
FallbackWhenNone ==
    lastGood = 0 =>
        /\ active = 0
        /\ \A o \in Ops : (pc[o] \in {"ret", "done"} /\ kind[o] = "lookup") =>
                (res[o].ok /\ res[o].fee = Fallback.fee /\ res[o].rel = Fallback.rel)

\* every answer is the resolution of a configuration that was active
AnswersRight ==
    \A o \in Ops : (pc[o] \in {"ret", "done"} /\ kind[o] = "lookup") =>
        /\ res[o].src \in {0} \cup DocIds
        /\ LET r == Resolve(res[o].src, arg[o]) IN res[o].ok = r.ok /\ res[o].fee = r.fee /\ res[o].rel = r.rel

\* C12 on a long-lived instance ("keeps using the last configuration it obtained successfully"): whatever
\* happened on the instance before the call - earlier lookups and auctions for the same or other validators,
\* earlier configurations, failed fetches - and whatever overlaps it, a lookup or auction is answered from a
\* configuration that was in force at some time DURING that call.  The only state the property makes
\* persistent is the active configuration (= the last good one); an answer that comes from anything else the
\* instance carries along (a memo, a cache, a pooled result) of an earlier configuration violates it.
AnswersInForce ==
    \A o \in Ops : (kind[o] \in {"lookup", "auction"} /\ pc[o] \in {"a_bid", "ret", "done"}) => res[o].src \in during[o]

\* C12: no sequence of refreshes and requests leaves the lock held
LockBalanced == Quiescent => LockFree

\* the lock is held exactly by the operations that are inside a critical section
LockAccounting ==
    /\ readers = Cardinality({o \in Ops : pc[o] \in {"f_r", "l_r", "a_r"}})
    /\ writer = (\E o \in Ops : pc[o] = "f_w")
    /\ waiting = {o \in Ops : pc[o] = "f_wait"}

\* C12: every request, auction, registration round and refresh that was started returns
NoWedge == \A o \in Ops : (pc[o] = "start") ~> (pc[o] = "done")

-----------------------------------------------------------------------------
(*                          REGISTRATION PART  (C11)                          *)
roundVars == <<phase, lastKind, rAccts, rCfg, rLatest0, rSigned, rFailed, sentR, doneR, sentN, doneN,
               prepN, donePrep, fwdIn, callVars>>
sigVars == <<signedEver, latestSigned>>

\* a registration round whose registrations are generated and whose relay calls are under way: from here on
\* the round only waits for relays and nodes, and other calls of the instance run meanwhile
MidRound == phase = "reg" /\ \E r \in Relays : callR[r] = "flight"

\* the atomic rendering of a fetch: between rounds, or WHILE a round is waiting for its relays (the fetch job and
\* the registration job are independent scheduler jobs) - what the round submits was decided when it generated its
\* registrations (rCfg); the next round works with the new configuration
ConfigFetch(out) ==
    /\ (phase = "idle" \/ MidRound) /\ ~fw.on /\ out \in Outcomes
    /\ active' = IF out.t = "good" THEN out.doc ELSE active
    /\ lastGood' = IF out.t = "good" THEN out.doc ELSE lastGood
    /\ rounds' = rounds + 1
    /\ UNCHANGED <<lockVars, opVars, roundVars, sigVars, controlled>>

Pairs(S) == {<<x.v, x.fee, x.gas>> : x \in S}
MkRegs(P) == {[v |-> p[1], fee |-> p[2], gas |-> p[3], sigok |-> TRUE] : p \in P}

\* accounts of the round whose settings can be resolved
ResAccts == {v \in rAccts : Resolve(rCfg, v).ok}
\* what relay r is to be told in this round: <<validator, fee recipient, gas limit>> resolved for r
ExpFor(r) == UNION {{<<v, t[2], t[3]>> : t \in {x \in Resolve(rCfg, v).rel : x[1] = r}} : v \in ResAccts}
ExpPairs == UNION {ExpFor(r) : r \in Relays}
\* a signed registration for p may be used: signed in this round, or signed earlier and no other
\* content has been signed for that validator since ("its content is unchanged")
Avail(p) == p \in rSigned \/ (p \in signedEver /\ rLatest0[p[1]] = <<p[2], p[3]>>)
\* only a failed signing request of its own takes a registration away
Required(r) == {p \in ExpFor(r) : p \notin rFailed}
\* validators the secondary nodes must hear about / registrations they may be given
NodeMust == {v \in ResAccts : /\ Resolve(rCfg, v).rel # {}
                              /\ \A t \in Resolve(rCfg, v).rel : <<v, t[2], t[3]>> \notin rFailed}

\* THE ALPHABET OF FAILURES.  What the client of a relay / beacon node can answer of its own accord, i.e. while
\* the context the caller handed in is live:
\*   "err"        an ordinary error (connection refused, HTTP 4xx / 5xx, undecodable reply)
\*   "deadline"   the CLIENT's own per-call time-out fired (the node is slow or hangs): the error wraps
\*                context.DeadlineExceeded - errors.Join("failed to call POST endpoint", *url.Error{Err: ..}) -
\*                although the caller's context has no deadline and is not done
\*   "canceled"   the error wraps context.Canceled (the client's request context was cancelled by the client
\*                itself: connection torn down, client closing) - the caller's context is live
\*   "notactive"  ErrNotActive (the client is not, or not yet, connected / synced)
\* and, different from all of them, "ctx": the call's OWN context was cancelled (never by the intended protocol).
\* errors.Is(err, context.DeadlineExceeded) is true for "deadline" AND for a "ctx" caused by a deadline: only the
\* caller's ctx.Err() tells them apart, and the property does not let the caller give up on the other relays /
\* nodes because of the former.
ErrKindsAll == {"err", "deadline", "canceled", "notactive"}
\* the kinds whose error value looks like a done context
CtxKinds == {"deadline", "canceled"}
\* the alphabet the model had before the kinds were told apart (self-check of the control models below)
ErrKindsPlain == {"err", "notactive"}
ErrKindsOne == {"err"}
\* the kinds the environment may choose from (a configuration may narrow it: ErrKinds <- ErrKindsPlain)
ErrKinds == ErrKindsAll
\* outcomes of a call: its own ones and the context error
OwnOutcomes == {"ok"} \cup ErrKindsAll
Finished == OwnOutcomes \cup {"ctx"}
Cx(k, i) == <<k, i>> \in cancelled

ResetRoundRecord ==
    /\ rSigned' = {} /\ rFailed' = {}
    /\ sentR' = [r \in Relays |-> {}] /\ doneR' = {}
    /\ sentN' = [n \in Nodes |-> {}] /\ doneN' = {}
    /\ prepN' = [n \in Nodes |-> {}] /\ donePrep' = {}
    /\ callR' = [r \in Relays |-> "idle"] /\ callN' = [n \in Nodes |-> "idle"] /\ callP' = [n \in Nodes |-> "idle"]
    /\ pendR' = [r \in Relays |-> {}] /\ gotR' = [r \in Relays |-> {}]
    /\ cancelled' = {}

BeginRound(k, accts) ==
    /\ phase = "idle"
    /\ phase' = k /\ lastKind' = k
    /\ rAccts' = accts /\ rCfg' = active /\ rLatest0' = latestSigned
    /\ ResetRoundRecord
    /\ fwdIn' = {}
    /\ rounds' = rounds + 1

EndRound(k) ==
    /\ phase = k
    /\ phase' = "idle"
    /\ UNCHANGED <<cfgVars, lockVars, opVars, lastKind, rAccts, rCfg, rLatest0, rSigned, rFailed, sentR, doneR,
                   sentN, doneN, prepN, donePrep, fwdIn, sigVars, controlled, rounds, callVars>>

\* ---- observation (what the trace records) ----
RecordSignReq(v, f, g, ok) ==
    /\ phase = "reg"
    /\ IF ok
       THEN /\ rSigned' = rSigned \cup {<<v, f, g>>}
            /\ signedEver' = signedEver \cup {<<v, f, g>>}
            /\ latestSigned' = [latestSigned EXCEPT ![v] = <<f, g>>]
            /\ UNCHANGED rFailed
       ELSE /\ rFailed' = rFailed \cup {<<v, f, g>>}
            /\ UNCHANGED <<rSigned, signedEver, latestSigned>>
    /\ UNCHANGED <<cfgVars, lockVars, opVars, phase, lastKind, rAccts, rCfg, rLatest0, sentR, doneR, sentN, doneN,
                   prepN, donePrep, fwdIn, controlled, rounds, callVars>>

\* the observed state of the call's context (cx = TRUE: it is cancelled) joins the record
Seen(k, i, cx) == IF cx THEN cancelled \cup {<<k, i>>} ELSE cancelled

\* relay r's client is called with regs (SubmitValidatorRegistrations entered)
RecordRelayStart(r, regs, cx) ==
    /\ phase \in {"reg", "fwd"}
    /\ sentR' = [sentR EXCEPT ![r] = @ \cup regs]
    /\ doneR' = doneR \cup {r}
    /\ callR' = [callR EXCEPT ![r] = "flight"]
    /\ pendR' = [pendR EXCEPT ![r] = @ \cup regs]
    /\ cancelled' = Seen("R", r, cx)
    /\ UNCHANGED <<cfgVars, lockVars, opVars, phase, lastKind, rAccts, rCfg, rLatest0, rSigned, rFailed, sentN, doneN,
                   prepN, donePrep, fwdIn, sigVars, controlled, rounds, callN, callP, gotR>>

\* relay r has received one batch of what it was handed
RecordRelayDeliver(r, regs) ==
    /\ phase \in {"reg", "fwd"} /\ callR[r] = "flight"
    /\ regs # {} /\ regs \subseteq pendR[r]
    /\ pendR' = [pendR EXCEPT ![r] = @ \ regs]
    /\ gotR' = [gotR EXCEPT ![r] = @ \cup regs]
    /\ UNCHANGED <<cfgVars, lockVars, opVars, phase, lastKind, rAccts, rCfg, rLatest0, rSigned, rFailed, sentR, doneR,
                   sentN, doneN, prepN, donePrep, fwdIn, sigVars, controlled, rounds, callR, callN, callP, cancelled>>

\* the call to relay r returns: "ok", a failure of the relay's own (ErrKindsAll) or "ctx" (context error)
RecordRelayFinish(r, out) ==
    /\ phase \in {"reg", "fwd"} /\ callR[r] = "flight"
    /\ out \in Finished
    /\ out = "ok" => pendR[r] = {}
    /\ callR' = [callR EXCEPT ![r] = out]
    /\ cancelled' = Seen("R", r, out = "ctx")
    /\ UNCHANGED <<cfgVars, lockVars, opVars, phase, lastKind, rAccts, rCfg, rLatest0, rSigned, rFailed, sentR, doneR,
                   sentN, doneN, prepN, donePrep, fwdIn, sigVars, controlled, rounds, callN, callP, pendR, gotR>>

RecordNodeStart(n, regs, cx) ==
    /\ phase = "reg"
    /\ sentN' = [sentN EXCEPT ![n] = @ \cup regs]
    /\ doneN' = doneN \cup {n}
    /\ callN' = [callN EXCEPT ![n] = "flight"]
    /\ cancelled' = Seen("N", n, cx)
    /\ UNCHANGED <<cfgVars, lockVars, opVars, phase, lastKind, rAccts, rCfg, rLatest0, rSigned, rFailed, sentR, doneR,
                   prepN, donePrep, fwdIn, sigVars, controlled, rounds, callR, callP, pendR, gotR>>

\* a node receives its (single) request when the call finishes "ok"
RecordNodeFinish(n, out) ==
    /\ phase = "reg" /\ callN[n] = "flight"
    /\ out \in Finished
    /\ callN' = [callN EXCEPT ![n] = out]
    /\ cancelled' = Seen("N", n, out = "ctx")
    /\ UNCHANGED <<cfgVars, lockVars, opVars, phase, lastKind, rAccts, rCfg, rLatest0, rSigned, rFailed, sentR, doneR,
                   sentN, doneN, prepN, donePrep, fwdIn, sigVars, controlled, rounds, callR, callP, pendR, gotR>>

RecordPrepCall(n, preps, cx) ==
    /\ phase = "prep"
    /\ prepN' = [prepN EXCEPT ![n] = @ \cup preps]
    /\ donePrep' = donePrep \cup {n}
    /\ callP' = [callP EXCEPT ![n] = "flight"]
    /\ cancelled' = Seen("P", n, cx)
    /\ UNCHANGED <<cfgVars, lockVars, opVars, phase, lastKind, rAccts, rCfg, rLatest0, rSigned, rFailed, sentR, doneR,
                   sentN, doneN, fwdIn, sigVars, controlled, rounds, callR, callN, pendR, gotR>>

RecordPrepReturn(n, out) ==
    /\ phase = "prep" /\ callP[n] = "flight"
    /\ out \in Finished
    /\ callP' = [callP EXCEPT ![n] = out]
    /\ cancelled' = Seen("P", n, out = "ctx")
    /\ UNCHANGED <<cfgVars, lockVars, opVars, phase, lastKind, rAccts, rCfg, rLatest0, rSigned, rFailed, sentR, doneR,
                   sentN, doneN, prepN, donePrep, fwdIn, sigVars, controlled, rounds, callR, callN, pendR, gotR>>

\* ---- the environment: relays and nodes answer like HTTP servers behind a client that honours the context ----
\* a batch reaches the relay only while the call's context is live
RelayDeliver(r, B) ==
    /\ ~Cx("R", r)
    /\ RecordRelayDeliver(r, B)

\* the relay may fail at any point of its own accord and with any kind of error (before anything was delivered,
\* between two batches, after the last one; before, while or after any other call of the fan-out runs); a
\* cancelled context fails the call unless nothing is left to deliver; "ok" means everything was delivered
RelayFinish(r, out) ==
    /\ out = "ctx" => Cx("R", r)
    /\ out = "ok" => (pendR[r] = {})
    /\ RecordRelayFinish(r, out)

NodeFinish(n, out) ==
    /\ out = "ctx" => Cx("N", n)
    /\ out = "ok" => ~Cx("N", n)
    /\ RecordNodeFinish(n, out)

PrepReturn(n, out) ==
    /\ out = "ctx" => Cx("P", n)
    /\ out = "ok" => ~Cx("P", n)
    /\ RecordPrepReturn(n, out)

\* ---- registration round: submitValidatorRegistrations ----
RoundStart(accts) ==
    /\ accts \in (SUBSET Validators) \ {{}}
    /\ BeginRound("reg", accts)
    /\ controlled' = accts
    /\ UNCHANGED <<cfgVars, lockVars, opVars, sigVars>>

\* SignValidatorRegistration is asked for content the configuration says; it may fail (environment)
SignReq(v, f, g, ok) ==
    /\ <<v, f, g>> \in ExpPairs /\ <<v, f, g>> \notin (rSigned \cup rFailed)
    /\ doneR = {} /\ doneN = {}
    /\ RecordSignReq(v, f, g, ok)

SigningComplete == \A p \in ExpPairs : Avail(p) \/ p \in rFailed

\* one call per relay with every registration it is due, each on its own goroutine: the calls overlap in any
\* order, and how another relay's call went (ok / error / still in flight) changes nothing
RelayStart(r) ==
    /\ phase = "reg" /\ SigningComplete /\ r \notin doneR /\ doneN = {}
    /\ \E S \in SUBSET {p \in ExpFor(r) : Avail(p)} :
          /\ Required(r) \subseteq S /\ S # {}
          /\ RecordRelayStart(r, MkRegs(S), Cx("R", r))

RelaysReturned == \A r \in Relays : callR[r] # "flight"
AllRelaysDone == RelaysReturned /\ \A r \in Relays : Required(r) # {} => r \in doneR

\* one call per secondary node after the relays' calls returned: one registration per validator; the calls
\* overlap, the nodes' replies change nothing
NodeStart(n) ==
    /\ phase = "reg" /\ SigningComplete /\ AllRelaysDone /\ n \notin doneN
    /\ \E S \in SUBSET {p \in ExpPairs : Avail(p)} :
          /\ S # {}
          /\ \A p, q \in S : p[1] = q[1] => p = q
          /\ NodeMust \subseteq {p[1] : p \in S}
          /\ RecordNodeStart(n, MkRegs(S), Cx("N", n))

RoundEnd ==
    /\ SigningComplete /\ AllRelaysDone
    /\ \A n \in Nodes : callN[n] # "flight"
    /\ NodeMust # {} => doneN = Nodes
    /\ EndRound("reg")

\* ---- preparation round: UpdatePreparations ----
ExpPrep == {<<v, Resolve(rCfg, v).fee>> : v \in ResAccts}

PrepStart(accts) ==
    /\ accts \in (SUBSET Validators) \ {{}}
    /\ BeginRound("prep", accts)
    /\ UNCHANGED <<cfgVars, lockVars, opVars, sigVars, controlled>>

\* every node is called, whatever the others replied (ok / error / not active); the property does not say
\* whether one after the other or at the same time
PrepCall(n) ==
    /\ n \notin donePrep
    /\ RecordPrepCall(n, ExpPrep, Cx("P", n))

PrepEnd ==
    /\ \A n \in Nodes : callP[n] # "flight"
    /\ ExpPrep # {} => donePrep = Nodes
    /\ EndRound("prep")

\* ---- registrations received over REST: ValidatorRegistrations ----
FwdOut == {x \in fwdIn : x.v \notin controlled /\ Resolve(rCfg, x.v).ok}
FwdFor(r) == {x \in FwdOut : \E t \in Resolve(rCfg, x.v).rel : t[1] = r}
Bare(S) == {[v |-> x.v, fee |-> x.fee, gas |-> x.gas] : x \in S}

FwdCandidates == {[v |-> v, fee |-> c[1], gas |-> c[2]] : v \in AllV, c \in {<<1, 1>>, <<2, 2>>}}

\* the same fan-out to the relays as in a registration round
FwdRelayStart(r) ==
    /\ phase = "fwd" /\ r \notin doneR /\ FwdFor(r) # {}
    /\ RecordRelayStart(r, {[v |-> x.v, fee |-> x.fee, gas |-> x.gas, sigok |-> TRUE] : x \in FwdFor(r)}, Cx("R", r))

FwdEnd ==
    /\ RelaysReturned
    /\ \A r \in Relays : FwdFor(r) # {} => r \in doneR
    /\ EndRound("fwd")

FwdStart(regs) ==
    /\ regs \subseteq FwdCandidates /\ regs # {}
    /\ phase = "idle"
    /\ phase' = "fwd" /\ lastKind' = "fwd"
    /\ rAccts' = {} /\ rCfg' = active /\ rLatest0' = latestSigned
    /\ ResetRoundRecord
    /\ fwdIn' = regs
    /\ rounds' = rounds + 1
    /\ UNCHANGED <<cfgVars, lockVars, opVars, sigVars, controlled>>

\* a batch is any non-empty part of what is still pending (the client sends the payload in chunks, one after the other)
Batches(r) == (SUBSET pendR[r]) \ {{}}

\* ---- the second forwarding lane: REST registrations arriving while a registration round is in flight ----
\* ValidatorRegistrations reads the controlled validators and the configuration when it is called
F2Out == {x \in fw.in : x.v \notin fw.ctl /\ Resolve(fw.cfg, x.v).ok}
F2For(r) == {x \in F2Out : \E t \in Resolve(fw.cfg, x.v).rel : t[1] = r}
otherVars == <<cfgVars, lockVars, opVars, phase, lastKind, rAccts, rCfg, rLatest0, rSigned, rFailed, sentR, doneR, sentN,
               doneN, prepN, donePrep, fwdIn, sigVars, controlled, callVars>>

F2Start(regs) ==
    /\ ~fw.on /\ (phase = "idle" \/ MidRound)
    /\ regs \subseteq FwdCandidates /\ regs # {}
    /\ fw' = [NoFw EXCEPT !.on = TRUE, !.in = regs, !.cfg = active, !.ctl = controlled]
    /\ rounds' = rounds + 1
    /\ UNCHANGED otherVars

RecordF2RelayStart(r, regs, cx) ==
    /\ fw.on
    /\ fw' = [fw EXCEPT !.sent[r] = @ \cup regs, !.call[r] = "flight", !.pend[r] = @ \cup regs,
                        !.cx = IF cx THEN @ \cup {r} ELSE @]
    /\ UNCHANGED <<otherVars, rounds>>

RecordF2RelayDeliver(r, regs) ==
    /\ fw.on /\ fw.call[r] = "flight"
    /\ regs # {} /\ regs \subseteq fw.pend[r]
    /\ fw' = [fw EXCEPT !.pend[r] = @ \ regs, !.got[r] = @ \cup regs]
    /\ UNCHANGED <<otherVars, rounds>>

RecordF2RelayFinish(r, out) ==
    /\ fw.on /\ fw.call[r] = "flight"
    /\ out \in Finished
    /\ out = "ok" => fw.pend[r] = {}
    /\ fw' = [fw EXCEPT !.call[r] = out, !.cx = IF out = "ctx" THEN @ \cup {r} ELSE @]
    /\ UNCHANGED <<otherVars, rounds>>

RecordF2End ==
    /\ fw.on
    /\ fw' = [fw EXCEPT !.on = FALSE, !.ended = TRUE]
    /\ UNCHANGED <<otherVars, rounds>>

F2RelayStart(r) ==
    /\ fw.on /\ fw.call[r] = "idle" /\ F2For(r) # {}
    /\ RecordF2RelayStart(r, {[v |-> x.v, fee |-> x.fee, gas |-> x.gas, sigok |-> TRUE] : x \in F2For(r)}, r \in fw.cx)

F2RelayDeliver(r, B) == r \notin fw.cx /\ RecordF2RelayDeliver(r, B)

F2RelayFinish(r, out) == (out = "ctx" => r \in fw.cx) /\ RecordF2RelayFinish(r, out)

F2End ==
    /\ fw.on
    /\ \A r \in Relays : fw.call[r] # "flight" /\ (F2For(r) # {} => fw.call[r] # "idle")
    /\ RecordF2End

F2Batches(r) == (SUBSET fw.pend[r]) \ {{}}

\* ---- next-state relation: calls are started by the environment (scheduler, REST daemon), and make progress ----
StartsCore ==
    \/ \E out \in Outcomes : ConfigFetch(out)
    \/ \E accts \in SUBSET Validators : RoundStart(accts) \/ PrepStart(accts)
    \/ \E regs \in {S \in SUBSET FwdCandidates : Cardinality(S) \in 1..2} : FwdStart(regs)

\* what the environment may answer: success, a failure of any kind of the alphabet, the context error
CallOuts == {"ok", "ctx"} \cup ErrKinds

\* starting, delivering to and finishing the call to a relay
RelayCalls(r) ==
    \/ RelayStart(r) \/ FwdRelayStart(r)
    \/ \E B \in Batches(r) : RelayDeliver(r, B)
    \/ \E out \in CallOuts : RelayFinish(r, out)

OtherProgress ==
    \/ \E v \in Validators, f \in 0..2, g \in 0..2, ok \in BOOLEAN : SignReq(v, f, g, ok)
    \/ \E n \in Nodes : NodeStart(n) \/ PrepCall(n)
    \/ \E n \in Nodes, out \in CallOuts : NodeFinish(n, out)
    \/ \E n \in Nodes, out \in CallOuts : PrepReturn(n, out)
    \/ RoundEnd \/ PrepEnd \/ FwdEnd

ProgressCore == (\E r \in Relays : RelayCalls(r)) \/ OtherProgress

F2Starts == \E regs \in {S \in SUBSET FwdCandidates : Cardinality(S) = 1} : F2Start(regs)

F2Calls(r) ==
    \/ F2RelayStart(r)
    \/ \E B \in F2Batches(r) : F2RelayDeliver(r, B)
    \/ \E out \in CallOuts : F2RelayFinish(r, out)

ProgressF2 == (\E r \in Relays : F2Calls(r)) \/ F2End

\* the intended design keeps nothing on the service between the rounds but the signed registrations, the
\* controlled validators and the configuration: no slot exists
Core(A) == A /\ UNCHANGED devVars
Lane2(A) == A /\ UNCHANGED slotHeld

NextC11 ==
    \/ Core(StartsCore) \/ Core(ProgressCore)
    \/ Lane2(F2Starts) \/ Lane2(ProgressF2)

SpecC11 == Init /\ [][NextC11]_vars

\* Every call on the long-lived instance returns, whatever happened in the earlier calls (a relay, a node, a
\* signing request failed; a validator could not be resolved; the configuration changed): Env_Responds - relays
\* and nodes answer every request (possibly with an error), the Go scheduler runs every goroutine.
\* (The bound on the number of calls is a guard here, not a CONSTRAINT, so that liveness is checked on complete
\* behaviours.)
MoreCalls == rounds < MaxRounds
\* (rounds and preparations of all accounts, one REST registration at a time: the liveness configurations follow
\* the calls in full detail - every overlap, partial delivery and outcome - over histories of three calls)
StartsLive ==
    \/ \E out \in Outcomes : ConfigFetch(out)
    \/ RoundStart(Validators) \/ PrepStart(Validators)
    \/ \E regs \in {S \in SUBSET FwdCandidates : Cardinality(S) = 1} : FwdStart(regs)
NextC11Live ==
    \/ MoreCalls /\ (Core(StartsLive) \/ Lane2(F2Starts))
    \/ Core(ProgressCore) \/ Lane2(ProgressF2)
SpecC11Live == Init /\ [][NextC11Live]_vars /\ WF_vars(Core(ProgressCore)) /\ WF_vars(Lane2(ProgressF2))

RoundReturns == (phase # "idle") ~> (phase = "idle")
F2Returns == fw.on ~> ~fw.on

\* The same as a state invariant (checked without the cost of liveness checking): while a call is in flight some
\* step of a call in flight is possible.  A call takes finitely many steps (every step starts or finishes a
\* relay / node call, delivers a batch or ends a round), so "never stuck" and Env_Responds give RoundReturns.
Busy == phase # "idle" \/ fw.on
CallsProgress == Busy => ENABLED (Core(ProgressCore) \/ Lane2(ProgressF2))

\* CONTROL MODELS (state carried on the instance between calls), not the intended design: "only one submission
\* to a relay at a time" - a per-relay slot that lives on the service, taken before the relay's client is called
\* (by the round's fan-out and by the REST lane alike) and given back afterwards.
\*   SpecC11Slot(FALSE)  the slot is given back on every path: permitted (every invariant and RoundReturns hold;
\*                       a forwarding call merely waits for the round's submission to that relay)
\*   SpecC11Slot(TRUE)   the slot is given back by a statement after the error return: a relay that fails once
\*                       keeps its slot for ever - every single round on a fresh instance is still right, the NEXT
\*                       round that is due to that relay never returns.  TLC must reject it (RoundReturns).
TakeSlot(r) == r \notin slotHeld /\ slotHeld' = slotHeld \cup {r}
GiveSlot(r, out, leaky) == slotHeld' = IF leaky /\ out \in ErrKindsAll THEN slotHeld ELSE slotHeld \ {r}

SlotProgressCore(leaky) ==
    \/ \E r \in Relays : (RelayStart(r) \/ FwdRelayStart(r)) /\ TakeSlot(r) /\ UNCHANGED fw
    \/ \E r \in Relays : \E B \in Batches(r) : Core(RelayDeliver(r, B))
    \/ \E r \in Relays, out \in CallOuts : RelayFinish(r, out) /\ GiveSlot(r, out, leaky) /\ UNCHANGED fw
    \/ Core(OtherProgress)

SlotProgressF2(leaky) ==
    \/ \E r \in Relays : F2RelayStart(r) /\ TakeSlot(r)
    \/ \E r \in Relays : \E B \in F2Batches(r) : Lane2(F2RelayDeliver(r, B))
    \/ \E r \in Relays, out \in CallOuts : F2RelayFinish(r, out) /\ GiveSlot(r, out, leaky)
    \/ Lane2(F2End)

NextC11Slot(leaky) ==
    \/ MoreCalls /\ (Core(StartsLive) \/ Lane2(F2Starts))
    \/ SlotProgressCore(leaky) \/ SlotProgressF2(leaky)
SpecC11Slot(leaky) == Init /\ [][NextC11Slot(leaky)]_vars
                      /\ WF_vars(SlotProgressCore(leaky)) /\ WF_vars(SlotProgressF2(leaky))
SpecC11SlotDefer == SpecC11Slot(FALSE)
SpecC11SlotLeaky == SpecC11Slot(TRUE)
CallsProgressSlotDefer == Busy => ENABLED (SlotProgressCore(FALSE) \/ SlotProgressF2(FALSE))
CallsProgressSlotLeaky == Busy => ENABLED (SlotProgressCore(TRUE) \/ SlotProgressF2(TRUE))

\* NOT the intended protocol: the calls of a fan-out share one derived context which the first call that
\* fails cancels (errgroup.WithContext; a loop that gives up its context after a failing node).  Every other
\* call of the same fan-out - in flight or not yet started - then sees a cancelled context.
\* (K: the kinds of failure that make the fan-out give up its context)
SharedCancelOn(k, K) ==
    /\ \/ /\ k = "R" /\ \E r \in Relays : callR[r] \in K
          /\ cancelled' = cancelled \cup {<<"R", q>> : q \in Relays}
       \/ /\ k = "N" /\ \E n \in Nodes : callN[n] \in K
          /\ cancelled' = cancelled \cup {<<"N", m>> : m \in Nodes}
       \/ /\ k = "P" /\ \E n \in Nodes : callP[n] \in K
          /\ cancelled' = cancelled \cup {<<"P", m>> : m \in Nodes}
    /\ cancelled' # cancelled
    /\ UNCHANGED <<cfgVars, lockVars, opVars, phase, lastKind, rAccts, rCfg, rLatest0, rSigned, rFailed, sentR, doneR,
                   sentN, doneN, prepN, donePrep, fwdIn, sigVars, controlled, rounds, callR, callN, callP, pendR, gotR,
                   devVars>>

SharedCancel(k) == SharedCancelOn(k, ErrKindsAll)

SpecC11SharedCancelR == Init /\ [][NextC11 \/ SharedCancel("R")]_vars
SpecC11SharedCancelN == Init /\ [][NextC11 \/ SharedCancel("N")]_vars
SpecC11SharedCancelP == Init /\ [][NextC11 \/ SharedCancel("P")]_vars

\* CONTROL MODELS FOR THE KIND OF A FAILURE, not the intended protocol: designs that read "our own context is done,
\* the rest would only fail in the same fashion" from the error VALUE a relay / node returned
\* (errors.Is(err, context.DeadlineExceeded) / context.Canceled) instead of from their own ctx.Err().
\*   PrepGiveUp     the preparation loop walks the nodes in configured order and abandons the round after a node
\*                  whose failure is of such a kind: the nodes configured AFTER it get nothing (the first, a middle
\*                  one or the last but one - never the last - must be the failing one: position matters)
\*   RegGiveUp      a registration round whose relay fan-out saw such a failure does not go on to the beacon nodes
\*   KindCancel     the fan-out's goroutines share a context that a call failing in such a way cancels
\* Under the alphabet the model used to have (ErrKinds <- ErrKindsPlain: a node fails, or is not active) none of
\* them can take a step the intended protocol cannot take, and every invariant holds (MC_.._kinds_plain.cfg); under
\* the full alphabet TLC must reject each of them (MC_.._prep_giveup / _reg_giveup / _kindcancel.cfg).
GiveUpKinds == CtxKinds \cap ErrKinds

\* the loop of the control model: one node after the other, in configured order (= order of the ids)
PrepSequential == \A n \in donePrep : \A m \in Nodes : m < n => callP[m] \notin {"idle", "flight"}
PrepGiveUp ==
    /\ phase = "prep" /\ PrepSequential
    /\ \A n \in Nodes : callP[n] # "flight"
    /\ \E n \in Nodes : callP[n] \in GiveUpKinds
    /\ EndRound("prep")
RegGiveUp ==
    /\ phase = "reg" /\ SigningComplete /\ AllRelaysDone
    /\ \A n \in Nodes : callN[n] # "flight"
    /\ \E r \in Relays : callR[r] \in GiveUpKinds
    /\ EndRound("reg")
KindCancel == \E k \in {"R", "N", "P"} : SharedCancelOn(k, GiveUpKinds)

\* the intended protocol with rounds and preparations of all accounts and one REST registration at a time (the
\* configurations that explore the full alphabet of failure kinds, one fan-out at a time, in full detail)
SpecC11Kinds == Init /\ [][Core(StartsLive) \/ Core(ProgressCore)]_vars

SpecC11PrepGiveUp == Init /\ [][NextC11 \/ Core(PrepGiveUp)]_vars
SpecC11RegGiveUp == Init /\ [][NextC11 \/ Core(RegGiveUp)]_vars
SpecC11KindCancel == Init /\ [][NextC11 \/ KindCancel]_vars
\* all three at once (run under the narrow alphabet, where they must change nothing)
SpecC11KindDeviations == Init /\ [][NextC11 \/ Core(PrepGiveUp) \/ Core(RegGiveUp) \/ KindCancel]_vars

\* ---- the invariants judge the record ----
\* C11: the registration sent to a relay names the validator with the fee recipient and gas limit
\* resolved for that relay (one registration per validator and relay)
RegistrationExact ==
    lastKind = "reg" =>
        /\ \A r \in Relays : /\ Pairs(sentR[r]) \subseteq ExpFor(r)
                             /\ \A x, y \in sentR[r] : x.v = y.v => x = y
        /\ \A n \in Nodes : /\ Pairs(sentN[n]) \subseteq ExpPairs
                            /\ \A x, y \in sentN[n] : x.v = y.v => x = y

\* C11: ... and is signed by that validator over those values
SignedOverContent ==
    lastKind = "reg" =>
        \A x \in UNION ({sentR[r] : r \in Relays} \cup {sentN[n] : n \in Nodes}) :
            x.sigok /\ <<x.v, x.fee, x.gas>> \in signedEver

\* C11: a signed registration is reused only while its content is unchanged
ReuseOnlyIfUnchanged ==
    lastKind = "reg" =>
        \A x \in UNION ({sentR[r] : r \in Relays} \cup {sentN[n] : n \in Nodes}) : Avail(<<x.v, x.fee, x.gas>>)

\* a relay that did not fail of its own accord has received everything it was handed: nothing but the relay's
\* own failure (of whatever kind: ErrKindsAll) may keep a registration from arriving - in particular not a context that was cancelled
\* because another relay failed
RelayReached(r) == callR[r] \notin ErrKindsAll => (callR[r] # "flight" /\ sentR[r] \subseteq gotR[r])

\* C11: a failing relay, beacon node, signing request or unresolvable validator takes away only its own
FailureIsolated ==
    (lastKind = "reg" /\ phase = "idle") =>
        /\ \A r \in Relays : Required(r) \subseteq Pairs(sentR[r]) /\ RelayReached(r)
        /\ NodeMust # {} => \A n \in Nodes : /\ NodeMust \subseteq {x.v : x \in sentN[n]}
                                             /\ callN[n] \in OwnOutcomes

\* C11: every beacon node receives a preparation for each such validator with its resolved fee recipient
PreparationExact == lastKind = "prep" => \A n \in donePrep : prepN[n] = ExpPrep
PreparationIsolated ==
    (lastKind = "prep" /\ phase = "idle" /\ ExpPrep # {}) =>
        /\ donePrep = Nodes
        /\ \A n \in Nodes : callP[n] \in OwnOutcomes

\* registrations of validators Vouch does not control are forwarded unchanged, the others dropped
ControlledDropped == lastKind = "fwd" => \A r \in Relays : \A x \in sentR[r] : x.v \notin controlled
ForwardedUnchanged ==
    lastKind = "fwd" => \A r \in Relays : \A x \in sentR[r] : x.sigok /\ [v |-> x.v, fee |-> x.fee, gas |-> x.gas] \in FwdFor(r)
ForwardedAll ==
    (lastKind = "fwd" /\ phase = "idle") => \A r \in Relays : FwdFor(r) \subseteq Bare(sentR[r]) /\ RelayReached(r)

\* the same three statements for the forwarding call that overlaps a registration round
F2ControlledDropped == \A r \in Relays : \A x \in fw.sent[r] : x.v \notin fw.ctl
F2ForwardedUnchanged ==
    \A r \in Relays : \A x \in fw.sent[r] : x.sigok /\ [v |-> x.v, fee |-> x.fee, gas |-> x.gas] \in F2For(r)
F2Reached(r) == fw.call[r] \notin ErrKindsAll => (fw.call[r] # "flight" /\ fw.sent[r] \subseteq fw.got[r])
F2ForwardedAll == fw.ended => \A r \in Relays : F2For(r) \subseteq Bare(fw.sent[r]) /\ F2Reached(r)

TypeOKC11 ==
    /\ phase \in {"idle", "reg", "prep", "fwd"}
    /\ slotHeld \subseteq Relays
    /\ fw.on \in BOOLEAN /\ fw.cx \subseteq Relays
    /\ \A r \in Relays : fw.call[r] \in {"idle", "flight"} \cup Finished /\ fw.pend[r] \subseteq fw.sent[r]
    /\ rAccts \subseteq Validators /\ controlled \subseteq Validators
    /\ doneR \subseteq Relays /\ doneN \subseteq Nodes /\ donePrep \subseteq Nodes
    /\ rSigned \subseteq signedEver
    /\ \A r \in Relays : /\ callR[r] \in {"idle", "flight"} \cup Finished
                         /\ pendR[r] \subseteq sentR[r] /\ gotR[r] \subseteq sentR[r]
                         /\ (callR[r] = "idle") = (r \notin doneR)
    /\ \A n \in Nodes : /\ callN[n] \in {"idle", "flight"} \cup Finished
                        /\ callP[n] \in {"idle", "flight"} \cup Finished
                        /\ (callN[n] = "idle") = (n \notin doneN)
                        /\ (callP[n] = "idle") = (n \notin donePrep)
    /\ cancelled \subseteq ({"R"} \X Relays) \cup ({"N", "P"} \X Nodes)

RoundBound == rounds <= MaxRounds
\* model checking only: configurations that do not explore the second forwarding lane
NoLane2 == ~fw.on
\* model checking only: the configurations that explore the full alphabet of failure kinds take one fan-out at a time
OnlyPrep == phase \in {"idle", "prep"}
NoPrep == phase # "prep"

\* model checking only (CONSTRAINT of the configurations with long histories, whose invariants about content,
\* signatures and reuse do not read the calls' outcomes; the fan-out is explored in full detail - partial
\* deliveries, every outcome of every call - by MC_BlockRelay_C11_fanout.cfg): payloads are delivered in one
\* piece and the calls succeed
CoarseFanOut ==
    /\ \A r \in Relays : (pendR[r] = {} \/ gotR[r] = {}) /\ callR[r] \notin ErrKindsAll
    /\ \A n \in Nodes : callN[n] \notin ErrKindsAll /\ callP[n] \notin ErrKindsAll
=============================================================================
