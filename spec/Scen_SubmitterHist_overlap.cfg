SPECIFICATION Spec
CONSTANTS
  Mode = "overlap"
  HKinds = {"att", "agg", "proposal", "syncmsg", "contrib", "bcsub", "scsub", "prep"}
  HConcSet = {1, 2}
  HItemSet = {1}
  HClients = {"lighthouse", "teku"}
  HNodeCounts = {2}
  HLens = {2}
  HOutcomes = {}
INVARIANTS Emit
CHECK_DEADLOCK FALSE
