SPECIFICATION SSpec
CONSTANTS
  MaxN = 3
  Variants = {"Best", "Majority", "RootMajority", "First"}
  Values = {1, 2}
  Scores = {0, 1, 2}
  FirstCap = 1
  MaxPC = 3
  Families = {"leak"}
INVARIANTS Emit
CHECK_DEADLOCK FALSE
