SPECIFICATION SSpec
CONSTANTS
  Validators = {1, 2, 3}
  SlotSpace = {8, 9, 10}
  Nows = {7, 8, 9, 10}
  Committees = {0, 1, 2}
  Sizes = {8, 12, 40}
  Targets = {2, 4}
  HVals = {0, 1, 2, 3, 4, 6, 10, 12, 20, 30, 60, 420}
  HMod = 840
  MaxDuties = 3
  MaxSubs = 2
  SPE = 4
  Ep = 2
  MaxRefresh = 3
  MaxChanges = 3
  MaxHeld = 1
  SignerMayFail = TRUE
  MoveFan = 6
  ScenLen = 12
  SetupFan = 12
  SetupLen = 3
INVARIANTS Emit TypeOK AllFutureSubscribed AggregatorRuleExact SubscriptionHistoryIndependent InfoInForceComplete EveryAggregatorCommitteeScheduled
CHECK_DEADLOCK FALSE
