SPECIFICATION Spec
CONSTANTS
  DutySlots = {9}
  Validators = {1, 2}
  SlotsPerEpoch = 4
  Relays = {1}
  AllChoices = {{1}}
  Versions = {"deneb"}
  Blindable = {"deneb"}
  Outcomes = {"full"}
  Dslots <- FwdDslots
  MaxCalls = 1
  NDuties = 2
  SlotGaps = {0, 1}
  MaxOpen = 2
  MaxInFlight = 2
  InitCfgs <- BuilderCfgs
  LaterAllChoices = {{1}}
  LaterVersions = {"deneb"}
  LaterOutcomes = {"full"}
  LaterDslots = {0, 1}
INVARIANTS TypeOK OnlyDutySigner SignedIsSelected SubmittedIntact NothingWithoutUnblind DegradesNotSkips CompletesDuty HistoryIndependent
CHECK_DEADLOCK TRUE
