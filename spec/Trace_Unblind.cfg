SPECIFICATION TraceSpec
CONSTANTS
  MaxN = 4
  Kinds = {"first", "unblind"}
  CapOne = FALSE
  AllFailedReturns = TRUE
  Retries = 3
INVARIANTS NoBlockedSender NoWaitForEver OkMeansDelivered
CONSTRAINT HWM
POSTCONDITION TraceAccepted
CHECK_DEADLOCK FALSE
