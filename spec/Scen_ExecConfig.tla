-------------------------- MODULE Scen_ExecConfig --------------------------
(* Scenario generator for C10: one behaviour per configuration document of the lattice of        *)
(* ExecConfig (all presence patterns of the varied field(s) at every level x relay inherited /    *)
(* new / overridden / disabled x reset_relays x which entries match x entry kinds, and the legacy  *)
(* shapes).  Each behaviour is  Configure ; Lookup* ; RoundTrip ; Lookup*  and is printed as JSON; *)
(* values are tokens that the Go driver replaces by concrete (seeded random) values.               *)
EXTENDS ExecConfig, Json, IOUtils

CONSTANT SampleOneIn   \* 1: every document of the lattice; n: every n-th document of TLC's (deterministic)
                       \* enumeration, starting at an offset given by the environment variable VERIF_SEED

VARIABLE hist
svars == <<vars, hist>>

SInit == Init /\ hist = <<>> /\ TLCSet(10, 0)

\* TLC register 10 counts the candidates seen so far (single worker)
Sampled == LET k == TLCGet(10) IN TLCSet(10, k + 1) /\ (k + atoi(IOEnv.VERIF_SEED)) % SampleOneIn = 0

Lookups == <<[ev |-> "Lookup", v |-> [id |-> "V1", pubkey |-> "V1"]],
             [ev |-> "Lookup", v |-> [id |-> "V2", pubkey |-> "V2"]]>>

SConfigure(c) ==
    /\ SampleOneIn = 1 \/ Sampled
    /\ Configure(c, Fallback)
    /\ hist' = <<[ev |-> "Reset", cfg |-> c, fb |-> Fallback]>> \o Lookups
               \o <<[ev |-> "RoundTrip"]>> \o Lookups

SNext == hist = <<>> /\ ForLattice(Pairs, Wide, SConfigure)

SSpec == SInit /\ [][SNext]_svars

Emit == (hist # <<>>) => PrintT(ToJson(hist))
=============================================================================
