-------------------------- MODULE Scen_ExecConfig --------------------------
(* Scenario generator for C10: one behaviour per configuration document of the lattice of        *)
(* ExecConfig (all presence patterns of the varied field(s) at every level x relay inherited /    *)
(* new / overridden / disabled x reset_relays x which entries match x entry kinds, and the legacy  *)
(* shapes).  Each behaviour is  Configure ; Lookup* ; RoundTrip ; Lookup*  and is printed as JSON; *)
(* values are tokens that the Go driver replaces by concrete (seeded random) values.               *)
EXTENDS ExecConfig, Json

VARIABLE hist
svars == <<vars, hist>>

SInit == Init /\ hist = <<>>

Lookups == <<[ev |-> "Lookup", v |-> [id |-> "V1", pubkey |-> "V1"]],
             [ev |-> "Lookup", v |-> [id |-> "V2", pubkey |-> "V2"]]>>

SNext ==
    /\ hist = <<>>
    /\ \E c \in Lattice(Pairs, Wide) :
          /\ Configure(c, Fallback)
          /\ hist' = <<[ev |-> "Reset", cfg |-> c, fb |-> Fallback]>> \o Lookups
                     \o <<[ev |-> "RoundTrip"]>> \o Lookups

SSpec == SInit /\ [][SNext]_svars

Emit == (hist # <<>>) => PrintT(ToJson(hist))
=============================================================================
