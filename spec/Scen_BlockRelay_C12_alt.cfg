SPECIFICATION SSpec
CONSTANTS
  Validators = {1, 2}
  Externals = {3}
  Relays = {1, 2}
  Nodes = {1, 2}
  DocIds = {2, 3}
  FailKinds = {"error", "malformed", "empty"}
  Ops = {1, 2, 3, 4, 5, 6}
  MaxInFlight = 1
  AuctionImpl = "intended"
  Resolution = "locked"
  MaxRounds = 0
  Family = "alt"
INVARIANTS Emit KeepsLastGood AnswersInForce LockBalanced LockAccounting
CHECK_DEADLOCK FALSE
