SPECIFICATION SSpec
CONSTANTS
  MaxN = 4
  Kinds = {"first", "unblind"}
  CapOne = FALSE
  AllFailedReturns = TRUE
  Retries = 3
INVARIANTS Emit
CHECK_DEADLOCK FALSE
