SPECIFICATION SSpec
CONSTANTS
  SlotsPerEpoch = 32
  Slots = {0, 31, 32, 33, 100, 1000000007}
  GivenEpochs = {0, 3, 31250000}
  MaxBatch = 6
  NReq = 1
  ForkEpochs = {0}
INVARIANTS Emit
CHECK_DEADLOCK FALSE
