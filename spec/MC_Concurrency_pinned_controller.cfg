SPECIFICATION Spec
CONSTANTS
  Groups = {"controller"}
  Pinned = TRUE
  MaxPar = 2
INVARIANTS TypeOK Linearizable Disciplined
CONSTRAINT Bounded
CHECK_DEADLOCK FALSE
