SPECIFICATION Spec
CONSTANTS
  Groups = {"controller"}
  Pinned = TRUE
  InPlace = FALSE
  Reuse = FALSE
  MaxPar = 2
INVARIANTS TypeOK Linearizable Disciplined
CONSTRAINT Bounded
CHECK_DEADLOCK FALSE
