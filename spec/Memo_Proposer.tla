--------------------------- MODULE Memo_Proposer ---------------------------
(* Control for the history part of Proposer.tla: a DESIGN with state carried from one call to     *)
(* the next on the service instance - Prepare remembers, per SLOT, the account and RANDAO reveal  *)
(* it obtained, and a later Prepare for that slot puts the remembered pair into its duty object   *)
(* without asking ("a slot only ever has a single proposer") - is not a refinement of Proposer.   *)
(* On a fresh instance, and for any number of preparations of the SAME duty, it is right: with    *)
(* one duty object (Memo_Proposer_fresh.cfg) or one validator (Memo_Proposer_same.cfg) TLC finds  *)
(* nothing.  With two of our validators and a slot that is prepared again for the other one       *)
(* (duties refreshed after a re-org) the second duty is proposed with the first validator's       *)
(* account: TLC must report OnlyDutySigner (Memo_Proposer.cfg) - checks/C05.py expects exactly    *)
(* that and treats anything else as a broken run.  This is the class of                           *)
(* seeded/C05-prepare-memo-keyed-by-slot.                                                          *)
(*                                                                                                *)
(* The second control, `shared`, is the overlap class: Propose notes the duty it is working on in *)
(* the SERVICE (one field) when it starts and signs for the noted duty.  With calls one after the *)
(* other it is right (Shared_Proposer_seq.cfg: MaxInFlight = 1); when the Propose of another duty *)
(* starts between the start and the signing step of a Propose, the block is signed for the other  *)
(* duty's validator: TLC must report OnlyDutySigner (Shared_Proposer.cfg).                        *)
EXTENDS Proposer

CONSTANT Control      \* "memo" | "shared"

VARIABLES memo,       \* slot -> validator whose account (and reveal) is remembered for it, 0: none
          carried,    \* handle -> validator whose account its duty object carries, 0: none
          noted       \* the validator of the duty the service has noted as "being proposed", 0: none
mvars == <<vars, memo, carried, noted>>

MemoSlots == {s + g : s \in DutySlots, g \in 0..(NDuties * 2)}

MemoInit ==
    /\ Init
    /\ memo = [s \in MemoSlots |-> 0]
    /\ carried = [h \in 1..NDuties |-> 0]
    /\ noted = 0

Hit == Control = "memo" /\ memo[duty.slot] # 0

\* Prepare: a slot that was prepared before is not prepared again
MemoPrepare ==
    \/ /\ pc = "start" /\ Hit
       /\ PrepRet                               \* returns without asking anything ...
       /\ carried' = [carried EXCEPT ![cur] = memo[duty.slot]]     \* ... the duty carries what was remembered
       /\ UNCHANGED <<memo, noted>>
    \/ /\ ~Hit
       /\ \E out \in {"ok", "err", "empty"} : AccountsCall(Epoch(duty.slot), <<duty.v>>, out)
       /\ UNCHANGED <<memo, carried, noted>>
    \/ /\ RandaoCall(duty.v, duty.slot, "ok", 1)
       /\ carried' = [carried EXCEPT ![cur] = duty.v]
       /\ memo' = IF Control = "memo" THEN [memo EXCEPT ![duty.slot] = duty.v] ELSE memo
       /\ UNCHANGED noted
    \/ /\ RandaoCall(duty.v, duty.slot, "err", 1)
       /\ UNCHANGED <<memo, carried, noted>>
    \/ /\ pc \in {"prepfailed", "prepared"} /\ PrepRet
       /\ UNCHANGED <<memo, carried, noted>>

\* whose account the block signature is asked of
Signer == IF Control = "shared" THEN noted ELSE carried[cur]

MemoNext ==
    \/ MemoPrepare
    \/ SignStep(Signer) /\ UNCHANGED <<memo, carried, noted>>
    \/ /\ OtherSteps
       /\ noted' = IF cur' = cur /\ pc \in IdlePcs /\ pc' \in ProposePcs THEN duty.v ELSE noted     \* ProposeCall notes the duty
       /\ UNCHANGED <<memo, carried>>

MemoSpec == MemoInit /\ [][MemoNext]_mvars
=============================================================================
