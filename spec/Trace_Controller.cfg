SPECIFICATION TraceSpec
CONSTANTS
  MaxSlot = 64
  MaxVer = 99
  MaxReorgs = 99
  MaxCrashes = 99
  Gates = {"att", "prop", "acct", "cancel", "sched", "run"}
  Interleave = FALSE
  Cfgs <- TraceCfgs
  OraclesFor <- TraceOraclesFor
  MaxAccts = 0
  AnswersFor <- AllAnswers
  Deviation = {}
INVARIANTS TypeOK JobTimeRight JobCoversExactly NoSlotTwice OneJobPerDutySlot OnlyStrictlyLaterOnStart SyncWindowRight EpochTickOnce NoFutureDutyUnscheduled NoStaleJob ReorgActedOn
CONSTRAINT HWM
POSTCONDITION TraceAccepted
CHECK_DEADLOCK FALSE
