SPECIFICATION TraceSpec
CONSTANTS
  MaxSlot = 64
  MaxVer = 99
  MaxReorgs = 99
  MaxCrashes = 99
  Gated = TRUE
  Cfgs <- TraceCfgs
  OraclesFor <- TraceOraclesFor
INVARIANTS TypeOK JobTimeRight JobCoversExactly NoSlotTwice OnlyStrictlyLaterOnStart SyncWindowRight EpochTickOnce NoFutureDutyUnscheduled NoStaleJob ReorgActedOn
CONSTRAINT HWM
POSTCONDITION TraceAccepted
CHECK_DEADLOCK FALSE
