----------------------------- MODULE Trace_Cache -----------------------------
(* Trace specification: a trace recorded from the real cache service is a behaviour of Cache.   *)
(* Each line names the action the driver performed (with its arguments), the reply the real     *)
(* code gave and the projected state (the content of the cache map) after the call.             *)
EXTENDS Cache, TraceLib

VARIABLE l
tvars == <<vars, l>>

TraceInit ==
    /\ l = 1
    /\ chain = [r \in Roots |-> 0]
    /\ map = Empty
    /\ now = 0
    /\ last = NoReply
    /\ InitHWM

IsEvent(e) == l <= TraceLen /\ Trace[l].ev = e /\ l' = l + 1

\* logged projection of the cache map: sequence of <<root, slot>> pairs
LoggedMap(line) == LET ps == SeqToSet(line.map) IN [r \in {p[1] : p \in ps} |-> (CHOOSE p \in ps : p[1] = r)[2]]
StateMatches == map' = LoggedMap(Trace[l])

TraceReset ==
    /\ IsEvent("Reset")
    /\ chain' = [r \in Roots |-> Trace[l].chain[r]]
    /\ map' = Empty
    /\ now' = Trace[l].now
    /\ last' = NoReply

TraceBlockEvent ==
    /\ IsEvent("BlockEvent")
    /\ BlockEvent(Trace[l].root)
    /\ StateMatches

\* which of the three lookup actions applies is determined by the state and by the logged
\* outcome of the header fetch ("none" = the provider was not called)
TraceLookup ==
    /\ IsEvent("Lookup")
    /\ LET r == Trace[l].root IN
         \/ Trace[l].fetch = "none" /\ LookupHit(r)
         \/ Trace[l].fetch = "ok" /\ LookupMissOk(r)
         \/ Trace[l].fetch = "err" /\ LookupMissErr(r)
    /\ last'.ok = Trace[l].ok
    /\ last'.slot = Trace[l].slot
    /\ StateMatches

TraceClean ==
    /\ IsEvent("Clean")
    /\ Clean
    /\ StateMatches

TraceAdvance ==
    /\ IsEvent("Advance")
    /\ now' = Trace[l].now
    /\ last' = NoReply
    /\ UNCHANGED <<chain, map>>

TraceNext == TraceReset \/ TraceBlockEvent \/ TraceLookup \/ TraceClean \/ TraceAdvance

TraceSpec == TraceInit /\ [][TraceNext]_tvars

\* a Reset line starts a new scenario (a new service instance): it is not a step of the cache
TraceCleanOnlyOld == [][(l <= TraceLen /\ Trace[l].ev = "Reset") \/ CleanOnlyOldStep]_tvars

HWM == UpdateHWM(l)
TraceAccepted == TraceAcceptedUpTo
=============================================================================
