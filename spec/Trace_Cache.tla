----------------------------- MODULE Trace_Cache -----------------------------
(* Trace specification: a trace recorded from the real cache service is a behaviour of Cache.   *)
(* Each line names the action the driver performed (with its arguments), the reply the real     *)
(* code gave and the projected state (the content of the cache map) after the call.             *)
EXTENDS Cache, TraceLib

VARIABLE l
tvars == <<vars, l>>

TraceInit ==
    /\ l = 1
    /\ chain = [r \in Roots |-> 0]
    /\ parent = [r \in Roots |-> NoRoot]
    /\ map = Empty
    /\ now = 0
    /\ ehead = NoRoot /\ heads = {}
    /\ last = NoReply
    /\ InitHWM

IsEvent(e) == l <= TraceLen /\ Trace[l].ev = e /\ l' = l + 1

\* logged projection of the cache map: sequence of <<root, slot>> pairs
LoggedMap(line) == LET ps == SeqToSet(line.map) IN [r \in {p[1] : p \in ps} |-> (CHOOSE p \in ps : p[1] = r)[2]]
StateMatches == map' = LoggedMap(Trace[l])

TraceReset ==
    /\ IsEvent("Reset")
    /\ chain' = [r \in Roots |-> Trace[l].chain[r]]
    /\ parent' = [r \in Roots |-> Trace[l].parent[r]]
    /\ map' = Empty
    /\ now' = Trace[l].now
    /\ ehead' = NoRoot /\ heads' = {}
    /\ last' = NoReply

TraceBlockEvent ==
    /\ IsEvent("BlockEvent")
    /\ BlockEvent(Trace[l].root)
    /\ StateMatches

\* the controller's block event handler wrote to the cache (driver in the controller's package: the real
\* HandleBlockEvent; driver in the cache's package: SetBlockRootToSlot, the call that handler makes)
TraceCtlBlockEvent ==
    /\ IsEvent("CtlBlockEvent")
    /\ CtlBlockEvent(Trace[l].root)
    /\ StateMatches

\* a head event: ok = the fake node handed out the signed block; the logged map and the logged execution
\* head decide which of the outcomes HeadEvent allows was taken - none, if something untrue was cached
TraceHeadEvent ==
    /\ IsEvent("HeadEvent")
    /\ HeadEvent(Trace[l].root, Trace[l].ok)
    /\ ehead' = Trace[l].ehead
    /\ StateMatches

\* the controller's head event handler (it does not write to the cache today; whatever it caches must be true)
TraceCtlHeadEvent ==
    /\ IsEvent("CtlHeadEvent")
    /\ CtlHeadEvent(Trace[l].root)
    /\ StateMatches

\* a strategy was asked for its answer: nodes answered Trace[l].roots, the header fetches of the call succeeded
\* or failed (ok); the root it chose must be one the consumers' rule allows given what the cache knows
TraceUse ==
    /\ IsEvent("Use")
    /\ Use(Trace[l].kind, Trace[l].roots, Trace[l].ok)
    /\ last'.root = Trace[l].root
    /\ StateMatches

TraceExecHead ==
    /\ IsEvent("ExecHead")
    /\ ExecHead
    /\ last'.head = Trace[l].head

\* which of the three lookup actions applies is determined by the state and by the logged
\* outcome of the header fetch ("none" = the provider was not called)
TraceLookup ==
    /\ IsEvent("Lookup")
    /\ LET r == Trace[l].root IN
         \/ Trace[l].fetch = "none" /\ LookupHit(r)
         \/ Trace[l].fetch = "ok" /\ LookupMissOk(r)
         \/ Trace[l].fetch = "err" /\ LookupMissErr(r)
    /\ last'.ok = Trace[l].ok
    /\ last'.slot = Trace[l].slot
    /\ StateMatches

TraceClean ==
    /\ IsEvent("Clean")
    /\ Clean
    /\ StateMatches

TraceAdvance ==
    /\ IsEvent("Advance")
    /\ now' = Trace[l].now
    /\ last' = NoReply
    /\ UNCHANGED <<chain, parent, map, ehead, heads>>

TraceNext == \/ TraceReset \/ TraceBlockEvent \/ TraceLookup \/ TraceClean \/ TraceAdvance
             \/ TraceCtlBlockEvent \/ TraceHeadEvent \/ TraceCtlHeadEvent \/ TraceExecHead \/ TraceUse

TraceSpec == TraceInit /\ [][TraceNext]_tvars

\* a Reset line starts a new scenario (a new service instance): it is not a step of the cache
TraceCleanOnlyOld == [][(l <= TraceLen /\ Trace[l].ev = "Reset") \/ CleanOnlyOldStep]_tvars

HWM == UpdateHWM(l)
TraceAccepted == TraceAcceptedUpTo
=============================================================================
