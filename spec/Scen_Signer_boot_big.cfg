SPECIFICATION SSpec
CONSTANTS
  SlotsPerEpoch = 32
  Slots = {100}
  GivenEpochs = {3}
  MaxBatch = 1
  NReq = 1
  ForkEpochs = {0}
  Boots <- BootsThorough
  Calls <- BootCalls
INVARIANTS Emit
CHECK_DEADLOCK FALSE
