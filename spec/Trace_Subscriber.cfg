SPECIFICATION TraceSpec
CONSTANTS
  Validators = {1}
  SlotSpace = {0}
  Nows = {0}
  Committees = {0}
  Sizes = {1}
  Targets = {1}
  HVals = {0}
  HMod = 840
  MaxDuties = 1000
  MaxSubs = 1000
  SPE = 1
  Ep = 0
  MaxRefresh = 1000
  MaxChanges = 1000
  MaxHeld = 1000
  SignerMayFail = TRUE
INVARIANTS TraceTypeOK AllFutureSubscribed AggregatorRuleExact SubscriptionHistoryIndependent InfoPrefersAggregator InfoInForceComplete EveryAggregatorCommitteeScheduled NoAggregationForPastSlot
CONSTRAINT HWM
POSTCONDITION TraceAccepted
CHECK_DEADLOCK FALSE
