SPECIFICATION Spec
CONSTANTS
  MaxSlot = 4
  MaxVer = 1
  MaxReorgs = 1
  MaxCrashes = 1
  Gates = {}
  Interleave = FALSE
  Cfgs <- MCCfgsNoFT
  OraclesFor <- MCOraclesA
  MaxAccts = 0
  AnswersFor <- AllAnswers
  Deviation = {}
INVARIANTS TypeOK JobTimeRight JobCoversExactly NoSlotTwice OneJobPerDutySlot OnlyStrictlyLaterOnStart SyncWindowRight EpochTickOnce NoFutureDutyUnscheduled NoStaleJob ReorgActedOn RefreshCompletes
CHECK_DEADLOCK FALSE
