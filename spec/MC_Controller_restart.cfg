SPECIFICATION Spec
CONSTANTS
  MaxSlot = 4
  MaxVer = 1
  MaxReorgs = 1
  MaxCrashes = 1
  Gates = {}
  Interleave = FALSE
  Cfgs <- MCCfgsNoFT
  OraclesFor <- MCOraclesA
INVARIANTS TypeOK JobTimeRight JobCoversExactly NoSlotTwice OneJobPerDutySlot OnlyStrictlyLaterOnStart SyncWindowRight EpochTickOnce NoFutureDutyUnscheduled NoStaleJob ReorgActedOn
CHECK_DEADLOCK FALSE
