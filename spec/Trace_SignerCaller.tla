------------------------- MODULE Trace_SignerCaller -------------------------
(* Trace specification for C06 at the boundary of Vouch: a trace recorded from ONE wired instance   *)
(* per history - real attester/standard.Service, real signer/standard.Service, real wallet account  *)
(* manager over an nd wallet with real BLS keys, real validators manager, real immediate submitter; *)
(* the fakes are one layer out: the beacon node (validators, attestation data, domains, spec,       *)
(* submission end point) - is a behaviour of SignerCaller.                                          *)
(*   Reset      a new wired instance and chain: fork, boot, acct (per validator: "plain" / "none")   *)
(*   Start      the signer's New() returned                                                          *)
(*   Deliver    the driver hands attester.Attest the duty of a slot, built by the real               *)
(*              attester.MergeDuties from the beacon node's duty entries: op, slot, entries [v, c, p] *)
(*              (op "sync_root": the sync committee messenger's Message with the duty the controller  *)
(*              builds - entries in the order of the real Duty's ValidatorIndices(); Submit then      *)
(*              carries sync committee messages, each written as the duty entry of the validator      *)
(*              whose index it names, `by` against SigningRoot(block root, DOMAIN_SYNC_COMMITTEE))    *)
(*   Call       logged by a pass-through in front of the real signer when SignBeaconAttestations     *)
(*              ARRIVES: per position the validator whose account is handed (identified by the       *)
(*              account's public key against the beacon node's validator records; 0 = nobody's) and  *)
(*              the committee index handed with it                                                   *)
(*   DomainReq / DomainResp   the fake chain's domain provider, as in Trace_Signer (observations)    *)
(*   Return     the real signer returned: per position, does the signature verify (BLS, in Go) under *)
(*              the key of the account handed at that position against SigningRoot(hash_tree_root(   *)
(*              AttestationData with the committee index handed at that position), chain's attester  *)
(*              domain - type from Signer.tla's table - at the slot's epoch)                         *)
(*   Submit     logged by the fake beacon node when attestations ARRIVE from the real submitter: per *)
(*              attestation its slot, committee index, the aggregation bit set (-1 unless exactly    *)
(*              one), and `by`: the validator under whose public key the signature verifies against  *)
(*              the signing root of THIS attestation's data (0 = none of our validators)             *)
(*   Attested   Attest returned                                                                      *)
(*   Crash, Hung   no action of the specification                                                    *)
(* Call and Submit are the GENERAL steps (CallerCallWith, SubmitWith): what the real code handed     *)
(* over / sent is written down; PairedOwn and SubmittedRight judge it.                               *)
EXTENDS SignerCaller, TraceLib

VARIABLE l
tvars == <<allvars, l>>

TraceInit ==
    /\ l = 1
    /\ CInit
    /\ InitHWM

IsEvent(e) == l <= TraceLen /\ Trace[l].ev = e /\ l' = l + 1

TraceReset ==
    /\ IsEvent("Reset")
    /\ fork' = Trace[l].fork
    /\ boot' = Trace[l].boot
    /\ svc' = "new"
    /\ pc' = [r \in Rids |-> "idle"]
    /\ req' = [r \in Rids |-> NoCall]
    /\ domreqs' = [r \in Rids |-> <<>>]
    /\ dom' = [r \in Rids |-> NoDomain]
    /\ insign' = [r \in Rids |-> NoSign]
    /\ signed' = [r \in Rids |-> EmptyFn]
    /\ result' = [r \in Rids |-> <<>>]
    /\ acct' = [v \in Validators |-> IF v <= Len(Trace[l].acct) THEN Trace[l].acct[v] ELSE "none"]
    /\ attested' = {}
    /\ cpc' = [r \in Rids |-> "none"]
    /\ duty' = [r \in Rids |-> NoDuty]
    /\ elig' = [r \in Rids |-> <<>>]
    /\ cal' = [r \in Rids |-> NoCal]
    /\ submitted' = {}

TraceStart ==
    /\ IsEvent("Start")
    /\ Start(Trace[l].ok)
    /\ UNCHANGED cvars

TraceDeliver ==
    /\ IsEvent("Deliver")
    /\ LET t == Trace[l] IN
         /\ t.rid \in Rids
         /\ Deliver(t.rid, [op |-> IF Has(t, "op") THEN t.op ELSE "attestations", slot |-> t.slot, entries |-> [j \in 1..Len(t.entries) |->
                               [v |-> t.entries[j].v, c |-> t.entries[j].c, p |-> t.entries[j].p]]])

\* the signer call arrives: what the caller hands over is written down
TraceCall ==
    /\ IsEvent("Call")
    /\ LET t == Trace[l] IN
         /\ t.rid \in Rids
         /\ t.slot = duty[t.rid].slot
         /\ CallerCallWith(t.rid, t.vals, t.cidx)

LoggedDomain(t) == [type |-> t.type, genesis |-> t.genesis, epoch |-> t.epoch]
LoggedValue(d) == [type |-> d.type, ver |-> d.ver]

TraceDomainReq ==
    /\ IsEvent("DomainReq")
    /\ LET t == Trace[l] IN
         IF t.rid = 0 THEN UNCHANGED allvars
         ELSE /\ t.rid \in Rids
              /\ (FetchDomain(t.rid) \/ RefetchDomain(t.rid))
              /\ LoggedDomain(t) = DomainReq(req[t.rid])
              /\ UNCHANGED cvars

TraceDomainResp ==
    /\ IsEvent("DomainResp")
    /\ LET t == Trace[l] IN
         IF t.rid = 0 THEN UNCHANGED allvars
         ELSE /\ t.rid \in Rids
              /\ DomainResp(t.rid)
              /\ ~t.err
              /\ LoggedValue(t.dom) = dom'[t.rid]
              /\ UNCHANGED cvars

\* silent: the signer had its domain from memory
TraceRecall ==
    /\ l <= TraceLen
    /\ Trace[l].ev = "Return"
    /\ Trace[l].rid \in Rids
    /\ Recall(Trace[l].rid)
    /\ UNCHANGED cvars
    /\ l' = l

\* the real signer returned.  Its signer calls are not visible here (real wallet accounts, no wrappers): what is
\* observed is the reply - per position a signature that verifies under the key of the account handed at that
\* position over the message handed at that position, i.e. Produced(Item(r, i), dom[r]) - and the step is the
\* signing of every position followed by Return(r)
TraceReturn ==
    /\ IsEvent("Return")
    /\ LET t == Trace[l]
           r == t.rid
       IN /\ r \in Rids
          /\ IF t.ok
             THEN /\ pc[r] = "sign"
                  /\ t.n = Len(req[r].kinds)
                  /\ \A i \in 1..t.n : t.verifies[i] /\ ~t.zero[i]
                  /\ signed' = [signed EXCEPT ![r] = [i \in 1..t.n |-> Produced(Item(r, i), dom[r])]]
                  /\ result' = [result EXCEPT ![r] = [i \in 1..t.n |-> Produced(Item(r, i), dom[r])]]
                  /\ pc' = [pc EXCEPT ![r] = "done"]
                  /\ UNCHANGED <<fork, boot, svc, req, domreqs, dom, insign>>
             ELSE Refuse(r)
    /\ UNCHANGED cvars

LoggedAtts(t) == {[rid |-> t.rid, slot |-> t.atts[j].slot, committee |-> t.atts[j].committee,
                   pos |-> t.atts[j].pos, by |-> t.atts[j].by] : j \in 1..Len(t.atts)}

\* attestations arrive at the beacon node
TraceSubmit ==
    /\ IsEvent("Submit")
    /\ LET t == Trace[l] IN
         /\ t.rid \in Rids
         /\ SubmitWith(t.rid, LoggedAtts(t))

\* Attest returned: whatever has not happened by now does not happen (C06 demands nothing of a duty that ends
\* without a signature or without a submission)
TraceAttested ==
    /\ IsEvent("Attested")
    /\ LET r == Trace[l].rid IN
         /\ r \in Rids
         /\ cpc[r] \in {"delivered", "called", "finished"}
         /\ cpc' = [cpc EXCEPT ![r] = "finished"]
    /\ UNCHANGED <<vars, acct, attested, duty, elig, cal, submitted>>

TraceNext == TraceReset \/ TraceStart \/ TraceDeliver \/ TraceCall \/ TraceDomainReq \/ TraceDomainResp
                \/ TraceRecall \/ TraceReturn \/ TraceSubmit \/ TraceAttested

TraceSpec == TraceInit /\ [][TraceNext]_tvars

TraceReplyStable ==
    [][(l <= TraceLen /\ Trace[l].ev = "Reset") \/
       \A r \in Rids : pc[r] \in {"done", "error"} => (pc'[r] = pc[r] /\ result'[r] = result[r])]_tvars

HWM == UpdateHWM(l)
TraceAccepted == TraceAcceptedUpTo
=============================================================================
