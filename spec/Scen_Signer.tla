----------------------------- MODULE Scen_Signer -----------------------------
(* Scenario generator for C06: one behaviour per request in Calls (operation x slot / epoch x      *)
(* batch of account kinds in every order x failure mode).  Each request is written out together   *)
(* with what the table SigSpec demands for it (domain request, message container, verification    *)
(* key per position): the Go driver fills the consensus-spec container named here and verifies    *)
(* the returned signatures against it - it holds no table of its own.  These are the histories of *)
(* length one (a fresh service per request; the fork epoch of the history is chosen by the check   *)
(* next to the duty's epoch); Scen_SignerHist generates the histories of overlapping requests.     *)
EXTENDS Signer, Json

VARIABLE hist
svars == <<vars, hist>>

SInit == Init /\ hist = <<>>

CallJson(r, c) ==
               [ev      |-> "Call",
                dgate   |-> TRUE,
                sgate   |-> FALSE,
                rid     |-> r,
                op      |-> c.op,
                slot    |-> c.slot,
                epoch   |-> c.epoch,
                kinds   |-> c.kinds,
                fail    |-> c.fail,
                failidx |-> c.failidx,
                want    |-> DomainReq(c),
                msg     |-> SigSpec[c.op].msg,
                perindex |-> SigSpec[c.op].msg \in PerIndexMsg,
                verkeys |-> [i \in 1..Len(c.kinds) |-> VerKey(c.kinds[i])]]

SNext ==
    /\ hist = <<>>
    /\ \E c \in Calls :
          /\ Call(1, c)
          /\ hist' = <<[ev |-> "Reset"], CallJson(1, c)>>

SSpec == SInit /\ [][SNext]_svars

Emit == (hist # <<>>) => PrintT(ToJson(hist))
=============================================================================
