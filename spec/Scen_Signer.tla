----------------------------- MODULE Scen_Signer -----------------------------
(* Scenario generator for C06: one behaviour per request in Calls (operation x slot / epoch x      *)
(* batch of account kinds in every order x failure mode).  Each request is written out together   *)
(* with what the table SigSpec demands for it (domain request, message container, verification    *)
(* key per position): the Go driver fills the consensus-spec container named here and verifies    *)
(* the returned signatures against it - it holds no table of its own.  These are the histories of *)
(* length one (a fresh service per request; the fork epoch of the history is chosen by the check   *)
(* next to the duty's epoch); Scen_SignerHist generates the histories of overlapping requests.     *)
EXTENDS Signer, Json

VARIABLE hist
svars == <<vars, hist>>

\* the instance is up (what the real New() does with the start-up input is recorded by the driver: if it
\* refuses to start, the request of the history is not made)
SInit == /\ fork \in ForkEpochs /\ boot \in Boots /\ svc = "up" /\ InitRequests
         /\ hist = <<>>

\* the start-up input as the driver presents it, and the specifications' table of domain types: the values
\* of the keys the node lists AND the oracle's types come from here - the driver holds no table of its own
ResetJson == [ev |-> "Reset", boot |-> boot, table |-> DomainTypeBytes]

\* the requests of the start-up families (Scen_Signer_boot*.cfg: Calls <- BootCalls): every operation, on a
\* single account of each kind, without failure (and the registration that carries nothing to sign)
BootCalls == CallsWith(EnvBatches(1), {"none", "input"})
\* quick: the complete map on both chains; every single key broken in either way (also the phase0 ones and
\* SLOTS_PER_EPOCH); the maps of nodes of earlier forks (no sync committee types; none of the later types; no
\* builder / blob types) - the builder type and SLOTS_PER_EPOCH missing also on the chain with 8 slots per epoch;
\* the failed lookup
BootsQuick ==
    {CompleteBoot(8), CompleteBoot(32), SpecErrBoot(32)} \cup BootsOneBroken(SpecKeys, 32)
      \cup {BootOf([k \in LaterKeys |-> "absent"], 32),
            BootOf([k \in {"DOMAIN_SYNC_COMMITTEE", "DOMAIN_SYNC_COMMITTEE_SELECTION_PROOF",
                           "DOMAIN_CONTRIBUTION_AND_PROOF"} |-> "absent"], 32),
            BootOf([k \in {"DOMAIN_APPLICATION_BUILDER", "DOMAIN_BLOB_SIDECAR"} |-> "absent"], 32),
            BootOf([k \in {"DOMAIN_APPLICATION_BUILDER", "DOMAIN_BLOB_SIDECAR"} |-> "absent"], 8),
            BootOf([k \in {"DOMAIN_APPLICATION_BUILDER"} |-> "badtype"], 8),
            BootOf([k \in {"SLOTS_PER_EPOCH"} |-> "badtype"], 8),
            BootOf([k \in {"SLOTS_PER_EPOCH"} |-> "absent"], 8)}
\* thorough: every assignment of the three modes to the later keys, every single key broken, the failed
\* lookup - on both chains
BootsThorough ==
    UNION {BootsOver(LaterKeys, KeyModes, n) \cup BootsOneBroken(SpecKeys, n) \cup {SpecErrBoot(n)} : n \in {8, 32}}

CallJson(r, c) ==
               [ev      |-> "Call",
                dgate   |-> TRUE,
                sgate   |-> FALSE,
                rid     |-> r,
                op      |-> c.op,
                slot    |-> c.slot,
                epoch   |-> c.epoch,
                kinds   |-> c.kinds,
                fail    |-> c.fail,
                failidx |-> c.failidx,
                want    |-> DomainReq(c),
                msg     |-> SigSpec[c.op].msg,
                perindex |-> SigSpec[c.op].msg \in PerIndexMsg,
                verkeys |-> [i \in 1..Len(c.kinds) |-> VerKey(c.kinds[i])]]

SNext ==
    /\ hist = <<>>
    /\ \E c \in Calls :
          /\ Call(1, c)
          /\ hist' = <<ResetJson, CallJson(1, c)>>

SSpec == SInit /\ [][SNext]_svars

Emit == (hist # <<>>) => PrintT(ToJson(hist))
=============================================================================
