SPECIFICATION SSpec
CONSTANTS
  P = 4
  EP = 2
  G = 2
  MaxSlot = 1027
  StartSlots = {0, 5}
  Mode = "design"
  RecMax = 100
  RecKeep = 32
  RootKeep = 4
  BidKeep = 32
  KRoots = 8
  KBids = 64
  Menu = {{}, {1}, {0, 3}, {0, 2, 3}, {1, 2, 3}}
  Moods = {"quiet", "plain", "plain", "reorg", "reorg"}
  MaxReorgs = 1
  MsgLates = {0, 1, 2, 5, 9, 13}
  AucLates = {0, 1, 2, 36, 44}
  SubLates = {0, 2, 11, 14}
  AttLates = {0, 3, 6, 9}
  MaxHeld = 2
  MaxPasses = 1
  MaxHeads = 1
  HoldKinds = {"refresh"}
  Focus = FALSE
  FocusPasses = FALSE
  Fams = {"all"}
INVARIANTS Emit AttestedBounded SubsBounded RootsBounded RecordsBounded JobsBounded PendingExact
CHECK_DEADLOCK FALSE
