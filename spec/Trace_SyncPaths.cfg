SPECIFICATION TraceSpec
CONSTANTS
  SPE = 2
  EPP = 8
  Prep = 5
  MaxSlot = 120
  Validators = {1, 2, 3}
  StartCfgs = {0}
  AcctSets = {{1}}
  CommChoices = {{1}}
  ExitEpochs = {1}
  SlashEpochs = {1}
  WdDelay = 3
  Varying = {}
  Roots = {1}
  Steps = {1}
  JumpTargets = {}
  HeadEpochs = {}
  MaxHeads = 100000
  MaxEnv = 100000
  MaxRefresh = 100000
  MaxXTicks = 100000
  MaxRan = 100000
  Deviation = "none"
INVARIANTS TypeOK JobsComplete NowHasJob EveryMemberMessages OnlyMembers
CONSTRAINT HWM
POSTCONDITION TraceAccepted
CHECK_DEADLOCK FALSE
