SPECIFICATION SSpec
CONSTANTS
  Names = {"a", "b"}
  Values = {"v1", "v2"}
  WithEmpty = TRUE
  MaxPathLen = 4
  ModelKinds = {"timeout"}
  ChainLen = 3
  Changes = {}
INVARIANTS Emit
CHECK_DEADLOCK FALSE
