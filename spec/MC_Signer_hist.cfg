SPECIFICATION Spec
CONSTANTS
  SlotsPerEpoch = 32
  Slots = {319, 320}
  GivenEpochs = {9}
  MaxBatch = 1
  NReq = 3
  ForkEpochs = {10}
  LawBatch = 1
  HistOps = {"attestation", "randao"}
  HistKinds = {"plain"}
  HistFails = {"none"}
  Calls <- HistCalls
INVARIANTS TypeOK DomainRight Memoryless HandedOwn SigCorrect NoSignatureWithoutDomain ErrorHasNoSignatures RefusedForCause
PROPERTIES ReplyStable
CHECK_DEADLOCK FALSE
