----------------------------- MODULE SignerPool -----------------------------
(* A signer that POOLS the working storage of the split by account kind, checked against C06 over  *)
(* histories (Signer.tla).                                                                        *)
(*                                                                                                *)
(* The design of seeded/C06-pooled-account-groups: the two groups of a batch request (accounts,    *)
(* roots, positions in the request) are built in an object taken from a pool on the long-lived     *)
(* Service ("requests arrive every slot with much the same number of accounts"); the request keeps *)
(* SLICES of that object's storage while it signs the ordinary group and then the distributed one. *)
(*   PutEarly = TRUE   the object goes back to the pool as soon as the groups are built.  On a     *)
(*                     fresh instance, and for any number of requests one after the other, this is *)
(*                     right.  A second batch request that is split while the first is still       *)
(*                     signing gets the same object and overwrites the storage the first request's *)
(*                     slices point at: the first request hands its signer ANOTHER request's       *)
(*                     accounts and roots and puts the result at another request's positions.  TLC *)
(*                     finds that history (HandedOwn, SigCorrect violated): checks/C06.py requires *)
(*                     it to - the model can see the class.                                        *)
(*   PutEarly = FALSE  the object goes back when the request returns: pooling with the right       *)
(*                     lifetime is invisible - a legal implementation (all invariants hold).       *)
(* The pool holds one object (a second request that finds it empty allocates its own); what a      *)
(* stale slice shows beyond the part that was overwritten is left as it was (the seeded change     *)
(* clears the accounts there: an error instead of a wrong signature).                              *)
EXTENDS Signer

CONSTANTS PutEarly, PoolOps, PoolKinds

VARIABLES pool,     \* the pooled object: [free, ord, dist] - is it in the pool; what its two groups hold (items)
          grp       \* per request: "none" (not split yet) | "pooled" (its groups are slices of the pooled
                    \*              object's storage) | "private" (the pool was empty: an object of its own)

pvars == <<vars, pool, grp>>

PoolCalls == {c \in [op : PoolOps, slot : Slots, epoch : {CHOOSE e \in GivenEpochs : TRUE},
                     kinds : SeqsUpTo(PoolKinds, MaxBatch), fail : {"none"}, failidx : {0}] :
                 /\ ValidCall(c)
                 /\ (SigSpec[c.op].epoch # "slot") => c.slot = CHOOSE s \in Slots : TRUE}

PInit == Init /\ pool = [free |-> TRUE, ord |-> <<>>, dist |-> <<>>] /\ grp = [r \in Rids |-> "none"]

\* groupByAccountType: Get, reset, fill - and, with PutEarly, Put - in one go (no interface call inside)
Group(r) ==
    /\ pc[r] = "sign"
    /\ grp[r] = "none"
    /\ IF pool.free
       THEN /\ pool' = [free |-> PutEarly,
                        ord  |-> OwnItems(r, OrdIdx(req[r].kinds)),
                        dist |-> OwnItems(r, DistIdx(req[r].kinds))]
            /\ grp' = [grp EXCEPT ![r] = "pooled"]
       ELSE /\ grp' = [grp EXCEPT ![r] = "private"]
            /\ UNCHANGED pool
    /\ UNCHANGED vars

\* what request r's slice of group g shows NOW: its own length, the storage's present content
Storage(g) == IF g = 1 THEN pool.ord ELSE pool.dist
Seen(r, g) ==
    LET own == Groups(req[r].kinds)[g]
        st  == Storage(g)
    IN [j \in 1..Len(own) |-> IF j <= Len(st) THEN st[j] ELSE Item(r, own[j])]

PoolSignStart(r, g) ==
    /\ pc[r] = "sign"
    /\ grp[r] # "none"
    /\ Len(Groups(req[r].kinds)[g]) >= 1
    /\ g = 2 => Range(Groups(req[r].kinds)[1]) \subseteq DOMAIN signed[r]        \* in series: ordinary first
    /\ IF grp[r] = "pooled"
       THEN LET seen == Seen(r, g)
            IN SignStartWith(r, seen, [j \in 1..Len(seen) |-> seen[j].pos])      \* accounts, roots AND positions
       ELSE SignStart(r, Groups(req[r].kinds)[g])
    /\ UNCHANGED <<pool, grp>>

PoolReturn(r) ==
    /\ Return(r)
    /\ pool' = IF grp[r] = "pooled" /\ ~PutEarly THEN [pool EXCEPT !.free = TRUE] ELSE pool
    /\ UNCHANGED grp

PNext ==
    \/ Start(TRUE) /\ UNCHANGED <<pool, grp>>
    \/ \E r \in Rids, c \in PoolCalls : Call(r, c) /\ UNCHANGED <<pool, grp>>
    \/ \E r \in Rids :
          \/ (FetchDomain(r) \/ DomainResp(r) \/ SignEnd(r)) /\ UNCHANGED <<pool, grp>>
          \/ Group(r)
          \/ \E g \in {1, 2} : PoolSignStart(r, g)
          \/ PoolReturn(r)

PSpec == PInit /\ [][PNext]_pvars

\* the self-check must not be vacuous the other way round either: with the right lifetime requests do
\* complete while another one holds the pooled object (used as a reachability witness: TLC must violate it)
NeverTwoDone == ~(\A r \in Rids : pc[r] = "done")
=============================================================================
