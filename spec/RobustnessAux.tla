---------------------------- MODULE RobustnessAux ----------------------------
(* Controls for the AUXILIARY-REQUEST part of C16 (Robustness!Aux): DESIGNS of a handler that expands an   *)
(* operator-supplied template ({{CLIENT}}) by asking the provider of each node for its client name through  *)
(* the optional interface, and then asks the nodes for the block.                                           *)
(*   checked    the response of the auxiliary request is only touched when the request returned without an   *)
(*              error; after a fault the template stays as it is (what the code does).  Passes everything.    *)
(*   deref      the error is logged and the response is used all the same: (nil, err) is dereferenced in the  *)
(*              CALLING goroutine.                                                                            *)
(*   goroutine  the same slip, but the auxiliary request was moved into the per-node goroutine the strategy    *)
(*              starts ("a node that is slow to name its client does not hold up the others"): the nil        *)
(*              response is dereferenced there.  The call itself may already have come back with the other     *)
(*              node's proposal; a recover in the calling goroutine never sees this panic.                     *)
(*              This is seeded/C16-nodeclient-error-nil-deref-in-goroutine.                                    *)
(*   kindsplit  the fault KINDS are told apart ("a cancelled request is not worth a warning") and one kind      *)
(*              falls into the branch that uses the response: only an environment that can produce THAT kind    *)
(*              of error reaches the slip.                                                                      *)
(* Every design answers every input exactly like the specification as long as the environment's alphabet for   *)
(* the auxiliary request is {ok, empty, slow} - a node that always names its client, which is all the first     *)
(* versions of this check (and every mock of the repository, none of which implements the optional interface)    *)
(* could present: MC_RobustnessAux_narrow.cfg passes for all designs.  With the alphabet of                      *)
(* RobustnessShapes!AuxAnswers TLC rejects deref, goroutine and kindsplit (KeepsRunning), and                    *)
(* MC_RobustnessAux_caller.cfg shows why the observation matters: for the goroutine design the invariant         *)
(* CallerSeesNoPanic - all that a recover around the call can establish - HOLDS.                                  *)
(* checks/C16.py runs them as vacuity self-checks and expects exactly these verdicts.                             *)
EXTENDS RobustnessShapes

CONSTANTS Designs,        \* the designs explored by this configuration
          Alphabet        \* the answers the environment of THIS configuration can give to an auxiliary request

Inputs == {s \in Shapes("proposalbest") :
              /\ s.strat = "best" /\ s.graffiti = "prefix" /\ s.clen = "10" /\ s.proposal = "ok"
              /\ \A a \in AuxRequests("proposalbest", s) : a.answer \in Alphabet}

VARIABLES design,
          input,          \* the pending input (a shape) or NoInput
          todo,           \* auxiliary requests of the pending input that have not been made yet
          got,            \* what the handler holds for each request made: at -> "value" | "nil"
          returned,       \* the call has come back (the duty ended)
          callerPanic,    \* a panic was raised in the calling goroutine (a recover around the call sees it)
          alive           \* the process keeps running
avars == <<design, input, todo, got, returned, callerPanic, alive>>

NoInput == [n |-> "0"]

AInit == /\ design \in Designs /\ input = NoInput /\ todo = {} /\ got = << >>
         /\ returned = FALSE /\ callerPanic = FALSE /\ alive = TRUE

ACall(s) ==
    /\ alive /\ input = NoInput
    /\ s \in Inputs
    /\ input' = s /\ todo' = AuxRequests("proposalbest", s) /\ got' = << >> /\ returned' = FALSE
    /\ UNCHANGED <<design, callerPanic, alive>>

(* which goroutine makes the auxiliary requests in this design *)
InCaller == design \in {"checked", "deref", "kindsplit"}

(* does the design use the response of a request that ended with this answer although it is nil? *)
UsesNil(a) ==
    /\ a.answer \in AuxFaults
    /\ \/ design \in {"deref", "goroutine"}
       \/ design = "kindsplit" /\ a.answer = "canceled"

(* The handler makes one of its auxiliary requests and the environment answers it.                        *)
AAux(a) ==
    /\ alive /\ input # NoInput /\ a \in todo
    /\ InCaller => ~returned
    /\ todo' = todo \ {a}
    /\ IF UsesNil(a)
       THEN /\ alive' = FALSE                                    \* nil pointer dereference: the process is gone
            /\ callerPanic' = (callerPanic \/ InCaller)
            /\ UNCHANGED <<got, returned>>
       ELSE /\ got' = [x \in DOMAIN got \cup {a.at} |-> IF x = a.at THEN (IF a.answer \in AuxFaults THEN "nil" ELSE "value") ELSE got[x]]
            /\ UNCHANGED <<returned, callerPanic, alive>>
    /\ UNCHANGED <<design, input>>

(* The call comes back: in the designs that ask in the calling goroutine after every request was made; in   *)
(* the goroutine design as soon as ONE node has delivered (soft time-out with a response) or all have.       *)
AReturn ==
    /\ alive /\ input # NoInput /\ ~returned
    /\ IF InCaller THEN todo = {} ELSE (DOMAIN got # {} \/ todo = {})
    /\ returned' = TRUE
    /\ UNCHANGED <<design, input, todo, got, callerPanic, alive>>

(* the duty is over and every goroutine it started has ended *)
ADone ==
    /\ alive /\ input # NoInput /\ returned /\ todo = {}
    /\ input' = NoInput /\ got' = << >> /\ returned' = FALSE
    /\ UNCHANGED <<design, todo, callerPanic, alive>>

ANext == (\E s \in Inputs : ACall(s)) \/ (\E a \in AuxUniverse : AAux(a)) \/ AReturn \/ ADone

ASpec == AInit /\ [][ANext]_avars

ATypeOK ==
    /\ design \in Designs /\ alive \in BOOLEAN /\ returned \in BOOLEAN /\ callerPanic \in BOOLEAN
    /\ input = NoInput \/ input \in Inputs
    /\ todo \subseteq AuxUniverse
    /\ \A x \in DOMAIN got : got[x] \in {"value", "nil"}

\* C16
KeepsRunning == alive

\* what a recover around the call (in the goroutine that made it) can establish, and no more
CallerSeesNoPanic == ~callerPanic

\* the self-check is not vacuous: inputs with two nodes and with a fault exist in this configuration's alphabet
InputsCount == Cardinality(Inputs)
=============================================================================
