SPECIFICATION SSpec
CONSTANTS
  Validators = {1, 2, 3}
  SlotSpace = {4, 5}
  Nows = {3, 4, 5}
  Committees = {0, 1}
  Sizes = {8, 40}
  Targets = {2, 16}
  HVals = {0, 1, 4, 20}
  HMod = 840
  MaxDuties = 4
  MaxSubs = 2
  ScenLen = 8
  SetupLen = 4
INVARIANTS Emit TypeOK AllFutureSubscribed AggregatorRuleExact EveryAggregatorCommitteeScheduled
CHECK_DEADLOCK FALSE
