SPECIFICATION SSpec
CONSTANTS
  Validators = {1, 2, 3}
  SlotSpace = {8, 9}
  Nows = {7, 8, 9}
  Committees = {0, 1}
  Sizes = {8, 40}
  Targets = {2, 16}
  HVals = {0, 1, 4, 20}
  HMod = 840
  MaxDuties = 4
  MaxSubs = 2
  SPE = 4
  Ep = 2
  MaxRefresh = 2
  MaxChanges = 1
  ScenLen = 11
  SetupFan = 8
  SetupLen = 4
INVARIANTS Emit TypeOK AllFutureSubscribed AggregatorRuleExact InfoInForceComplete EveryAggregatorCommitteeScheduled
CHECK_DEADLOCK FALSE
