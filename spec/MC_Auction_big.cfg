SPECIFICATION Spec
CONSTANTS
  Variants = {"best"}
  Relays = {1, 2, 3}
  FetchSet = {}
  Values = {0, 1, 2, 3}
  CfgSet <- MCCfgSmall
  TableSet = {"A"}
  BuilderSet = {"std", "plus", "excl", "half"}
  AnswerSet <- MCAnswersAll
  Headers = {1, 2}
  MaxRounds = 1
  Keys = {1}
  MaxAuctions = 1
  MaxOpen = 1
  Deviation = "none"
INVARIANTS TypeOK WinnerIsArgmax OnlyEligibleWin ProvidersOfferedWinner NoWinnerIffNone ParticipationSound ArrivedConsidered CacheRight ServedRight HistoryShape
