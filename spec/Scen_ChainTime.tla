--------------------------- MODULE Scen_ChainTime ---------------------------
(* Scenario enumeration for the binding of chaintime/standard.Service to ChainTime.tla: one     *)
(* scenario per chain-parameter combination (slot duration, slots per epoch, genesis position   *)
(* relative to the wall clock); each probes the conversions at slots/epochs around epoch        *)
(* boundaries and reads the current slot and epoch.  The Go driver adds seeded random slots.    *)
EXTENDS ChainTime, Sequences, TLC, Json

CONSTANTS Ds, Ps,
          GKs,      \* genesis lies (k - GShift) slots plus half a slot before the wall clock (negative: future)
          GShift

VARIABLE hist

ProbeSlots(p) == {0, 1, 2, p - 1, p, p + 1, 2 * p - 1, 2 * p, 2 * p + 1, 31, 32, 33, 7 * p + 3, 1000003}
SetToSeq(S) == LET RECURSIVE F(_) F(T) == IF T = {} THEN <<>> ELSE LET x == CHOOSE y \in T : \A z \in T : y <= z IN <<x>> \o F(T \ {x}) IN F(S)

Scenario(d, p, k) ==
    <<[ev |-> "Reset", d |-> d, p |-> p, gk |-> k - GShift]>>
    \o [i \in 1..Len(SetToSeq(ProbeSlots(p))) |-> [ev |-> "Conv", n |-> SetToSeq(ProbeSlots(p))[i]]]
    \o <<[ev |-> "Now"], [ev |-> "Random", count |-> 12], [ev |-> "Now"]>>

Init == \E d \in Ds, p \in Ps, k \in GKs : hist = Scenario(d, p, k)
Next == UNCHANGED hist
SSpec == Init /\ [][Next]_hist
Emit == PrintT(ToJson(hist))
=============================================================================
