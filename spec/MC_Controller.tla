--------------------------- MODULE MC_Controller ---------------------------
(* Exhaustive model checking of Controller.tla with small constants and hand-made duty oracles  *)
(* that contain: two validators merged into one slot, a duty outside the requested epoch, a     *)
(* validator without duty, duties that move between versions (reorg), a slot that has a duty    *)
(* only in the old / only in the new version.                                                   *)
EXTENDS Controller

MCCfgs == {[p |-> 2, d |-> 12, ep |-> 2, prep |-> 1, fork |-> f, ft |-> t, attd |-> 4, propd |-> 4, syncd |-> 4, vals |-> {1, 2}] :
              f \in {0, 1}, t \in BOOLEAN}

\* job starts between the steps of a refresh: fast track on and off
MCCfgsFork0 == {[p |-> 2, d |-> 12, ep |-> 2, prep |-> 1, fork |-> 0, ft |-> t, attd |-> 4, propd |-> 4, syncd |-> 4, vals |-> {1, 2}] : t \in BOOLEAN}
MCCfgsNoFT == {[p |-> 2, d |-> 12, ep |-> 2, prep |-> 1, fork |-> f, ft |-> FALSE, attd |-> 4, propd |-> 4, syncd |-> 4, vals |-> {1, 2}] : f \in {0, 1}}
MCCfgsOne == {[p |-> 2, d |-> 12, ep |-> 2, prep |-> 1, fork |-> 0, ft |-> FALSE, attd |-> 4, propd |-> 4, syncd |-> 4, vals |-> {1, 2}]}

F1(c, e) == e * c.p
L1(c, e) == e * c.p + c.p - 1
Epochs == 0..(MaxSlot \div 2 + 2)
Periods == 0..(MaxSlot \div 4 + 2)
Vers == 0..MaxVer

\* oracle A: version parity and epoch parity move the duties around
AttA(c) == {[e |-> e, ver |-> v, v |-> 1, slot |-> F1(c, e) + ((e + v) % c.p)] : e \in Epochs, v \in Vers}
        \cup {[e |-> e, ver |-> v, v |-> 2, slot |-> F1(c, e) + ((e + 1) % c.p)] : e \in Epochs, v \in Vers}
        \cup {[e |-> e, ver |-> 0, v |-> 2, slot |-> F1(c, e + 1)] : e \in Epochs}          \* outside the epoch
PropA(c) == {[e |-> e, ver |-> v, v |-> 1 + ((e + v) % 2), slot |-> F1(c, e) + ((e + v) % c.p)] : e \in Epochs, v \in Vers}
         \cup {[e |-> e, ver |-> 1, v |-> 2, slot |-> L1(c, e)] : e \in Epochs}
         \cup {[e |-> e, ver |-> 0, v |-> 1, slot |-> F1(c, e + 1) + 1] : e \in Epochs}     \* outside the epoch
SyncA == {[p |-> p, ver |-> v, v |-> 1] : p \in Periods, v \in Vers}
         \cup {[p |-> p, ver |-> 1, v |-> 2] : p \in Periods}
OracleA(c) == [att |-> AttA(c), prop |-> PropA(c), sync |-> SyncA]

\* oracle B: sparse - some epochs / periods / versions without any duty
AttB(c) == {[e |-> e, ver |-> v, v |-> 1, slot |-> L1(c, e)] : e \in {x \in Epochs : x % 2 = 1}, v \in Vers}
        \cup {[e |-> e, ver |-> 1, v |-> 2, slot |-> F1(c, e)] : e \in Epochs}
PropB(c) == {[e |-> e, ver |-> 0, v |-> 2, slot |-> L1(c, e)] : e \in Epochs}
SyncB == {[p |-> p, ver |-> 0, v |-> 2] : p \in {x \in Periods : x % 2 = 1}}
OracleB(c) == [att |-> AttB(c), prop |-> PropB(c), sync |-> SyncB]

\* accounts answers: the lookup fails, nobody is active, one validator is, all are
MCAnswers(c) == {Answer(TRUE, {}), Answer(FALSE, {}), Answer(FALSE, {1}), Answer(FALSE, c.vals)}
\* (quick tier: all of them active only to begin with)
MCAnswersFew(c) == {Answer(TRUE, {}), Answer(FALSE, {}), Answer(FALSE, {1})}

MCOraclesAB(c) == {OracleA(c), OracleB(c)}
MCOraclesA(c) == {OracleA(c)}
=============================================================================
