------------------------ MODULE Trace_BlockRelay_C12 ------------------------
(* Trace specification for C12: a trace recorded from the real block relay is a behaviour of the *)
(* configuration part of BlockRelay.  Logged (at the interface, in the order it happened):        *)
(*   Start    an operation is called            Source   the configuration source answered        *)
(*   Bid      the bid strategy was asked        Return   the call returned (with its result; a    *)
(*                                                       fetch also logs the configuration it left)*)
(*   Quiesce  nothing in flight: results of executionConfigMu.TryLock() / TryRLock()              *)
(*   Stress   free-running fetch / auction / lookup loops ended (or wedged)                       *)
(*   Stuck    an operation did not return although every gate of the driver was open              *)
(* Not logged: the lock steps inside the code; they are silent actions TLC places wherever the    *)
(* spec allows.  No action explains "Stuck", a failed lock probe at quiescence or a result that   *)
(* is not the resolution of a configuration that was active while the call ran.                   *)
EXTENDS BlockRelay, TraceLib

VARIABLE l
tvars == <<vars, l>>

TraceInit == l = 1 /\ Init /\ InitHWM

IsEvent(e) == l <= TraceLen /\ Trace[l].ev = e /\ l' = l + 1
Line == Trace[l]

TraceReset ==
    /\ IsEvent("Reset")
    /\ active' = Line.init /\ lastGood' = Line.init
    /\ readers' = 0 /\ writer' = FALSE /\ waiting' = {}
    /\ pc' = [o \in Ops |-> "idle"]
    /\ kind' = [o \in Ops |-> "none"]
    /\ arg' = [o \in Ops |-> 0]
    /\ got' = [o \in Ops |-> NoOutcome]
    /\ res' = [o \in Ops |-> NoRes]
    /\ snap' = [o \in Ops |-> 0]
    /\ during' = [o \in Ops |-> {}]
    /\ memo' = [v \in AllV |-> NoMemo]
    /\ UNCHANGED regVars

TraceStart == IsEvent("Start") /\ Start(Line.op, Line.kind, Line.v)

TraceSource == IsEvent("Source") /\ FetchSource(Line.op, [t |-> Line.out, doc |-> Line.doc])

\* the strategy is asked with the relays resolved for the validator
TraceBid ==
    /\ IsEvent("Bid")
    /\ SeqToSet(Line.rel) = res[Line.op].rel
    /\ AuctionBid(Line.op, Line.out)

\* logged projection of a configuration: sequence of [v, ok, fee, rel]
ProjectionIs(cfg, d) ==
    \A i \in 1..Len(cfg) :
        LET c == cfg[i]
            r == Resolve(d, c.v)
        IN r.ok = c.ok /\ (c.ok => (r.fee = c.fee /\ r.rel = SeqToSet(c.rel)))

TraceReturn ==
    /\ IsEvent("Return")
    /\ Return(Line.op)
    /\ LET o == Line.op IN
         \/ kind[o] = "lookup" /\ res[o].ok = Line.ok
                               /\ (Line.ok => (res[o].fee = Line.fee /\ res[o].rel = SeqToSet(Line.rel)))
         \/ kind[o] = "auction" /\ res[o].ok = Line.ok /\ res[o].bid = Line.bid
         \/ kind[o] = "fetch" /\ ProjectionIs(Line.cfg, active)
         \/ kind[o] = "register"

TraceQuiesce ==
    /\ IsEvent("Quiesce")
    /\ Quiescent
    /\ Line.lock = LockFree /\ Line.rlock = CanRLock
    /\ UNCHANGED vars

\* free-running loops: every call returned, the lock is free, the last good document is active
TraceStress ==
    /\ IsEvent("Stress")
    /\ Quiescent /\ LockFree
    /\ Line.wedged = FALSE
    /\ active' = Line.last /\ lastGood' = Line.last
    /\ ProjectionIs(Line.cfg, Line.last)
    /\ UNCHANGED <<lockVars, opVars, regVars>>

TraceSilent == l <= TraceLen /\ (\E o \in Ops : Internal(o)) /\ UNCHANGED l

TraceNext ==
    \/ TraceReset \/ TraceStart \/ TraceSource \/ TraceBid \/ TraceReturn \/ TraceQuiesce \/ TraceStress
    \/ TraceSilent

TraceSpec == TraceInit /\ [][TraceNext]_tvars

HWM == UpdateHWM(l)
TraceAccepted == TraceAcceptedUpTo
=============================================================================
