SPECIFICATION Spec
CONSTANTS
  SlotsPerEpoch = 32
  Slots = {0, 31, 32, 100}
  GivenEpochs = {0, 3}
  MaxBatch = 3
  LawBatch = 5
INVARIANTS TypeOK DomainRight SigCorrect NoSignatureWithoutDomain ErrorHasNoSignatures
CHECK_DEADLOCK FALSE
