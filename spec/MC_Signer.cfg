SPECIFICATION SpecAtomic
CONSTANTS
  SlotsPerEpoch = 32
  Slots = {0, 31, 32, 100}
  GivenEpochs = {0, 3}
  MaxBatch = 3
  NReq = 1
  ForkEpochs = {1}
  LawBatch = 5
  HistOps = {}
  HistKinds = {}
  HistFails = {}
INVARIANTS TypeOK DomainRight Memoryless HandedOwn SigCorrect NoSignatureWithoutDomain ErrorHasNoSignatures
PROPERTIES ReplyStable
CHECK_DEADLOCK FALSE
