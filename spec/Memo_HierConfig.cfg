SPECIFICATION MemoSpec
CONSTANTS
  Names = {"a", "b"}
  Values = {"v1", "v2"}
  WithEmpty = FALSE
  MaxPathLen = 3
  ModelKinds = {"timeout"}
  ChainLen = 2
  Changes = {}
INVARIANTS TypeOK MemoFreshOK
PROPERTIES MemoChangeRespected
CHECK_DEADLOCK FALSE
