SPECIFICATION Spec
CONSTANTS
  Mode = "sim"
  DKinds = {"prepdirect"}
  DItemSet = {1, 2, 5}
  DNodeCounts = {2, 3}
  DLens = {2, 3}
  DOuts = {"accept", "reject", "inactive", "gaveup", "slowgaveup1", "slowok1", "slowok2", "slowok3", "slowrej1", "slowrej2", "hang"}
INVARIANTS Emit
CHECK_DEADLOCK FALSE
