SPECIFICATION SSpec
CONSTANTS
  Pipelines = {"B"}
  SlotsPerEpoch = 4
  ASlots = {1}
  ADataRoots = {1}
  AValidators = {1}
  AProofs = {1}
  AAggIds = {1}
  AMaxJobs = 0
  BSlots = {8, 9, 20}
  BRoots = {1, 2, 3}
  BValidators = {1, 2, 3}
  BSubs = {0, 1, 3}
  BContribIds = {1, 2}
  BMaxSel = 3
  BMaxJobs = 2
  BMaxSets = 3
  MaxHeads = 2
  SmallPool = TRUE
INVARIANTS Emit TypeOK BContributionOfDuty BRememberedRootUsed BProofOfPair BSignedByOwnAccount BAggregatorsIndependent BRememberedRemoved BOthersKept
CHECK_DEADLOCK FALSE
