----------------------------- MODULE MC_Attester -----------------------------
(* Model for the exhaustive TLC runs of Attester.tla: the finite set of duties.                 *)
EXTENDS Attester

CONSTANTS MCSlots,      \* slots a duty can be for
          MCVals,       \* validators
          MCMaxLen,     \* longest duty
          MCComms,      \* committee indices
          MCAllComms,   \* TRUE: every assignment of validators to committees; FALSE: one fixed
          MCPre,        \* TRUE: start with any set of validators already marked (C04 compositions)
          MCLean,       \* see Attester!NextWith
          MCMaxAlive    \* runs alive at the same time

\* position of validator v in its committee and committee sizes: tables (positions differ from
\* array indices and committee indices, sizes differ per committee) that change with the slot - a
\* validator or a committee index met again in another duty comes with another position / size
PosTab(s, v) == (v * 3 + s) % 5
SizeTab(s, c) == 6 + c + (s % 3)

\* validator lists of duties.  MCValSeqsAll: EVERY sequence - a validator may be listed more than once
\* (the duty-shape alphabet of C01); MCValSeqsInj: distinct validators only.  A configuration chooses
\* with `MCValSeqs <- MCValSeqsAll` (default: distinct, the models of C04 are stated over those).
MCValSeqsAll == UNION {[1..n -> MCVals] : n \in 1..MCMaxLen}
MCValSeqsInj == {vs \in MCValSeqsAll : \A i, j \in DOMAIN vs : vs[i] = vs[j] => i = j}
MCValSeqs == MCValSeqsInj

\* all assignments of the listed validators to committees
MCDuties ==
    {[slot |-> s, vals |-> vs, comm |-> cs, pos |-> [i \in DOMAIN vs |-> PosTab(s, vs[i])],
      sizes |-> [i \in 1..Cardinality(MCComms) |-> <<i - 1, SizeTab(s, i - 1)>>]]
        : s \in MCSlots, vs \in MCValSeqs, cs \in UNION {[1..n -> MCComms] : n \in 1..MCMaxLen}}

\* MCAllComms = FALSE: the committee follows the validator - and, for a validator listed again, the
\* entry (its k-th listing sits in the next committee) or not (the same entry twice): both variants
Earlier(vs, i) == Cardinality({j \in 1..(i - 1) : vs[j] = vs[i]})
ByValidator(d) == \A i \in DOMAIN d.vals : d.comm[i] = d.vals[i] % Cardinality(MCComms)
ByEntry(d) == \A i \in DOMAIN d.vals : d.comm[i] = (d.vals[i] + Earlier(d.vals, i)) % Cardinality(MCComms)
Duties == {d \in MCDuties : /\ Len(d.comm) = Len(d.vals)
                             /\ (MCAllComms \/ ByValidator(d) \/ ByEntry(d))}

Alive == {r \in RunIds : run[r].pc \notin {"idle", "done"}}

Next == NextWith(Duties, MCLean)
\* the control design of the duty-shape class (Attester!WalkReq): the request built by walking the raw duty
NextW == NextWalk(Duties, MCLean)
MCInit ==
    /\ attested \in (IF MCPre THEN SUBSET {<<Epoch(s), v>> : s \in MCSlots, v \in MCVals} ELSE {{}})
    /\ run = [r \in RunIds |-> IdleRun]
    /\ signReq = {}
    /\ submitted = {}
    /\ horizon = 0
Spec == MCInit /\ [][Next]_vars
SpecWalk == MCInit /\ [][NextW]_vars

\* bound on concurrency (state constraint)
AliveBound == Cardinality(Alive) <= MCMaxAlive

TypeOK ==
    /\ \A p \in attested : p[1] \in {Epoch(s) : s \in MCSlots}
    /\ \A r \in RunIds : run[r].pc \in {"idle", "mark", "fetch", "validate", "accounts", "sign", "signing", "build", "submit", "submitting", "ret", "done"}
=============================================================================
