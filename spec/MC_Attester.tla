----------------------------- MODULE MC_Attester -----------------------------
(* Model for the exhaustive TLC runs of Attester.tla: the finite set of duties.                 *)
EXTENDS Attester

CONSTANTS MCSlots,      \* slots a duty can be for
          MCVals,       \* validators
          MCMaxLen,     \* longest duty
          MCComms,      \* committee indices
          MCAllComms,   \* TRUE: every assignment of validators to committees; FALSE: one fixed
          MCPre,        \* TRUE: start with any set of validators already marked (C04 compositions)
          MCLean,       \* see Attester!NextWith
          MCMaxAlive    \* runs alive at the same time

\* position of validator v in its committee and committee sizes: tables (positions differ from
\* array indices and committee indices, sizes differ per committee) that change with the slot - a
\* validator or a committee index met again in another duty comes with another position / size
PosTab(s, v) == (v * 3 + s) % 5
SizeTab(s, c) == 6 + c + (s % 3)

\* validator lists of duties: ordered, distinct
MCValSeqs == {vs \in UNION {[1..n -> MCVals] : n \in 1..MCMaxLen} : \A i, j \in DOMAIN vs : vs[i] = vs[j] => i = j}

\* all assignments of the listed validators to committees
MCDuties ==
    {[slot |-> s, vals |-> vs, comm |-> cs, pos |-> [i \in DOMAIN vs |-> PosTab(s, vs[i])],
      sizes |-> [i \in 1..Cardinality(MCComms) |-> <<i - 1, SizeTab(s, i - 1)>>]]
        : s \in MCSlots, vs \in MCValSeqs, cs \in UNION {[1..n -> MCComms] : n \in 1..MCMaxLen}}

Duties == {d \in MCDuties : /\ Len(d.comm) = Len(d.vals)
                             /\ (MCAllComms \/ (\A i \in DOMAIN d.vals : d.comm[i] = d.vals[i] % Cardinality(MCComms)))}

Alive == {r \in RunIds : run[r].pc \notin {"idle", "done"}}

Next == NextWith(Duties, MCLean)
MCInit ==
    /\ attested \in (IF MCPre THEN SUBSET {<<Epoch(s), v>> : s \in MCSlots, v \in MCVals} ELSE {{}})
    /\ run = [r \in RunIds |-> IdleRun]
    /\ signReq = {}
    /\ submitted = {}
    /\ horizon = 0
Spec == MCInit /\ [][Next]_vars

\* bound on concurrency (state constraint)
AliveBound == Cardinality(Alive) <= MCMaxAlive

TypeOK ==
    /\ \A p \in attested : p[1] \in {Epoch(s) : s \in MCSlots}
    /\ \A r \in RunIds : run[r].pc \in {"idle", "mark", "fetch", "validate", "accounts", "sign", "signing", "build", "submit", "submitting", "ret", "done"}
=============================================================================
