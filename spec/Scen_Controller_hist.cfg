SPECIFICATION SSpec
CONSTANTS
  MaxSlot = 5
  MaxVer = 2
  MaxReorgs = 2
  MaxCrashes = 0
  Gates = {}
  Interleave = FALSE
  Cfgs <- CfgsHist
  OraclesFor <- SeedOracles
  MaxAccts = 2
  AnswersFor <- AnswersSome
  Deviation = {}
  ScenLen = 9
  Seeds = {1}
  StartSlots = {2, 4}
  MaxHeads = 3
  Stimuli = {"Start", "Reorg", "HeadEvent", "Accounts"}
  MaxHolds = 0
  Focus = FALSE
  Disjoint = TRUE
  Tight = TRUE
INVARIANTS EmitAfterEarly
CONSTRAINT HistBound
CHECK_DEADLOCK FALSE
