---------------------------- MODULE Scen_Auction ----------------------------
(* Scenario generator: behaviours of Auction (environment actions recorded in a history         *)
(* variable) until every auctioned key has been served; printed as JSON and replayed on the     *)
(* real strategies / block relay service by the Go driver.  The driver only uses the            *)
(* environment's part of a behaviour (relay configurations, each relay's answers with the       *)
(* clock phase in which they are delivered, the keys auctioned and served).                     *)
EXTENDS Auction, Json

CONSTANTS TickWeight      \* the simulator picks uniformly among successor states: weight of a clock tick
VARIABLES hist, servedKeys
svars == <<vars, hist, servedKeys>>

C(m, k, g) == [min |-> m, key |-> k, grace |-> g]
ScenCfgSet == [Relays -> {C(m, k, g) : m \in {0, 2}, k \in {"none", "config", "provider"}, g \in {0, 1}}]

\* bias: every clean bid; each single eligibility defect on a bid that would win if wrongly accepted
TopVal == CHOOSE v \in Values : \A w \in Values : w <= v
CleanBids == {a \in Bids : a.val # 0 /\ ~a.feeZero /\ a.tsOk /\ a.sig = "valid"}
Clean(v, b, h) == [kind |-> "bid", val |-> v, bld |-> b, hdr |-> h, feeZero |-> FALSE, tsOk |-> TRUE, sig |-> "valid"]
DefectBids ==
    UNION { { [Clean(TopVal, b, h) EXCEPT !.feeZero = TRUE],
              [Clean(TopVal, b, h) EXCEPT !.tsOk = FALSE],
              [Clean(TopVal, b, h) EXCEPT !.sig = "invalid"],
              [Clean(TopVal, b, h) EXCEPT !.sig = "unverifiable"] } : b \in {"std", "plus"} \cap BuilderSet, h \in Headers }
    \cup { Clean(0, "std", 1), [Clean(TopVal, "plus", 2) EXCEPT !.sig = "invalid", !.feeZero = TRUE] }
ScenAnswers == CleanBids \cup DefectBids \cup {NoBidAnswer, ErrorAnswer}

CfgSeq == [r \in Relays |-> cfg[r]]
\* the builder catalogue the driver configures the block relay service with
BuilderTable == [b \in BuilderSet |-> [hasOff |-> BOff(b) # None, off |-> IF BOff(b) = None THEN 0 ELSE BOff(b),
                                       hasFac |-> BFac(b) # None, fac |-> IF BFac(b) = None THEN 0 ELSE BFac(b)]]

SInit ==
    /\ Init
    /\ servedKeys = {}
    /\ hist = <<[ev |-> "Reset", variant |-> variant, key |-> key, cfg |-> CfgSeq, builders |-> BuilderTable]>>

H(e) == hist' = Append(hist, e)

Done == returned /\ \A k \in Keys : cache[k] # Unset => k \in servedKeys

SNext ==
    /\ ~Done
    /\ \/ \E r \in Relays, a \in AnswerSet :
            Deliver(r, a) /\ H([ev |-> "Deliver", r |-> r, n |-> rounds[r] + 1, a |-> a, ph |-> clock])
                          /\ UNCHANGED servedKeys
       \/ \E e \in chan : Consume(e) /\ UNCHANGED <<hist, servedKeys>>
       \/ \E w \in 1..TickWeight : Tick /\ H([ev |-> "Tick", w |-> w]) /\ UNCHANGED servedKeys
       \/ Return /\ H([ev |-> "Return"]) /\ UNCHANGED servedKeys
       \/ \E k \in Keys : NewAuction(k) /\ H([ev |-> "Auction", key |-> k]) /\ UNCHANGED servedKeys
       \/ \E k \in Keys \ servedKeys : Serve(k) /\ H([ev |-> "Serve", key |-> k]) /\ servedKeys' = servedKeys \cup {k}

SSpec == SInit /\ [][SNext]_svars

Emit == Done => PrintT(ToJson(hist))
=============================================================================
