---------------------------- MODULE Scen_Auction ----------------------------
(* Scenario generator: one scenario = one HISTORY of Auction (the life of one strategy service  *)
(* and one block relay service): MaxAuctions auctions on the same relay addresses, every one    *)
(* with its own relay configurations (any minimum values; the configured public key and the      *)
(* grace period as in the previous auction or changed for one relay: what another proposer or   *)
(* a refresh of the execution configuration does), its own builder catalogue and bids;       *)
(* sequential (mode "seq") or with up to MaxOpen auctions in progress at once (mode "ovl");     *)
(* every auctioned key is served at the end, some also while other auctions are in progress.    *)
(* Printed as JSON and replayed on ONE real strategy / block relay service by the Go driver,    *)
(* which only uses the environment's part of a behaviour (configurations, each relay's answers  *)
(* with the clock phase in which they are delivered, the order of starts, returns and serves).  *)
EXTENDS Auction, Json

CONSTANTS TickWeight, DeliverWeight, StartWeight,   \* weights of a clock tick / a relay's answer / the start of an auction
          Family   \* "fake": relay clients are in-process fakes registered in the client cache, the builder catalogue varies per
                   \* auction; "wired": real util.FetchBuilderClient + HTTP relay clients against relay servers, real execution
                   \* configuration (V2), the block relay service hands its own (one) builder catalogue to the strategy
VARIABLES hist, servedKeys, mode, lastcfg, want, ftab,  \* ftab: the catalogue of the first auction ("" before it)
          cfgv   \* which implementation of the execution configuration produces the relay configurations (1 | 2)
svars == <<vars, hist, servedKeys, mode, lastcfg, want, ftab, cfgv>>

C(m, k, g, sp) == [min |-> m, key |-> k, grace |-> g, sp |-> sp]
ScenCfgSet == [Relays -> {C(m, k, g, sp) : m \in {0, 2}, k \in {"none", "config"}, g \in {0, 1}, sp \in Spellings}]
ScenFetchSet == Relays \X Spellings
K(s, p, v) == [s |-> s, p |-> p, v |-> v]
\* (slot, parent, pubkey): two validators of one slot, two parents of one slot, the next slot
ScenKeys == {K(1, 1, 1), K(1, 1, 2), K(1, 2, 1), K(2, 1, 1)}

\* the relay configurations of the next auction: any minimum values, the public key added to / removed
\* from / changed in at most one relay's configuration, the grace period of at most one relay changed, at most one
\* relay under another spelling of its address (another key, or none, in the user-information part)
NextCfgs(c) ==
    { [r \in Relays |-> [min |-> m[r],
                         key |-> IF r = kr THEN nk ELSE c[r].key,
                         grace |-> IF r = gr THEN 1 - c[r].grace ELSE c[r].grace,
                         sp |-> IF r = sr THEN ns ELSE c[r].sp]] :
        m \in [Relays -> {0, 2}], kr \in Relays \cup {0}, nk \in {"none", "config", "config2"}, gr \in Relays \cup {0},
        sr \in Relays \cup {0}, ns \in Spellings }

\* The execution configuration has two implementations (services/blockrelay/v1, v2; the document's version decides).
\* Version 1 can only say which relay addresses a proposer uses (and one grace period): no minimum value, no public
\* key - the key known for a relay is the one spelled in its address.
V1Able(c) == \A r \in Relays : c[r].min = 0 /\ c[r].key = "none" /\ c[r].grace = c[CHOOSE q \in Relays : TRUE].grace
CfgsOf(v, S) == IF v = 1 THEN {c \in S : V1Able(c)} ELSE S

\* bias: every clean bid; each single eligibility defect on a bid that would win if wrongly accepted
TopVal == CHOOSE v \in Values : \A w \in Values : w <= v
CleanBids == {a \in Bids : a.val # 0 /\ ~a.feeZero /\ a.tsOk /\ a.sig = "valid"}
Clean(v, b, h) == [kind |-> "bid", val |-> v, bld |-> b, hdr |-> h, feeZero |-> FALSE, tsOk |-> TRUE, sig |-> "valid"]
DefectBids ==
    UNION { { [Clean(TopVal, b, h) EXCEPT !.feeZero = TRUE],
              [Clean(TopVal, b, h) EXCEPT !.tsOk = FALSE],
              [Clean(TopVal, b, h) EXCEPT !.sig = "invalid"],
              [Clean(TopVal, b, h) EXCEPT !.sig = "unverifiable"] } : b \in {"std", "plus"} \cap BuilderSet, h \in Headers }
    \cup { Clean(0, "std", 1), [Clean(TopVal, "plus", 2) EXCEPT !.sig = "invalid", !.feeZero = TRUE] }
ScenAnswers == CleanBids \cup DefectBids \cup {NoBidAnswer, ErrorAnswer}
\* wired family: as many bids signed with the relay's other key (the valid ones of a validator whose configuration
\* names K2 for the relay) as bids signed with K1
WiredAnswers == CleanBids \cup {[a EXCEPT !.sig = "invalid"] : a \in CleanBids} \cup DefectBids \cup {NoBidAnswer, ErrorAnswer}

Seq3(f) == [r \in Relays |-> f[r]]
\* the builder catalogue the driver hands to the strategy for this auction
BuilderTable(t) == [b \in BuilderSet |-> [hasOff |-> BOff(t, b) # None, off |-> IF BOff(t, b) = None THEN 0 ELSE BOff(t, b),
                                          hasFac |-> BFac(t, b) # None, fac |-> IF BFac(t, b) = None THEN 0 ELSE BFac(t, b)]]

SInit ==
    /\ Init
    /\ servedKeys = {}
    /\ mode \in {"seq", "ovl"}
    /\ cfgv \in IF Family = "wired" THEN {1, 2} ELSE {2}
    /\ lastcfg \in CfgsOf(cfgv, ScenCfgSet)
    /\ want \in 2..MaxAuctions
    /\ ftab = ""
    /\ hist = <<[ev |-> "Reset", variant |-> variant, family |-> Family, mode |-> mode, cfgv |-> cfgv]>>

H(e) == hist' = Append(hist, e)

Started == {i \in Auc : st[i] # "idle"}
Finished == Open = {} /\ Cardinality(Started) >= want /\ \A k \in Keys : cache[k] # Unset => k \in servedKeys

\* TLC's simulator computes every successor state of a step and picks one uniformly: the big choices (the
\* answer of a relay, the configurations of the next auction) are drawn with RandomElement (which follows
\* -seed; bound with \E x \in {RandomElement(S)} so that every use sees the same draw) instead of being
\* enumerated, and the weights of the environment's moves are explicit (w is part of the recorded step so
\* that the copies are distinct states)
NextIdle == CHOOSE i \in Auc : st[i] = "idle" /\ \A j \in Auc : j < i => st[j] # "idle"
FreeKeys == {k \in Keys : cache[k] = Unset /\ \A j \in Open : key[j] # k}

SNext ==
    /\ ~Finished
    /\ \/ /\ Cardinality(Started) < want
          /\ mode = "seq" => Open = {}
          /\ FreeKeys # {}
          /\ \E w \in 1..StartWeight, k \in {RandomElement(FreeKeys)}, c \in {RandomElement(CfgsOf(cfgv, NextCfgs(lastcfg)))},
                t \in {IF Family = "wired" /\ ftab # "" THEN ftab ELSE RandomElement(TableSet)} :
               LET i == NextIdle
               IN /\ Start(i, k, c, t)
                  /\ H([ev |-> "Auction", i |-> i, key |-> k, cfg |-> Seq3(c), tab |-> t, builders |-> BuilderTable(t), w |-> w])
                  /\ lastcfg' = c
                  /\ ftab' = IF ftab = "" THEN t ELSE ftab
          /\ UNCHANGED <<servedKeys, mode, want, cfgv>>
       \/ \E i \in Open, r \in Relays, w \in 1..DeliverWeight : \E a \in {RandomElement(AnswerSet)} :
            Deliver(i, r, a) /\ H([ev |-> "Deliver", i |-> i, r |-> r, n |-> rounds[i][r] + 1, a |-> a, ph |-> clock[i], w |-> w])
                             /\ UNCHANGED <<servedKeys, mode, lastcfg, want, ftab, cfgv>>
       \/ \E a \in {RandomElement(FetchSet)} : \E via \in {RandomElement({"registrations", "other"})} :
            Fetch(a[1], a[2]) /\ H([ev |-> "Fetch", r |-> a[1], sp |-> a[2], via |-> via]) /\ UNCHANGED <<servedKeys, mode, lastcfg, want, ftab, cfgv>>
       \/ \E i \in Open : \E e \in chan[i] : Consume(i, e) /\ UNCHANGED <<hist, servedKeys, mode, lastcfg, want, ftab, cfgv>>
       \/ \E i \in Open, w \in 1..TickWeight : Tick(i) /\ H([ev |-> "Tick", i |-> i, w |-> w]) /\ UNCHANGED <<servedKeys, mode, lastcfg, want, ftab, cfgv>>
       \/ \E i \in Open : Return(i) /\ H([ev |-> "Return", i |-> i]) /\ UNCHANGED <<servedKeys, mode, lastcfg, want, ftab, cfgv>>
       \/ \E k \in Keys \ servedKeys : Serve(k) /\ H([ev |-> "Serve", key |-> k]) /\ servedKeys' = servedKeys \cup {k}
                                                /\ UNCHANGED <<mode, lastcfg, want, ftab, cfgv>>

SSpec == SInit /\ [][SNext]_svars

Emit == Finished => PrintT(ToJson(hist))
=============================================================================
