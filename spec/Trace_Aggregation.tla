------------------------- MODULE Trace_Aggregation -------------------------
(* Trace specification for the aggregation pipelines: a trace recorded from the real            *)
(* attestationaggregator/standard.Service (A) or synccommitteeaggregator/standard.Service (B)   *)
(* is a behaviour of Aggregation.  Every line but the stimuli (AStart, BSetRoot, BNewHead,      *)
(* BStart) and the returns (ADone, BDone) is written by a fake at the moment the real code      *)
(* calls it, with the arguments it was handed (decoded: roots, aggregates, contributions,       *)
(* selection proofs and signatures are self-describing) and the answer it gave.                 *)
(*   ASign     over = the aggregate-and-proof whose hash tree root the signer was handed        *)
(*   A/BSubmit payload = the messages handed to the submitter, each with its decoded signature  *)
(*   BSetRoot, BDone  rem = the service's beaconBlockRoots map after the call                   *)
(* A line no action explains (a call with other arguments, a submission that is not the signed  *)
(* message, a return without submission although nothing failed, a "Crash") rejects the trace.  *)
EXTENDS Aggregation, TraceLib

VARIABLE l
tvars == <<vars, l>>

TraceInit ==
    /\ l = 1
    /\ aPhase = "idle" /\ aJobs = 0 /\ aDuty = NoADuty /\ aGot = NoAgg /\ aAcct = 0 /\ aAns = AZeroSig
    /\ aSigned = FALSE /\ aFail = {} /\ aSub = {}
    /\ bPhase = "idle" /\ bJobs = 0 /\ bSets = 0 /\ bRem = EmptyRem /\ bHead = 0 /\ bDuty = NoBDuty
    /\ bBefore = EmptyRem /\ bHeadGot = {} /\ bFetched = {} /\ bSigned = {} /\ bFail = FALSE /\ bSub = {}
    /\ InitHWM

IsEvent(e) == l <= TraceLen /\ Trace[l].ev = e /\ l' = l + 1

TraceReset ==
    /\ IsEvent("Reset")
    /\ aPhase' = "idle" /\ aJobs' = 0 /\ aDuty' = NoADuty /\ aGot' = NoAgg /\ aAcct' = 0 /\ aAns' = AZeroSig
    /\ aSigned' = FALSE /\ aFail' = {} /\ aSub' = {}
    /\ bPhase' = "idle" /\ bJobs' = 0 /\ bSets' = 0 /\ bRem' = EmptyRem /\ bHead' = Trace[l].head /\ bDuty' = NoBDuty
    /\ bBefore' = EmptyRem /\ bHeadGot' = {} /\ bFetched' = {} /\ bSigned' = {} /\ bFail' = FALSE /\ bSub' = {}

NoDup(seq) == Len(seq) = Cardinality(SeqToSet(seq))

\* ---- pipeline A
TraceAStart == IsEvent("AStart") /\ AStart(Trace[l].duty)
TraceAFetch == IsEvent("AFetch") /\ AFetch(Trace[l].slot, Trace[l].root, Trace[l].res)
TraceAAccounts == IsEvent("AAccounts") /\ NoDup(Trace[l].vs) /\ AAccounts(Trace[l].epoch, SeqToSet(Trace[l].vs), Trace[l].res)
TraceASign == IsEvent("ASign") /\ ASign(Trace[l].acct, Trace[l].slot, Trace[l].over, Trace[l].res)
TraceASubmit == IsEvent("ASubmit") /\ NoDup(Trace[l].payload) /\ ASubmit(SeqToSet(Trace[l].payload), Trace[l].ok)
TraceADone == IsEvent("ADone") /\ ADone

\* ---- pipeline B
LoggedRem(seq) == LET S == SeqToSet(seq) IN [s \in {x.slot : x \in S} |-> (CHOOSE x \in S : x.slot = s).root]
LoggedSlots(seq) == {x.slot : x \in SeqToSet(seq)}

TraceBSetRoot ==
    /\ IsEvent("BSetRoot")
    /\ LET t == Trace[l] IN
         /\ NoDup(t.rem)
         /\ BSetRoot(t.slot, t.root, (DOMAIN bRem \cup {t.slot}) \ LoggedSlots(t.rem))
         /\ bRem' = LoggedRem(t.rem)

TraceBNewHead ==
    /\ IsEvent("BNewHead")
    /\ bPhase # "run"
    /\ bHead' = Trace[l].root
    /\ UNCHANGED <<bPhase, bJobs, bSets, bRem, bDuty, bBefore, bHeadGot, bFetched, bSigned, bFail, bSub, AVars>>

TraceBStart ==
    /\ IsEvent("BStart")
    /\ LET d == Trace[l].duty IN
         /\ NoDup(d.sel) /\ NoDup(d.noacct)
         /\ BStart([slot |-> d.slot, sel |-> SeqToSet(d.sel), noacct |-> SeqToSet(d.noacct)])

TraceBHeadRoot == IsEvent("BHeadRoot") /\ BHeadRoot(Trace[l].block, Trace[l].res)
TraceBFetch == IsEvent("BFetch") /\ BFetch(Trace[l].slot, Trace[l].sub, Trace[l].root, Trace[l].res)

\* reqs: the signer's request position by position: account (0: none at that position), message, the answer given
TraceBSign ==
    /\ IsEvent("BSign")
    /\ LET t == Trace[l]
           Q == SeqToSet(t.reqs) IN
         /\ NoDup(t.reqs)
         /\ ~t.err => \A q \in Q : ~q.sig.z => q.sig = BSig(q.acct, q.msg)
         /\ BSign({[acct |-> q.acct, msg |-> q.msg] : q \in Q},
                  [err |-> t.err, zero |-> IF t.err THEN {} ELSE {PairOf(q.msg) : q \in {x \in Q : x.sig.z}}])

TraceBSubmit ==
    /\ IsEvent("BSubmit")
    /\ NoDup(Trace[l].payload)
    /\ BSubmit({[msg |-> e.msg, sig |-> e.sig] : e \in SeqToSet(Trace[l].payload)}, Trace[l].ok)

TraceBDone ==
    /\ IsEvent("BDone")
    /\ LET t == Trace[l] IN
         /\ NoDup(t.rem)
         /\ BDone(DOMAIN bRem \ ({bDuty.slot} \cup LoggedSlots(t.rem)))
         /\ bRem' = LoggedRem(t.rem)

TraceNext == TraceReset
             \/ TraceAStart \/ TraceAFetch \/ TraceAAccounts \/ TraceASign \/ TraceASubmit \/ TraceADone
             \/ TraceBSetRoot \/ TraceBNewHead \/ TraceBStart \/ TraceBHeadRoot \/ TraceBFetch \/ TraceBSign
             \/ TraceBSubmit \/ TraceBDone

TraceSpec == TraceInit /\ [][TraceNext]_tvars

HWM == UpdateHWM(l)
TraceAccepted == TraceAcceptedUpTo
=============================================================================
