SPECIFICATION SSpec
CONSTANTS
  P = 4
  EP = 2
  G = 2
  MaxSlot = 67
  StartSlots = {0}
  Mode = "design"
  RecMax = 100
  RecKeep = 32
  RootKeep = 4
  BidKeep = 32
  KRoots = 8
  KBids = 64
  Menu = {{}, {0, 3}, {0, 2, 3}, {1, 2, 3}, {0, 1, 2, 3}}
  Moods = {"quiet", "plain", "reorg", "reorg", "reorg"}
  MaxReorgs = 3
  Focus = TRUE
  Fams = {"all"}
INVARIANTS Emit AttestedBounded SubsBounded RootsBounded RecordsBounded JobsBounded PendingExact
CHECK_DEADLOCK FALSE
