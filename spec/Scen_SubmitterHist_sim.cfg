SPECIFICATION Spec
CONSTANTS
  Mode = "sim"
  HKinds = {"att", "agg", "proposal", "syncmsg", "contrib", "bcsub", "scsub", "prep"}
  HConcSet = {1, 2, 3, 4}
  HItemSet = {1, 2, 5, 9}
  HClients = {"lighthouse", "teku", "nimbus", "prysm", "unknown"}
  HNodeCounts = {2, 3}
  HLens = {2, 3, 4}
  HOutcomes = {"accept", "reject", "treject", "malformed", "slowok", "late", "hang", "heldok", "heldrej", "heldtrej"}
INVARIANTS Emit
CHECK_DEADLOCK FALSE
