SPECIFICATION Spec
CONSTANTS
  Mode = "sim"
  HKinds = {"att", "agg", "proposal", "syncmsg", "contrib", "bcsub", "scsub", "prep"}
  HConcSet = {1, 2, 3, 4}
  HItemSet = {1, 2, 5, 9}
  HClients = {"lighthouse", "teku", "nimbus", "prysm", "unknown"}
  HNodeCounts = {2, 3}
  HLens = {2, 3, 4}
  HOutcomes = {"accept", "reject", "treject", "malformed", "slowok", "late", "hang", "heldok", "heldrej", "heldtrej", "slowok1", "slowok3", "slowrej1", "slowrej2", "slowtrej1"}
  HConfSets = {{1}, {2}, {1, 2}, {2, 3}, {1, 3}, {1, 2, 3}}
  HVecOuts = {}
INVARIANTS Emit
CHECK_DEADLOCK FALSE
