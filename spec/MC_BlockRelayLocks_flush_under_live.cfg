SPECIFICATION LSpec
CONSTANTS
  Ops = {1, 2}
  MaxInFlight = 2
  Kinds = {"fetch", "bbid"}
  Keys = {1}
  Install = "flush_under"
  BidImpl = "asis"
INVARIANTS TypeOKL
PROPERTY NoWedge
CHECK_DEADLOCK FALSE
