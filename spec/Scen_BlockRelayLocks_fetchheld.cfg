SPECIFICATION SSpec
CONSTANTS
  Ops = {1, 2, 3, 4, 5}
  MaxInFlight = 3
  Kinds = {"fetch", "lookup", "auction", "bbid", "register", "vreg"}
  Keys = {1, 2}
  Install = "plain"
  BidImpl = "asis"
  Family = "fetchheld"
  DocIds = {1, 2, 3}
  InitDocs = {1, 2}
INVARIANTS Emit NoDeadlock ReturnsClean LockBalanced LockAccounting
CHECK_DEADLOCK FALSE
