SPECIFICATION Spec
CONSTANTS
  Pipelines = {"A"}
  SlotsPerEpoch = 4
  ASlots = {6, 9}
  ADataRoots = {1}
  AValidators = {1, 2}
  AProofs = {1}
  AAggIds = {1, 2}
  AMaxJobs = 2
  BSlots = {1}
  BRoots = {1}
  BValidators = {1}
  BSubs = {0}
  BContribIds = {1}
  BMaxSel = 1
  BMaxJobs = 0
  BMaxSets = 0
INVARIANTS TypeOK ANamesDutyValidator ACarriesObtainedAggregate ASelectionProofIsSlotSignature ASignedByAccountOverMessage ANothingWithoutAggregate AOncePerJob AEveryAggregatorAggregates
CHECK_DEADLOCK FALSE
