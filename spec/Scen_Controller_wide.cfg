SPECIFICATION SSpec
CONSTANTS
  MaxSlot = 26
  MaxVer = 2
  MaxReorgs = 4
  MaxCrashes = 2
  Gates = {}
  Interleave = FALSE
  Cfgs <- CfgsWide
  OraclesFor <- SeedOracles
  ScenLen = 46
  Seeds = {1, 2, 3, 4, 5, 6, 7, 8, 9, 10, 11, 12, 13, 14, 15, 16, 17, 18, 19, 20, 21, 22, 23, 24, 25, 26, 27, 28, 29, 30}
  StartSlots = {0, 1, 2, 3, 4, 5, 6, 7, 8, 9, 10, 11, 12, 13}
  MaxHeads = 2
  Stimuli = {"Start", "Crash", "Advance", "EpochTick", "Reorg", "HeadEvent", "Fire", "Hold", "Unhold", "Release"}
  MaxHolds = 99
  Focus = FALSE
  Disjoint = FALSE
INVARIANTS Emit
CHECK_DEADLOCK FALSE
