SPECIFICATION Spec
CONSTANTS
  KindSet = {"att", "agg"}
  ConcSet = {3}
  ItemSet = {1}
  NodeCounts = {4}
  DefaultConc = 16
  MaxCalls = 1
  HistClients = {}
  HistOutcomes = {}
  Design = "wrongcount"
  MaxLat = 2
  CanonOuts = {"accept", "reject", "slowrej1", "slowok2", "hang"}
  ConfSets = {{1, 2, 3}, {2, 3, 4}}
  OtherSets = {{2, 3, 4}, {1, 2, 3, 4}}
  RefKind = "att"
INVARIANTS TypeOK FlagSound TimeoutSignalHeard OfferedInFull SuccessIff ReturnsByTimeout Independence DeliveredToEach ClassifiedByNow
CHECK_DEADLOCK FALSE
