----------------------------- MODULE Trace_Signer -----------------------------
(* Trace specification for C06: a trace recorded from the real signer/standard.Service is a       *)
(* behaviour of Signer.  One service instance serves a whole history; every line after Reset      *)
(* carries the id of the request it belongs to (`rid`, requests numbered in call order), and the  *)
(* lines of overlapping requests interleave as they happened.                                     *)
(*   Reset      a new service instance and a new chain (fork: the epoch at which it forks)        *)
(*   Call       the request (operation, slot / epoch, account kinds in request order, failure mode)*)
(*   DomainReq  logged by the fake DomainProvider when a call arrives: type name, genesis?, epoch *)
(*   DomainResp logged by the fake DomainProvider when it lets the call return (the driver holds  *)
(*              it back as long as the schedule says): error?, the domain value returned          *)
(*              DomainReq / DomainResp are OBSERVATIONS, not obligations: a request for which     *)
(*              none is logged obtained its domain from memory, which is legal if transparent -   *)
(*              the silent step Recall; what decides is what was signed (Sign, Return).  A call   *)
(*              the provider cannot attribute to a request (rid 0) is noted and changes nothing.  *)
(*   Sign       logged by an account wrapper at every signer call: the request positions of the   *)
(*              accounts it was handed (in the order handed), per position whether the data handed*)
(*              for it is the message of THAT position (root / duty fields merkleised by the      *)
(*              wrapper; for a plain AccountSigner: the finished signing root, built with the     *)
(*              domain of the request's own type and epoch), and - where the domain is handed     *)
(*              over separately - which domain value it is                                        *)
(*   Return     ok?, and per position: does the signature verify (BLS, in Go) under the key the   *)
(*              specification names for that position, against SigningRoot(hash_tree_root(        *)
(*              container filled by the driver), chain's domain for DomainReq of THIS request);   *)
(*              is it the zero signature                                                          *)
EXTENDS Signer, TraceLib

VARIABLE l
tvars == <<vars, l>>

TraceInit ==
    /\ l = 1
    /\ Init
    /\ InitHWM

IsEvent(e) == l <= TraceLen /\ Trace[l].ev = e /\ l' = l + 1

TraceReset ==
    /\ IsEvent("Reset")
    /\ fork' = Trace[l].fork
    /\ pc' = [r \in Rids |-> "idle"]
    /\ req' = [r \in Rids |-> NoCall]
    /\ domreqs' = [r \in Rids |-> <<>>]
    /\ dom' = [r \in Rids |-> NoDomain]
    /\ signed' = [r \in Rids |-> EmptyFn]
    /\ result' = [r \in Rids |-> <<>>]

TraceCall ==
    /\ IsEvent("Call")
    /\ LET t == Trace[l] IN
         /\ t.rid \in Rids
         /\ Call(t.rid, [op |-> t.op, slot |-> t.slot, epoch |-> t.epoch, kinds |-> t.kinds,
                         fail |-> t.fail, failidx |-> t.failidx])

\* the request the real code made is the request of the table
LoggedDomain(t) == [type |-> t.type, genesis |-> t.genesis, epoch |-> t.epoch]
LoggedValue(d) == [type |-> d.type, ver |-> d.ver]

TraceDomainReq ==
    /\ IsEvent("DomainReq")
    /\ LET t == Trace[l] IN
         IF t.rid = 0 THEN UNCHANGED vars
         ELSE /\ t.rid \in Rids
              /\ (FetchDomain(t.rid) \/ RefetchDomain(t.rid))
              /\ LoggedDomain(t) = DomainReq(req[t.rid])

TraceDomainResp ==
    /\ IsEvent("DomainResp")
    /\ LET t == Trace[l] IN
         IF t.rid = 0 THEN UNCHANGED vars
         ELSE /\ t.rid \in Rids
              /\ DomainResp(t.rid)
              /\ t.err = (req[t.rid].fail = "domain")
              /\ (~t.err) => LoggedValue(t.dom) = dom'[t.rid]      \* the fake chain is the specification's chain

\* silent: the request whose line comes next never asked the provider (or was not seen asking) - it has
\* its domain from memory
TraceRecall ==
    /\ l <= TraceLen
    /\ Trace[l].ev \in {"Sign", "Return"}
    /\ Trace[l].rid \in Rids
    /\ Recall(Trace[l].rid)
    /\ l' = l

\* a signer call: for every position handed over, the data is that position's message and the
\* domain (where visible) is the domain of the request's own type and epoch
TraceSign ==
    /\ IsEvent("Sign")
    /\ LET t == Trace[l] IN
         /\ t.rid \in Rids
         /\ Len(t.dataok) = Len(t.idx)
         /\ \A j \in 1..Len(t.idx) : t.dataok[j]
         /\ t.hasdom => LoggedValue(t.dom) = dom[t.rid]
         /\ IF t.err THEN SignerFails(t.rid) ELSE SignSome(t.rid, t.idx)

TraceReturn ==
    /\ IsEvent("Return")
    /\ LET t == Trace[l]
           r == t.rid
       IN /\ r \in Rids
          /\ IF t.ok
             THEN /\ Return(r)
                  /\ t.n = Len(req[r].kinds)
                  /\ \A i \in 1..t.n :
                        IF result'[r][i] = Absent
                        THEN t.zero[i]                          \* withheld by the signer: reported as "none"
                        ELSE t.verifies[i] /\ ~t.zero[i]        \* verifies for (key i, message i, own domain)
             ELSE ReturnErr(r)

TraceNext == TraceReset \/ TraceCall \/ TraceDomainReq \/ TraceDomainResp \/ TraceRecall \/ TraceSign \/ TraceReturn

TraceSpec == TraceInit /\ [][TraceNext]_tvars

HWM == UpdateHWM(l)
TraceAccepted == TraceAcceptedUpTo
=============================================================================
