----------------------------- MODULE Trace_Signer -----------------------------
(* Trace specification for C06: a trace recorded from the real signer/standard.Service is a       *)
(* behaviour of Signer.  One service instance serves a whole history; every line after Reset      *)
(* carries the id of the request it belongs to (`rid`, requests numbered in call order), and the  *)
(* lines of overlapping requests interleave as they happened.                                     *)
(*   Reset      a new service instance and a new chain (fork: the epoch at which it forks; boot:  *)
(*              the start-up input the driver's spec provider presents to New(): per key listed / *)
(*              absent / listed with another Go type, the failed lookup, the chain's slots per    *)
(*              epoch)                                                                            *)
(*   Start      New() returned: did the service come up                                           *)
(*   Call       the request (operation, slot / epoch, account kinds in request order, failure mode)*)
(*   DomainReq  logged by the fake DomainProvider when a call arrives: type name, genesis?, epoch *)
(*   DomainResp logged by the fake DomainProvider when it lets the call return (the driver holds  *)
(*              it back as long as the schedule says): error?, the domain value returned          *)
(*              DomainReq / DomainResp are OBSERVATIONS, not obligations: a request for which     *)
(*              none is logged obtained its domain from memory, which is legal if transparent -   *)
(*              the silent step Recall; what decides is what was signed (Sign, Return).  A call   *)
(*              the provider cannot attribute to a request (rid 0) is noted and changes nothing.  *)
(*   Sign       logged by an account wrapper when a signer call ARRIVES (rid: the request whose   *)
(*              goroutine makes the call, from the context): per account handed, in the order     *)
(*              handed, the request it belongs to (`owners`) and its position there (`idx`),      *)
(*              whether the data handed for it is the message of THAT account's position (root /  *)
(*              duty fields merkleised by the wrapper; for a plain AccountSigner: the finished    *)
(*              signing root, built with the domain of the request's own type and epoch), and -   *)
(*              where the domain is handed over separately - which domain value it is             *)
(*   Signed     logged by the wrapper when the signer call RETURNS (the driver may have held it   *)
(*              back meanwhile, as it holds the provider's replies): the same fields, read again  *)
(*              from the arguments at that moment - a signer may look at what it was handed at    *)
(*              any time during the call - these are what it signed                               *)
(*   Stable     end of the history: is the reply the request returned still, byte for byte, what  *)
(*              it was when it was returned                                                       *)
(*   Crash, Hung  a request panicked / never returned: no action of the specification             *)
(*   Return     ok?, and per position: does the signature verify (BLS, in Go) under the key the   *)
(*              specification names for that position, against SigningRoot(hash_tree_root(        *)
(*              container filled by the driver), chain's domain for DomainReq of THIS request);   *)
(*              is it the zero signature                                                          *)
EXTENDS Signer, TraceLib

VARIABLE l
tvars == <<vars, l>>

TraceInit ==
    /\ l = 1
    /\ Init
    /\ InitHWM

IsEvent(e) == l <= TraceLen /\ Trace[l].ev = e /\ l' = l + 1

TraceReset ==
    /\ IsEvent("Reset")
    /\ fork' = Trace[l].fork
    /\ boot' = Trace[l].boot
    /\ svc' = "new"
    /\ pc' = [r \in Rids |-> "idle"]
    /\ req' = [r \in Rids |-> NoCall]
    /\ domreqs' = [r \in Rids |-> <<>>]
    /\ dom' = [r \in Rids |-> NoDomain]
    /\ insign' = [r \in Rids |-> NoSign]
    /\ signed' = [r \in Rids |-> EmptyFn]
    /\ result' = [r \in Rids |-> <<>>]

\* New() returned: a refusal to start needs a start-up input that is not complete
TraceStart ==
    /\ IsEvent("Start")
    /\ Start(Trace[l].ok)

TraceCall ==
    /\ IsEvent("Call")
    /\ LET t == Trace[l] IN
         /\ t.rid \in Rids
         /\ Call(t.rid, [op |-> t.op, slot |-> t.slot, epoch |-> t.epoch, kinds |-> t.kinds,
                         fail |-> t.fail, failidx |-> t.failidx])

\* the request the real code made is the request of the table
LoggedDomain(t) == [type |-> t.type, genesis |-> t.genesis, epoch |-> t.epoch]
LoggedValue(d) == [type |-> d.type, ver |-> d.ver]

TraceDomainReq ==
    /\ IsEvent("DomainReq")
    /\ LET t == Trace[l] IN
         IF t.rid = 0 THEN UNCHANGED vars
         ELSE /\ t.rid \in Rids
              /\ (FetchDomain(t.rid) \/ RefetchDomain(t.rid))
              /\ LoggedDomain(t) = DomainReq(req[t.rid])

TraceDomainResp ==
    /\ IsEvent("DomainResp")
    /\ LET t == Trace[l] IN
         IF t.rid = 0 THEN UNCHANGED vars
         ELSE /\ t.rid \in Rids
              /\ DomainResp(t.rid)
              /\ t.err = (req[t.rid].fail = "domain")
              /\ (~t.err) => LoggedValue(t.dom) = dom'[t.rid]      \* the fake chain is the specification's chain

\* silent: the request whose line comes next never asked the provider (or was not seen asking) - it has
\* its domain from memory
TraceRecall ==
    /\ l <= TraceLen
    /\ Trace[l].ev \in {"Sign", "Return"}
    /\ Trace[l].rid \in Rids
    /\ Recall(Trace[l].rid)
    /\ l' = l

\* a signer call arrives: everything handed over is the calling request's own - its accounts, and for each
\* the message of that account's position - and the domain (where visible) is the domain of the request's
\* own type and epoch
LoggedItems(t) == [j \in 1..Len(t.idx) |-> Item(t.owners[j], t.idx[j])]

TraceSign ==
    /\ IsEvent("Sign")
    /\ LET t == Trace[l] IN
         /\ t.rid \in Rids
         /\ Len(t.dataok) = Len(t.idx)
         /\ Len(t.owners) = Len(t.idx)
         /\ \A j \in 1..Len(t.idx) : t.dataok[j] /\ t.owners[j] = t.rid          \* HandedOwn, as observed
         /\ t.hasdom => LoggedValue(t.dom) = dom[t.rid]
         /\ IF t.err THEN SignerFails(t.rid) ELSE SignStartWith(t.rid, LoggedItems(t), t.idx)

\* the signer call returns: what it signed is what it was handed when the call arrived
TraceSigned ==
    /\ IsEvent("Signed")
    /\ LET t == Trace[l] IN
         /\ t.rid \in Rids
         /\ Len(t.dataok) = Len(t.idx)
         /\ Len(t.owners) = Len(t.idx)
         /\ \A j \in 1..Len(t.idx) : t.dataok[j]
         /\ pc[t.rid] = "insign"
         /\ LoggedItems(t) = insign[t.rid].items
         /\ t.hasdom => LoggedValue(t.dom) = dom[t.rid]
         /\ SignEnd(t.rid)

\* the reply still is what was returned
TraceStable ==
    /\ IsEvent("Stable")
    /\ LET t == Trace[l] IN
         /\ t.rid \in Rids
         /\ pc[t.rid] \in {"done", "error"}
         /\ t.same
    /\ UNCHANGED vars

TraceReturn ==
    /\ IsEvent("Return")
    /\ LET t == Trace[l]
           r == t.rid
       IN /\ r \in Rids
          /\ IF t.ok
             THEN /\ Return(r)
                  /\ t.n = Len(req[r].kinds)
                  /\ \A i \in 1..t.n :
                        IF result'[r][i] = Absent
                        THEN t.zero[i]                          \* withheld by the signer: reported as "none"
                        ELSE t.verifies[i] /\ ~t.zero[i]        \* verifies for (key i, message i, own domain)
             ELSE ReturnErr(r) \/ Refuse(r)      \* an error: after a failure of the environment, or for cause

TraceNext == TraceReset \/ TraceStart \/ TraceCall \/ TraceDomainReq \/ TraceDomainResp \/ TraceRecall \/ TraceSign \/ TraceSigned
                \/ TraceReturn \/ TraceStable

TraceSpec == TraceInit /\ [][TraceNext]_tvars

\* ReplyStable of Signer.tla, a new service instance (Reset) excepted
TraceReplyStable ==
    [][(l <= TraceLen /\ Trace[l].ev = "Reset") \/
       \A r \in Rids : pc[r] \in {"done", "error"} => (pc'[r] = pc[r] /\ result'[r] = result[r])]_tvars

HWM == UpdateHWM(l)
TraceAccepted == TraceAcceptedUpTo
=============================================================================
