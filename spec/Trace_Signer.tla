----------------------------- MODULE Trace_Signer -----------------------------
(* Trace specification for C06: a trace recorded from the real signer/standard.Service is a       *)
(* behaviour of Signer.                                                                           *)
(*   Reset    a new service instance                                                              *)
(*   Call     the request (operation, slot / epoch, account kinds in request order, failure mode) *)
(*   Domain   logged by the fake DomainProvider at every request: type name, genesis?, epoch      *)
(*   Sign     logged by an account wrapper at every signer call: the request positions of the     *)
(*            accounts it was handed (in the order handed), per position whether the data handed  *)
(*            for it is the message of THAT position (root / duty fields merkleised by the        *)
(*            wrapper; for a plain AccountSigner: the finished signing root), and - where the     *)
(*            domain is handed over separately - which domain it is                               *)
(*   Return   ok?, and per position: does the signature verify (BLS, in Go) under the key the     *)
(*            specification names for that position, against SigningRoot(hash_tree_root(container *)
(*            filled by the driver), domain of DomainReq); is it the zero signature               *)
EXTENDS Signer, TraceLib

VARIABLE l
tvars == <<vars, l>>

TraceInit ==
    /\ l = 1
    /\ Init
    /\ InitHWM

IsEvent(e) == l <= TraceLen /\ Trace[l].ev = e /\ l' = l + 1

TraceReset ==
    /\ IsEvent("Reset")
    /\ pc' = "idle"
    /\ req' = NoCall
    /\ domreqs' = <<>>
    /\ signed' = EmptyFn
    /\ result' = <<>>

TraceCall ==
    /\ IsEvent("Call")
    /\ LET t == Trace[l] IN
         Call([op |-> t.op, slot |-> t.slot, epoch |-> t.epoch, kinds |-> t.kinds,
               fail |-> t.fail, failidx |-> t.failidx])

\* the request the real code made is the request of the table
LoggedDomain(t) == [type |-> t.type, genesis |-> t.genesis, epoch |-> t.epoch]

TraceDomain ==
    /\ IsEvent("Domain")
    /\ (FetchDomain \/ RefetchDomain)
    /\ LoggedDomain(Trace[l]) = DomainReq(req)
    /\ Trace[l].err = (req.fail = "domain")

\* a signer call: for every position handed over, the data is that position's message and the
\* domain (where visible) is the duty's domain
TraceSign ==
    /\ IsEvent("Sign")
    /\ LET t == Trace[l] IN
         /\ Len(t.dataok) = Len(t.idx)
         /\ \A j \in 1..Len(t.idx) : t.dataok[j]
         /\ t.hasdom => LoggedDomain(t.dom) = DomainReq(req)
         /\ IF t.err THEN SignerFails ELSE SignSome(t.idx)

TraceReturn ==
    /\ IsEvent("Return")
    /\ LET t == Trace[l] IN
         IF t.ok
         THEN /\ Return
              /\ t.n = Len(req.kinds)
              /\ \A i \in 1..t.n :
                    IF result'[i] = Absent
                    THEN t.zero[i]                          \* withheld by the signer: reported as "none"
                    ELSE t.verifies[i] /\ ~t.zero[i]        \* verifies for (key i, message i, duty domain)
         ELSE ReturnErr

TraceNext == TraceReset \/ TraceCall \/ TraceDomain \/ TraceSign \/ TraceReturn

TraceSpec == TraceInit /\ [][TraceNext]_tvars

HWM == UpdateHWM(l)
TraceAccepted == TraceAcceptedUpTo
=============================================================================
