------------------------ MODULE MC_SubmitterScatter ------------------------
(* The partition property of Scatter for all sizes up to the bounds, as its own tiny state      *)
(* space (one state per pair (items, concurrency)).                                             *)
EXTENDS SubmitterScatter

CONSTANTS MaxItems, MaxConc
VARIABLES xi, xc
ExtInit == xi = 1 /\ xc = 0
ExtNext == \/ xc < MaxConc /\ xc' = xc + 1 /\ xi' = xi
           \/ xc = MaxConc /\ xi < MaxItems /\ xc' = 0 /\ xi' = xi + 1
ExtSpec == ExtInit /\ [][ExtNext]_<<xi, xc>>
ExtentsPartition == ExtentsPartitionFor(xi, xc)
ExtentSizeSane == ExtentSize(xi, xc) \in 1..xi
=============================================================================
