SPECIFICATION Spec
CONSTANTS
  Accts = {"a1", "a2", "a3", "a4"}
  Deviation = "none"
INVARIANTS AtMostOnce OnlyCalled
CHECK_DEADLOCK FALSE
