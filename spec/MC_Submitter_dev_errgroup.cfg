SPECIFICATION Spec
CONSTANTS
  KindSet = {"prepdirect", "regnodes", "regrelays"}
  ConcSet = {1}
  ItemSet = {3}
  NodeCounts = {1, 2, 3}
  DefaultConc = 16
  MaxCalls = 1
  HistClients = {}
  HistOutcomes = {}
  Design = "errgroup"
  MaxLat = 2
  CanonOuts = {"accept", "reject", "inactive", "gaveup", "slowgaveup1", "slowok1", "slowok2", "slowrej1", "slowrej2", "late", "hang"}
  ConfSets = {}
  OtherSets = {}
  RefKind = "att"
INVARIANTS TypeOK FlagSound TimeoutSignalHeard OfferedInFull SuccessIff ReturnsByTimeout Independence ClassifiedByNow DeliveredToEach
CHECK_DEADLOCK FALSE
