SPECIFICATION WSpec
CONSTANTS
  RunIds = {1, 2}
  SlotsPerEpoch = 32
  Roots = {1, 2}
  Strict01 = TRUE
  Strict04 = TRUE
  ScenMode = "shape"
  WScenMode = "wshape"
  ScenLen = 40
  ScenVals = {1, 2}
  ScenMaxLen = 2
  ScenSlots = {66, 70}
  ScenComms = {0, 1}
  ScenPrepSlot = 66
  AMKinds = {"dirk", "wallet"}
  AMDeviant = {}
  AMDeviation = "none"
  AllVals = {1, 2, 3}
  FFE = 99
INVARIANTS WEmit NoDoubleSign SignedDataSound AssignmentExact SignOnlyClaimed ByIndexExact
CHECK_DEADLOCK FALSE
