SPECIFICATION Spec
CONSTANTS
  KindSet = {"att", "agg"}
  ConcSet = {2}
  ItemSet = {1}
  NodeCounts = {2}
  DefaultConc = 16
  MaxCalls = 2
  HistClients = {"lighthouse"}
  HistOutcomes = {"accept", "reject", "slowrej1", "slowok2", "hang"}
  Design = "allfailed"
  MaxLat = 2
  CanonOuts = {}
  ConfSets = {{1}, {2}, {1, 2}}
  OtherSets = {}
  RefKind = "att"
INVARIANTS TypeOK FlagSound TimeoutSignalHeard OfferedInFull SuccessIff ReturnsByTimeout Independence DeliveredToEach ClassifiedByNow
CHECK_DEADLOCK FALSE
