SPECIFICATION SpecC11
CONSTANTS
  Validators = {1, 2}
  Externals = {3}
  Relays = {1, 2}
  Nodes = {1, 2}
  DocIds = {2, 3}
  FailKinds = {"error"}
  Ops = {}
  MaxInFlight = 0
  AuctionImpl = "intended"
  Resolution = "locked"
  MaxRounds = 4
  ErrKinds <- ErrKindsOne
INVARIANTS TypeOKC11 RegistrationExact SignedOverContent ReuseOnlyIfUnchanged FailureIsolated PreparationExact PreparationIsolated ControlledDropped ForwardedUnchanged ForwardedAll F2ControlledDropped F2ForwardedUnchanged F2ForwardedAll KeepsLastGood
CONSTRAINT RoundBound
CONSTRAINT NoLane2
CONSTRAINT CoarseFanOut
CHECK_DEADLOCK FALSE
