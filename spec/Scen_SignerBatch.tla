-------------------------- MODULE Scen_SignerBatch --------------------------
(* Histories of SignerBatch printed as JSON: the kinds of the accounts, calls, and for every    *)
(* request of a call the reply the signer gives.  The driver hands the accounts of a call to    *)
(* the real signer service and scripts the replies in the order the requests arrive.            *)
EXTENDS SignerBatch, Sequences, Json, TLC

CONSTANT ScenLen
VARIABLE hist
svars == <<vars, hist>>

SInit == Init /\ hist = <<[ev |-> "Reset", kinds |-> [a \in Accts |-> kind[a]]]>>
H(e) == hist' = Append(hist, e)

\* (no RandomElement in a LET: TLC re-evaluates the definition at every occurrence)
SNext ==
    /\ Len(hist) <= ScenLen
    /\ \/ \E S \in SUBSET Accts \ {{}} : Call(S) /\ H([ev |-> "Call", accts |-> S])
       \/ \E G \in SUBSET call \ {{}}, ok \in BOOLEAN : AskBatch(G, ok) /\ H([ev |-> "AskBatch", accts |-> G, ok |-> ok])
       \/ \E a \in call, ok \in BOOLEAN : AskOne(a, ok) /\ H([ev |-> "AskOne", a |-> a, ok |-> ok])
       \/ \E err \in BOOLEAN : Return(err) /\ H([ev |-> "Return", err |-> err])

SSpec == SInit /\ [][SNext]_svars
Emit == (Len(hist) = ScenLen + 1) => PrintT(ToJson(hist))
=============================================================================
