SPECIFICATION SSpec
CONSTANTS
  SlotsPerEpoch = 2
  EpochsPerPeriod = 2
  Forks = {0}
  Nows = {4, 5}
  ScheduleEpochs = {2, 3}
  Members = {1, 2, 3}
  IndexSets = {{0}, {3}, {1, 5}, {2, 3, 7}}
  Sizes = {8}
  SubnetCounts = {4}
  Targets = {1, 2}
  Roots = {1, 2, 3}
  HVals = {0, 1}
  HMod = 840
  MaxSched = 1
  FaultKinds = {"sel", "root", "cp", "selerr", "rooterr", "cperr"}
  Deviation = "none"
  MaxFired = 2
  ScenLen = 10
  SetupLen = 3
INVARIANTS Emit TypeOK EverySlotOfWindow OnlySlotsOfWindow SignedOverObtainedRoot MembersIndependent AggregatorRuleExact
CHECK_DEADLOCK FALSE
