SPECIFICATION Spec
CONSTANTS
  PathRule = "parent"
  FocusSets = {{"attestationdata", "attestingnodes"}, {"aggregateattestation"}, {"beaconblockproposal"}, {"synccommitteecontribution"}, {"beaconblockroot"}, {"signedbeaconblock"}, {"beaconblockheader"}, {"builderbid"}, {"submitter"}, {"eth2client"}, {"multiclient"}, {"scheduler"}, {"graffiti"}, {"validatorsmanager"}, {"cache"}, {"beaconblockproposer"}, {"attester"}, {"attestationaggregator"}, {"beaconcommitteesubscriber"}, {"signedbeaconblock", "beaconblockheader"}}
  LatticeDuties = {"attestation", "proposal"}
  Nodes = {"n1", "n2"}
  MaxStarts = 2
INVARIANTS TypeOK MostSpecificUsed
CHECK_DEADLOCK FALSE
