SPECIFICATION FairSpec
CONSTANTS
  Callers = {"c1", "c2"}
  Cancellers = {"k1"}
  Periodic = TRUE
  DeleteByName = FALSE
  ClaimIgnoresCancel = FALSE
  PrefixCancellers = {}
  BlockingSend = TRUE
  DropOnClaim = FALSE
  MaxRuns = 3
INVARIANTS TypeOK NoOverlap NoPanic NameReusable NameSlotUnique SuccessorReachable LockFreeAtEnd
PROPERTIES KeepsTicking NoStuckCaller
CHECK_DEADLOCK FALSE
