SPECIFICATION Spec
CONSTANTS
  Names = {"a", "b"}
  Values = {"v1", "v2"}
  WithEmpty = TRUE
  MaxPathLen = 3
  ModelKinds = {"timeout"}
  ChainLen = 2
  Changes = {"set", "unset", "replace-any"}
INVARIANTS TypeOK DirectMatch LevelByLevel FromLongestPrefix OthersIrrelevant EmptyNeverUsed
PROPERTIES RepeatSame ChangeRespected CurrentTreeOnly
CHECK_DEADLOCK FALSE
