SPECIFICATION Spec
CONSTANTS
  PathRule = "neighbour"
  FocusSets = {{"signedbeaconblock", "beaconblockheader"}, {"attestationdata", "aggregateattestation"}}
  LatticeDuties = {"attestation", "proposal"}
  Nodes = {"n1", "n2"}
  MaxStarts = 2
INVARIANTS TypeOK MostSpecificUsed
CHECK_DEADLOCK FALSE
