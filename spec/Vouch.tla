------------------------------- MODULE Vouch -------------------------------
(* The attestation path of Vouch as a COMPOSITION of three subsystems that each have their own   *)
(* specification:                                                                                *)
(*                                                                                              *)
(*   controller  (Controller.tla, services/controller/standard)   epoch tick, prepare-for-epoch, *)
(*               scheduleAttestations (fetch duties, read the clock, note the slot as pending,   *)
(*               one ScheduleJob per slot), head events (reorg detection under reorgMutex,       *)
(*               fast track = JobExists + RunJobIfExists, refresh = JobExists("Prepare ..."),    *)
(*               CancelJob for every slot of the epoch, re-fetch, ScheduleJob UNDER THE SAME     *)
(*               NAMES, the current slot only if its job could be cancelled)                     *)
(*   scheduler   (Scheduler.tla, services/scheduler/advanced)   abstracted to what matters       *)
(*               ACROSS jobs: the table name |-> job instance, and per instance the states       *)
(*                 sched     in the table, its goroutine waits in the select                     *)
(*                 fired     the timer has expired: the goroutine is committed to the timer      *)
(*                           branch but has not yet taken its entry out of the table             *)
(*                 starting  timer branch: entry removed (only its OWN entry), about to run      *)
(*                 claimed   RunJob / RunJobIfExists took it out of the table: runs exactly once *)
(*                 dead      CancelJob took it out of the table: it never runs - also when its    *)
(*                           timer had already fired (the timer branch claims the job under the  *)
(*                           state lock and leaves if the cancel got there first: repair 7cb52d1, *)
(*                           found by this composition)                                           *)
(*                 xrace     NAMED DEVIATION (CancelRace = TRUE, the scheduler before that        *)
(*                           repair): CancelJob took a FIRED job out of the table and reported    *)
(*                           success, yet the goroutine, already in the timer branch, runs it     *)
(*                 mark / body / signed / ending   the job function is running (below)           *)
(*                 done                                                                          *)
(*               This is Scheduler.tla after the three repairs in the repository: a claimed job  *)
(*               runs exactly once whatever the timer does, a goroutine removes only its own     *)
(*               entry, a job whose CancelJob succeeded never runs.  DeleteByName = TRUE is the named deviation of the code before the       *)
(*               second repair (the timer branch deletes whatever entry has its name).           *)
(*   attester    (Attester.tla, services/attester/standard)   the job body: MarkOne per          *)
(*               validator (one critical section each: skip if <<epoch, v>> is marked, else      *)
(*               claim), then data / accounts / sign / submit (Sign: one step, the time before   *)
(*               it is what a slow beacon node costs), housekeeping of epochs older than the     *)
(*               previous one after a successful attestation; then the controller's deferred     *)
(*               removal of the pending note (Unmark) and the return (End).                      *)
(*                                                                                              *)
(* Time: now = current slot, phase = 0 before / 1 after the slot's attestation time              *)
(* (slot start + maximum attestation delay).  A timer expires any time from its instant on.      *)
(*                                                                                              *)
(* System-level properties (see the end of the module):                                          *)
(*   S1 NoDoubleSign     at most one signing request per validator and epoch                     *)
(*   S2 EnvWindowHolds   Attester.tla's environment assumption EnvWindow is a THEOREM of the     *)
(*                       composition under EnvLateness(Late) with Late <= P - and false without  *)
(*   S3 SlotOnce, CancelledNeverRuns, TableExact   a duty slot is attested at most once, a job   *)
(*                       that was withdrawn does not run, a waiting job is reachable by its name *)
(*   S4 PendingExact     the pending note of a slot is there exactly while a job for the slot is *)
(*                       being set up, waits or runs                                             *)
EXTENDS Integers, FiniteSets, Sequences, TLC

CONSTANTS
    Validators,     \* validator indices (all have an account)
    P,              \* slots per epoch
    StartSlot,      \* the controller is constructed in this slot (restart semantics: strictly later slots only)
    MaxSlot,        \* the clock stops here
    MaxVer,         \* bound on the versions of one epoch's duties
    MaxReorgs,      \* bound on reorgs per behaviour
    MaxHeads,       \* bound on head events per behaviour
    MaxSlow,        \* budget: job bodies carried over a slot end (a slow beacon node), counted per slot end
    MaxLate,        \* budget: jobs whose time has come carried over a slot end before they are through their marking loop
    MaxCarry,       \* budget: controller goroutines carried over a slot end
    MaxJobs,        \* bound on ScheduleJob successes per behaviour (job instance ids 1..MaxJobs)
    MinReorgEpoch,  \* duties of earlier epochs hang on the genesis root and never change
    FTs,            \* subset of BOOLEAN: fast track attestations on head events
    Oracles,        \* duty oracles to start from: [<<epoch, version>> -> [Validators -> 0..P-1]] (offset of the duty slot)
    Late,           \* EnvLateness: a job for slot s has left its marking loop by the end of slot s + Late
    CancelRace,     \* FALSE: the intended scheduler (and the repository since 7cb52d1): a successful CancelJob means the job never runs.
                    \* TRUE: named deviation - a cancel that lands on a fired timer is overtaken (state xrace)
    DeleteByName,   \* FALSE: as repaired.  TRUE: named deviation - the timer branch deletes the table entry by name
    Overlap,        \* FALSE: EnvNoOverlap - fetch / cancel / schedule sequences for one epoch do not overlap (the open finding
                    \*        C03-overlapping-refresh-stale-attester-jobs is outside this composition).  TRUE: they may
    Failures,       \* TRUE: a job body may fail before it reaches the signer (no data, refused data)
    TickFirst,      \* TRUE: Env_TickBeforeHead (Controller.tla) - the epoch ticker has set up "Prepare for epoch e+1" before the
                    \*       first head event of epoch e is handled.  FALSE: a head event may come first (two head events within
                    \*       the ticker's 200 ms wait): the refresh of e+1 is then not held back and the prepare job repeats it
    Reduce,         \* TRUE: model checking with the second group of reductions (see Eager); FALSE: without (cross-check)
    Fine            \* TRUE: every interface call is its own step (trace validation).  FALSE: model checking - the handler of a
                    \*       head event runs when the event arrives and the fast track is its RunJobIfExists alone (see Eager)

VARIABLES
    now, phase,     \* the clock
    ft,             \* fast track configured
    oracle,         \* the beacon node's duties per epoch and version
    ver,            \* [epoch -> version in force] (attester duties of epoch e hang on the root of boundary e-1)
    seen,           \* roots of the last handled head event: [e, pv, cv] (lastBlockEpoch, previous / current dependent root)
    tasks,          \* controller goroutines under way
    prep,           \* epochs whose "Prepare for epoch" job waits in the scheduler
    ticked,         \* latestEpochRan of the epoch ticker
    table,          \* scheduler: name (slot) |-> job instance id, for "Attestations for slot N"
    jobs,           \* [1..MaxJobs -> job instance]
    nextId,
    pending,        \* controller: pendingAttestations (set of slots)
    attested,       \* attester: set of <<epoch, validator>>
    signReq,        \* history: [v, e, id] for every validator of every request made to the signer
    runs,           \* history: [id, slot, canc] for every start of a job function
    horizon,        \* highest epoch a job function has started for
    envViol,        \* history: some job function started outside EnvWindow
    nReorg, nHeads, nSlow, nLate, nCarry

vars == <<now, phase, ft, oracle, ver, seen, tasks, prep, ticked, table, jobs, nextId, pending, attested,
          signReq, runs, horizon, envViol, nReorg, nHeads, nSlow, nLate, nCarry>>

Epoch(s) == s \div P
First(e) == e * P
Last(e) == e * P + P - 1
MaxEpoch == Epoch(MaxSlot) + 1
Max(a, b) == IF a > b THEN a ELSE b
Due(s) == s < now \/ (s = now /\ phase = 1)

Empty == [x \in {} |-> 0]
Put(f, k, v) == [x \in (DOMAIN f) \cup {k} |-> IF x = k THEN v ELSE f[x]]
Drop(f, K) == [x \in (DOMAIN f) \ K |-> f[x]]

\* the i-th smallest element (duties list validators in ascending order)
Nth(S, i) == CHOOSE v \in S : Cardinality({u \in S : u < v}) = i - 1

-----------------------------------------------------------------------------
(* Duties: every validator has one duty slot per epoch; a reorg below the boundary gives the    *)
(* epoch a new version, in which validators may have moved.                                     *)
DutySlot(e, w, v) == First(e) + oracle[<<e, w>>][v]
DutiesOf(e, w) == {[slot |-> s, vals |-> {v \in Validators : DutySlot(e, w, v) = s}] :
                        s \in {DutySlot(e, w, v) : v \in Validators}}

-----------------------------------------------------------------------------
(* Job instances. *)
FreeJob == [slot |-> -1, vals |-> {}, ver |-> 0, st |-> "free", i |-> 0, claimed |-> {}, canc |-> FALSE]
InTable == {"sched", "fired"}
WillRun == {"starting", "claimed", "xrace"}             \* out of the table, the job function has not begun
Running == {"mark", "body", "signed", "ending"}
Ids == 1..MaxJobs
JobsIn(S) == {id \in Ids : jobs[id].st \in S}

(* Controller goroutines.  k: head (HandleHeadEvent), ref (refreshAttesterDutiesForEpoch),       *)
(* sched (scheduleAttestations), ft (fastTrackJobs).                                            *)
Task(k, key, st) == [id |-> -1, k |-> k, key |-> key, st |-> st, nc |-> FALSE, ver |-> 0, duties |-> {},
                     pos |-> 0, can |-> {}, um |-> -1, pv |-> 0, cv |-> 0]
FreeId(ts) == CHOOSE i \in 0..Cardinality(ts) : \A t \in ts : t.id # i
RECURSIVE Spawn(_, _)
Spawn(ts, new) == IF new = <<>> THEN ts ELSE Spawn(ts \cup {[Head(new) EXCEPT !.id = FreeId(ts)]}, Tail(new))
Swap(t, S) == tasks' = (tasks \ {t}) \cup S

\* EnvNoOverlap: one fetch / cancel / schedule sequence per epoch at a time
Busy(e) == \E t \in tasks : t.k \in {"sched", "ref"} /\ t.key = e /\ t.st # "begin"
MayBegin(e) == Overlap \/ ~Busy(e)

-----------------------------------------------------------------------------
Init ==
    /\ now = StartSlot /\ phase = 1
    /\ ft \in FTs
    /\ oracle \in Oracles
    /\ ver = [e \in 0..MaxEpoch |-> 0]
    /\ seen = [e |-> 0, pv |-> 0, cv |-> 0]
    \* New(): the rest of this epoch (strictly later slots) and the next epoch
    /\ tasks = Spawn({}, <<[Task("sched", Epoch(StartSlot), "fetch") EXCEPT !.nc = TRUE],
                           [Task("sched", Epoch(StartSlot) + 1, "fetch") EXCEPT !.nc = TRUE]>>)
    /\ prep = {} /\ ticked = Epoch(StartSlot)
    /\ table = Empty /\ jobs = [id \in Ids |-> FreeJob] /\ nextId = 1
    /\ pending = {} /\ attested = {}
    /\ signReq = {} /\ runs = {} /\ horizon = 0 /\ envViol = FALSE
    /\ nReorg = 0 /\ nHeads = 0 /\ nSlow = 0 /\ nLate = 0 /\ nCarry = 0

-----------------------------------------------------------------------------
(* Environment: clock, reorgs, head events. *)
CtlVars == <<ft, oracle, seen, tasks, prep, ticked, table, jobs, nextId, pending, attested, signReq, runs, horizon, envViol>>

PhaseUp ==
    /\ phase = 0 /\ phase' = 1
    /\ UNCHANGED <<now, ver, nReorg, nHeads, nSlow, nLate, nCarry>> /\ UNCHANGED CtlVars

(* EnvLateness(Late): whatever is on its way to attest for slot s - a ScheduleJob call not yet   *)
(* made, a job that waits, has fired, was claimed, or is in its marking loop - is through the    *)
(* marking loop by the end of slot s + Late.                                                     *)
WayJobs == JobsIn(InTable \cup WillRun \cup {"mark"})
WayCalls == UNION {{d.slot : d \in t.duties} : t \in {x \in tasks : x.k = "sched" /\ x.st = "sched"}}
OnTheWay == {jobs[id].slot : id \in WayJobs} \cup WayCalls
EnvLateness == \A s \in OnTheWay : now + 1 <= s + Late
\* what a slot end finds unfinished is counted against the budgets of the model (exploration bounds, not assumptions)
LateNow == Cardinality({id \in WayJobs : jobs[id].slot <= now}) + Cardinality({s \in WayCalls : s <= now})
SlowNow == Cardinality(JobsIn({"body", "signed"}))
\* the epoch ticker and the prepare-for-epoch job are jobs of the same scheduler: before the epoch ends
EnvPrepared == (Epoch(now + 1) # Epoch(now)) => (ticked = Epoch(now) /\ Epoch(now) + 1 \notin prep)

Advance ==
    /\ phase = 1 /\ now < MaxSlot
    /\ EnvLateness /\ EnvPrepared
    /\ nSlow + SlowNow <= MaxSlow /\ nLate + LateNow <= MaxLate /\ nCarry + Cardinality(tasks) <= MaxCarry
    /\ nSlow' = nSlow + SlowNow /\ nLate' = nLate + LateNow /\ nCarry' = nCarry + Cardinality(tasks)
    /\ now' = now + 1 /\ phase' = 0
    /\ UNCHANGED <<ver, nReorg, nHeads>> /\ UNCHANGED CtlVars

Reorg(e) ==
    /\ e \in {Epoch(now), Epoch(now) + 1} /\ e >= MinReorgEpoch
    /\ nReorg < MaxReorgs /\ ver[e] < MaxVer
    /\ ver' = [ver EXCEPT ![e] = @ + 1]
    /\ nReorg' = nReorg + 1
    /\ UNCHANGED <<now, phase, nHeads, nSlow, nLate, nCarry>> /\ UNCHANGED CtlVars

\* a beacon node delivers a head event for the current slot with the roots in force
HeadEvent ==
    /\ nHeads < MaxHeads
    /\ nHeads' = nHeads + 1
    /\ tasks' = Spawn(tasks, <<[Task("head", now, "check") EXCEPT !.pv = ver[Epoch(now)], !.cv = ver[Epoch(now) + 1]]>>)
    /\ UNCHANGED <<now, phase, ft, oracle, ver, seen, prep, ticked, table, jobs, nextId, pending, attested,
                   signReq, runs, horizon, envViol, nReorg, nSlow, nLate, nCarry>>

-----------------------------------------------------------------------------
(* Controller. *)
\* epochTicker: once per epoch, sets up "Prepare for epoch e+1"
EpochTick ==
    /\ ticked < Epoch(now)
    /\ ticked' = Epoch(now)
    /\ prep' = prep \cup {Epoch(now) + 1}
    /\ UNCHANGED <<now, phase, ft, oracle, ver, seen, tasks, table, jobs, nextId, pending, attested, signReq, runs,
                   horizon, envViol, nReorg, nHeads, nSlow, nLate, nCarry>>

\* the prepare-for-epoch job runs: scheduleAttestations(e, notCurrentSlot = false)
PrepareFire(e) ==
    /\ e \in prep /\ MayBegin(e)
    /\ prep' = prep \ {e}
    /\ tasks' = Spawn(tasks, <<Task("sched", e, "fetch")>>)
    /\ UNCHANGED <<now, phase, ft, oracle, ver, seen, ticked, table, jobs, nextId, pending, attested, signReq, runs,
                   horizon, envViol, nReorg, nHeads, nSlow, nLate, nCarry>>

TaskFrame == UNCHANGED <<now, phase, ft, oracle, ver, prep, ticked, attested, signReq, runs, horizon, envViol, nReorg, nHeads, nSlow, nLate, nCarry>>

(* HandleHeadEvent: ignored unless for the current slot; reorgMutex section: compare the roots   *)
(* with those of the last event (not while lastBlockEpoch = 0), remember them, start the         *)
(* refreshes as goroutines; then fastTrackJobs in the handler itself.                            *)
HeadCheck(t) ==
    /\ t \in tasks /\ t.k = "head"
    /\ IF t.key # now
       THEN Swap(t, {}) /\ seen' = seen
       ELSE LET e == Epoch(now)
                has == seen.e # 0
                same == has /\ seen.e = e
                later == has /\ seen.e < e
                prevChanged == (same /\ seen.pv # t.pv) \/ (later /\ seen.e + 1 = e /\ seen.cv # t.pv) \/ (later /\ seen.e + 1 < e)
                curChanged == same /\ seen.cv # t.cv
                new == (IF prevChanged THEN <<[Task("ref", 0, "begin") EXCEPT !.nc = FALSE]>> ELSE <<>>)
                       \o (IF curChanged THEN <<[Task("ref", 0, "begin") EXCEPT !.nc = TRUE]>> ELSE <<>>)
                       \o (IF ft THEN <<Task("ft", now, IF Fine THEN "check" ELSE "run")>> ELSE <<>>)
            IN /\ seen' = [e |-> e, pv |-> t.pv, cv |-> t.cv]
               /\ tasks' = Spawn(tasks \ {t}, new)
    /\ UNCHANGED <<table, jobs, nextId, pending>> /\ TaskFrame

\* fastTrackJobs: JobExists, then RunJobIfExists
FtCheck(t) ==
    /\ t \in tasks /\ t.k = "ft" /\ t.st = "check"
    /\ Swap(t, IF t.key \in DOMAIN table THEN {[t EXCEPT !.st = "run"]} ELSE {})
    /\ UNCHANGED <<seen, table, jobs, nextId, pending>> /\ TaskFrame

\* RunJob / RunJobIfExists: the table section takes the job out; runJob claims it (a fired job too:
\* its timer branch then waits for the run signal - it runs once)
RunNow(s) ==
    IF s \in DOMAIN table
    THEN /\ table' = Drop(table, {s})
         /\ jobs' = [jobs EXCEPT ![table[s]].st = "claimed"]
    ELSE UNCHANGED <<table, jobs>>

FtRun(t) ==
    /\ t \in tasks /\ t.k = "ft" /\ t.st = "run"
    /\ RunNow(t.key)
    /\ Swap(t, {})
    /\ UNCHANGED <<seen, nextId, pending>> /\ TaskFrame

(* refreshAttesterDutiesForEpoch.  The goroutine reads the clock for its epoch (the current one *)
(* when the previous dependent root changed, the next one when the current root changed).       *)
RefBegin(t) ==
    /\ t \in tasks /\ t.k = "ref" /\ t.st = "begin"
    /\ LET e == Epoch(now) + (IF t.nc THEN 1 ELSE 0) IN
        /\ MayBegin(e)
        /\ Swap(t, IF e \in prep THEN {}      \* "Refresh not necessary as epoch not yet prepared"
                   ELSE {[t EXCEPT !.key = e, !.st = "cancel", !.pos = First(e), !.nc = FALSE]})
    /\ UNCHANGED <<seen, table, jobs, nextId, pending>> /\ TaskFrame

\* one CancelJob of the loop over the epoch's slots
RefCancel(t) ==
    /\ t \in tasks /\ t.k = "ref" /\ t.st = "cancel" /\ t.um = -1 /\ t.pos <= Last(t.key)
    /\ LET s == t.pos
           hit == s \in DOMAIN table
           j == jobs[table[s]]
       IN /\ IF hit
             THEN /\ table' = Drop(table, {s})
                  /\ jobs' = [jobs EXCEPT ![table[s]] = IF j.st = "fired" /\ CancelRace
                                                         THEN [j EXCEPT !.st = "xrace", !.canc = TRUE]
                                                         ELSE [FreeJob EXCEPT !.slot = s, !.st = "dead", !.canc = TRUE]]
             ELSE UNCHANGED <<table, jobs>>
          /\ Swap(t, {[t EXCEPT !.pos = s + 1, !.can = IF hit THEN @ \cup {s} ELSE @, !.um = IF hit THEN s ELSE -1]})
    /\ UNCHANGED <<seen, nextId, pending>> /\ TaskFrame

\* ... followed, when it succeeded, by the removal of the slot's pending note
RefUnmark(t) ==
    /\ t \in tasks /\ t.k = "ref" /\ t.um # -1
    /\ pending' = pending \ {t.um}
    /\ Swap(t, {[t EXCEPT !.um = -1]})
    /\ UNCHANGED <<seen, table, jobs, nextId>> /\ TaskFrame

\* accounts obtained; "only reschedule current slot if its job was cancelled" (clock read here)
RefDecide(t) ==
    /\ t \in tasks /\ t.k = "ref" /\ t.st = "cancel" /\ t.um = -1 /\ t.pos > Last(t.key)
    /\ Swap(t, {[t EXCEPT !.k = "sched", !.st = "fetch", !.nc = (now \notin t.can)]})
    /\ UNCHANGED <<seen, table, jobs, nextId, pending>> /\ TaskFrame

(* scheduleAttestations *)
SchedFetch(t) ==
    /\ t \in tasks /\ t.k = "sched" /\ t.st = "fetch"
    /\ Swap(t, {[t EXCEPT !.st = "filter", !.ver = ver[t.key], !.duties = DutiesOf(t.key, ver[t.key])]})
    /\ UNCHANGED <<seen, table, jobs, nextId, pending>> /\ TaskFrame

\* reads the clock, drops past slots (and the current one if so told), notes the others as pending
SchedFilter(t) ==
    /\ t \in tasks /\ t.k = "sched" /\ t.st = "filter"
    /\ LET kept == {d \in t.duties : d.slot > now \/ (d.slot = now /\ ~t.nc)} IN
        /\ pending' = pending \cup {d.slot : d \in kept}
        /\ Swap(t, IF kept = {} THEN {} ELSE {[t EXCEPT !.st = "sched", !.duties = kept]})
    /\ UNCHANGED <<seen, table, jobs, nextId>> /\ TaskFrame

\* one ScheduleJob (each in its own goroutine): a taken name is refused and changes nothing
SchedOne(t, d) ==
    /\ t \in tasks /\ t.k = "sched" /\ t.st = "sched" /\ d \in t.duties
    /\ IF d.slot \in DOMAIN table
       THEN UNCHANGED <<table, jobs, nextId>>
       ELSE /\ nextId <= MaxJobs
            /\ table' = Put(table, d.slot, nextId)
            /\ jobs' = [jobs EXCEPT ![nextId] = [FreeJob EXCEPT !.slot = d.slot, !.vals = d.vals, !.ver = t.ver, !.st = "sched"]]
            /\ nextId' = nextId + 1
    /\ Swap(t, IF t.duties = {d} THEN {} ELSE {[t EXCEPT !.duties = @ \ {d}]})
    /\ UNCHANGED <<seen, pending>> /\ TaskFrame

-----------------------------------------------------------------------------
(* Scheduler: the job goroutine. *)
JobFrame == UNCHANGED <<now, phase, ft, oracle, ver, seen, tasks, prep, ticked, nextId, nReorg, nHeads, nSlow, nLate, nCarry>>

TimerFire(id) ==
    /\ jobs[id].st = "sched" /\ Due(jobs[id].slot)
    /\ jobs' = [jobs EXCEPT ![id].st = "fired"]
    /\ UNCHANGED <<table, pending, attested, signReq, runs, horizon, envViol>> /\ JobFrame

\* timer branch: not active -> removeJob (its own entry; by name with DeleteByName) -> claim
TimerRemove(id) ==
    /\ jobs[id].st = "fired"
    /\ table' = Drop(table, {jobs[id].slot})
    /\ jobs' = [jobs EXCEPT ![id].st = "starting"]
    /\ UNCHANGED <<pending, attested, signReq, runs, horizon, envViol>> /\ JobFrame

\* the timer branch of a job that was cancelled after it fired: removeJob finds the entry gone - or,
\* with DeleteByName, deletes the entry of the job scheduled under the re-used name
XRemove(id) ==
    /\ DeleteByName /\ jobs[id].st = "xrace" /\ jobs[id].slot \in DOMAIN table
    /\ table' = Drop(table, {jobs[id].slot})
    /\ UNCHANGED <<jobs, pending, attested, signReq, runs, horizon, envViol>> /\ JobFrame

(* Attester.tla's EnvWindow for a run that starts for epoch e: no run for an epoch >= e+2 has   *)
(* started, and no run for an epoch <= e-2 is still in its marking loop.                         *)
EnvWindowAt(e) ==
    /\ horizon < e + 2
    /\ \A q \in JobsIn({"mark"}) : Epoch(jobs[q].slot) + 2 > e

\* the job function begins: AttestAndScheduleAggregate -> Attest
BodyStart(id) ==
    /\ jobs[id].st \in WillRun
    /\ jobs' = [jobs EXCEPT ![id].st = "mark", ![id].i = 0]
    /\ runs' = runs \cup {[id |-> id, slot |-> jobs[id].slot, canc |-> jobs[id].canc]}
    /\ horizon' = Max(horizon, Epoch(jobs[id].slot))
    /\ envViol' = (envViol \/ ~EnvWindowAt(Epoch(jobs[id].slot)))
    /\ UNCHANGED <<table, pending, attested, signReq>> /\ JobFrame

-----------------------------------------------------------------------------
(* Attester: the job body. *)
MarkOne(id) ==
    LET j == jobs[id]
        v == Nth(j.vals, j.i + 1)
        p == <<Epoch(j.slot), v>>
        claim == p \notin attested IN
    /\ j.st = "mark"
    /\ attested' = IF claim THEN attested \cup {p} ELSE attested
    /\ jobs' = [jobs EXCEPT ![id].i = j.i + 1,
                            ![id].claimed = IF claim THEN j.claimed \cup {v} ELSE j.claimed,
                            ![id].st = IF j.i + 1 = Cardinality(j.vals) THEN "body" ELSE "mark"]
    /\ UNCHANGED <<table, pending, signReq, runs, horizon, envViol>> /\ JobFrame

(* data, validation, accounts, signer, submission.  ok: the run reaches the signer and its      *)
(* attestations are submitted; then housekeepAttestedMap drops the epochs older than the        *)
(* previous one.  A run that has claimed nobody signs nothing and ends as "no attestations      *)
(* succeeded", without housekeeping.                                                            *)
BodySign(id, ok) ==
    LET j == jobs[id]
        e == Epoch(j.slot)
        good == ok /\ j.claimed # {} IN
    /\ j.st = "body"
    /\ signReq' = IF good THEN signReq \cup {[v |-> v, e |-> e, id |-> id] : v \in j.claimed} ELSE signReq
    /\ attested' = IF good THEN {p \in attested : p[1] + 1 >= e} ELSE attested
    /\ jobs' = [jobs EXCEPT ![id].st = "signed"]
    /\ UNCHANGED <<table, pending, runs, horizon, envViol>> /\ JobFrame

\* the deferred delete(pendingAttestations, slot) of AttestAndScheduleAggregate
BodyUnmark(id) ==
    /\ jobs[id].st = "signed"
    /\ pending' = pending \ {jobs[id].slot}
    /\ jobs' = [jobs EXCEPT ![id].st = "ending"]
    /\ UNCHANGED <<table, attested, signReq, runs, horizon, envViol>> /\ JobFrame

\* the job function has returned (the record is reduced to what the invariants need)
BodyEnd(id) ==
    /\ jobs[id].st = "ending"
    /\ jobs' = [jobs EXCEPT ![id] = [FreeJob EXCEPT !.slot = jobs[id].slot, !.st = "done", !.canc = jobs[id].canc]]
    /\ UNCHANGED <<table, pending, attested, signReq, runs, horizon, envViol>> /\ JobFrame

-----------------------------------------------------------------------------
TaskStep(t) ==
    \/ HeadCheck(t) \/ FtCheck(t) \/ FtRun(t)
    \/ RefBegin(t) \/ RefCancel(t) \/ RefUnmark(t) \/ RefDecide(t)
    \/ SchedFetch(t) \/ SchedFilter(t)
    \/ \E d \in t.duties : (\A x \in t.duties : d.slot <= x.slot) /\ SchedOne(t, d)   \* (distinct names commute: lowest slot first)

JobStep(id) ==
    \/ TimerFire(id) \/ TimerRemove(id) \/ XRemove(id)
    \/ BodyStart(id)
    \/ MarkOne(id)
    \/ \E ok \in (IF Failures THEN BOOLEAN ELSE {TRUE}) : BodySign(id, ok)
    \/ BodyUnmark(id) \/ BodyEnd(id)

(* Reduction (loses no reachable value of any variable an invariant reads): steps that commute   *)
(* with every other step and that nothing can disable are taken at once - the return of a job    *)
(* function, the removal of the pending note right after a successful CancelJob (no other        *)
(* goroutine sets that note meanwhile under EnvNoOverlap), and the duty request of a goroutine   *)
(* (a reorg just before the request is a reorg just before the step that precedes it).  Without  *)
(* Fine also: the handler of a head event (an event handled later is an event that arrives later *)
(* - or, after the slot's end, none; a reorg in between is a reorg just after the handler).  The *)
(* JobExists of the fast track only ever saves a RunJobIfExists that would have found nothing:   *)
(* "check at t1, run at t2" has the same outcomes as "run at t2", and "check fails at t1" as      *)
(* "run at t1 finds nothing".                                                                    *)
(* TickFirst (an assumption, not a reduction): the epoch ticker runs when the epoch starts.       *)
(* Reduce: under EnvNoOverlap a goroutine that works on the jobs of a FUTURE epoch (the next     *)
(* epoch's fetch / filter / ScheduleJob calls, the cancel loop of a refresh of the next epoch)   *)
(* runs to its end: nothing else reads or writes those names before their epoch begins (timers   *)
(* are not due, the fast track names the current slot, a second refresh of the epoch waits).     *)
FutureTasks == {t \in tasks : Reduce /\ ~Overlap /\ t.k \in {"sched", "ref"} /\ t.st # "begin" /\ t.key > Epoch(now)}
LowestTask(S) == CHOOSE t \in S : \A u \in S : t.id <= u.id
Eager ==
    \/ TickFirst /\ ticked < Epoch(now) /\ EpochTick
    \/ FutureTasks # {} /\ TaskStep(LowestTask(FutureTasks))
    \/ \E id \in Ids : BodyEnd(id)
    \/ \E t \in tasks : SchedFetch(t)
    \/ ~Overlap /\ \E t \in tasks : RefUnmark(t)
    \/ ~Fine /\ \E t \in tasks : HeadCheck(t)
EagerEnabled == \/ JobsIn({"ending"}) # {}
                \/ (TickFirst /\ ticked < Epoch(now)) \/ FutureTasks # {}
                \/ \E t \in tasks : (t.k = "sched" /\ t.st = "fetch") \/ (~Overlap /\ t.um # -1) \/ (~Fine /\ t.k = "head")

EnvSteps == PhaseUp \/ Advance \/ HeadEvent \/ \E e \in 0..MaxEpoch : Reorg(e)
IntSteps == \/ EpochTick
            \/ \E e \in 0..MaxEpoch : PrepareFire(e)
            \/ \E t \in tasks : TaskStep(t)
            \/ \E id \in Ids : JobStep(id)

Next == IF EagerEnabled THEN Eager ELSE EnvSteps \/ IntSteps

Spec == Init /\ [][Next]_vars

-----------------------------------------------------------------------------
TypeOK ==
    /\ now \in StartSlot..MaxSlot /\ phase \in {0, 1}
    /\ \A id \in Ids : jobs[id].st \in {"free", "dead", "done"} \cup InTable \cup WillRun \cup Running
    /\ \A s \in DOMAIN table : table[s] \in Ids

(* S1: end-to-end at most once - whatever the interleaving of timers, fast track, refreshes and *)
(* slow jobs, the signer is asked at most once per validator and epoch.                         *)
NoDoubleSign == \A x, y \in signReq : (x.v = y.v /\ x.e = y.e) => x.id = y.id

(* S2: Attester.tla's EnvWindow holds at every start of a job function.  It is NOT implied by    *)
(* controller + scheduler alone (nothing bounds how late an expired timer's goroutine, or a       *)
(* ScheduleJob goroutine, gets to run): it is a theorem under the named environment assumptions   *)
(*   EnvLateness (guard of Advance) with Late <= P   - tight: Late = P + 1 has the counterexample *)
(*                                                     (MC_Vouch_late_window / _late_sign.cfg)    *)
(*   EnvNoOverlap (MayBegin), TickFirst, EnvPrepared - inherited from C03 (Controller.tla)        *)
EnvWindowHolds == ~envViol

(* S3.  A duty slot is attested at most once ...                                                *)
SlotOnce == \A x, y \in runs : x.slot = y.slot => x.id = y.id
\* ... a job that the refresh withdrew (CancelJob succeeded) is not run with its stale duty ...
CancelledNeverRuns == \A x \in runs : ~x.canc
\* ... and a job that waits is the one its name leads to (it can be cancelled, started early, and the
\* name is not given away twice): no duty is lost or doubled when cancel + re-schedule under the same
\* name meets the old job's goroutine.
TableExact ==
    /\ \A s \in DOMAIN table : jobs[table[s]].st \in InTable /\ jobs[table[s]].slot = s
    /\ \A id \in JobsIn(InTable) : jobs[id].slot \in DOMAIN table /\ table[jobs[id].slot] = id

(* S4: HasPendingAttestations(s) exactly while a job for s is being set up (noted, ScheduleJob   *)
(* on its way), waits, or runs - the note of a withdrawn job goes with the CancelJob that        *)
(* withdrew it (RefUnmark is the next step of that goroutine).                                   *)
Alive(s) == \E id \in JobsIn(InTable \cup WillRun \cup {"mark", "body", "signed"}) : jobs[id].slot = s /\ ~jobs[id].canc
SettingUp(s) == \E t \in tasks : t.k = "sched" /\ t.st = "sched" /\ \E d \in t.duties : d.slot = s
Unmarking(s) == \E t \in tasks : t.um = s
PendingExact ==
    /\ \A s \in pending : Alive(s) \/ SettingUp(s) \/ Unmarking(s)
    /\ \A id \in JobsIn(InTable \cup WillRun \cup {"mark", "body", "signed"}) : ~jobs[id].canc => jobs[id].slot \in pending

\* the marks of the attester cover every request made for an epoch that housekeeping still keeps
MarkedBeforeSigned == \A x \in signReq : (x.e + 1 >= horizon) => <<x.e, x.v>> \in attested
=============================================================================
