SPECIFICATION Spec
CONSTANTS
  Names = {"a", "b"}
  Values = {"v1", "v2"}
  WithEmpty = TRUE
  MaxPathLen = 4
  ModelKinds = {"addresses", "timeout", "log-level", "process-concurrency", "bool"}
  ChainLen = 3
  Changes = {}
INVARIANTS TypeOK DirectMatch LevelByLevel FromLongestPrefix OthersIrrelevant EmptyNeverUsed
PROPERTIES RepeatSame ChangeRespected CurrentTreeOnly
CHECK_DEADLOCK FALSE
