SPECIFICATION PairSpec
CONSTANTS
  MaxN = 1
  Variants = {"Best", "Majority", "RootMajority", "First"}
  Values = {1, 2}
  Scores = {0, 1, 2}
  FirstCap = 0
INVARIANTS TypeOK OtherTypeOK ReturnsByHard BestIsMax MajorityRule FirstIsSome ErrorIffNothing InvalidNeverReturned
PROPERTIES HistoryIndependent OverlapIndependent
