SPECIFICATION Spec
CONSTANTS
  KindSet = {"prepdirect"}
  ConcSet = {1}
  ItemSet = {2}
  NodeCounts = {2}
  DefaultConc = 16
  MaxCalls = 2
  HistClients = {"lighthouse"}
  HistOutcomes = {"accept", "reject", "slowok2", "slowrej1", "hang"}
  Design = "asks"
  MaxLat = 2
  CanonOuts = {}
  ConfSets = {}
  OtherSets = {}
  RefKind = "att"
INVARIANTS TypeOK FlagSound TimeoutSignalHeard OfferedInFull SuccessIff ReturnsByTimeout Independence ClassifiedByNow DeliveredToEach
CHECK_DEADLOCK FALSE
