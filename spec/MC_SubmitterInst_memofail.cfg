SPECIFICATION Spec
CONSTANTS
  NCalls = 2
  NNodes = 2
  IClientSet = {"lighthouse"}
  IConcSet = {2}
  IKinds = {"att", "prep"}
  IOutcomes = {"accept", "reject", "treject"}
  IFailOutcomes = {"accept"}
  Design = "memofail"
INVARIANTS TypeOK SuccessIffC OfferedC IndependenceC
CHECK_DEADLOCK FALSE
