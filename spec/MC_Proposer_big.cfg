SPECIFICATION Spec
CONSTANTS
  DutySlots = {9, 12}
  Validators = {1, 2}
  SlotsPerEpoch = 4
  Relays = {1, 2, 3}
  AllChoices = {{}, {1}, {2}, {3}, {1, 2}, {1, 3}, {2, 3}, {1, 2, 3}}
  Versions = {"phase0", "altair", "bellatrix", "capella", "deneb"}
  Blindable = {"bellatrix", "capella", "deneb"}
  Outcomes = {"full", "err", "bad400", "nilresp", "never"}
  MaxCalls = 3
INVARIANTS TypeOK OnlyDutySigner SignedIsSelected SubmittedIntact NothingWithoutUnblind DegradesNotSkips
CHECK_DEADLOCK FALSE
