SPECIFICATION SSpec
CONSTANTS
  Validators = {1, 2}
  Externals = {3}
  Relays = {1, 2}
  Nodes = {1, 2}
  DocIds = {1, 3, 6}
  FailKinds = {"error", "malformed", "empty"}
  Ops = {1, 2}
  MaxInFlight = 1
  AuctionImpl = "intended"
  Resolution = "locked"
  MaxRounds = 0
  Family = "free"
INVARIANTS Emit KeepsLastGood LockBalanced LockAccounting
CHECK_DEADLOCK FALSE
