SPECIFICATION SSpec
CONSTANTS
  Variants = {"best"}
  Relays = {1, 2, 3}
  Values = {0, 1, 2, 3}
  CfgSet <- ScenCfgSet
  BuilderSet = {"std", "plus", "minus", "excl", "half", "boost"}
  AnswerSet <- ScenAnswers
  Headers = {1, 2}
  MaxRounds = 1
  Keys = {1, 2}
  MaxAuctions = 2
  TickWeight = 6
INVARIANTS Emit WinnerIsArgmax ProvidersOfferedWinner NoWinnerIffNone
CHECK_DEADLOCK FALSE
