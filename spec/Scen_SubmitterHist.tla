------------------------- MODULE Scen_SubmitterHist -------------------------
(* Scenario generator for the history part of C08: HISTORIES of submissions on one long-lived    *)
(* multinode submitter instance (spec/Submitter.tla: NextCall; spec/SubmitterInst.tla: overlap).  *)
(* A scenario = the instance (process concurrency, one client type per node - fixed for the life  *)
(* of the instance) and a sequence of submissions; every submission has its own kind, payload     *)
(* size and, per node, an outcome AND whether the node answers its version query at that          *)
(* submission.  A submission with a "held" node reply is overlapped by the next submission of the *)
(* history (the reply is let go when that one has returned); within such a group every node       *)
(* keeps its version-query outcome (Env_VersionStableWithinOverlap), so that `known` does not     *)
(* depend on the order in which the overlapping submissions look the node up.                     *)
(*  Mode "carry":   exhaustive; two submissions, the first ("poison") of any kind with the first  *)
(*     node's version query failing or working, the second ("probe") a kind with tolerated        *)
(*     rejections in which the first node answers its version and rejects for a tolerated reason  *)
(*     (or accepts / really rejects) and the other node does not accept.                          *)
(*  Mode "overlap": exhaustive; two submissions of different kinds, the first with a held node.   *)
(*  Mode "sim":     TLC simulation (seeded): 2-4 submissions, any kind, any outcome.              *)
EXTENDS Integers, Sequences, FiniteSets, TLC, Json, SubmitterClassifier

CONSTANTS Mode, HKinds, HConcSet, HItemSet, HClients, HNodeCounts, HLens, HOutcomes

VARIABLES conc, clients, calls, want
hvars == <<conc, clients, calls, want>>

NN == 1..Len(clients)
TolKinds == {"att", "syncmsg", "contrib"}

HeldOuts == {"heldok", "heldrej", "heldtrej"}
HasHeld(call) == \E n \in 1..Len(call.nodes) : call.nodes[n].out = "held"
CallOf(k, it, f) == [kind |-> k, items |-> it, nodes |-> [n \in NN |-> HNode(k, clients[n], f[n][1], f[n][2])]]

\* Mode "sim" builds the history step by step (few successors per step: TLC's simulator evaluates
\* Emit on every successor): a new submission (kind, payload size, no node yet), then one node
\* description per step.
LastCall == calls[Len(calls)]
Complete == Len(calls) > 0 /\ Len(LastCall.nodes) = Len(clients)
PrevHeld == Len(calls) > 1 /\ HasHeld(calls[Len(calls) - 1])
SimStartCall ==
    /\ Len(calls) = 0 \/ Complete
    /\ Len(calls) < want
    /\ \E k \in HKinds, it \in HItemSet : calls' = Append(calls, [kind |-> k, items |-> it, nodes |-> <<>>])
SimAddNode ==
    /\ Len(calls) > 0 /\ ~ Complete
    /\ LET n == Len(LastCall.nodes) + 1
       IN \E o \in HOutcomes, v \in Vers :
            \* within an overlapping group the version-query outcome of a node does not change
            /\ PrevHeld => v = calls[Len(calls) - 1].nodes[n].ver
            \* the last submission of a history has nobody to overlap with
            /\ Len(calls) = want => o \notin HeldOuts
            /\ calls' = [calls EXCEPT ![Len(calls)].nodes = Append(@, HNode(LastCall.kind, clients[n], o, v))]

\* ---- exhaustive families (two nodes)
PoisonCalls ==
    {CallOf(k, 1, <<<<o1, v1>>, <<o2, "ok">>>>) :
        k \in HKinds, o1 \in {"accept", "reject", "hang"}, v1 \in Vers, o2 \in {"accept", "reject"}}
ProbeCalls ==
    {CallOf(k, 3, <<<<o1, "ok">>, <<o2, "ok">>>>) :
        k \in TolKinds, o1 \in {"treject", "accept", "reject"}, o2 \in {"reject", "treject"}}
OverlapFirst ==
    {CallOf(k, 2, <<<<o1, "ok">>, <<o2, "ok">>>>) :
        k \in {"att", "syncmsg"}, o1 \in HeldOuts, o2 \in {"accept", "reject", "hang"}}
OverlapSecond(first) ==
    {CallOf(k, 2, <<<<o1, "ok">>, <<o2, "ok">>>>) :
        k \in {"att", "syncmsg"} \ {first.kind}, o1 \in {"accept", "reject", "slowok", "hang"},
        o2 \in {"accept", "reject", "slowok", "hang"}}

Init ==
    /\ conc \in HConcSet
    /\ \E k \in HNodeCounts : clients \in [1..k -> HClients]
    /\ calls = <<>>
    /\ want \in HLens

Next ==
    /\ Mode = "sim" \/ Len(calls) < want
    /\ CASE Mode = "carry" -> \E c \in (IF Len(calls) = 0 THEN PoisonCalls ELSE ProbeCalls) : calls' = Append(calls, c)
         [] Mode = "overlap" -> \E c \in (IF Len(calls) = 0 THEN OverlapFirst ELSE OverlapSecond(calls[1])) : calls' = Append(calls, c)
         [] OTHER -> SimStartCall \/ SimAddNode
    /\ UNCHANGED <<conc, clients, want>>

Spec == Init /\ [][Next]_hvars

Emit == (Len(calls) = want /\ Complete) =>
           PrintT(ToJson([sub |-> "history", mode |-> Mode, conc |-> conc, calls |-> calls]))
=============================================================================
