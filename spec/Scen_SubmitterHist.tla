------------------------- MODULE Scen_SubmitterHist -------------------------
(* Scenario generator for the history part of C08: HISTORIES of submissions on one long-lived    *)
(* multinode submitter instance (spec/Submitter.tla: NextCall; spec/SubmitterInst.tla: overlap).  *)
(* A scenario = the instance (process concurrency, one client type per node - fixed for the life  *)
(* of the instance) and a sequence of submissions; every submission has its own kind, payload     *)
(* size and, per node, an outcome AND whether the node answers its version query at that          *)
(* submission.  A submission with a "held" node reply is overlapped by the next submission of the *)
(* history (the reply is let go when that one has returned); within such a group every node       *)
(* keeps its version-query outcome (Env_VersionStableWithinOverlap), so that `known` does not     *)
(* depend on the order in which the overlapping submissions look the node up.                     *)
(*  Mode "carry":   exhaustive; two submissions, the first ("poison") of any kind with the first  *)
(*     node's version query failing or working, the second ("probe") a kind with tolerated        *)
(*     rejections in which the first node answers its version and rejects for a tolerated reason  *)
(*     (or accepts / really rejects) and the other node does not accept.                          *)
(*  Mode "overlap": exhaustive; two submissions of different kinds, the first with a held node.   *)
(*  Mode "sim":     TLC simulation (seeded): 2-4 submissions, any kind, any outcome; every kind    *)
(*     has its OWN node list (conf: kind -> peers of the pool, any of HConfSets).                 *)
(*  Mode "kinds":   exhaustive; EVERY KIND HAS ITS OWN NODE LIST, of different sizes, on one       *)
(*     instance, and every kind is run: pattern P(big) gives kind `big` the whole pool of three    *)
(*     peers and every other kind a shorter list (two peers or one, SmallOf); the history is one   *)
(*     submission of each of the eight kinds, each with the same vector of outcomes (restricted to  *)
(*     the kind's list) from the class FailFirst: delayed and prompt rejections that arrive BEFORE *)
(*     the first acceptance, which still comes well within the time-out (HVecOuts: prompt reject,  *)
(*     rejections of rank 1, acceptances of rank 1 and 2, hang).  Whatever list a slip counts or   *)
(*     iterates instead of the kind's own, some pattern makes it shorter than the own one.         *)
EXTENDS Integers, Sequences, FiniteSets, TLC, Json, SubmitterClassifier

CONSTANTS Mode, HKinds, HConcSet, HItemSet, HClients, HNodeCounts, HLens, HOutcomes,
          HConfSets,    \* node lists a kind can be configured with ({}: every kind has the whole pool)
          HVecOuts      \* mode "kinds": the outcomes of the vectors

VARIABLES conc, clients, calls, want,
          conf          \* kind -> the peers configured for it (a sequence, increasing)
hvars == <<conc, clients, calls, want, conf>>

NN == 1..Len(clients)
TolKinds == {"att", "syncmsg", "contrib"}

HeldOuts == {"heldok", "heldrej", "heldtrej"}
HasHeld(call) == \E n \in 1..Len(call.nodes) : call.nodes[n].out = "held"
CallOf(k, it, f) == [kind |-> k, items |-> it, nodes |-> [n \in NN |-> HNode(k, clients[n], f[n][1], f[n][2])]]

\* Mode "sim" builds the history step by step (few successors per step: TLC's simulator evaluates
\* Emit on every successor): a new submission (kind, payload size, no node yet), then one node
\* description per step.
LastCall == calls[Len(calls)]
Complete == Len(calls) > 0 /\ Len(LastCall.nodes) = Len(clients)
PrevHeld == Len(calls) > 1 /\ HasHeld(calls[Len(calls) - 1])
ConfDone == \A kk \in Kinds : conf[kk] # <<>>
SimStartCall ==
    /\ ConfDone
    /\ Len(calls) = 0 \/ Complete
    /\ Len(calls) < want
    /\ \E k \in HKinds, it \in HItemSet : calls' = Append(calls, [kind |-> k, items |-> it, nodes |-> <<>>])
SimAddNode ==
    /\ Len(calls) > 0 /\ ~ Complete
    /\ LET n == Len(LastCall.nodes) + 1
       IN \E o \in HOutcomes, v \in Vers :
            \* within an overlapping group the version-query outcome of a node does not change
            /\ PrevHeld => v = calls[Len(calls) - 1].nodes[n].ver
            \* the last submission of a history has nobody to overlap with
            /\ Len(calls) = want => o \notin HeldOuts
            /\ calls' = [calls EXCEPT ![Len(calls)].nodes = Append(@, HNode(LastCall.kind, clients[n], o, v))]

\* ---- exhaustive families (two nodes)
PoisonCalls ==
    {CallOf(k, 1, <<<<o1, v1>>, <<o2, "ok">>>>) :
        k \in HKinds, o1 \in {"accept", "reject", "hang"}, v1 \in Vers, o2 \in {"accept", "reject"}}
ProbeCalls ==
    {CallOf(k, 3, <<<<o1, "ok">>, <<o2, "ok">>>>) :
        k \in TolKinds, o1 \in {"treject", "accept", "reject"}, o2 \in {"reject", "treject"}}
OverlapFirst ==
    {CallOf(k, 2, <<<<o1, "ok">>, <<o2, "ok">>>>) :
        k \in {"att", "syncmsg"}, o1 \in HeldOuts, o2 \in {"accept", "reject", "hang"}}
OverlapSecond(first) ==
    {CallOf(k, 2, <<<<o1, "ok">>, <<o2, "ok">>>>) :
        k \in {"att", "syncmsg"} \ {first.kind}, o1 \in {"accept", "reject", "slowok", "hang"},
        o2 \in {"accept", "reject", "slowok", "hang"}}

\* ---- mode "kinds"
KindSeq == <<"att", "agg", "proposal", "syncmsg", "contrib", "bcsub", "scsub", "prep">>
SmallOf == [att |-> {1, 2}, agg |-> {2, 3}, proposal |-> {2}, syncmsg |-> {1, 3}, contrib |-> {1, 2}, bcsub |-> {3},
            scsub |-> {2, 3}, prep |-> {1}]
Pattern(big) == [k \in Kinds |-> IF k = big THEN {1, 2, 3} ELSE SmallOf[k]]
\* rank of the reply (prompt: 0; never: 9) and its sign
RankOf(o) == IF o \in {"accept", "reject", "treject"} THEN 0 ELSE IF o \in SlowOutcomes THEN SlowLat(o) ELSE 9
Accepts(o) == o \in {"accept", "treject", "slowok1", "slowok2", "slowok3", "slowtrej1", "slowtrej2"}
Rejects(o) == o \in {"reject", "malformed", "slowrej1", "slowrej2"}
\* some node accepts in time, and some node's rejection arrives strictly before the first acceptance
FailFirst(v) ==
    /\ \E n \in DOMAIN v : Accepts(v[n])
    /\ \E n \in DOMAIN v : Rejects(v[n]) /\ \A m \in DOMAIN v : Accepts(v[m]) => RankOf(v[n]) < RankOf(v[m])
KindsVectors == {v \in [1..3 -> HVecOuts] : FailFirst(v)}
KindsHistory(v) == [i \in 1..Len(KindSeq) |-> CallOf(KindSeq[i], 2, [n \in 1..3 |-> <<v[n], "ok">>])]

\* ---- mode "wide": ONE kind is configured with the whole pool, every other kind with node 1 only; the wide kind is
\* submitted once, a node hangs and another accepts (process concurrency = the number of nodes): whatever the
\* service derives from the OTHER kinds' lists must not narrow the delivery of this one
WidePattern(big) == [k \in Kinds |-> IF k = big THEN {1, 2, 3} ELSE {1}]
WideVectors == {v \in [1..3 -> HVecOuts] : (\E n \in 1..3 : v[n] = "hang") /\ (\E n \in 1..3 : Accepts(v[n]))}
WideHistory(big, v) == <<CallOf(big, 2, [n \in 1..3 |-> <<v[n], "ok">>])>>

SetToSeq(S) == LET RECURSIVE go(_, _)
                   go(T, i) == IF i > 9 THEN <<>> ELSE IF i \in T THEN <<i>> \o go(T, i + 1) ELSE go(T, i + 1)
               IN go(S, 1)
ConfsFor(k) == IF HConfSets = {} THEN {1..k} ELSE {c \in HConfSets : c # {} /\ c \subseteq 1..k}

Init ==
    /\ conc \in HConcSet
    /\ \E k \in HNodeCounts : /\ clients \in [1..k -> HClients]
                              /\ IF Mode = "kinds"
                                 THEN \E big \in HKinds : conf = [kk \in Kinds |-> SetToSeq(Pattern(big)[kk])]
                                 ELSE IF Mode = "wide" THEN \E big \in HKinds : conf = [kk \in Kinds |-> SetToSeq(WidePattern(big)[kk])]
                                 ELSE IF Mode = "sim" THEN conf = [kk \in Kinds |-> <<>>]   \* chosen kind by kind (SimSetConf)
                                 ELSE conf = [kk \in Kinds |-> SetToSeq(1..k)]
    /\ want \in HLens
    /\ IF Mode = "kinds" THEN \E v \in KindsVectors : calls = KindsHistory(v)
       ELSE IF Mode = "wide" THEN \E v \in WideVectors : calls = WideHistory(CHOOSE k \in HKinds : Len(conf[k]) = 3, v)
       ELSE calls = <<>>

Next ==
    /\ Mode = "sim" \/ Len(calls) < want
    /\ IF Mode = "sim" /\ ~ ConfDone
       THEN LET i == CHOOSE i \in 1..Len(KindSeq) : conf[KindSeq[i]] = <<>> /\ \A j \in 1..(i - 1) : conf[KindSeq[j]] # <<>>
            IN \E c \in ConfsFor(Len(clients)) : conf' = [conf EXCEPT ![KindSeq[i]] = SetToSeq(c)]
       ELSE conf' = conf
    /\ CASE Mode = "sim" /\ ~ ConfDone -> calls' = calls
         [] Mode = "carry" -> \E c \in (IF Len(calls) = 0 THEN PoisonCalls ELSE ProbeCalls) : calls' = Append(calls, c)
         [] Mode = "overlap" -> \E c \in (IF Len(calls) = 0 THEN OverlapFirst ELSE OverlapSecond(calls[1])) : calls' = Append(calls, c)
         [] OTHER -> SimStartCall \/ SimAddNode
    /\ UNCHANGED <<conc, clients, want>>

Spec == Init /\ [][Next]_hvars

Emit == (Len(calls) = want /\ Complete) =>
           PrintT(ToJson([sub |-> "history", mode |-> Mode, conc |-> conc, conf |-> conf, calls |-> calls]))
=============================================================================
