----------------------------- MODULE Scen_Cache -----------------------------
(* Scenario generator: behaviours of Cache with a history variable; every behaviour of length   *)
(* ScenLen is printed as JSON (simulation mode) and replayed on the real cache by the Go driver.*)
EXTENDS Cache, Json

CONSTANT ScenLen
VARIABLE hist
svars == <<vars, hist>>

\* Init with the parents drawn at random per chain (the full product of chains and parent functions is too
\* large to enumerate as initial states of a simulation): an earlier block of the model, or none
SInit0 ==
    /\ chain \in [Roots -> Slots]
    /\ parent = [r \in Roots |-> RandomElement({NoRoot} \cup {q \in Roots : chain[q] < chain[r]})]
    /\ map = Empty /\ now \in Nows /\ ehead = NoRoot /\ heads = {} /\ last = NoReply
SInit == SInit0 /\ hist = <<[ev |-> "Reset", chain |-> [r \in Roots |-> chain[r]],
                             parent |-> [r \in Roots |-> parent[r]], now |-> now]>>

H(e) == hist' = Append(hist, e)

SNext ==
    /\ Len(hist) <= ScenLen
    /\ \/ \E r \in Roots :
            \/ BlockEvent(r) /\ H([ev |-> "BlockEvent", root |-> r])
            \/ LookupHit(r) /\ H([ev |-> "Lookup", root |-> r, fetch |-> "none"])
            \/ LookupMissOk(r) /\ H([ev |-> "Lookup", root |-> r, fetch |-> "ok"])
            \/ LookupMissErr(r) /\ H([ev |-> "Lookup", root |-> r, fetch |-> "err"])
            \/ CtlBlockEvent(r) /\ H([ev |-> "CtlBlockEvent", root |-> r])
            \/ \E ok \in BOOLEAN : HeadEvent(r, ok) /\ map' = map /\ H([ev |-> "HeadEvent", root |-> r, ok |-> ok])
            \/ CtlHeadEvent(r) /\ map' = map /\ H([ev |-> "CtlHeadEvent", root |-> r])
       \* one consumer call per state, drawn at random (the simulator picks uniformly among successors: the few
       \* hundred combinations of strategy, answers and fetch outcome would crowd out every other step)
       \/ LET kind == RandomElement({"latest", "majority", "best"})
              A == RandomElement([1..UseNodes -> Roots])
              ok == RandomElement(BOOLEAN)
          IN Use(kind, A, ok) /\ H([ev |-> "Use", kind |-> kind, roots |-> A, ok |-> ok])
       \/ ExecHead /\ H([ev |-> "ExecHead"])
       \/ Clean /\ H([ev |-> "Clean"])
       \/ \E t \in Nows : Advance(t) /\ H([ev |-> "Advance", now |-> t])

SSpec == SInit /\ [][SNext]_svars

Emit == (Len(hist) = ScenLen + 1) => PrintT(ToJson(hist))
=============================================================================
