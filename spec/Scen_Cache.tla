----------------------------- MODULE Scen_Cache -----------------------------
(* Scenario generator: behaviours of Cache with a history variable; every behaviour of length   *)
(* ScenLen is printed as JSON (simulation mode) and replayed on the real cache by the Go driver.*)
EXTENDS Cache, Json

CONSTANT ScenLen
VARIABLE hist
svars == <<vars, hist>>

SInit == Init /\ hist = <<[ev |-> "Reset", chain |-> [r \in Roots |-> chain[r]], now |-> now]>>

H(e) == hist' = Append(hist, e)

SNext ==
    /\ Len(hist) <= ScenLen
    /\ \/ \E r \in Roots :
            \/ BlockEvent(r) /\ H([ev |-> "BlockEvent", root |-> r])
            \/ LookupHit(r) /\ H([ev |-> "Lookup", root |-> r, fetch |-> "none"])
            \/ LookupMissOk(r) /\ H([ev |-> "Lookup", root |-> r, fetch |-> "ok"])
            \/ LookupMissErr(r) /\ H([ev |-> "Lookup", root |-> r, fetch |-> "err"])
       \/ Clean /\ H([ev |-> "Clean"])
       \/ \E t \in Nows : Advance(t) /\ H([ev |-> "Advance", now |-> t])

SSpec == SInit /\ [][SNext]_svars

Emit == (Len(hist) = ScenLen + 1) => PrintT(ToJson(hist))
=============================================================================
