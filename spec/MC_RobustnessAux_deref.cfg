SPECIFICATION ASpec
CONSTANTS
  Designs = {"deref"}
  Alphabet = {"ok", "empty", "slow", "error", "timeout", "canceled", "notactive", "down"}
INVARIANTS ATypeOK KeepsRunning
CHECK_DEADLOCK FALSE
