------------------------------- MODULE Bounded -------------------------------
(* Long-run bookkeeping of Vouch (property C20): the DOMAINS of the per-slot / per-epoch maps, the *)
(* attestation part of the job table and the pending-attestation marks, over any number of epochs. *)
(*                                                                                                 *)
(*   attjobs    slots with an "Attestations for slot N" job in the scheduler's table                *)
(*   prepjobs   epochs with a "Prepare for epoch N" job                                             *)
(*   running    slots whose attestation job body is executing (left the table, not yet returned)    *)
(*   pend       controller: pendingAttestations (what HasPendingAttestations reports)               *)
(*   attested   attester: DOMAIN attested (epochs)                                                  *)
(*   subs       controller: DOMAIN subscriptionInfos (epochs)                                       *)
(*   roots      sync committee aggregator: DOMAIN beaconBlockRoots (slots)                          *)
(*   records    sync committee messenger: DOMAIN slotDataRecords (slots)                            *)
(*   bids       block relay: DOMAIN builderBidsCache (slots)                                        *)
(*   njobs      number of one-off jobs in the scheduler's table (all kinds)                         *)
(*                                                                                                 *)
(* One action per entry point of the code that touches this bookkeeping:                            *)
(*   Start            controller New: duties of the current and next epoch, subscriptions           *)
(*   Tick             epoch ticker: sets up "Prepare for epoch e+1"                                 *)
(*   Prepare(e)       prepareForEpoch: scheduleAttestations(e) + subscribeToBeaconCommittees(e)     *)
(*   HeadEvent(R)       HandleHeadEvent; R = epochs whose attester duties it refreshes (reorg):       *)
(*                    cancel their jobs, fetch, reschedule, resubscribe; subscription and           *)
(*                    (with inclusion verification) slot data housekeeping                          *)
(*   Resched(E)       the second half of a refresh whose duty request the node answered late: the   *)
(*                    jobs of the epochs E are set up (HeadEvent then was the cancel half only)     *)
(*   AttStart(s)      the attestation job of slot s starts: leaves the table, attester notes epoch  *)
(*   AttEnd(s, ok)    AttestAndScheduleAggregate returns: mark cleared, attester housekeeping       *)
(*                    Attestation jobs have DURATION: between AttStart(s) and AttEnd(s) any other    *)
(*                    step may happen - head events that refresh the epoch of s (CancelJob for s     *)
(*                    fails: the job has left the table, it is neither withdrawn nor finished),     *)
(*                    the late reschedule, the start of the next slot's job, the clock, probes.     *)
(*   Probe            HasPendingAttestations is consulted (a shutdown was requested): no change     *)
(*   SyncMsg(s, ok)   messenger Message: head root noted for aggregation, slot data recorded        *)
(*   SyncAgg(s)       aggregator Aggregate (only when a validator is an aggregator): root consumed  *)
(*   Auction(s)       block relay AuctionBlock: winning (or dummy) bid cached                       *)
(*   Advance          the clock                                                                     *)
(*                                                                                                 *)
(* Every action takes the post-state q of the bookkeeping as a parameter and only says what ANY     *)
(* implementation may do (Allowed): an entry appears only for the key the action is about, a job    *)
(* disappears only by firing or by being withdrawn in that step; entries may be removed at any      *)
(* time (housekeeping is free).  The property is the invariants below.  Design(...) is one concrete *)
(* housekeeping design ("design": window pruning, mark cleared with the withdrawn job - the         *)
(* repaired code; "pinned": the code as found; "clearall": the refresh clears the mark of EVERY     *)
(* slot of the epoch, whether or not its CancelJob succeeded - a self-check: it must violate        *)
(* PendingExact, and only in states with a running job); the exhaustive runs use it to choose q,    *)
(* trace validation takes q from what the real services did.                                        *)
EXTENDS Integers, FiniteSets, Sequences, TLC

CONSTANTS P,         \* slots per epoch
          EP,        \* epochs per sync committee period
          G,         \* Env_OutageBounded: at most G consecutive epochs without any head event, and
                     \* at most G consecutive epochs in which attestations ran but none succeeded
          StartSlots,\* slots at which the service may be started
          MaxSlot,   \* last slot explored
          Mode,      \* "design" | "pinned" | "clearall" (which concrete housekeeping Design(...) is)
          RecMax, RecKeep,      \* slotDataRecords clean-up thresholds of the code (100, 32)
          RootKeep, BidKeep,    \* windows (slots) of the design's prune-on-insert
          KRoots, KBids,        \* bounds (cardinalities) the property is checked with
          Menu,                 \* duty patterns: set of subsets of 0..P-1 (slot offsets with a duty)
          Moods,                \* per-epoch environment: "quiet" (no head event), "plain" (head events, no
                                \* reorg), "reorg" (head events that may refresh duties)
          MaxReorgs,            \* refreshing head events per epoch
          Fams                  \* families explored: "att" (duties, marks, attester, subscriptions), "sync" (sync
                                \* committee maps), "bids" (block relay), "all" (everything together; simulation)

VARIABLES now, up, verify, aggmode,
          attjobs, prepjobs, running, pend, attested, subs, roots, records, bids, njobs,
          env       \* scheduling scaffold of the exhaustive / simulated runs (not part of the bookkeeping)

maps == <<attjobs, prepjobs, pend, attested, subs, roots, records, bids, njobs>>
vars == <<now, up, verify, aggmode, running, maps, env>>

Epoch(s) == s \div P
First(e) == e * P
SlotsOf(e) == First(e) .. (First(e) + P - 1)
SlotsOfAll(R) == UNION {SlotsOf(e) : e \in R}

\* bounds of the property: a fixed window of recent slots / epochs
KAtt == 4 + G                    \* previous, current epoch, one being noted, one slack + outage
KSub == 4 + G                    \* previous, current, next epoch, one slack + outage
KRecords == RecMax + RecKeep     \* 132 with the code's thresholds
KJobs == 2 * EP * P + 2 * P + 16 \* two sync periods of prepare jobs, two epochs of attestations, slack

Q(a, pj, p, at, s, r, c, b, n) ==
    [attjobs |-> a, prepjobs |-> pj, pend |-> p, attested |-> at, subs |-> s, roots |-> r,
     records |-> c, bids |-> b, njobs |-> n]

Cur == Q(attjobs, prepjobs, pend, attested, subs, roots, records, bids, njobs)

\* What any implementation may do in one step: jAdd / jDel attestation jobs that may appear / disappear,
\* pAdd / pDel likewise for prepare jobs, the other sets are the keys that may appear.
Allowed(q, jAdd, jDel, pAdd, pDel, atAdd, sAdd, rAdd, cAdd, bAdd) ==
    /\ q.attjobs \subseteq attjobs \cup jAdd
    /\ (attjobs \ q.attjobs) \subseteq jDel
    /\ q.prepjobs \subseteq prepjobs \cup pAdd
    /\ (prepjobs \ q.prepjobs) \subseteq pDel
    /\ q.pend \subseteq pend \cup q.attjobs       \* a mark appears only with a job
    /\ q.attested \subseteq attested \cup atAdd
    /\ q.subs \subseteq subs \cup sAdd
    /\ q.roots \subseteq roots \cup rAdd
    /\ q.records \subseteq records \cup cAdd
    /\ q.bids \subseteq bids \cup bAdd
    /\ q.njobs \in Nat

Apply(q) ==
    /\ attjobs' = q.attjobs /\ prepjobs' = q.prepjobs /\ pend' = q.pend /\ attested' = q.attested
    /\ subs' = q.subs /\ roots' = q.roots /\ records' = q.records /\ bids' = q.bids /\ njobs' = q.njobs

Future(R) == {s \in SlotsOfAll(R) : s >= now}

-----------------------------------------------------------------------------
(* Actions.  F = epochs whose attester duties the step fetched (and subscribed to).                *)

Start(F, q) ==
    /\ ~up
    /\ up' = TRUE
    /\ Allowed(q, Future(F), {}, {}, {}, {}, F, {}, {}, {})
    /\ Apply(q)
    /\ UNCHANGED <<now, verify, aggmode, running>>

Tick(q) ==
    /\ up
    /\ Allowed(q, {}, {}, {Epoch(now) + 1}, {}, {}, {}, {}, {}, {})
    /\ Apply(q)
    /\ UNCHANGED <<now, up, verify, aggmode, running>>

\* fired = FALSE: there was no such job (nothing happens)
Prepare(e, fired, F, q) ==
    /\ up
    /\ fired <=> e \in prepjobs
    /\ IF fired
         THEN /\ F \subseteq {e}
              /\ e \notin q.prepjobs
              /\ Allowed(q, Future(F), {}, {}, {e}, {}, F, {}, {}, {})
         ELSE Allowed(q, {}, {}, {}, {}, {}, {}, {}, {}, {})
    /\ Apply(q)
    /\ UNCHANGED <<now, up, verify, aggmode, running>>

HeadEvent(F, q) ==
    /\ up
    /\ F \subseteq {Epoch(now), Epoch(now) + 1}
    /\ Allowed(q, Future(F), SlotsOfAll(F), {}, {}, {}, F, {}, {}, {})
    /\ Apply(q)
    /\ UNCHANGED <<now, up, verify, aggmode, running>>

\* The node answered the refresh's duty request late: HeadEvent(F) was the cancel half (the jobs of F
\* withdrawn, the request made), this is the reschedule half for the epochs E.
Resched(E, q) ==
    /\ up
    /\ Allowed(q, Future(E), {}, {}, {}, {}, E, {}, {}, {})
    /\ Apply(q)
    /\ UNCHANGED <<now, up, verify, aggmode, running>>

\* HasPendingAttestations is consulted (main.go does on SIGTERM): nothing may appear
Probe(q) ==
    /\ up
    /\ Allowed(q, {}, {}, {}, {}, {}, {}, {}, {}, {})
    /\ Apply(q)
    /\ UNCHANGED <<now, up, verify, aggmode, running>>

AttStart(s, q) ==
    /\ up
    /\ s \in attjobs
    /\ s \notin q.attjobs
    /\ running' = running \cup {s}
    /\ Allowed(q, {}, {s}, {}, {}, {Epoch(s)}, {}, {}, {}, {})
    /\ Apply(q)
    /\ UNCHANGED <<now, up, verify, aggmode>>

AttEnd(s, q) ==
    /\ up
    /\ s \in running
    /\ running' = running \ {s}
    /\ Allowed(q, {}, {}, {}, {}, {Epoch(s)}, {}, {}, {}, {})
    /\ Apply(q)
    /\ UNCHANGED <<now, up, verify, aggmode>>

\* the whole job at once (when the driver could not stop it at the node)
AttWhole(s, q) ==
    /\ up
    /\ s \in attjobs
    /\ s \notin q.attjobs
    /\ Allowed(q, {}, {s}, {}, {}, {Epoch(s)}, {}, {}, {}, {})
    /\ Apply(q)
    /\ UNCHANGED <<now, up, verify, aggmode, running>>

SyncMsg(s, fired, q) ==
    /\ up
    /\ IF fired
         THEN Allowed(q, {}, {}, {}, {}, {}, {}, {s}, {s}, {})
         ELSE Allowed(q, {}, {}, {}, {}, {}, {}, {}, {}, {})
    /\ Apply(q)
    /\ UNCHANGED <<now, up, verify, aggmode, running>>

SyncAgg(s, q) ==
    /\ up
    /\ Allowed(q, {}, {}, {}, {}, {}, {}, {}, {}, {})
    /\ Apply(q)
    /\ UNCHANGED <<now, up, verify, aggmode, running>>

Auction(s, q) ==
    /\ Allowed(q, {}, {}, {}, {}, {}, {}, {}, {}, {s})
    /\ Apply(q)
    /\ UNCHANGED <<now, up, verify, aggmode, running>>

Advance(q) ==
    /\ now' = now + 1
    /\ Allowed(q, {}, {}, {}, {}, {}, {}, {}, {}, {})
    /\ Apply(q)
    /\ UNCHANGED <<up, verify, aggmode, running>>

-----------------------------------------------------------------------------
(* The property.                                                                                    *)

TypeOK ==
    /\ now \in Nat /\ up \in BOOLEAN /\ verify \in BOOLEAN
    /\ njobs \in Nat
    /\ running \subseteq Nat

\* C20: "the bookkeeping Vouch keeps per slot, epoch or job ... do[es] not grow beyond what a fixed
\* window of recent slots needs"
AttestedBounded == Cardinality(attested) <= KAtt
SubsBounded == Cardinality(subs) <= KSub
RootsBounded == Cardinality(roots) <= KRoots
RecordsBounded == Cardinality(records) <= KRecords
BidsBounded == Cardinality(bids) <= KBids
JobsBounded == njobs <= KJobs

\* C20: "A slot is reported as having pending attestations exactly from the moment its attestation job
\* is set up until that job has finished or been withdrawn"
\* It is an invariant of EVERY state, in particular of those in which a job is running: a refresh, a
\* late reschedule, another job's start or end, the clock must leave the mark of a running job alone.
PendingExact == pend = attjobs \cup running

\* What an observer that only looks when no job is running can see of it (the first version of this check:
\* the driver ran every job to its end before the next stimulus).  The "clearall" housekeeping satisfies
\* this and violates PendingExact: the difference is the reason for giving jobs duration.
PendingExactAtRest == running = {} => PendingExact

\* (model sanity, exhaustive runs only) a job that runs has left the table
RunningLeftTable == attjobs \cap running = {}

-----------------------------------------------------------------------------
(* A concrete housekeeping design, used by the exhaustive and simulated runs to choose q.          *)

Keep(S, lo) == {x \in S : x >= lo}

HkEpochs(S, e) ==                         \* attested (on a successful Attest), subscriptionInfos (on a head event)
    IF Mode = "pinned" THEN S \ {e - 2}   \* the code as found: exactly epoch - 2
    ELSE Keep(S, e - 1)                   \* everything older than the previous epoch
HkRoots(S, s) == IF Mode = "pinned" THEN S ELSE Keep(S, s - RootKeep)
Clean(S, s) == IF Cardinality(S) > RecMax THEN Keep(S, s - RecKeep) ELSE S    \* RemoveHistoricDataUsedForSlotVerification
HkRecords(S, s) == IF Mode = "pinned" THEN S ELSE Clean(S, s)
HkBids(S, s) == IF Mode = "pinned" THEN S ELSE Keep(S, s - BidKeep)
\* cancelled = the slots whose CancelJob succeeded, F = the refreshed epochs
Unmark(p, cancelled, F) ==
    CASE Mode = "pinned" -> p
      [] Mode = "clearall" -> p \ SlotsOfAll(F)       \* also the slot of a running job (CancelJob failed)
      [] OTHER -> p \ cancelled

Count(a, pj) == Cardinality(a) + Cardinality(pj)

\* D: epoch -> set of slots with a duty (the node's reply)
DStart(D) ==
    LET e == Epoch(now)
        a == {s \in D[e] : s > now} \cup D[e + 1]
    IN Q(a, {}, a, {}, {e, e + 1}, {}, {}, {}, Count(a, {}))

DTick ==
    LET pj == prepjobs \cup {Epoch(now) + 1}
    IN [Cur EXCEPT !.prepjobs = pj, !.njobs = Count(attjobs, pj)]

DPrepare(e, d) ==
    LET a == attjobs \cup {s \in d : s >= now}
        pj == prepjobs \ {e}
    IN [Cur EXCEPT !.attjobs = a, !.prepjobs = pj, !.pend = pend \cup (a \ attjobs),
                   !.subs = subs \cup {e}, !.njobs = Count(a, pj)]

\* refresh of the epochs in F (an epoch that is not prepared yet is left alone by the code): cancel each
\* slot's job (succeeds exactly for the jobs in the table - not for a job that is running), fetch, set up
\* the jobs of the new duties (the current slot only if its job was cancelled).  split: the node answers
\* the fetch late, the head event ends with the jobs cancelled; DResched is the rest.
DHead(F, D, split) ==
    LET cancelled == attjobs \cap SlotsOfAll(F)
        added == IF split THEN {}
                 ELSE {s \in UNION {D[e] : e \in F} : s > now \/ (s = now /\ now \in cancelled)}
        a == (attjobs \ cancelled) \cup added
    IN [Cur EXCEPT !.attjobs = a,
                   !.pend = Unmark(pend, cancelled, F) \cup added,
                   !.subs = HkEpochs(subs \cup F, Epoch(now)),
                   !.records = IF verify THEN Clean(records, now) ELSE records,
                   !.njobs = Count(a, prepjobs)]

\* r = [e, cur, d]: refresh of epoch e under way, cur = the current slot's job was cancelled, d = new duties
DResched(r) ==
    LET added == {s \in r.d : s > now \/ (s = now /\ r.cur)}
        a == attjobs \cup added
    IN [Cur EXCEPT !.attjobs = a, !.pend = pend \cup added, !.njobs = Count(a, prepjobs)]

DAttStart(s) ==
    [Cur EXCEPT !.attjobs = attjobs \ {s}, !.attested = attested \cup {Epoch(s)},
                !.njobs = Count(attjobs \ {s}, prepjobs)]

DAttEnd(s, ok) ==
    [Cur EXCEPT !.pend = pend \ {s},
                !.attested = IF ok THEN HkEpochs(attested, Epoch(s)) ELSE attested]

DSyncMsg(s, ok) ==
    IF ok THEN [Cur EXCEPT !.roots = HkRoots(roots \cup {s}, s), !.records = HkRecords(records \cup {s}, s)]
    ELSE Cur

DSyncAgg(s) == [Cur EXCEPT !.roots = roots \ {s}]

DAuction(s) == [Cur EXCEPT !.bids = HkBids(bids \cup {s}, s)]

-----------------------------------------------------------------------------
(* Closed system for TLC: the environment's choices and a timely scheduler.                         *)
(* env: ticked = last epoch the ticker ran for, did = once-per-slot steps done in this slot,        *)
(* headE / attE / okE = this epoch had a head event / an attestation run / a successful one,        *)
(* hgap / fgap = consecutive finished epochs without head event / with attestations but no success, *)
(* okrun = running jobs whose attestation will succeed, refr = refreshes whose reschedule half is    *)
(* outstanding (the node answers within the slot).                                                  *)
(* Jobs have duration: a job may still run when the next slot begins (it ends in that slot); head   *)
(* events (with and without refresh), late reschedules, the next job's start, sync committee steps, *)
(* probes and the clock interleave with running jobs.                                               *)

IsAgg(s) == aggmode = "always" \/ (aggmode = "third" /\ s % 3 = 0)

HasAtt == env.fam \in {"att", "all"}
HasSync == env.fam \in {"sync", "all"}
Duties(e) == IF HasAtt THEN {{First(e) + o : o \in m} : m \in Menu} ELSE {{}}

Env0 == [ticked |-> -1, did |-> {}, headE |-> FALSE, attE |-> FALSE, okE |-> FALSE, hgap |-> 0, fgap |-> 0,
         fam |-> "all", okrun |-> {}, refr |-> {}, mood |-> "reorg", reorgs |-> 0]

Init ==
    /\ now \in StartSlots
    /\ up = FALSE
    /\ attjobs = {} /\ prepjobs = {} /\ running = {} /\ pend = {} /\ attested = {} /\ subs = {}
    /\ roots = {} /\ records = {} /\ bids = {} /\ njobs = 0
    /\ env \in {[Env0 EXCEPT !.fam = f] : f \in Fams}
    /\ IF HasSync THEN verify \in BOOLEAN /\ aggmode \in {"never", "third", "always"}
       ELSE verify = FALSE /\ aggmode = "never"

Did(x) == env' = [env EXCEPT !.did = @ \cup {x}]

DutyMap(d0, d1) == [e \in {Epoch(now), Epoch(now) + 1} |-> IF e = Epoch(now) THEN d0 ELSE d1]

NStart(d0, d1) ==
    /\ env.fam # "bids"
    /\ d0 \in Duties(Epoch(now)) /\ d1 \in Duties(Epoch(now) + 1)
    /\ Start({Epoch(now), Epoch(now) + 1}, DStart(DutyMap(d0, d1)))
    /\ env' = [env EXCEPT !.ticked = Epoch(now)]

NTick ==
    /\ up /\ now = First(Epoch(now)) /\ env.ticked < Epoch(now)
    /\ Tick(DTick)
    /\ env' = [env EXCEPT !.ticked = Epoch(now)]

PrepDue == (Epoch(now) + 1) \in prepjobs /\ now >= First(Epoch(now)) + (P \div 2)

NPrepare(d) ==
    /\ up /\ PrepDue
    /\ d \in Duties(Epoch(now) + 1)
    /\ Prepare(Epoch(now) + 1, TRUE, {Epoch(now) + 1}, DPrepare(Epoch(now) + 1, d))
    /\ UNCHANGED env

\* F = epochs whose duties the head event makes the controller refresh (their dependent root changed);
\* d0 / d1 = the new duties of the current / next epoch (empty when not refreshed)
NHead(F, d0, d1, split) ==
    /\ up /\ "head" \notin env.did
    /\ env.mood # "quiet"
    /\ F \in SUBSET {Epoch(now), Epoch(now) + 1}
    /\ F # {} => (env.mood = "reorg" /\ env.reorgs < MaxReorgs)
    /\ split \in BOOLEAN /\ (split => (F # {} /\ HasAtt))
    /\ \A r \in env.refr : r.e \notin F
    \* the next epoch is refreshed only when it has been prepared (this epoch's tick has set up its prepare job
    \* and that job has run), and - as the code notices a change of the current dependent root only on a head
    \* event that is not the first of its epoch - after an earlier head event of this epoch
    /\ (Epoch(now) + 1) \in F => ((Epoch(now) + 1) \notin prepjobs /\ env.ticked = Epoch(now) /\ env.headE)
    /\ d0 \in Duties(Epoch(now)) /\ d1 \in Duties(Epoch(now) + 1)
    /\ (Epoch(now) \notin F => d0 = {}) /\ ((Epoch(now) + 1) \notin F => d1 = {})   \* canonical
    /\ HeadEvent(F, DHead(F, DutyMap(d0, d1), split))
    /\ env' = [env EXCEPT !.did = @ \cup {"head"}, !.headE = TRUE, !.reorgs = IF F = {} THEN @ ELSE @ + 1,
                          !.refr = IF split
                                     THEN @ \cup {[e |-> e, cur |-> (e = Epoch(now) /\ now \in attjobs),
                                                   d |-> DutyMap(d0, d1)[e]] : e \in F}
                                     ELSE @]

NResched(r) ==
    /\ up /\ r \in env.refr
    /\ Resched({r.e}, DResched(r))
    /\ env' = [env EXCEPT !.refr = @ \ {r}]

NAttStart(ok) ==
    /\ up /\ now \in attjobs
    /\ AttStart(now, DAttStart(now))
    /\ ok \in BOOLEAN
    /\ ~ok => (env.okE \/ env.fgap < G)          \* Env_OutageBounded
    /\ env' = [env EXCEPT !.okrun = IF ok THEN @ \cup {now} ELSE @, !.attE = TRUE]

NAttEnd(s) ==
    /\ up /\ s \in running
    /\ AttEnd(s, DAttEnd(s, s \in env.okrun))
    /\ env' = [env EXCEPT !.okE = @ \/ (s \in env.okrun), !.okrun = @ \ {s}]

\* a shutdown is requested while an attestation is in flight
NProbe ==
    /\ up /\ running # {}
    /\ Probe(Cur)
    /\ UNCHANGED env

NSyncMsg(ok) ==
    /\ up /\ HasSync /\ "msg" \notin env.did
    /\ ok \in BOOLEAN
    /\ ~ok => env.mood = "quiet"                  \* the node fails to give its head root during an outage only
    /\ SyncMsg(now, TRUE, DSyncMsg(now, ok))
    /\ env' = [env EXCEPT !.did = @ \cup (IF ok THEN {"msg", "msgok"} ELSE {"msg"})]

NSyncAgg ==
    /\ up /\ "msgok" \in env.did /\ "agg" \notin env.did /\ IsAgg(now)
    /\ SyncAgg(now, DSyncAgg(now))
    /\ Did("agg")

\* the timely scheduler has started everything that is due in this slot; an attestation started in this
\* slot may still be running (it ends in the next slot, and within its epoch), one started earlier has
\* ended; the node has answered
SlotDone ==
    /\ now \notin attjobs /\ env.refr = {}
    /\ running \subseteq (IF Epoch(now + 1) = Epoch(now) THEN {now} ELSE {})
    /\ ~PrepDue
    /\ HasSync => "msg" \in env.did
    /\ ("msgok" \in env.did /\ IsAgg(now)) => "agg" \in env.did
    /\ (now = First(Epoch(now))) => env.ticked = Epoch(now)

NAdvance ==
    /\ now < MaxSlot
    /\ env.fam # "bids" => (up /\ SlotDone)
    /\ Advance(Cur)
    /\ IF Epoch(now + 1) = Epoch(now)
         THEN env' = [env EXCEPT !.did = {}]
         ELSE \E m \in Moods :
              LET hg == IF env.headE THEN 0 ELSE env.hgap + 1 IN
              /\ env.fam # "bids" => (env.headE \/ env.hgap < G)             \* Env_OutageBounded
              /\ (m = "quiet" /\ env.fam # "bids") => hg < G
              /\ env.fam = "bids" => m = "plain"
              /\ env' = [env EXCEPT !.did = {}, !.headE = FALSE, !.attE = FALSE, !.okE = FALSE,
                                    !.hgap = hg, !.mood = m, !.reorgs = 0,
                                    !.fgap = IF env.attE /\ ~env.okE THEN @ + 1 ELSE IF env.okE THEN 0 ELSE @]

NAuction ==
    /\ env.fam = "bids" /\ "auction" \notin env.did
    /\ Auction(now, DAuction(now))
    /\ Did("auction")

AllDuties == {{First(e) + o : o \in m} : m \in Menu, e \in {Epoch(now), Epoch(now) + 1}} \cup {{}}

Next ==
    \/ \E d0, d1 \in AllDuties : NStart(d0, d1)
    \/ NTick
    \/ \E d \in AllDuties : NPrepare(d)
    \/ \E F \in SUBSET {Epoch(now), Epoch(now) + 1} : \E d0, d1 \in AllDuties : \E split \in BOOLEAN :
         NHead(F, d0, d1, split)
    \/ \E r \in env.refr : NResched(r)
    \/ \E ok \in BOOLEAN : NAttStart(ok)
    \/ \E s \in running : NAttEnd(s)
    \/ NProbe
    \/ \E ok \in BOOLEAN : NSyncMsg(ok)
    \/ NSyncAgg \/ NAdvance \/ NAuction

Spec == Init /\ [][Next]_vars

\* Reachability witnesses (each must be VIOLATED by the exhaustive run of the design, else the model does
\* not contain the situation): a refresh has cancelled the jobs of an epoch while the job of one of its
\* slots is running - CancelJob for that slot failed; the same with the running job's slot among the new
\* duties and the reschedule outstanding; two jobs running at once.
NeverRefreshOverRunning == ~(\E r \in env.refr : \E s \in running : Epoch(s) = r.e /\ s \notin attjobs)
NeverReschedOverRunning == ~(\E r \in env.refr : \E s \in running : s \in r.d)
NeverTwoRunning == Cardinality(running) < 2
=============================================================================
