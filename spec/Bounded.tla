------------------------------- MODULE Bounded -------------------------------
(* Long-run bookkeeping of Vouch (property C20): the DOMAINS of the per-slot / per-epoch maps, the *)
(* attestation part of the job table and the pending-attestation marks, over any number of epochs. *)
(*                                                                                                 *)
(*   attjobs    slots with an "Attestations for slot N" job in the scheduler's table                *)
(*   prepjobs   epochs with a "Prepare for epoch N" job                                             *)
(*   running    slots whose attestation job body is executing (left the table, not yet returned)    *)
(*   pend       controller: pendingAttestations (what HasPendingAttestations reports)               *)
(*   attested   attester: DOMAIN attested (epochs)                                                  *)
(*   subs       controller: DOMAIN subscriptionInfos (epochs)                                       *)
(*   roots      sync committee aggregator: DOMAIN beaconBlockRoots (slots)                          *)
(*   records    sync committee messenger: DOMAIN slotDataRecords (slots)                            *)
(*   bids       block relay: DOMAIN builderBidsCache (slots)                                        *)
(*   njobs      number of one-off jobs in the scheduler's table (all kinds)                         *)
(*                                                                                                 *)
(* One action per entry point of the code that touches this bookkeeping:                            *)
(*   Start            controller New: duties of the current and next epoch, subscriptions           *)
(*   Tick             epoch ticker: sets up "Prepare for epoch e+1"                                 *)
(*   Prepare(e)       prepareForEpoch: scheduleAttestations(e) + subscribeToBeaconCommittees(e)     *)
(*   HeadEvent(R)       HandleHeadEvent; R = epochs whose attester duties it refreshes (reorg):       *)
(*                    cancel their jobs, fetch, reschedule, resubscribe; subscription and           *)
(*                    (with inclusion verification) slot data housekeeping                          *)
(*   PassEnd(w)       SCHEDULING PASSES ARE PROCESSES.  Every scheduleAttestations(e) call - the    *)
(*                    two of start-up, the one of "Prepare for epoch", the one of each refresh -    *)
(*                    first asks the node for the duties (the request has DURATION: passes = the    *)
(*                    passes whose request is with the node, [e, n]), then makes the note for each  *)
(*                    slot and asks the scheduler for its job (answer: ok, or "exists" when another *)
(*                    pass for the same epoch has set the job up meanwhile).  Start / Prepare /     *)
(*                    HeadEvent take W = the passes they start and the node keeps back; PassEnd(w)  *)
(*                    is the node's answer to pass w: its notes and jobs appear then.  Passes for   *)
(*                    ONE epoch OVERLAP: the start-up or Prepare pass still waiting when a reorg    *)
(*                    refresh of that epoch arrives (which cancels, and starts its own pass), two   *)
(*                    refreshes one after the other; they end in any order.  PendingExact is judged *)
(*                    in every state of every overlap.  (Resched(E) = the former name: one pass per *)
(*                    epoch.)                                                                       *)
(*   AttStart(s)      the attestation job of slot s starts: leaves the table, attester notes epoch  *)
(*   AttEnd(s, ok)    AttestAndScheduleAggregate returns: mark cleared, attester housekeeping       *)
(*                    Attestation jobs have DURATION: between AttStart(s) and AttEnd(s) any other    *)
(*                    step may happen - head events that refresh the epoch of s (CancelJob for s     *)
(*                    fails: the job has left the table, it is neither withdrawn nor finished),     *)
(*                    the late reschedule, the start of the next slot's job, the clock, probes.     *)
(*   Probe            HasPendingAttestations is consulted (a shutdown was requested): no change     *)
(*   MsgStart(s)      the sync committee message job of slot s starts: messenger Message asks the   *)
(*                    node for its head root                                                        *)
(*   MsgEnd(s)        the node answers: head root noted for aggregation (SetBeaconBlockRoot(s)),    *)
(*                    slot data recorded (slotDataRecords[s]), messages signed and sent             *)
(*                    Sync committee message jobs have DURATION and complete OUT OF ORDER: the      *)
(*                    scheduler runs one Message() per slot in its own goroutine on the ONE         *)
(*                    messenger / aggregator pair, a call returns when the node answers - the       *)
(*                    request of slot N may be answered after those of later slots (up to several   *)
(*                    epochs late), two neighbouring slots in reverse order.  msgrun = the slots    *)
(*                    whose request is with the node.                                               *)
(*   SyncMsg(s, ok)   MsgStart and MsgEnd at once                                                   *)
(*   SyncAgg(s)       aggregator Aggregate (only when a validator is an aggregator): root consumed  *)
(*   AucStart(s) / AucEnd(s)  block relay AuctionBlock: the auction is with the relays / winning    *)
(*                    (or dummy) bid cached; Auction(s) = both at once.  aucrun likewise.           *)
(*   SubEnd(e)        the beacon committee subscription of epoch e that a Prepare step started and  *)
(*                    the node kept back completes: subscriptionInfos[e] is set.  subrun likewise.  *)
(*   Advance          the clock                                                                     *)
(*                                                                                                 *)
(* The INSTANCE is long-lived: one behaviour = the whole life of one controller / attester /        *)
(* messenger / aggregator / block relay set; everything the services carry from call to call is in  *)
(* the maps below (their domains), and the bound invariants are judged in EVERY state - also while  *)
(* calls of several slots are under way and after they have completed in any order.  No action's    *)
(* envelope (Allowed) depends on the order in which earlier calls completed.                        *)
(*                                                                                                 *)
(* Every action takes the post-state q of the bookkeeping as a parameter and only says what ANY     *)
(* implementation may do (Allowed): an entry appears only for the key the action is about, a job    *)
(* disappears only by firing or by being withdrawn in that step; entries may be removed at any      *)
(* time (housekeeping is free).  The property is the invariants below.  Design(...) is one concrete *)
(* housekeeping design ("design": window pruning, mark cleared with the withdrawn job - the         *)
(* repaired code; "pinned": the code as found; "clearall": the refresh clears the mark of EVERY     *)
(* slot of the epoch, whether or not its CancelJob succeeded - a self-check: it must violate        *)
(* PendingExact, and only in states with a running job; "schederr": a scheduling pass whose          *)
(* ScheduleJob is answered "exists" takes its note back - a third self-check: right as long as the  *)
(* passes for one epoch never overlap, it must violate PendingExact once they do; "sweep": head     *)
(* roots, builder bids and                                                                          *)
(* subscription infos are pruned with a CARRIED LOW-WATER MARK that assumes entries arrive in key   *)
(* order - a second self-check: right whenever calls complete in slot order, it must violate        *)
(* RootsBounded / BidsBounded / SubsBounded once they do not); the exhaustive runs use it to choose *)
(* q, trace validation takes q from what the real services did.                                     *)
EXTENDS Integers, FiniteSets, Sequences, TLC

CONSTANTS P,         \* slots per epoch
          EP,        \* epochs per sync committee period
          G,         \* Env_OutageBounded: at most G consecutive epochs without any head event, and
                     \* at most G consecutive epochs in which attestations ran but none succeeded
          StartSlots,\* slots at which the service may be started
          MaxSlot,   \* last slot explored
          Mode,      \* "design" | "pinned" | "clearall" | "schederr" | "sweep" (which concrete housekeeping Design(...) is)
          RecMax, RecKeep,      \* slotDataRecords clean-up thresholds of the code (100, 32)
          RootKeep, BidKeep,    \* windows (slots) of the design's prune-on-insert
          KRoots, KBids,        \* bounds (cardinalities) the property is checked with
          Menu,                 \* duty patterns: set of subsets of 0..P-1 (slot offsets with a duty)
          Moods,                \* per-epoch environment: "quiet" (no head event), "plain" (head events, no
                                \* reorg), "reorg" (head events that may refresh duties)
          MaxReorgs,            \* refreshing head events per epoch
          MsgLates, AucLates,   \* how many slots after its own a head root request / an auction may be answered
          SubLates, AttLates,   \* (0 = within its slot), likewise the subscription a Prepare step starts and
                                \* (beyond "into the next slot of its epoch") an attestation job
          MaxHeld,              \* at most MaxHeld requests of one kind kept back beyond their slot at a time
          MaxPasses,            \* scheduling passes for ONE epoch under way at a time (1 = they never overlap)
          MaxHeads,             \* head events per slot
          HoldKinds,            \* whose scheduling pass the node may keep back: subset of {"start", "prepare", "refresh"}
          Fams                  \* families explored: "att" (duties, marks, attester, subscriptions), "sync" (sync
                                \* committee maps), "bids" (block relay), "all" (everything together; simulation)

VARIABLES now, up, verify, aggmode,
          attjobs, prepjobs, running, pend, attested, subs, roots, records, bids, njobs,
          msgrun,   \* slots whose sync committee message job is running (head root request with the node)
          aucrun,   \* slots whose block auction is running (with the relays)
          subrun,   \* epochs whose beacon committee subscription is under way (kept back by the node)
          passes,   \* scheduling passes (scheduleAttestations calls) whose duties request is with the node:
                    \* [e |-> epoch, n |-> number among the passes of that epoch]
          env       \* scheduling scaffold of the exhaustive / simulated runs (not part of the bookkeeping)

maps == <<attjobs, prepjobs, pend, attested, subs, roots, records, bids, njobs>>
calls == <<msgrun, aucrun, subrun, passes>>       \* calls under way other than attestation jobs
vars == <<now, up, verify, aggmode, running, calls, maps, env>>

Epoch(s) == s \div P
First(e) == e * P
SlotsOf(e) == First(e) .. (First(e) + P - 1)
SlotsOfAll(R) == UNION {SlotsOf(e) : e \in R}

\* bounds of the property: a fixed window of recent slots / epochs
KAtt == 4 + G                    \* previous, current epoch, one being noted, one slack + outage
KSub == 4 + G + MaxHeld          \* previous, current, next epoch, one slack + outage + late arrivals
KRecords == RecMax + RecKeep + MaxHeld   \* 132 with the code's thresholds, + late arrivals (an old slot's record
                                         \* arrives below the clean-up's edge and stays until the next on-time one)
KJobs == 2 * EP * P + 2 * P + 16 \* two sync periods of prepare jobs, two epochs of attestations, slack

Q(a, pj, p, at, s, r, c, b, n) ==
    [attjobs |-> a, prepjobs |-> pj, pend |-> p, attested |-> at, subs |-> s, roots |-> r,
     records |-> c, bids |-> b, njobs |-> n]

Cur == Q(attjobs, prepjobs, pend, attested, subs, roots, records, bids, njobs)

\* What any implementation may do in one step: jAdd / jDel attestation jobs that may appear / disappear,
\* pAdd / pDel likewise for prepare jobs, the other sets are the keys that may appear.
Allowed(q, jAdd, jDel, pAdd, pDel, atAdd, sAdd, rAdd, cAdd, bAdd) ==
    /\ q.attjobs \subseteq attjobs \cup jAdd
    /\ (attjobs \ q.attjobs) \subseteq jDel
    /\ q.prepjobs \subseteq prepjobs \cup pAdd
    /\ (prepjobs \ q.prepjobs) \subseteq pDel
    /\ q.pend \subseteq pend \cup q.attjobs       \* a mark appears only with a job
    /\ q.attested \subseteq attested \cup atAdd
    /\ q.subs \subseteq subs \cup sAdd
    /\ q.roots \subseteq roots \cup rAdd
    /\ q.records \subseteq records \cup cAdd
    /\ q.bids \subseteq bids \cup bAdd
    /\ q.njobs \in Nat

Apply(q) ==
    /\ attjobs' = q.attjobs /\ prepjobs' = q.prepjobs /\ pend' = q.pend /\ attested' = q.attested
    /\ subs' = q.subs /\ roots' = q.roots /\ records' = q.records /\ bids' = q.bids /\ njobs' = q.njobs

Future(R) == {s \in SlotsOfAll(R) : s >= now}

-----------------------------------------------------------------------------
(* Actions.  F = epochs whose attester duties the step fetched (and subscribed to).                *)

\* W = the scheduling passes the step starts and the node keeps back (one per epoch at most, for epochs whose
\* duties the step asked for): their notes and jobs appear with PassEnd, not with this step.
PEpochs(W) == {w.e : w \in W}
StartsPasses(W, F) ==
    /\ W \cap passes = {}
    /\ PEpochs(W) \subseteq F
    /\ \A w1, w2 \in W : w1.e = w2.e => w1 = w2
    /\ passes' = passes \cup W

Start(F, W, q) ==
    /\ ~up
    /\ up' = TRUE
    /\ StartsPasses(W, F)
    /\ Allowed(q, Future(F \ PEpochs(W)), {}, {}, {}, {}, F, {}, {}, {})
    /\ Apply(q)
    /\ UNCHANGED <<now, verify, aggmode, running, msgrun, aucrun, subrun>>

Tick(q) ==
    /\ up
    /\ Allowed(q, {}, {}, {Epoch(now) + 1}, {}, {}, {}, {}, {}, {})
    /\ Apply(q)
    /\ UNCHANGED <<now, up, verify, aggmode, running, calls>>

\* fired = FALSE: there was no such job (nothing happens).  H = the epochs (of F) whose beacon committee
\* subscription the node keeps back: their subscription info appears with SubEnd, not with this step.
Prepare(e, fired, F, H, W, q) ==
    /\ up
    /\ fired <=> e \in prepjobs
    /\ IF fired
         THEN /\ F \subseteq {e} /\ H \subseteq F
              /\ e \notin q.prepjobs
              /\ StartsPasses(W, F)
              /\ Allowed(q, Future(F \ PEpochs(W)), {}, {}, {e}, {}, F \ H, {}, {}, {})
         ELSE H = {} /\ W = {} /\ UNCHANGED passes /\ Allowed(q, {}, {}, {}, {}, {}, {}, {}, {}, {})
    /\ Apply(q)
    /\ subrun' = subrun \cup H
    /\ UNCHANGED <<now, up, verify, aggmode, running, msgrun, aucrun>>

\* the node completes the subscription of epoch e: subscriptionInfos[e] is set - however late that is
SubEnd(e, q) ==
    /\ up
    /\ e \in subrun
    /\ subrun' = subrun \ {e}
    /\ Allowed(q, {}, {}, {}, {}, {}, {e}, {}, {}, {})
    /\ Apply(q)
    /\ UNCHANGED <<now, up, verify, aggmode, running, msgrun, aucrun, passes>>

\* F = the epochs the head event refreshes: the jobs of F may be withdrawn (cancel loop), each refresh starts
\* a scheduling pass; W = those the node keeps back (for them the head event is the cancel half only).  Passes
\* for an epoch of F that are under way already (an earlier refresh, the start-up or Prepare pass) stay so.
HeadEvent(F, W, q) ==
    /\ up
    /\ F \subseteq {Epoch(now), Epoch(now) + 1}
    /\ StartsPasses(W, F)
    /\ Allowed(q, Future(F \ PEpochs(W)), SlotsOfAll(F), {}, {}, {}, F, {}, {}, {})
    /\ Apply(q)
    /\ UNCHANGED <<now, up, verify, aggmode, running, msgrun, aucrun, subrun>>

\* The node answers the duties request of pass w: the pass makes its notes and asks the scheduler for its jobs
\* (each answered ok or exists - the job is then in the table either way).  Whatever other passes for w.e are
\* under way, have ended, or whichever refresh has cancelled jobs since the pass began.
PassEnd(w, q) ==
    /\ up
    /\ w \in passes
    /\ passes' = passes \ {w}
    /\ Allowed(q, Future({w.e}), {}, {}, {}, {}, {w.e}, {}, {}, {})
    /\ Apply(q)
    /\ UNCHANGED <<now, up, verify, aggmode, running, msgrun, aucrun, subrun>>

\* HasPendingAttestations is consulted (main.go does on SIGTERM): nothing may appear
Probe(q) ==
    /\ up
    /\ Allowed(q, {}, {}, {}, {}, {}, {}, {}, {}, {})
    /\ Apply(q)
    /\ UNCHANGED <<now, up, verify, aggmode, running, calls>>

AttStart(s, q) ==
    /\ up
    /\ s \in attjobs
    /\ s \notin q.attjobs
    /\ running' = running \cup {s}
    /\ Allowed(q, {}, {s}, {}, {}, {Epoch(s)}, {}, {}, {}, {})
    /\ Apply(q)
    /\ UNCHANGED <<now, up, verify, aggmode, calls>>

AttEnd(s, q) ==
    /\ up
    /\ s \in running
    /\ running' = running \ {s}
    /\ Allowed(q, {}, {}, {}, {}, {Epoch(s)}, {}, {}, {}, {})
    /\ Apply(q)
    /\ UNCHANGED <<now, up, verify, aggmode, calls>>

\* the whole job at once (when the driver could not stop it at the node)
AttWhole(s, q) ==
    /\ up
    /\ s \in attjobs
    /\ s \notin q.attjobs
    /\ Allowed(q, {}, {s}, {}, {}, {Epoch(s)}, {}, {}, {}, {})
    /\ Apply(q)
    /\ UNCHANGED <<now, up, verify, aggmode, running, calls>>

\* The sync committee message job of slot s: Message() asks the node for its head root (MsgStart), and when
\* the node answers (MsgEnd) notes the root for the aggregation of slot s and records the slot data.  Between
\* the two anything may happen, in particular MsgStart / MsgEnd of OTHER slots: the calls of several slots are
\* under way on the one messenger / aggregator pair and complete in the order the node answers.
MsgStart(s, q) ==
    /\ up
    /\ s \notin msgrun
    /\ msgrun' = msgrun \cup {s}
    /\ Allowed(q, {}, {}, {}, {}, {}, {}, {}, {}, {})
    /\ Apply(q)
    /\ UNCHANGED <<now, up, verify, aggmode, running, aucrun, subrun, passes>>

MsgEnd(s, q) ==
    /\ up
    /\ s \in msgrun
    /\ msgrun' = msgrun \ {s}
    /\ Allowed(q, {}, {}, {}, {}, {}, {}, {s}, {s}, {})
    /\ Apply(q)
    /\ UNCHANGED <<now, up, verify, aggmode, running, aucrun, subrun, passes>>

\* the whole job at once (the node answered before anything else happened; or there was no such job)
SyncMsg(s, fired, q) ==
    /\ up
    /\ IF fired
         THEN Allowed(q, {}, {}, {}, {}, {}, {}, {s}, {s}, {})
         ELSE Allowed(q, {}, {}, {}, {}, {}, {}, {}, {}, {})
    /\ Apply(q)
    /\ UNCHANGED <<now, up, verify, aggmode, running, calls>>

SyncAgg(s, q) ==
    /\ up
    /\ Allowed(q, {}, {}, {}, {}, {}, {}, {}, {}, {})
    /\ Apply(q)
    /\ UNCHANGED <<now, up, verify, aggmode, running, calls>>

\* AuctionBlock(s): the auction is with the relays (AucStart) / the result is cached (AucEnd)
AucStart(s, q) ==
    /\ s \notin aucrun
    /\ aucrun' = aucrun \cup {s}
    /\ Allowed(q, {}, {}, {}, {}, {}, {}, {}, {}, {})
    /\ Apply(q)
    /\ UNCHANGED <<now, up, verify, aggmode, running, msgrun, subrun, passes>>

AucEnd(s, q) ==
    /\ s \in aucrun
    /\ aucrun' = aucrun \ {s}
    /\ Allowed(q, {}, {}, {}, {}, {}, {}, {}, {}, {s})
    /\ Apply(q)
    /\ UNCHANGED <<now, up, verify, aggmode, running, msgrun, subrun, passes>>

Auction(s, q) ==
    /\ Allowed(q, {}, {}, {}, {}, {}, {}, {}, {}, {s})
    /\ Apply(q)
    /\ UNCHANGED <<now, up, verify, aggmode, running, calls>>

Advance(q) ==
    /\ now' = now + 1
    /\ Allowed(q, {}, {}, {}, {}, {}, {}, {}, {}, {})
    /\ Apply(q)
    /\ UNCHANGED <<up, verify, aggmode, running, calls>>

-----------------------------------------------------------------------------
(* The property.                                                                                    *)

TypeOK ==
    /\ now \in Nat /\ up \in BOOLEAN /\ verify \in BOOLEAN
    /\ njobs \in Nat
    /\ running \subseteq Nat /\ msgrun \subseteq Nat /\ aucrun \subseteq Nat /\ subrun \subseteq Nat
    /\ \A w \in passes : w.e \in Nat /\ w.n \in Nat

\* C20: "the bookkeeping Vouch keeps per slot, epoch or job ... do[es] not grow beyond what a fixed
\* window of recent slots needs".  Invariants of EVERY state: also of those in which calls of several slots
\* are under way, and of those after a call for an OLD slot has completed late (its entry arrives below
\* everything a window of recent slots holds; it may stay until the housekeeping next runs, it must not stay
\* for the life of the process: with late answers now and again the count would grow without bound).
\* The constants leave room for the entries of MaxHeld late answers on top of the window.
AttestedBounded == Cardinality(attested) <= KAtt
SubsBounded == Cardinality(subs) <= KSub
RootsBounded == Cardinality(roots) <= KRoots
RecordsBounded == Cardinality(records) <= KRecords
BidsBounded == Cardinality(bids) <= KBids
JobsBounded == njobs <= KJobs

\* C20: "A slot is reported as having pending attestations exactly from the moment its attestation job
\* is set up until that job has finished or been withdrawn"
\* It is an invariant of EVERY state, in particular of those in which a job is running: a refresh, a
\* late reschedule, another job's start or end, the clock must leave the mark of a running job alone.
PendingExact == pend = attjobs \cup running

\* What an observer that only looks when no job is running can see of it (the first version of this check:
\* the driver ran every job to its end before the next stimulus).  The "clearall" housekeeping satisfies
\* this and violates PendingExact: the difference is the reason for giving jobs duration.
PendingExactAtRest == running = {} => PendingExact

\* (model sanity, exhaustive runs only) a job that runs has left the table
RunningLeftTable == attjobs \cap running = {}

-----------------------------------------------------------------------------
(* A concrete housekeeping design, used by the exhaustive and simulated runs to choose q.          *)

Keep(S, lo) == {x \in S : x >= lo}

HkEpochs(S, e) ==                         \* attested (on a successful Attest), subscriptionInfos (on a head event)
    IF Mode = "pinned" THEN S \ {e - 2}   \* the code as found: exactly epoch - 2
    ELSE Keep(S, e - 1)                   \* everything older than the previous epoch
\* "sweep": a low-water mark carried between calls (env.rmark / bmark / smark), reset to the key being set when
\* the map is empty; only the keys between the mark and the window edge are deleted and the mark moves up -
\* the same entries as Keep(...) go at the same calls AS LONG AS keys arrive in order; an entry that arrives
\* below the mark is never looked at again.
SweepLo(S, mark, k) == IF S = {} THEN k ELSE mark
SweepMark(S, mark, k, keep) == IF SweepLo(S, mark, k) + keep < k THEN k - keep ELSE SweepLo(S, mark, k)
Sweep(S, mark, k, keep) == {x \in S \cup {k} : ~(SweepLo(S, mark, k) <= x /\ x + keep < k)}
HkRoots(S, s) ==
    CASE Mode = "pinned" -> S \cup {s}
      [] Mode = "sweep" -> Sweep(S, env.rmark, s, RootKeep)
      [] OTHER -> Keep(S \cup {s}, s - RootKeep)        \* relative to the slot being SET (not to the clock)
Clean(S, s) == IF Cardinality(S) > RecMax THEN Keep(S, s - RecKeep) ELSE S    \* RemoveHistoricDataUsedForSlotVerification
HkRecords(S, s) == IF Mode = "pinned" THEN S ELSE Clean(S, s)
HkBids(S, s) ==
    CASE Mode = "pinned" -> S \cup {s}
      [] Mode = "sweep" -> Sweep(S, env.bmark, s, BidKeep)
      [] OTHER -> Keep(S \cup {s}, s - BidKeep)
\* head event in epoch e: subscription infos older than the previous epoch go
HkSubs(S, e) ==
    IF Mode = "sweep" THEN {x \in S : ~(env.smark <= x /\ x + 1 < e)}
    ELSE HkEpochs(S, e)
\* cancelled = the slots whose CancelJob succeeded, F = the refreshed epochs
Unmark(p, cancelled, F) ==
    CASE Mode = "pinned" -> p
      [] Mode = "clearall" -> p \ SlotsOfAll(F)       \* also the slot of a running job (CancelJob failed)
      [] OTHER -> p \ cancelled

Count(a, pj) == Cardinality(a) + Cardinality(pj)

\* D: epoch -> set of slots with a duty (the node's reply)
\* split: the node keeps the duties requests of both start-up passes back (PassEnd delivers them)
DStart(D, split) ==
    LET e == Epoch(now)
        a == IF split THEN {} ELSE {s \in D[e] : s > now} \cup D[e + 1]
    IN Q(a, {}, a, {}, {e, e + 1}, {}, {}, {}, Count(a, {}))

DTick ==
    LET pj == prepjobs \cup {Epoch(now) + 1}
    IN [Cur EXCEPT !.prepjobs = pj, !.njobs = Count(attjobs, pj)]

\* w: the node keeps the duties request of the Prepare step's scheduling pass back
DPrepare(e, d, hold, w) ==
    LET a == IF w THEN attjobs ELSE attjobs \cup {s \in d : s >= now}
        pj == prepjobs \ {e}
    IN [Cur EXCEPT !.attjobs = a, !.prepjobs = pj, !.pend = pend \cup (a \ attjobs),
                   !.subs = IF hold THEN subs ELSE subs \cup {e}, !.njobs = Count(a, pj)]

\* refresh of the epochs in F (an epoch that is not prepared yet is left alone by the code): cancel each
\* slot's job (succeeds exactly for the jobs in the table - not for a job that is running), fetch, set up
\* the jobs of the new duties (the current slot only if its job was cancelled).  split: the node answers
\* the fetch late, the head event ends with the jobs cancelled; DResched is the rest.
DHead(F, D, split) ==
    LET cancelled == attjobs \cap SlotsOfAll(F)
        added == IF split THEN {}
                 ELSE {s \in UNION {D[e] : e \in F} : s > now \/ (s = now /\ now \in cancelled)}
        a == (attjobs \ cancelled) \cup added
    IN [Cur EXCEPT !.attjobs = a,
                   !.pend = Unmark(pend, cancelled, F) \cup added,
                   !.subs = HkSubs(subs \cup F, Epoch(now)),
                   !.records = IF verify THEN Clean(records, now) ELSE records,
                   !.njobs = Count(a, prepjobs)]

\* r = [e, n, cur, d]: scheduling pass n of epoch e under way, cur = it may set up the current slot's job (a
\* refresh that cancelled it; a Prepare pass), d = the duties the node answers with.  The pass notes every slot it
\* asks a job for, then asks: ok for the slots that have no job, "exists" for those whose job another pass for
\* this epoch has set up since - the job is there either way and relies on the same note.
\* "schederr": the pass takes its note back when the answer is "exists" (reads like tidying up after a failure).
DResched(r) ==
    LET added == {s \in r.d : s > now \/ (s = now /\ r.cur)}
        exists == added \cap attjobs
        a == attjobs \cup added
    IN [Cur EXCEPT !.attjobs = a,
                   !.pend = IF Mode = "schederr" THEN (pend \cup added) \ exists ELSE pend \cup added,
                   !.njobs = Count(a, prepjobs)]

DAttStart(s) ==
    [Cur EXCEPT !.attjobs = attjobs \ {s}, !.attested = attested \cup {Epoch(s)},
                !.njobs = Count(attjobs \ {s}, prepjobs)]

DAttEnd(s, ok) ==
    [Cur EXCEPT !.pend = pend \ {s},
                !.attested = IF ok THEN HkEpochs(attested, Epoch(s)) ELSE attested]

\* the node's answer to the head root request of slot s - which may be an old slot by now
DMsgEnd(s, ok) ==
    IF ok THEN [Cur EXCEPT !.roots = HkRoots(roots, s), !.records = HkRecords(records \cup {s}, s)]
    ELSE Cur

DSubEnd(e) == [Cur EXCEPT !.subs = subs \cup {e}]

DSyncAgg(s) == [Cur EXCEPT !.roots = roots \ {s}]

DAuction(s) == [Cur EXCEPT !.bids = HkBids(bids, s)]

-----------------------------------------------------------------------------
(* Closed system for TLC: the environment's choices and a timely scheduler.                         *)
(* env: ticked = last epoch the ticker ran for, did = once-per-slot steps done in this slot,        *)
(* headE / attE / okE = this epoch had a head event / an attestation run / a successful one,        *)
(* hgap / fgap = consecutive finished epochs without head event / with attestations but no success, *)
(* okrun = running jobs whose attestation will succeed, refr = refreshes whose reschedule half is    *)
(* outstanding (the node answers within the slot).                                                  *)
(* Jobs have duration: a job may still run when the next slot begins (it ends in that slot); head   *)
(* events (with and without refresh), late reschedules, the next job's start, sync committee steps, *)
(* probes and the clock interleave with running jobs.                                               *)
(* Calls complete OUT OF ORDER: when a sync committee message job / an auction / the subscription   *)
(* of a Prepare step / an attestation job starts, the environment fixes how many slots later the    *)
(* node (the relays) will answer (k from MsgLates / AucLates / SubLates / AttLates; msgdue, aucdue, *)
(* subdue, attdue = [s, at]: call of slot s answered in slot at) - within that slot the answer may  *)
(* come before or after anything else, e.g. after the next slot's request has been answered (two    *)
(* neighbouring slots in reverse order), or epochs late, after many later slots were served.  At    *)
(* most MaxHeld calls of a kind are kept back beyond their slot at a time.  aggdue = slots whose    *)
(* message has been made and whose aggregation job is due; rmark / bmark / smark = the carried      *)
(* low-water marks of the "sweep" housekeeping.                                                     *)

IsAgg(s) == aggmode = "always" \/ (aggmode = "third" /\ s % 3 = 0)

HasAtt == env.fam \in {"att", "all"}
HasSync == env.fam \in {"sync", "all"}
Duties(e) == IF HasAtt THEN {{First(e) + o : o \in m} : m \in Menu} ELSE {{}}

Env0 == [ticked |-> -1, did |-> {}, heads |-> 0, headE |-> FALSE, attE |-> FALSE, okE |-> FALSE, hgap |-> 0, fgap |-> 0,
         fam |-> "all", okrun |-> {}, refr |-> {}, mood |-> "reorg", reorgs |-> 0,
         msgdue |-> {}, aucdue |-> {}, subdue |-> {}, attdue |-> {}, aggdue |-> {},
         rmark |-> 0, bmark |-> 0, smark |-> 0]

Due(s, k) == [s |-> s, at |-> s + k]
DueNow(D) == {r \in D : r.at = now}
\* may a call that starts now be kept back for k slots?  (D = the calls of its kind that are kept back)
MayHold(D, k, lates) ==
    /\ k \in lates
    /\ now + k <= MaxSlot
    /\ k > 0 => Cardinality({r \in D : r.at > now}) < MaxHeld

Init ==
    /\ now \in StartSlots
    /\ up = FALSE
    /\ attjobs = {} /\ prepjobs = {} /\ running = {} /\ pend = {} /\ attested = {} /\ subs = {}
    /\ roots = {} /\ records = {} /\ bids = {} /\ njobs = 0
    /\ msgrun = {} /\ aucrun = {} /\ subrun = {} /\ passes = {}
    /\ env \in {[Env0 EXCEPT !.fam = f] : f \in Fams}
    /\ IF HasSync THEN verify \in BOOLEAN /\ aggmode \in {"never", "third", "always"}
       ELSE verify = FALSE /\ aggmode = "never"

Did(x) == env' = [env EXCEPT !.did = @ \cup {x}]

DutyMap(d0, d1) == [e \in {Epoch(now), Epoch(now) + 1} |-> IF e = Epoch(now) THEN d0 ELSE d1]

\* the passes of epoch e that are under way, and the number a new one gets
PassesOf(e) == {r \in env.refr : r.e = e}
FreeN(e) == CHOOSE n \in 1..(Cardinality(PassesOf(e)) + 1) : \A r \in PassesOf(e) : r.n # n
MayPass(e) == Cardinality(PassesOf(e)) < MaxPasses
Pass(e, cur, d) == [e |-> e, n |-> FreeN(e), cur |-> cur, d |-> d]
Ids(R) == {[e |-> r.e, n |-> r.n] : r \in R}

\* start-up: scheduleAttestations(e, notCurrentSlot) and scheduleAttestations(e + 1)
NStart(d0, d1, split) ==
    /\ env.fam # "bids"
    /\ d0 \in Duties(Epoch(now)) /\ d1 \in Duties(Epoch(now) + 1)
    /\ split \in BOOLEAN /\ (split => ("start" \in HoldKinds /\ HasAtt))
    /\ LET R == IF split THEN {Pass(Epoch(now), FALSE, d0), Pass(Epoch(now) + 1, FALSE, d1)} ELSE {} IN
       /\ Start({Epoch(now), Epoch(now) + 1}, Ids(R), DStart(DutyMap(d0, d1), split))
       /\ env' = [env EXCEPT !.ticked = Epoch(now), !.smark = Epoch(now), !.refr = @ \cup R]

NTick ==
    /\ up /\ now = First(Epoch(now)) /\ env.ticked < Epoch(now)
    /\ Tick(DTick)
    /\ env' = [env EXCEPT !.ticked = Epoch(now)]

PrepDue == (Epoch(now) + 1) \in prepjobs /\ now >= First(Epoch(now)) + (P \div 2)

\* k = the node completes the beacon committee subscription of the epoch k slots later (0: within the step)
\* w: the node keeps the duties request of the step's scheduling pass back (scheduleAttestations(e + 1, FALSE))
NPrepare(d, k, w) ==
    /\ up /\ PrepDue
    /\ d \in Duties(Epoch(now) + 1)
    /\ MayHold(env.subdue, k, IF HasAtt THEN SubLates ELSE {0})
    /\ (Epoch(now) + 1) \notin subrun
    /\ w \in BOOLEAN /\ (w => ("prepare" \in HoldKinds /\ HasAtt))
    /\ MayPass(Epoch(now) + 1)
    /\ LET R == IF w THEN {Pass(Epoch(now) + 1, TRUE, d)} ELSE {} IN
       /\ Prepare(Epoch(now) + 1, TRUE, {Epoch(now) + 1}, IF k > 0 THEN {Epoch(now) + 1} ELSE {}, Ids(R),
                  DPrepare(Epoch(now) + 1, d, k > 0, w))
       /\ env' = [env EXCEPT !.subdue = IF k > 0 THEN @ \cup {[s |-> Epoch(now) + 1, at |-> now + k]} ELSE @,
                             !.refr = @ \cup R]

NSubEnd(r) ==
    /\ up /\ r \in DueNow(env.subdue)
    /\ SubEnd(r.s, DSubEnd(r.s))
    /\ env' = [env EXCEPT !.subdue = @ \ {r}]

\* F = epochs whose duties the head event makes the controller refresh (their dependent root changed);
\* d0 / d1 = the new duties of the current / next epoch (empty when not refreshed)
NHead(F, d0, d1, split) ==
    /\ up /\ env.heads < MaxHeads
    /\ env.mood # "quiet"
    /\ F \in SUBSET {Epoch(now), Epoch(now) + 1}
    /\ F # {} => (env.mood = "reorg" /\ env.reorgs < MaxReorgs)
    /\ split \in BOOLEAN /\ (split => (F # {} /\ HasAtt /\ "refresh" \in HoldKinds))
    /\ ~HasAtt => F = {}                         \* no duties, nothing to refresh
    \* the refresh starts a scheduling pass of its own, next to those of its epoch that are under way (an earlier
    \* refresh, the start-up or Prepare pass, whose duties request the node has not answered yet)
    /\ \A e \in F : MayPass(e)
    \* the next epoch is refreshed only when it has been prepared (this epoch's tick has set up its prepare job
    \* and that job has run), and - as the code notices a change of the current dependent root only on a head
    \* event that is not the first of its epoch - after an earlier head event of this epoch
    /\ (Epoch(now) + 1) \in F => ((Epoch(now) + 1) \notin prepjobs /\ env.ticked = Epoch(now) /\ env.headE)
    /\ d0 \in Duties(Epoch(now)) /\ d1 \in Duties(Epoch(now) + 1)
    /\ (Epoch(now) \notin F => d0 = {}) /\ ((Epoch(now) + 1) \notin F => d1 = {})   \* canonical
    /\ LET R == IF split THEN {Pass(e, e = Epoch(now) /\ now \in attjobs, DutyMap(d0, d1)[e]) : e \in F} ELSE {} IN
       /\ HeadEvent(F, Ids(R), DHead(F, DutyMap(d0, d1), split))
       /\ env' = [env EXCEPT !.did = @ \cup {"head"}, !.heads = @ + 1, !.headE = TRUE,
                             !.reorgs = IF F = {} THEN @ ELSE @ + 1,
                             !.smark = IF @ + 1 < Epoch(now) THEN Epoch(now) - 1 ELSE @,
                             !.refr = @ \cup R]

\* the node answers the duties request of pass r - in any order among the passes that are under way
NPassEnd(r) ==
    /\ up /\ r \in env.refr
    /\ PassEnd([e |-> r.e, n |-> r.n], DResched(r))
    /\ env' = [env EXCEPT !.refr = @ \ {r}]

\* k = 0: the job ends in its slot or (within its epoch) in the next; k > 0: the node keeps the attestation
\* data request back, the job ends k slots later - also in a later epoch; its success then comes too late to
\* count for its epoch (Env_OutageBounded is about epochs in which no attestation succeeded in time)
NAttStart(ok, k) ==
    /\ up /\ now \in attjobs
    /\ AttStart(now, DAttStart(now))
    /\ ok \in BOOLEAN
    /\ MayHold(env.attdue, k, AttLates)
    /\ (~ok \/ k > 0) => (env.okE \/ env.fgap < G)          \* Env_OutageBounded
    /\ env' = [env EXCEPT !.okrun = IF ok THEN @ \cup {now} ELSE @, !.attE = TRUE,
                          !.attdue = IF k > 0 THEN @ \cup {Due(now, k)} ELSE @]

AttHeld == {r.s : r \in env.attdue}

NAttEnd(s) ==
    /\ up /\ s \in running
    /\ s \in AttHeld => \E r \in DueNow(env.attdue) : r.s = s
    /\ AttEnd(s, DAttEnd(s, s \in env.okrun))
    /\ env' = [env EXCEPT !.okE = @ \/ (s \in env.okrun /\ s \notin AttHeld), !.okrun = @ \ {s},
                          !.attdue = {r \in @ : r.s # s}]

\* a shutdown is requested while an attestation is in flight
NProbe ==
    /\ up /\ running # {}
    /\ Probe(Cur)
    /\ UNCHANGED env

\* the sync committee message job of the slot starts; the node will answer its head root request k slots later
NMsgStart(k) ==
    /\ up /\ HasSync /\ "msg" \notin env.did
    /\ MayHold(env.msgdue, k, MsgLates)
    /\ MsgStart(now, Cur)
    /\ env' = [env EXCEPT !.did = @ \cup {"msg"}, !.msgdue = @ \cup {Due(now, k)}]

\* the node answers the head root request of slot r.s (r.s < now: late, after the requests of later slots)
NMsgEnd(r, ok) ==
    /\ up /\ r \in DueNow(env.msgdue)
    /\ ok \in BOOLEAN
    /\ ~ok => env.mood = "quiet"                  \* the node fails to give its head root during an outage only
    /\ MsgEnd(r.s, DMsgEnd(r.s, ok))
    /\ env' = [env EXCEPT !.msgdue = @ \ {r},
                          !.aggdue = IF ok /\ IsAgg(r.s) THEN @ \cup {r.s} ELSE @,
                          !.rmark = IF ok THEN SweepMark(roots, @, r.s, RootKeep) ELSE @]

\* the aggregation job of slot s is set up when Message(s) has returned; it runs at once when that was late
NSyncAgg(s) ==
    /\ up /\ s \in env.aggdue
    /\ SyncAgg(s, DSyncAgg(s))
    /\ env' = [env EXCEPT !.aggdue = @ \ {s}]

\* the timely scheduler has started everything that is due in this slot; an attestation started in this
\* slot may still be running (it ends in the next slot, and within its epoch), one started earlier has
\* ended; the node has answered
SlotDone ==
    /\ now \notin attjobs /\ env.refr = {}
    /\ (running \ AttHeld) \subseteq (IF Epoch(now + 1) = Epoch(now) THEN {now} ELSE {})
    /\ ~PrepDue
    /\ HasSync => "msg" \in env.did
    /\ env.aggdue = {}
    \* every answer that is due in this slot has been given
    /\ DueNow(env.msgdue) = {} /\ DueNow(env.aucdue) = {} /\ DueNow(env.subdue) = {} /\ DueNow(env.attdue) = {}
    /\ (now = First(Epoch(now))) => env.ticked = Epoch(now)

\* nothing is under way (the end of a generated behaviour)
AtRest == running = {} /\ msgrun = {} /\ aucrun = {} /\ subrun = {} /\ passes = {}

NAdvance ==
    /\ now < MaxSlot
    /\ env.fam # "bids" => (up /\ SlotDone)
    /\ env.fam = "bids" => DueNow(env.aucdue) = {}
    /\ Advance(Cur)
    /\ IF Epoch(now + 1) = Epoch(now)
         THEN env' = [env EXCEPT !.did = {}, !.heads = 0]
         ELSE \E m \in Moods :
              LET hg == IF env.headE THEN 0 ELSE env.hgap + 1 IN
              /\ env.fam # "bids" => (env.headE \/ env.hgap < G)             \* Env_OutageBounded
              /\ (m = "quiet" /\ env.fam # "bids") => hg < G
              /\ env.fam = "bids" => m = "plain"
              /\ env' = [env EXCEPT !.did = {}, !.heads = 0, !.headE = FALSE, !.attE = FALSE, !.okE = FALSE,
                                    !.hgap = hg, !.mood = m, !.reorgs = 0,
                                    !.fgap = IF env.attE /\ ~env.okE THEN @ + 1 ELSE IF env.okE THEN 0 ELSE @]

NAucStart(k) ==
    /\ env.fam = "bids" /\ "auction" \notin env.did
    /\ MayHold(env.aucdue, k, AucLates)
    /\ AucStart(now, Cur)
    /\ env' = [env EXCEPT !.did = @ \cup {"auction"}, !.aucdue = @ \cup {Due(now, k)}]

NAucEnd(r) ==
    /\ env.fam = "bids" /\ r \in DueNow(env.aucdue)
    /\ AucEnd(r.s, DAuction(r.s))
    /\ env' = [env EXCEPT !.aucdue = @ \ {r}, !.bmark = SweepMark(bids, @, r.s, BidKeep)]

AllDuties == {{First(e) + o : o \in m} : m \in Menu, e \in {Epoch(now), Epoch(now) + 1}} \cup {{}}

Next ==
    \/ \E d0, d1 \in AllDuties : \E split \in BOOLEAN : NStart(d0, d1, split)
    \/ NTick
    \/ \E d \in AllDuties : \E k \in SubLates : \E w \in BOOLEAN : NPrepare(d, k, w)
    \/ \E r \in env.subdue : NSubEnd(r)
    \/ \E F \in SUBSET {Epoch(now), Epoch(now) + 1} : \E d0, d1 \in AllDuties : \E split \in BOOLEAN :
         NHead(F, d0, d1, split)
    \/ \E r \in env.refr : NPassEnd(r)
    \/ \E ok \in BOOLEAN : \E k \in AttLates : NAttStart(ok, k)
    \/ \E s \in running : NAttEnd(s)
    \/ NProbe
    \/ \E k \in MsgLates : NMsgStart(k)
    \/ \E r \in env.msgdue : \E ok \in BOOLEAN : NMsgEnd(r, ok)
    \/ \E s \in env.aggdue : NSyncAgg(s)
    \/ NAdvance
    \/ \E k \in AucLates : NAucStart(k)
    \/ \E r \in env.aucdue : NAucEnd(r)

Spec == Init /\ [][Next]_vars

\* Reachability witnesses (each must be VIOLATED by the exhaustive run of the design, else the model does
\* not contain the situation): a refresh has cancelled the jobs of an epoch while the job of one of its
\* slots is running - CancelJob for that slot failed; the same with the running job's slot among the new
\* duties and the reschedule outstanding; two jobs running at once.
NeverRefreshOverRunning == ~(\E r \in env.refr : \E s \in running : Epoch(s) = r.e /\ s \notin attjobs)
NeverReschedOverRunning == ~(\E r \in env.refr : \E s \in running : s \in r.d)
NeverTwoRunning == Cardinality(running) < 2
\* out-of-order completion: a head root has been noted for a slot that lies more than an epoch below one noted
\* earlier (the request of the old slot was answered after the on-time request of this slot: now \in roots
\* means SetBeaconBlockRoot(now) has pruned everything older than its window before the old one arrived);
\* likewise a bid, and a subscription info for an epoch older than the previous one
NeverLateRoot == ~(\E s \in roots : s + P < now /\ now \in roots)
NeverLateBid == ~(\E s \in bids : s + BidKeep < now /\ now \in bids)
NeverLateSub == ~(\E e \in subs : e + 1 < Epoch(now) /\ env.headE /\ "head" \in env.did)
\* overlapping scheduling passes: two passes for one epoch under way at once; a pass about to end whose slot's
\* job another pass has set up (its ScheduleJob will be answered "exists"); the start-up / Prepare pass still
\* under way next to a refresh's pass
NeverPassOverlap == ~(\E r1, r2 \in env.refr : r1.e = r2.e /\ r1.n # r2.n)
NeverExists == ~(\E r \in env.refr : \E s \in r.d \cap attjobs : s > now \/ (s = now /\ r.cur))
NeverExistsRunning == ~(\E r \in env.refr : running # {} /\ \E s \in r.d \cap attjobs : s > now)
\* two calls of neighbouring slots under way at once (either may be answered first)
NeverTwoMessages == Cardinality(msgrun) < 2
=============================================================================
