----------------------------- MODULE MC_Auction -----------------------------
(* Constants of the exhaustive runs of Auction that a .cfg file cannot express.                 *)
EXTENDS Auction

C(m, k) == [min |-> m, key |-> k, grace |-> 0, sp |-> "none"]
CS(m, k, sp) == [min |-> m, key |-> k, grace |-> 0, sp |-> sp]
\* single auctions: assignments that together give every relay flag (minimum 0 / 2, key unknown / from
\* the configuration / from the relay client) next to every other
\* (the key of the second relay is the one spelled in its address)
MCCfgOne == { <<C(0, "config"), CS(2, "none", "K1"), C(0, "none")>> }
MCCfgSmall == { <<C(0, "config"), C(2, "config"), C(0, "none")>>,
                <<C(2, "none"), C(0, "config"), C(2, "config")>> }
\* bids with at most one eligibility defect (the exhaustive thorough run uses Answers: all combinations)
Defects(a) == (IF a.feeZero THEN 1 ELSE 0) + (IF ~a.tsOk THEN 1 ELSE 0) + (IF a.sig # "valid" THEN 1 ELSE 0)
MCAnswersSingle == {a \in Bids : Defects(a) <= 1} \cup {NoBidAnswer, ErrorAnswer}
MCAnswersAll == Answers
\* quick: every clean bid, and every single defect on the bids of the highest value
MCTop == CHOOSE v \in Values : \A w \in Values : w <= v
MCAnswersLean == {a \in Bids : Defects(a) = 0 \/ (Defects(a) = 1 /\ a.val = MCTop)} \cup {NoBidAnswer, ErrorAnswer}
MCAnswersClean == {a \in Bids : Defects(a) = 0} \cup {NoBidAnswer, ErrorAnswer}
MCCfgPair == { <<C(0, "config"), C(2, "none")>> }

\* histories: the SAME two relay addresses with different per-auction configurations (minimum 0 / 2, the
\* public key in the configuration or not), two builder catalogues, bids between the minimums and a
\* badly signed one
MCCfgHist == { <<C(0, "none"), C(0, "none")>>, <<C(2, "config"), C(0, "none")>>, <<C(0, "config"), C(2, "none")>> }
MCAnswersHist == {a \in Bids : Defects(a) = 0} \cup {a \in Bids : a.val = MCTop /\ a.bld = "std" /\ a.sig = "invalid" /\ ~a.feeZero /\ a.tsOk}
                 \cup {NoBidAnswer}
\* overlap: two auctions in progress at once
MCCfgOverlap == { <<C(0, "none"), C(0, "config")>>, <<C(2, "none"), C(0, "none")>> }
MCAnswersOverlap == {a \in Bids : Defects(a) = 0} \cup {NoBidAnswer}

\* the client cache (round 5): the SAME relay location under the spellings of its address (no key / K1 / K2 in the
\* user-information part), the key in the relay configuration or not, in every order of first use - by an auction
\* or by another user of the cache (FetchSet); bids signed with K1, with K2, and unverifiable ones
MCCfgClients == { <<CS(0, "none", s1), CS(0, "none", s2)>> : s1 \in Spellings, s2 \in {"none", "K1"} }
                \cup { <<CS(0, "config", "none"), C(0, "none")>>, <<CS(0, "config2", "K1"), C(0, "none")>> }
MCFetchFirst == { <<1, "none">>, <<1, "K1">>, <<1, "K2">>, <<2, "K1">> }
MCAnswersClients == {a \in Bids : Defects(a) = 0 /\ a.bld = "std"}
                    \cup {a \in Bids : a.bld = "std" /\ a.sig # "valid" /\ ~a.feeZero /\ a.tsOk}
                    \cup {NoBidAnswer}
\* control: every relay location is written ONE way on the instance (relay 1 with K1 in its address, relay 2
\* without a key), everything else varies
MCCfgOneSpelling == { <<CS(m, k, "K1"), CS(2 - m, "none", "none")>> : m \in {0, 2}, k \in {"none", "config", "config2"} }
MCFetchOneSpelling == { <<1, "K1">>, <<2, "none">> }

\* histories use the auction indices and the keys in order (both are interchangeable)
KeysInOrder == \A i \in Auc : st'[i] # "idle" => (key'[i] = i /\ \A j \in Auc : j < i => st'[j] # "idle")

\* reachability witnesses (must be violated: the passing runs are not empty)
NeverThreeDone == Cardinality(Done \cup Past) < 3
NeverTwoOpen == Cardinality(Open) < 2
NeverBothWinOverlapped == ~(\E i, j \in Auc : i # j /\ st[i] = "done" /\ st[j] = "open" /\ winner[i] # NoWin /\ winner[j] # NoWin)
=============================================================================
