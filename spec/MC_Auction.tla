----------------------------- MODULE MC_Auction -----------------------------
(* Constants of the exhaustive runs of Auction that a .cfg file cannot express.                 *)
EXTENDS Auction

C(m, k) == [min |-> m, key |-> k, grace |-> 0]
\* quick: four assignments that together give every relay flag (minimum 0 / 2, key unknown / from the
\* configuration / from the provider) next to every other
MCCfgOne == { <<C(0, "config"), C(2, "provider"), C(0, "none")>> }
MCCfgSmall == { <<C(0, "config"), C(2, "config"), C(0, "none")>>,
                <<C(2, "none"), C(0, "provider"), C(2, "config")>> }
\* thorough: every assignment
MCCfgAll == [Relays -> {C(m, k) : m \in {0, 2}, k \in {"none", "config"}}]
\* bids with at most one eligibility defect (the exhaustive thorough run uses Answers: all combinations)
Defects(a) == (IF a.feeZero THEN 1 ELSE 0) + (IF ~a.tsOk THEN 1 ELSE 0) + (IF a.sig # "valid" THEN 1 ELSE 0)
MCAnswersSingle == {a \in Bids : Defects(a) <= 1} \cup {NoBidAnswer, ErrorAnswer}
MCAnswersAll == Answers
\* quick: every clean bid, and every single defect on the bids of the highest value
MCTop == CHOOSE v \in Values : \A w \in Values : w <= v
MCAnswersLean == {a \in Bids : Defects(a) = 0 \/ (Defects(a) = 1 /\ a.val = MCTop)} \cup {NoBidAnswer, ErrorAnswer}
MCAnswersClean == {a \in Bids : Defects(a) = 0} \cup {NoBidAnswer, ErrorAnswer}
MCCfgPair == { <<C(0, "config"), C(2, "none")>> }
=============================================================================
