----------------------------- MODULE MC_Auction -----------------------------
(* Constants of the exhaustive runs of Auction that a .cfg file cannot express.                 *)
EXTENDS Auction

C(m, k) == [min |-> m, key |-> k, grace |-> 0]
\* single auctions: assignments that together give every relay flag (minimum 0 / 2, key unknown / from
\* the configuration / from the relay client) next to every other
MCProvMid == { <<FALSE, TRUE, FALSE>> }
MCProvNone3 == { <<FALSE, FALSE, FALSE>> }
MCProvNone2 == { <<FALSE, FALSE>> }
MCProvSecond == { <<FALSE, FALSE>>, <<FALSE, TRUE>> }
MCCfgOne == { <<C(0, "config"), C(2, "none"), C(0, "none")>> }
MCCfgSmall == { <<C(0, "config"), C(2, "config"), C(0, "none")>>,
                <<C(2, "none"), C(0, "config"), C(2, "config")>> }
\* bids with at most one eligibility defect (the exhaustive thorough run uses Answers: all combinations)
Defects(a) == (IF a.feeZero THEN 1 ELSE 0) + (IF ~a.tsOk THEN 1 ELSE 0) + (IF a.sig # "valid" THEN 1 ELSE 0)
MCAnswersSingle == {a \in Bids : Defects(a) <= 1} \cup {NoBidAnswer, ErrorAnswer}
MCAnswersAll == Answers
\* quick: every clean bid, and every single defect on the bids of the highest value
MCTop == CHOOSE v \in Values : \A w \in Values : w <= v
MCAnswersLean == {a \in Bids : Defects(a) = 0 \/ (Defects(a) = 1 /\ a.val = MCTop)} \cup {NoBidAnswer, ErrorAnswer}
MCAnswersClean == {a \in Bids : Defects(a) = 0} \cup {NoBidAnswer, ErrorAnswer}
MCCfgPair == { <<C(0, "config"), C(2, "none")>> }

\* histories: the SAME two relay addresses with different per-auction configurations (minimum 0 / 2, the
\* public key in the configuration or not), two builder catalogues, bids between the minimums and a
\* badly signed one
MCCfgHist == { <<C(0, "none"), C(0, "none")>>, <<C(2, "config"), C(0, "none")>>, <<C(0, "config"), C(2, "none")>> }
MCAnswersHist == {a \in Bids : Defects(a) = 0} \cup {a \in Bids : a.val = MCTop /\ a.bld = "std" /\ a.sig = "invalid" /\ ~a.feeZero /\ a.tsOk}
                 \cup {NoBidAnswer}
\* overlap: two auctions in progress at once
MCCfgOverlap == { <<C(0, "none"), C(0, "config")>>, <<C(2, "none"), C(0, "none")>> }
MCAnswersOverlap == {a \in Bids : Defects(a) = 0} \cup {NoBidAnswer}

\* histories use the auction indices and the keys in order (both are interchangeable)
KeysInOrder == \A i \in Auc : st'[i] # "idle" => (key'[i] = i /\ \A j \in Auc : j < i => st'[j] # "idle")

\* reachability witnesses (must be violated: the passing runs are not empty)
NeverThreeDone == Cardinality(Done \cup Past) < 3
NeverTwoOpen == Cardinality(Open) < 2
NeverBothWinOverlapped == ~(\E i, j \in Auc : i # j /\ st[i] = "done" /\ st[j] = "open" /\ winner[i] # NoWin /\ winner[j] # NoWin)
=============================================================================
