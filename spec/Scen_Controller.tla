--------------------------- MODULE Scen_Controller ---------------------------
(* Scenario generator: behaviours of Controller with a history variable recording the stimuli   *)
(* (environment and scheduler actions); the controller's own internal steps are not recorded -  *)
(* the real controller takes them by itself.  Duty oracles are derived from a seed by a small   *)
(* mixing function so that TLC's simulation mode can draw from a large family of duty sets      *)
(* (slots inside and outside the epoch, several validators in one slot, validators without      *)
(* duty, duties that differ between versions of the dependent root).                            *)
EXTENDS Controller, Json

CONSTANTS ScenLen, Seeds, StartSlots, MaxHeads,
          MaxHolds,     \* bound on the number of times an interface starts / stops delaying
          Stimuli,      \* which stimuli may occur (event names; "Unhold" = an interface stops delaying)
          Focus,        \* TRUE: the timer starts duty jobs only while a refresh is under way (search for job starts inside a refresh)
          Tight,        \* TRUE: a change of the environment is followed by a call that meets it (a reorg by another reorg, a change of
                        \* the accounts answer or a head event; a change of the accounts answer by a call that looks accounts up)
          Disjoint      \* TRUE: no two goroutines at work on one duty kind and epoch at a time (overlapping refreshes
                        \* are the open finding's ground: kept out of the families that look for anything else)

VARIABLES hist, nHead, nHold,
          newer,        \* ids of tasks waiting for a duty reply that a later task of the same kind and epoch has overtaken
          ins,          \* number of duty jobs that started, and of clock ticks, while a refresh (covering the job's name) was under way
          early,        \* kinds of calls (att / prop / sync refresh, tick, prep) that have left early on this instance: accounts lookup
                        \* failed or named nobody
          aft,          \* kinds of calls that went through to asking the node for duties AFTER a call of that kind had left early
          ovl           \* kinds of refresh of which two (of different epochs) have been under way at once on this instance
svars == <<vars, hist, nHead, nHold, newer, ins, early, aft, ovl>>

Mix(a, b) == ((a * 31 + b) * 1103 + 12345) % 30011
R(seed, tag, a, b, c) == Mix(Mix(Mix(Mix(seed, tag), a), b), c)

Vers == 0..MaxVer
F1(c, e) == e * c.p
L1(c, e) == e * c.p + c.p - 1
Epochs(c) == 0..(MaxSlot \div c.p + 2)
Periods(c) == 0..(MaxSlot \div (c.p * c.ep) + 2)

\* attester duty of validator v in epoch e at version ver: a slot of the epoch, the first slot of
\* the next epoch, the last slot of the previous one, or none; about half stay put across versions
AttSlot(c, seed, e, ver, v) ==
    LET vv == IF ver > 0 /\ R(seed, 1, e, ver, v) % 2 = 0 THEN 0 ELSE ver
        r == R(seed, 2, e, vv, v) % (c.p + 3)
    IN IF r < c.p THEN F1(c, e) + r
       ELSE IF r = c.p THEN F1(c, e + 1)
       ELSE IF r = c.p + 1 /\ e > 0 THEN L1(c, e - 1)
       ELSE -1
AttOf(c, seed) == {r \in {[e |-> e, ver |-> ver, v |-> v, slot |-> AttSlot(c, seed, e, ver, v)] :
                                e \in Epochs(c), ver \in Vers, v \in c.vals} : r.slot >= 0}

\* proposer of a slot: one of the validators or somebody else
PropV(c, seed, e, ver, s) ==
    LET vv == IF ver > 0 /\ R(seed, 3, e, ver, s) % 2 = 0 THEN 0 ELSE ver
        n == Cardinality(c.vals)
        r == R(seed, 4, e, vv, s) % (n + 2)
    IN IF r < n THEN r + 1 ELSE 0
PropOf(c, seed) == UNION {{r \in {[e |-> e, ver |-> ver, v |-> PropV(c, seed, e, ver, sl), slot |-> sl] :
                                        sl \in F1(c, e)..(L1(c, e) + 1)} : r.v # 0} :       \* one slot beyond the epoch
                             e \in Epochs(c), ver \in Vers}

SyncOf(c, seed) == {x \in [p : Periods(c), ver : Vers, v : c.vals] :
                    LET vv == IF x.ver > 0 /\ R(seed, 5, x.p, x.ver, x.v) % 2 = 0 THEN 0 ELSE x.ver
                    IN R(seed, 6, x.p, vv, x.v) % 3 # 0}

OracleOf(c, seed) == [att |-> AttOf(c, seed), prop |-> PropOf(c, seed), sync |-> SyncOf(c, seed)]


SInit ==
    /\ Init
    /\ now \in StartSlots
    /\ hist = <<[ev |-> "Reset", cfg |-> cfg, oracle |-> oracle, now |-> now, acct |-> acct]>>
    /\ nHead = 0 /\ nHold = 0 /\ newer = {}
    /\ ins = 0 /\ early = {} /\ aft = {} /\ ovl = {}

H(e) == hist' = Append(hist, e)
On(e) == e \in Stimuli

\* duty jobs started in this step while a refresh that covers their name was between its first and its last call
StartedInside ==
    \E x \in DOMAIN done' :
        /\ done'[x] > Get(done, x, 0)
        /\ \E t \in tasks : IsRefresh(t) /\ <<x.k, x.n>> \in CancelNames(t)
RefreshUnderWay == \E t \in tasks : IsRefresh(t)

(* Histories of calls on one instance.  A refresh has left early when it disappears from its     *)
(* cancel loop / accounts lookup without going on to fetch; the ticker when its lookup failed or *)
(* named nobody; prepare-for-epoch likewise.                                                    *)
Gone(t) == \A u \in tasks' : u.id # t.id
RefreshLeft == {t.k : t \in {x \in tasks : IsRefresh(x) /\ x.st \in {"cancel", "accounts"} /\ Gone(x)}}
RefreshWentOn == {t.k : t \in {x \in tasks : IsRefresh(x) /\ x.st \in {"cancel", "accounts"}
                                               /\ \E u \in tasks' : u.id = x.id /\ u.st = "fetch"}}
Ticked == up /\ up' /\ latestTick' # latestTick
Prepped == \E nm \in DOMAIN jobs : nm[1] = "prepepoch" /\ nm \notin DOMAIN jobs' /\ up /\ up'
LeftEarly == RefreshLeft \cup (IF Ticked /\ ActiveNow = {} THEN {"tick"} ELSE {}) \cup (IF Prepped /\ ActiveNow = {} THEN {"prep"} ELSE {})
WentOn == RefreshWentOn \cup (IF Ticked /\ ActiveNow # {} THEN {"tick"} ELSE {}) \cup (IF Prepped /\ ActiveNow # {} THEN {"prep"} ELSE {})
Overlapping == {t.k : t \in {x \in tasks' : IsRefresh(x) /\ \E y \in tasks' : IsRefresh(y) /\ y.id # x.id /\ y.k = x.k}}

ReleaseEv(c, late) == [ev |-> "Release", k |-> c[1], n |-> c[2], ver |-> c[3], jk |-> c[4], late |-> late]

SNext ==
    /\ Len(hist) <= ScenLen
    /\ \/ On("Start") /\ \E w \in BOOLEAN : Start(w) /\ H([ev |-> "Start", w |-> w]) /\ UNCHANGED nHead
       \/ On("Crash") /\ Crash /\ H([ev |-> "Crash"]) /\ UNCHANGED nHead
       \/ On("Advance") /\ Advance /\ H([ev |-> "Advance"]) /\ nHead' = 0
       \/ On("EpochTick") /\ EpochTick /\ H([ev |-> "EpochTick"]) /\ UNCHANGED nHead
       \/ On("Reorg") /\ \E b \in 0..(MaxEpoch + 1) : Reorg(b) /\ H([ev |-> "Reorg", b |-> b]) /\ UNCHANGED nHead
       \/ On("HeadEvent") /\ \E o \in BOOLEAN : HeadEvent(o) /\ nHead < MaxHeads /\ nHead' = nHead + 1 /\ H([ev |-> "HeadEvent"])
       \/ On("Fire") /\ \E nm \in DOMAIN jobs, h \in BOOLEAN :
                /\ Focus => (nm[1] # "prepepoch" /\ RefreshUnderWay)
                /\ Fire(nm, h) /\ H([ev |-> "Fire", k |-> nm[1], n |-> nm[2], h |-> h]) /\ UNCHANGED nHead
       \/ On("FirePrep") /\ \E nm \in DOMAIN jobs :        \* the timer starts prepare-for-epoch (only)
                /\ nm[1] = "prepepoch"
                /\ Fire(nm, FALSE) /\ H([ev |-> "Fire", k |-> nm[1], n |-> nm[2], h |-> FALSE]) /\ UNCHANGED nHead
       \/ Internal /\ UNCHANGED <<hist, nHead>>
       \/ On("Accounts") /\ \E a \in AnswersFor(cfg) : SetAccounts(a) /\ H([ev |-> "Accounts", err |-> a.err, vals |-> a.vals]) /\ UNCHANGED nHead
       \/ \E k \in Gates, on \in BOOLEAN : On(IF on THEN "Hold" ELSE "Unhold") /\ nHold < MaxHolds /\ Hold(k, on) /\ H([ev |-> "Hold", k |-> k, on |-> on]) /\ nHold' = nHold + 1 /\ UNCHANGED nHead
       \/ On("Release") /\ \E t \in tasks :
                \/ /\ Release(t)
                   /\ \E c \in ParkedCalls(t) : H(ReleaseEv(c, t.st = "held" /\ (Get(fetched, <<t.k, t.key>>, [ver |-> -1]).ver # t.ver \/ t.id \in newer)))
                   /\ UNCHANGED nHead
                \/ /\ t.st = "sched"
                   /\ \E d \in t.duties : ReleaseSched(t, d) /\ H(ReleaseEv(<<"sched", d.slot, 0, d.jk>>, FALSE))
                   /\ UNCHANGED nHead
    /\ ins' = IF StartedInside \/ (now' # now /\ RefreshUnderWay) THEN ins + 1 ELSE ins
    /\ IF up' /\ ~up THEN early' = {} /\ aft' = {} /\ ovl' = {}      \* a new instance
       ELSE /\ early' = early \cup LeftEarly
            /\ aft' = aft \cup (WentOn \cap early)
            /\ ovl' = ovl \cup Overlapping
    /\ (hist' = hist \/ hist'[Len(hist')].ev # "Hold") => UNCHANGED nHold
    /\ LET spawned == {u \in tasks' : \A x \in tasks : x.id # u.id}
           waiting == {u \in tasks' : u.st = "held"}
       IN newer' = {u.id : u \in {w \in waiting : w.id \in newer \/ \E n \in spawned : n.k = w.k /\ n.key = w.key}}
    /\ Disjoint => NoOverlap'
    /\ (Tight /\ hist' # hist /\ Len(hist) > 1) =>
          LET last == hist[Len(hist)].ev
              nxt == hist'[Len(hist')].ev
          IN /\ last = "Reorg" => nxt \in {"Reorg", "Accounts", "HeadEvent"}
             /\ last = "Accounts" => nxt \in {"HeadEvent", "EpochTick", "Fire", "Release", "Start"}

\* configuration families (the cfg file picks one with Cfgs <- ...)
CfgsSmall == {[p |-> 2, d |-> 12, ep |-> 2, prep |-> 1, fork |-> f, ft |-> t, attd |-> 4, propd |-> pd, syncd |-> 4, vals |-> {1, 2}] :
                 f \in {0, 1, 2}, t \in BOOLEAN, pd \in {0, 4}}
CfgsWide == {[p |-> 3, d |-> 6, ep |-> 4, prep |-> 2, fork |-> f, ft |-> t, attd |-> 2, propd |-> 1, syncd |-> 3, vals |-> {1, 2, 3}] :
                 f \in {0, 1, 3, 5}, t \in BOOLEAN}
            \cup {[p |-> 4, d |-> 12, ep |-> 2, prep |-> 2, fork |-> f, ft |-> FALSE, attd |-> 4, propd |-> 4, syncd |-> 4, vals |-> {1, 2}] :
                 f \in {0, 1}}
            \cup {[p |-> 1, d |-> 2, ep |-> 8, prep |-> 5, fork |-> f, ft |-> FALSE, attd |-> 1, propd |-> 0, syncd |-> 1, vals |-> {1, 2}] :
                 f \in {0, 2, 9}}

CfgsSteps == {[p |-> 2, d |-> 12, ep |-> 2, prep |-> 1, fork |-> 9, ft |-> t, attd |-> 4, propd |-> 4, syncd |-> 4, vals |-> {1, 2}] :
                 t \in BOOLEAN}
CfgsHist == {[p |-> 2, d |-> 12, ep |-> 2, prep |-> 1, fork |-> 0, ft |-> FALSE, attd |-> 4, propd |-> 4, syncd |-> 4, vals |-> {1, 2}]}
CfgsHistNoSync == {[p |-> 2, d |-> 12, ep |-> 2, prep |-> 1, fork |-> 9, ft |-> FALSE, attd |-> 4, propd |-> 4, syncd |-> 4, vals |-> {1, 2}]}
CfgsGatedOne == {[p |-> 2, d |-> 12, ep |-> 2, prep |-> 1, fork |-> 0, ft |-> FALSE, attd |-> 4, propd |-> 0, syncd |-> 4, vals |-> {1, 2}]}
CfgsGated == {[p |-> 2, d |-> 12, ep |-> 2, prep |-> 1, fork |-> 0, ft |-> FALSE, attd |-> 4, propd |-> pd, syncd |-> 4, vals |-> {1, 2}] :
                 pd \in {0, 4}}

\* accounts answers for the history families: the lookup fails, nobody is active, one validator is, all are
AnswersSome(c) == {Answer(TRUE, {}), Answer(FALSE, {}), Answer(FALSE, {1}), Answer(FALSE, c.vals)}
AnswersNone(c) == {Answer(TRUE, {}), Answer(FALSE, {})}

\* bound for exhaustive enumeration of short behaviours
HistBound == Len(hist) <= ScenLen + 1

SSpec == SInit /\ [][SNext]_svars

\* the oracle family is supplied through the constant OraclesFor (cfg: OraclesFor <- SeedOracles)
SeedOracles(c) == {OracleOf(c, s) : s \in Seeds}

Emit == (Len(hist) = ScenLen + 1 /\ Settled) => PrintT(ToJson(hist))

(* Job starts inside a refresh: a behaviour in which a duty job started (timer, fast track)     *)
(* between two calls of a refresh of its epoch, or the clock moved on to the next slot between  *)
(* two calls of a refresh, run to its end, is written out.                                      *)
EmitInside == (up /\ Quiescent /\ ins > 0) => PrintT(ToJson(hist))

(* Histories on one instance: a behaviour in which a call (a refresh of some kind, the ticker,   *)
(* prepare-for-epoch) went through to asking the node for duties after an earlier call of the    *)
(* same kind had left early on the same instance, run to its end, is written out (with the      *)
(* kinds, for the check's selection, in a first record that is not part of the scenario).       *)
Meta == <<[ev |-> "Meta", aft |-> aft, ovl |-> ovl, early |-> early]>>
EmitAfterEarly == (up /\ Quiescent /\ aft # {}) => PrintT(ToJson(Meta \o hist))
(* ... and one in which two refreshes of one kind were under way at once (delaying accounts     *)
(* provider: both wait for their accounts, the environment lets them through in either order,   *)
(* possibly changing the answer in between), run to their end.                                  *)
EmitOverlap == (up /\ Quiescent /\ ovl # {}) => PrintT(ToJson(Meta \o hist))

(* Design-level counterexamples as scenarios: a behaviour at whose end a job made from an older  *)
(* reply has survived (overlapping refreshes) is written out, to be replayed on the real code.  *)
EmitStale == (up /\ Quiescent /\ ~NoStaleJob) => PrintT(ToJson(hist))
=============================================================================
