--------------------------- MODULE Scen_Controller ---------------------------
(* Scenario generator: behaviours of Controller with a history variable recording the stimuli   *)
(* (environment and scheduler actions); the controller's own internal steps are not recorded -  *)
(* the real controller takes them by itself.  Duty oracles are derived from a seed by a small   *)
(* mixing function so that TLC's simulation mode can draw from a large family of duty sets      *)
(* (slots inside and outside the epoch, several validators in one slot, validators without      *)
(* duty, duties that differ between versions of the dependent root).                            *)
EXTENDS Controller, Json

CONSTANTS ScenLen, Seeds, StartSlots, MaxHeads,
          Directed      \* TRUE: only start-up, head events, reorgs and delayed replies (search for overlapping refreshes)

VARIABLES hist, nHead
svars == <<vars, hist, nHead>>

Mix(a, b) == ((a * 31 + b) * 1103 + 12345) % 30011
R(seed, tag, a, b, c) == Mix(Mix(Mix(Mix(seed, tag), a), b), c)

Vers == 0..MaxVer
F1(c, e) == e * c.p
L1(c, e) == e * c.p + c.p - 1
Epochs(c) == 0..(MaxSlot \div c.p + 2)
Periods(c) == 0..(MaxSlot \div (c.p * c.ep) + 2)

\* attester duty of validator v in epoch e at version ver: a slot of the epoch, the first slot of
\* the next epoch, the last slot of the previous one, or none; about half stay put across versions
AttSlot(c, seed, e, ver, v) ==
    LET vv == IF ver > 0 /\ R(seed, 1, e, ver, v) % 2 = 0 THEN 0 ELSE ver
        r == R(seed, 2, e, vv, v) % (c.p + 3)
    IN IF r < c.p THEN F1(c, e) + r
       ELSE IF r = c.p THEN F1(c, e + 1)
       ELSE IF r = c.p + 1 /\ e > 0 THEN L1(c, e - 1)
       ELSE -1
AttOf(c, seed) == {r \in {[e |-> e, ver |-> ver, v |-> v, slot |-> AttSlot(c, seed, e, ver, v)] :
                                e \in Epochs(c), ver \in Vers, v \in c.vals} : r.slot >= 0}

\* proposer of a slot: one of the validators or somebody else
PropV(c, seed, e, ver, s) ==
    LET vv == IF ver > 0 /\ R(seed, 3, e, ver, s) % 2 = 0 THEN 0 ELSE ver
        n == Cardinality(c.vals)
        r == R(seed, 4, e, vv, s) % (n + 2)
    IN IF r < n THEN r + 1 ELSE 0
PropOf(c, seed) == UNION {{r \in {[e |-> e, ver |-> ver, v |-> PropV(c, seed, e, ver, sl), slot |-> sl] :
                                        sl \in F1(c, e)..(L1(c, e) + 1)} : r.v # 0} :       \* one slot beyond the epoch
                             e \in Epochs(c), ver \in Vers}

SyncOf(c, seed) == {x \in [p : Periods(c), ver : Vers, v : c.vals] :
                    LET vv == IF x.ver > 0 /\ R(seed, 5, x.p, x.ver, x.v) % 2 = 0 THEN 0 ELSE x.ver
                    IN R(seed, 6, x.p, vv, x.v) % 3 # 0}

OracleOf(c, seed) == [att |-> AttOf(c, seed), prop |-> PropOf(c, seed), sync |-> SyncOf(c, seed)]


SInit ==
    /\ Init
    /\ now \in StartSlots
    /\ hist = <<[ev |-> "Reset", cfg |-> cfg, oracle |-> oracle, now |-> now]>>
    /\ nHead = 0

H(e) == hist' = Append(hist, e)

SNext ==
    /\ Len(hist) <= ScenLen
    /\ \/ \E w \in BOOLEAN : Start(w) /\ H([ev |-> "Start", w |-> w]) /\ UNCHANGED nHead
       \/ ~Directed /\ Crash /\ H([ev |-> "Crash"]) /\ UNCHANGED nHead
       \/ ~Directed /\ Advance /\ H([ev |-> "Advance"]) /\ nHead' = 0
       \/ ~Directed /\ EpochTick /\ H([ev |-> "EpochTick"]) /\ UNCHANGED nHead
       \/ \E b \in 0..(MaxEpoch + 1) : Reorg(b) /\ H([ev |-> "Reorg", b |-> b]) /\ UNCHANGED nHead
       \/ \E o \in BOOLEAN : HeadEvent(o) /\ nHead < MaxHeads /\ nHead' = nHead + 1 /\ H([ev |-> "HeadEvent"])
       \/ ~Directed /\ \E nm \in DOMAIN jobs, h \in BOOLEAN : Fire(nm, h) /\ H([ev |-> "Fire", k |-> nm[1], n |-> nm[2], h |-> h]) /\ UNCHANGED nHead
       \/ Internal /\ UNCHANGED <<hist, nHead>>
       \/ \E k \in {"att", "prop"}, on \in BOOLEAN : (Directed => on) /\ Hold(k, on) /\ H([ev |-> "Hold", k |-> k, on |-> on]) /\ UNCHANGED nHead
       \/ \E t \in tasks : Release(t) /\ H([ev |-> "Release", k |-> t.k, n |-> t.key, ver |-> t.ver,
                                                       late |-> (fetched[<<t.k, t.key>>] # t.ver)]) /\ UNCHANGED nHead

\* configuration families (the cfg file picks one with Cfgs <- ...)
CfgsSmall == {[p |-> 2, d |-> 12, ep |-> 2, prep |-> 1, fork |-> f, ft |-> t, attd |-> 4, propd |-> pd, syncd |-> 4, vals |-> {1, 2}] :
                 f \in {0, 1, 2}, t \in BOOLEAN, pd \in {0, 4}}
CfgsWide == {[p |-> 3, d |-> 6, ep |-> 4, prep |-> 2, fork |-> f, ft |-> t, attd |-> 2, propd |-> 1, syncd |-> 3, vals |-> {1, 2, 3}] :
                 f \in {0, 1, 3, 5}, t \in BOOLEAN}
            \cup {[p |-> 4, d |-> 12, ep |-> 2, prep |-> 2, fork |-> f, ft |-> FALSE, attd |-> 4, propd |-> 4, syncd |-> 4, vals |-> {1, 2}] :
                 f \in {0, 1}}
            \cup {[p |-> 1, d |-> 2, ep |-> 8, prep |-> 5, fork |-> f, ft |-> FALSE, attd |-> 1, propd |-> 0, syncd |-> 1, vals |-> {1, 2}] :
                 f \in {0, 2, 9}}

CfgsGatedOne == {[p |-> 2, d |-> 12, ep |-> 2, prep |-> 1, fork |-> 0, ft |-> FALSE, attd |-> 4, propd |-> 0, syncd |-> 4, vals |-> {1, 2}]}
CfgsGated == {[p |-> 2, d |-> 12, ep |-> 2, prep |-> 1, fork |-> 0, ft |-> FALSE, attd |-> 4, propd |-> pd, syncd |-> 4, vals |-> {1, 2}] :
                 pd \in {0, 4}}

\* bound for exhaustive enumeration of short behaviours
HistBound == Len(hist) <= ScenLen + 1

SSpec == SInit /\ [][SNext]_svars

\* the oracle family is supplied through the constant OraclesFor (cfg: OraclesFor <- SeedOracles)
SeedOracles(c) == {OracleOf(c, s) : s \in Seeds}

Emit == (Len(hist) = ScenLen + 1 /\ Settled) => PrintT(ToJson(hist))

(* Design-level counterexamples as scenarios: a behaviour at whose end a job made from an older  *)
(* reply has survived (overlapping refreshes) is written out, to be replayed on the real code.  *)
EmitStale == (up /\ Quiescent /\ ~NoStaleJob) => PrintT(ToJson(hist))
=============================================================================
