SPECIFICATION TraceSpec
CONSTANTS
  Validators = {1, 2}
  Externals = {3}
  Relays = {1, 2}
  Nodes = {1, 2, 3}
  DocIds = {1, 2, 3, 4, 5, 6}
  FailKinds = {"error", "malformed", "empty", "timeout", "canceled"}
  Ops = {}
  MaxInFlight = 0
  AuctionImpl = "intended"
  Resolution = "locked"
  MaxRounds = 0
INVARIANTS TypeOKC11 RegistrationExact SignedOverContent ReuseOnlyIfUnchanged FailureIsolated PreparationExact PreparationIsolated ControlledDropped ForwardedUnchanged ForwardedAll F2ControlledDropped F2ForwardedUnchanged F2ForwardedAll KeepsLastGood
CONSTRAINT HWM
POSTCONDITION TraceAccepted
CHECK_DEADLOCK FALSE
