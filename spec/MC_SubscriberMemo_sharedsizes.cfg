SPECIFICATION MSpec
CONSTANTS
  Design = "sharedsizes"
  Validators = {1}
  SlotSpace = {2, 3}
  Nows = {2, 3}
  Committees = {0, 1}
  Sizes = {8, 16}
  Targets = {2}
  HVals = {0, 4}
  HMod = 8
  MaxDuties = 2
  MaxSubs = 0
  SPE = 2
  Ep = 1
  MaxRefresh = 2
  MaxChanges = 1
  MaxHeld = 1
  SignerMayFail = FALSE
  SignerMayFail = FALSE
INVARIANTS TypeOK FreshInstanceExact AllFutureSubscribed AggregatorRuleExact SubscriptionHistoryIndependent InfoPrefersAggregator InfoInForceComplete EveryAggregatorCommitteeScheduled NoAggregationForPastSlot
CHECK_DEADLOCK FALSE
