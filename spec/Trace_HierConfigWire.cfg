SPECIFICATION TraceSpec
CONSTANTS
  PathRule = "documented"
  FocusSets = {}
  LatticeDuties = {}
  Nodes = {}
  MaxStarts = 0
INVARIANTS TypeOK MostSpecificUsed FromLongestPrefixOfDocPath DirectMatchUsed OthersIrrelevantUsed
PROPERTIES RepeatStartSame
CONSTRAINT HWM
POSTCONDITION TraceAccepted
CHECK_DEADLOCK FALSE
