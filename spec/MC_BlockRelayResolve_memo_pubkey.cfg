SPECIFICATION Spec
CONSTANTS
  Vals = {1, 2}
  Relays = {1, 2}
  Nodes = {1, 2}
  DocIds = {1, 2, 3, 4, 5}
  Kinds = {"round", "prep", "fwd", "unblind", "auction", "bid"}
  Routes = {"epoch", "import"}
  Memo = "pubkey"
INVARIANTS TypeOK RegistrationsFollowConfig PreparationsFollowConfig ForwardedFollowConfig MemoOfForce
CHECK_DEADLOCK FALSE
