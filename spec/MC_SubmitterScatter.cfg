SPECIFICATION ExtSpec
CONSTANTS
  DefaultConc = 16
  MaxItems = 60
  MaxConc = 16
INVARIANTS ExtentsPartition ExtentSizeSane
CHECK_DEADLOCK FALSE
