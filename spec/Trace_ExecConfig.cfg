SPECIFICATION TraceSpec
CONSTANTS
  Pairs = FALSE
  Wide = FALSE
INVARIANTS TypeOK FeeRecipientRight DisabledRemoved ResetDiscards RelaySetRight MostSpecificWins OnlyFirstMatch NoMatchDefaults LegacyRight
CONSTRAINT HWM
POSTCONDITION TraceAccepted
CHECK_DEADLOCK FALSE
