SPECIFICATION SSpec
CONSTANTS
  P = 4
  EP = 2
  G = 2
  MaxSlot = 15
  StartSlots = {4, 5, 6}
  Mode = "design"
  RecMax = 100
  RecKeep = 32
  RootKeep = 4
  BidKeep = 32
  KRoots = 8
  KBids = 64
  Menu = {{}, {0, 3}, {0, 2, 3}, {1, 2, 3}, {0, 1, 2, 3}}
  Moods = {"plain", "reorg", "reorg", "reorg"}
  MaxReorgs = 4
  MsgLates = {0}
  AucLates = {0}
  SubLates = {0}
  AttLates = {0}
  MaxHeld = 2
  MaxPasses = 3
  MaxHeads = 3
  HoldKinds = {"start", "prepare", "refresh"}
  Focus = FALSE
  FocusPasses = TRUE
  Fams = {"att"}
INVARIANTS Emit AttestedBounded SubsBounded JobsBounded PendingExact
CHECK_DEADLOCK FALSE
