------------------------- MODULE Scen_BlockRelay_C12 -------------------------
(* Scenario generator for C12: behaviours of the configuration part of BlockRelay (operations,   *)
(* their lock steps, answers of the source and of the bid strategy) with a history variable.     *)
(* A behaviour is printed when every operation instance has returned.  The driver replays the    *)
(* logged steps on the real block relay: it holds operations at the fakes' gates so that the     *)
(* interleaving of critical sections follows the behaviour as closely as the code allows.        *)
EXTENDS BlockRelay, Json

VARIABLE hist
svars == <<vars, hist>>

DocJson(k) == LET d == Catalogue(k) IN
    [id |-> k, bad |-> d.bad,
     vals |-> {[v |-> v, fee |-> d.vfee[v], rel |-> d.rel[v]] : v \in {1, 2, 3} \ d.bad}]

\* New() fetches inline: the scenario starts with the configuration that fetch produced
SInit ==
    /\ \E d \in {0} \cup DocIds :
          /\ active = d /\ lastGood = d
          /\ hist = <<[ev |-> "Reset", init |-> d, docs |-> {DocJson(k) : k \in DocIds}]>>
    /\ InitLock /\ InitOps /\ InitReg

H(e) == hist' = Append(hist, e)
Step(o, name) == H([ev |-> "Step", op |-> o, name |-> name])

SNext ==
    \/ \E o \in Ops, k \in {"fetch", "lookup", "auction", "register"}, a \in {0} \cup AllV :
          Start(o, k, a) /\ H([ev |-> "Start", op |-> o, kind |-> k, v |-> a])
    \/ \E o \in Ops :
          \/ FetchRLock(o) /\ Step(o, "FetchRLock")
          \/ FetchRUnlock(o) /\ Step(o, "FetchRUnlock")
          \/ \E out \in Outcomes : FetchSource(o, out) /\ H([ev |-> "Source", op |-> o, out |-> out.t, doc |-> out.doc])
          \/ FetchLockReq(o) /\ Step(o, "FetchLockReq")
          \/ FetchLockAcq(o) /\ Step(o, "FetchLockAcq")
          \/ FetchWriteUnlock(o) /\ Step(o, "FetchWriteUnlock")
          \/ LookupRLock(o) /\ Step(o, "LookupRLock")
          \/ LookupRUnlock(o) /\ Step(o, "LookupRUnlock")
          \/ AuctionRLock(o) /\ Step(o, "AuctionRLock")
          \/ AuctionRUnlock(o) /\ Step(o, "AuctionRUnlock")
          \/ \E b \in Bids : AuctionBid(o, b) /\ H([ev |-> "Bid", op |-> o, out |-> b])
          \/ RegisterRun(o) /\ Step(o, "RegisterRun")
          \/ Return(o) /\ H([ev |-> "Return", op |-> o])

SSpec == SInit /\ [][SNext]_svars

Emit == (\A o \in Ops : pc[o] = "done") => PrintT(ToJson(hist))
=============================================================================
