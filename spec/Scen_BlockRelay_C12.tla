------------------------- MODULE Scen_BlockRelay_C12 -------------------------
(* Scenario generator for C12: behaviours of the configuration part of BlockRelay (operations,   *)
(* their lock steps, answers of the source and of the bid strategy) with a history variable.     *)
(* A behaviour is printed when every operation instance has returned.  The driver replays the    *)
(* logged steps on the real block relay: it holds operations at the fakes' gates so that the     *)
(* interleaving of critical sections follows the behaviour as closely as the code allows.        *)
(* Family = "held" (with Resolution = "snapshot"): the directed overlap family.  Call 1 - a lookup or   *)
(* an auction for validator v - is held while it works out v's settings (it has read the          *)
(* configuration, the accounts' names are still to be answered), ACROSS a complete fetch (call 2,   *)
(* any answer of the source); then it is let go, and after both have returned v is looked up      *)
(* again (call 3) and auctioned for (call 4).  Everything else is fixed, so that TLC's exhaustive  *)
(* enumeration yields one behaviour per choice of the initial configuration, kind of call 1, v and  *)
(* the source's answer.  On a tree that works out the settings under the lock the fetch cannot      *)
(* finish before call 1 is let go: the driver's bounded waits expire and the recorded trace is      *)
(* another behaviour of the specification.                                                        *)
EXTENDS BlockRelay, Json

CONSTANT Family    \* "free" | "held" | "heldfetch" | "alt"

VARIABLE hist
svars == <<vars, hist>>

DocJson(k) == LET d == Catalogue(k) IN
    [id |-> k, bad |-> d.bad,
     vals |-> {[v |-> v, fee |-> d.vfee[v], rel |-> d.rel[v]] : v \in {1, 2, 3} \ d.bad}]

\* New() fetches inline: the scenario starts with the configuration that fetch produced
SInit ==
    /\ \E d \in {0} \cup DocIds :
          /\ active = d /\ lastGood = d
          /\ hist = <<[ev |-> "Reset", init |-> d, docs |-> {DocJson(k) : k \in DocIds}]>>
    /\ InitLock /\ InitOps /\ InitReg

H(e) == hist' = Append(hist, e)
Step(o, name) == H([ev |-> "Step", op |-> o, name |-> name])

Done(o) == pc[o] = "done"
\* the scripts of the directed families
\*   "held"       see above
\*   "heldfetch"  the mirror image: the fetch (call 1) is held at the configuration source while a lookup or an
\*                auction for v (call 2) runs to completion; then the source answers, the fetch completes, and v
\*                is looked up again (call 3)
\*   "alt"        sequential histories fetch ; lookup(v) ; fetch ; lookup(v) ; fetch ; auction(v) on one instance,
\*                every sequence of answers of the source (a failing fetch followed by further fetches and calls)
ScriptStart(o, k, a) ==
    CASE Family = "held" ->
            (CASE o = 1 -> k \in {"lookup", "auction"} /\ a \in Validators
               [] o = 2 -> k = "fetch" /\ pc[1] \in {"l_res", "a_res"}
               [] o = 3 -> k = "lookup" /\ a = arg[1] /\ Done(1) /\ Done(2)
               [] o = 4 -> k = "auction" /\ a = arg[1] /\ Done(3)
               [] OTHER -> FALSE)
      [] Family = "heldfetch" ->
            (CASE o = 1 -> k = "fetch"
               [] o = 2 -> k \in {"lookup", "auction"} /\ a \in Validators /\ pc[1] = "f_src"
               [] o = 3 -> k = "lookup" /\ a = arg[2] /\ Done(1)
               [] OTHER -> FALSE)
      [] Family = "alt" ->
            (CASE o \in {1, 3, 5} -> k = "fetch"
               [] o = 2 -> k = "lookup" /\ a \in Validators
               [] o = 4 -> k = "lookup" /\ a = arg[2]
               [] o = 6 -> k = "auction" /\ a = arg[2]
               [] OTHER -> FALSE)
      [] OTHER -> TRUE
HeldStart(o, k, a) == ScriptStart(o, k, a)
HeldResolve(o) == Family = "held" => (o = 1 => Done(2))
HeldSource(o) == Family = "heldfetch" => (o = 1 => Done(2))
HeldBid(b) == Family \in {"held", "heldfetch", "alt"} => b = "win"

SNext ==
    \/ \E o \in Ops, k \in {"fetch", "lookup", "auction", "register"}, a \in {0} \cup AllV :
          HeldStart(o, k, a) /\ Start(o, k, a) /\ H([ev |-> "Start", op |-> o, kind |-> k, v |-> a])
    \/ \E o \in Ops :
          \/ FetchRLock(o) /\ Step(o, "FetchRLock")
          \/ FetchRUnlock(o) /\ Step(o, "FetchRUnlock")
          \/ \E out \in Outcomes : HeldSource(o) /\ FetchSource(o, out) /\ H([ev |-> "Source", op |-> o, out |-> out.t, doc |-> out.doc])
          \/ FetchLockReq(o) /\ Step(o, "FetchLockReq")
          \/ FetchLockAcq(o) /\ Step(o, "FetchLockAcq")
          \/ FetchWriteUnlock(o) /\ Step(o, "FetchWriteUnlock")
          \/ LookupRLock(o) /\ Step(o, "LookupRLock")
          \/ LookupRUnlock(o) /\ Step(o, "LookupRUnlock")
          \/ HeldResolve(o) /\ LookupResolve(o) /\ Step(o, "LookupResolve")
          \/ AuctionRLock(o) /\ Step(o, "AuctionRLock")
          \/ AuctionRUnlock(o) /\ Step(o, "AuctionRUnlock")
          \/ HeldResolve(o) /\ AuctionResolve(o) /\ Step(o, "AuctionResolve")
          \/ \E b \in Bids : HeldBid(b) /\ AuctionBid(o, b) /\ H([ev |-> "Bid", op |-> o, out |-> b])
          \/ RegisterRun(o) /\ Step(o, "RegisterRun")
          \/ Return(o) /\ H([ev |-> "Return", op |-> o])

SSpec == SInit /\ [][SNext]_svars

Emit == (\A o \in Ops : pc[o] = "done") => PrintT(ToJson(hist))
=============================================================================
