SPECIFICATION Spec
CONSTANTS
  MaxN = 3
  Kinds = {"unblind"}
  CapOne = FALSE
  AllFailedReturns = FALSE
  Retries = 3
INVARIANTS NoWaitForEver
CHECK_DEADLOCK FALSE
