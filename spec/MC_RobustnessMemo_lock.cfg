SPECIFICATION MSpec
CONSTANTS
  EPs = {"builderbid", "execservice"}
  Designs = {"lock"}
  MaxCalls = 2
  MaxInFlight = 1
INVARIANTS TypeOK KeepsRunning EndsProperly HistoryIndependent BoundedOverlap MTotal

CHECK_DEADLOCK FALSE
