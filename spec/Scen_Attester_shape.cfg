SPECIFICATION SSpec
CONSTANTS
  RunIds = {1, 2}
  SlotsPerEpoch = 32
  Roots = {1, 2}
  Strict01 = TRUE
  Strict04 = TRUE
  ScenMode = "shape"
  ScenLen = 40
  ScenVals = {1, 2}
  ScenMaxLen = 3
  ScenSlots = {70}
  ScenComms = {0, 1}
  ScenPrepSlot = 66
INVARIANTS Emit NoDoubleSign SignedDataSound AssignmentExact
CHECK_DEADLOCK FALSE
