--------------------------- MODULE Trace_Controller ---------------------------
(* Trace specification: a trace recorded from the real controller (driver TestVerifC03) is a    *)
(* behaviour of Controller.  Every line names the stimulus the driver applied and carries the   *)
(* state projected from the real service once its goroutines had finished: the job table (kind, *)
(* slot, run time, validators covered), the log of executed duties, the duty requests the       *)
(* scripted beacon node saw, the replies it still holds back.  A line is explained by the       *)
(* stimulus action followed by the controller's internal steps (silent) up to the point where   *)
(* nothing is left to do; there the spec's state must equal the logged one (job table, executed *)
(* duties, the calls waiting at the delaying interfaces) and the changes made to the job table   *)
(* on the way must be the ones the recording scheduler saw (every successful ScheduleJob,       *)
(* CancelJob, RunJob and timer start, as a bag).  Internal steps are Controller!Internal: all    *)
(* interleavings among tasks that share job names.  A stimulus that found nothing to act on in   *)
(* the real run (a job to fire that is not there, a call to release that is not waiting) is     *)
(* accepted as a no-op where the specification has nothing there either: the scenario may have  *)
(* been generated along another of the orders the specification leaves open.                    *)
(* A line "Hung" (the driver's watchdog: a goroutine of the controller that is still there when *)
(* nothing moves any more and that waits at none of the scripted interfaces) has no action: a   *)
(* call that does not end is not a behaviour of Controller (RefreshCompletes).                  *)
EXTENDS Controller, TraceLib

VARIABLES l, phase, fs,
          cs        \* bag of changes to the job table since the stimulus: <<"add" / "rm", kind, n>>
tvars == <<vars, l, phase, fs, cs>>

Line == Trace[l]

DefaultCfg == [p |-> 1, d |-> 1, ep |-> 1, prep |-> 1, fork |-> 0, ft |-> FALSE, attd |-> 0, propd |-> 0, syncd |-> 0, vals |-> {}]
TraceCfgs == {DefaultCfg}
TraceOraclesFor(c) == {[att |-> {}, prop |-> {}, sync |-> {}]}

Fresh(c, o, n, a) ==
    /\ cfg' = c /\ oracle' = o /\ now' = n
    /\ depVer' = [b \in 0..(MaxEpoch + 1) |-> 0]
    /\ up' = FALSE
    /\ jobs' = Empty /\ tasks' = {} /\ done' = Empty
    /\ seen' = [has |-> FALSE, e |-> 0, prev |-> <<0, 0>>, cur |-> <<0, 0>>]
    /\ latestTick' = -1 /\ tickDue' = FALSE
    /\ startedAt' = [slot |-> 0, waited |-> TRUE]
    /\ fetched' = Empty /\ shown' = Empty /\ hold' = {}
    /\ acct' = a /\ lk' = "free"
    /\ nReorg' = 0 /\ nCrash' = 0 /\ nSpur' = 0 /\ nAcct' = 0

TraceInit ==
    /\ Init
    /\ now = 0
    /\ l = 1 /\ phase = "stim" /\ fs = {} /\ cs = Empty
    /\ InitHWM

AtLine(e) == l <= TraceLen /\ Line.ev = e /\ phase = "stim"
BagPlus(a, b) == [x \in (DOMAIN a) \cup (DOMAIN b) |-> Get(a, x, 0) + Get(b, x, 0)]
Delta(js, js2) == [x \in {<<"rm", nm[1], nm[2]>> : nm \in (DOMAIN js) \ (DOMAIN js2)}
                          \cup {<<"add", nm[1], nm[2]>> : nm \in (DOMAIN js2) \ (DOMAIN js)} |-> 1]
\* (a new scheduler comes with a restart: its log starts empty)
Stim == /\ l' = l /\ phase' = "settle" /\ fs' = {}
        /\ cs' = IF Line.ev \in {"Start", "Crash"} THEN Empty ELSE Delta(jobs, jobs')

TraceReset ==
    /\ AtLine("Reset")
    /\ Fresh([Line.cfg EXCEPT !.vals = SeqToSet(@)],
             [att |-> SeqToSet(Line.oracle.att), prop |-> SeqToSet(Line.oracle.prop), sync |-> SeqToSet(Line.oracle.sync)],
             Line.now,
             Answer(Line.acct.err, SeqToSet(Line.acct.vals)))
    /\ l' = l + 1 /\ phase' = "stim" /\ fs' = {} /\ cs' = Empty

TraceStart == AtLine("Start") /\ Start(Line.w) /\ Stim
TraceCrash == AtLine("Crash") /\ Crash /\ Stim
\* the scheduler's timeliness (no job left behind by the clock, earliest first) is an assumption under
\* which scenarios are generated, not something a trace is rejected for: a scenario generated along one
\* of the orders the specification leaves open may meet another job table in the real run
TraceAdvance == AtLine("Advance") /\ AdvanceStep /\ now' = Line.now /\ Stim
TraceReorg == AtLine("Reorg") /\ Reorg(Line.b) /\ Stim
TraceEpochTick == AtLine("EpochTick") /\ Line.fired /\ EpochTick /\ Stim
TraceHeadEvent == AtLine("HeadEvent") /\ (\E o \in BOOLEAN : HeadEvent(o)) /\ Stim
TraceFire == AtLine("Fire") /\ Line.fired /\ FireStep(<<Line.k, Line.n>>, Line.h) /\ Stim
TraceFireNone == AtLine("Fire") /\ ~Line.fired /\ <<Line.k, Line.n>> \notin DOMAIN jobs /\ UNCHANGED vars /\ Stim
TraceHold == AtLine("Hold") /\ Hold(Line.k, Line.on) /\ Stim
\* the accounts provider's answer from now on (any answer: the history says which)
TraceAccounts == AtLine("Accounts") /\ SetAccountsStep(Answer(Line.err, SeqToSet(Line.vals))) /\ UNCHANGED nAcct /\ Stim
LineCall == <<Line.k, Line.n, Line.ver, Line.jk>>
TraceRelease ==
    /\ AtLine("Release") /\ Line.released
    /\ \E t \in tasks :
          /\ LineCall \in ParkedCalls(t)
          /\ IF t.st = "sched"
             THEN \E d \in t.duties : d.blk /\ d.slot = Line.n /\ d.jk = Line.jk /\ ReleaseSched(t, d)
             ELSE Release(t)
    /\ Stim
TraceReleaseNone ==
    /\ AtLine("Release") /\ ~Line.released
    /\ ~\E t \in tasks : LineCall \in ParkedCalls(t)
    /\ UNCHANGED vars /\ Stim

FetchesOf(ts, ts2) == {<<t.k, t.key, KeyVer(t.k, t.key)>> : t \in {x \in ts : x.st = "fetch" /\ x \notin ts2}}

TraceInternal ==
    /\ phase = "settle"
    /\ Internal
    /\ fs' = fs \cup FetchesOf(tasks, tasks')
    /\ cs' = BagPlus(cs, Delta(jobs, jobs'))
    /\ UNCHANGED <<l, phase>>

\* projections compared with the log
JobView(js) == [nm \in DOMAIN js |-> [time |-> IF nm[1] = "prepepoch" THEN 0 ELSE js[nm].time,
                                      vals |-> IF nm[1] = "early" THEN {} ELSE js[nm].vals]]
LoggedJobs(line) ==
    LET S == SeqToSet(line.jobs)
        rec(nm) == CHOOSE j \in S : j.k = nm[1] /\ j.n = nm[2]
    IN [nm \in {<<j.k, j.n>> : j \in S} |->
            [time |-> IF nm[1] = "prepepoch" THEN 0 ELSE rec(nm).t,
             vals |-> IF nm[1] = "early" THEN {} ELSE SeqToSet(rec(nm).vals)]]
\* the property leaves the instant of prepare-for-epoch open: any time from the start of the
\* preceding epoch up to the start of the epoch it prepares
PrepTimesOk(line) ==
    \A i \in 1..Len(line.jobs) : line.jobs[i].k = "prepepoch" =>
        /\ line.jobs[i].n >= 1
        /\ StartOfEpoch(C, line.jobs[i].n - 1) <= line.jobs[i].t
        /\ line.jobs[i].t <= StartOfEpoch(C, line.jobs[i].n)
NoDuplicateNames(line) == Cardinality({<<j.k, j.n>> : j \in SeqToSet(line.jobs)}) = Len(line.jobs)
LoggedDone(line) ==
    LET recs == [i \in 1..Len(line.done) |-> [k |-> line.done[i].k, n |-> line.done[i].n, vals |-> SeqToSet(line.done[i].vals)]]
    IN [x \in {recs[i] : i \in 1..Len(recs)} |-> Cardinality({i \in 1..Len(recs) : recs[i] = x})]
LoggedHeld(line) ==
    LET e(i) == <<line.held[i].k, line.held[i].key, line.held[i].ver, line.held[i].jk>>
    IN [c \in {e(i) : i \in 1..Len(line.held)} |-> Cardinality({i \in 1..Len(line.held) : e(i) = c})]
HeldView ==
    LET H == UNION {{<<t.id, c>> : c \in ParkedCalls(t)} : t \in tasks}
    IN [c \in {p[2] : p \in H} |-> Cardinality({p \in H : p[2] = c})]
LoggedCalls(line) ==
    LET e(i) == <<line.calls[i].op, line.calls[i].k, line.calls[i].n>>
    IN [c \in {e(i) : i \in 1..Len(line.calls)} |-> Cardinality({i \in 1..Len(line.calls) : e(i) = c})]
LoggedFetches(line) == {<<line.fetches[i].k, line.fetches[i].key, line.fetches[i].ver>> : i \in 1..Len(line.fetches)}

Matches ==
    /\ Line.up = up
    /\ NoDuplicateNames(Line) /\ PrepTimesOk(Line)
    /\ LoggedJobs(Line) = JobView(jobs)
    /\ LoggedDone(Line) = done
    /\ LoggedHeld(Line) = HeldView
    /\ LoggedCalls(Line) = cs                 \* the job table changed as the recording scheduler saw it change
    /\ fs \subseteq LoggedFetches(Line)        \* every duty request the specification makes was seen by the node

\* diagnostics only: what the specification expected where the log differs (never enabled)
TraceMismatch ==
    /\ phase = "settle" /\ l <= TraceLen /\ Settled /\ ~Matches
    /\ PrintT(<<"EXPECTED_AT", l, [jobs |-> JobView(jobs), done |-> done, up |-> up, held |-> HeldView, fetches |-> fs, calls |-> cs]>>)
    /\ FALSE
    /\ UNCHANGED tvars

TraceMatch ==
    /\ phase = "settle" /\ l <= TraceLen
    /\ Settled
    /\ Matches
    /\ l' = l + 1 /\ phase' = "stim" /\ fs' = {} /\ cs' = Empty
    /\ UNCHANGED vars

TraceNext ==
    \/ TraceReset \/ TraceStart \/ TraceCrash \/ TraceAdvance \/ TraceReorg \/ TraceEpochTick
    \/ TraceHeadEvent \/ TraceFire \/ TraceFireNone \/ TraceHold \/ TraceAccounts \/ TraceRelease \/ TraceReleaseNone
    \/ TraceInternal \/ TraceMatch \/ TraceMismatch

TraceSpec == TraceInit /\ [][TraceNext]_tvars

HWM == UpdateHWM(l)
TraceAccepted == TraceAcceptedUpTo
=============================================================================
