--------------------------- MODULE Trace_Controller ---------------------------
(* Trace specification: a trace recorded from the real controller (driver TestVerifC03) is a    *)
(* behaviour of Controller.  Every line names the stimulus the driver applied and carries the   *)
(* state projected from the real service once its goroutines had finished: the job table (kind, *)
(* slot, run time, validators covered), the log of executed duties, the duty requests the       *)
(* scripted beacon node saw, the replies it still holds back.  A line is explained by the       *)
(* stimulus action followed by the controller's internal steps (silent) up to the point where   *)
(* nothing is left to do; there the spec's state must equal the logged one.  Internal steps of   *)
(* tasks working on different epochs / duty kinds commute, so they are taken in one fixed order; *)
(* all interleavings are explored when two tasks work on the same epoch and kind.               *)
EXTENDS Controller, TraceLib

VARIABLES l, phase, fs
tvars == <<vars, l, phase, fs>>

Line == Trace[l]

DefaultCfg == [p |-> 1, d |-> 1, ep |-> 1, prep |-> 1, fork |-> 0, ft |-> FALSE, attd |-> 0, propd |-> 0, syncd |-> 0, vals |-> {}]
TraceCfgs == {DefaultCfg}
TraceOraclesFor(c) == {[att |-> {}, prop |-> {}, sync |-> {}]}

Fresh(c, o, n) ==
    /\ cfg' = c /\ oracle' = o /\ now' = n
    /\ depVer' = [b \in 0..(MaxEpoch + 1) |-> 0]
    /\ up' = FALSE
    /\ jobs' = Empty /\ tasks' = {} /\ done' = Empty
    /\ seen' = [has |-> FALSE, e |-> 0, prev |-> <<0, 0>>, cur |-> <<0, 0>>]
    /\ latestTick' = -1 /\ tickDue' = FALSE
    /\ startedAt' = [slot |-> 0, waited |-> TRUE]
    /\ fetched' = Empty /\ shown' = Empty /\ hold' = {}
    /\ nReorg' = 0 /\ nCrash' = 0 /\ nSpur' = 0

TraceInit ==
    /\ Init
    /\ now = 0
    /\ l = 1 /\ phase = "stim" /\ fs = {}
    /\ InitHWM

AtLine(e) == l <= TraceLen /\ Line.ev = e /\ phase = "stim"
Stim == l' = l /\ phase' = "settle" /\ fs' = {}

TraceReset ==
    /\ AtLine("Reset")
    /\ Fresh([Line.cfg EXCEPT !.vals = SeqToSet(@)],
             [att |-> SeqToSet(Line.oracle.att), prop |-> SeqToSet(Line.oracle.prop), sync |-> SeqToSet(Line.oracle.sync)],
             Line.now)
    /\ l' = l + 1 /\ phase' = "stim" /\ fs' = {}

TraceStart == AtLine("Start") /\ Start(Line.w) /\ Stim
TraceCrash == AtLine("Crash") /\ Crash /\ Stim
TraceAdvance == AtLine("Advance") /\ Advance /\ now' = Line.now /\ Stim
TraceReorg == AtLine("Reorg") /\ Reorg(Line.b) /\ Stim
TraceEpochTick == AtLine("EpochTick") /\ Line.fired /\ EpochTick /\ Stim
TraceHeadEvent == AtLine("HeadEvent") /\ (\E o \in BOOLEAN : HeadEvent(o)) /\ Stim
TraceFire == AtLine("Fire") /\ Line.fired /\ Fire(<<Line.k, Line.n>>, Line.h) /\ Stim
TraceHold == AtLine("Hold") /\ Hold(Line.k, Line.on) /\ Stim
TraceRelease == AtLine("Release") /\ Line.released /\ (\E t \in tasks : t.k = Line.k /\ t.key = Line.n /\ t.ver = Line.ver /\ Release(t)) /\ Stim

\* two tasks at work on the same duty kind and epoch / period: their steps do not commute
Active == {t \in tasks : t.st # "held"}
Conflicted == \E t \in Active, u \in Active : t # u /\ t.k = u.k /\ t.key = u.key
FetchesOf(ts, ts2) == {<<t.k, t.key, KeyVer(t.k, t.key)>> : t \in {x \in ts : x.st = "fetch" /\ x \notin ts2}}

TraceInternal ==
    /\ phase = "settle" /\ Active # {}
    /\ IF Conflicted
       THEN Internal
       ELSE LET t == CHOOSE x \in Active : TRUE IN
              \/ Fetch(t) \/ Filter(t) \/ Cancel(t)
              \/ (t.st = "sched" /\ LET d == CHOOSE x \in t.duties : TRUE IN SchedOne(t, d))
    /\ fs' = fs \cup FetchesOf(tasks, tasks')
    /\ UNCHANGED <<l, phase>>

\* projections compared with the log
JobView(js) == [nm \in DOMAIN js |-> [time |-> IF nm[1] = "prepepoch" THEN 0 ELSE js[nm].time,
                                      vals |-> IF nm[1] = "early" THEN {} ELSE js[nm].vals]]
LoggedJobs(line) ==
    LET S == SeqToSet(line.jobs)
        rec(nm) == CHOOSE j \in S : j.k = nm[1] /\ j.n = nm[2]
    IN [nm \in {<<j.k, j.n>> : j \in S} |->
            [time |-> IF nm[1] = "prepepoch" THEN 0 ELSE rec(nm).t,
             vals |-> IF nm[1] = "early" THEN {} ELSE SeqToSet(rec(nm).vals)]]
\* the property leaves the instant of prepare-for-epoch open: any time from the start of the
\* preceding epoch up to the start of the epoch it prepares
PrepTimesOk(line) ==
    \A i \in 1..Len(line.jobs) : line.jobs[i].k = "prepepoch" =>
        /\ line.jobs[i].n >= 1
        /\ StartOfEpoch(C, line.jobs[i].n - 1) <= line.jobs[i].t
        /\ line.jobs[i].t <= StartOfEpoch(C, line.jobs[i].n)
NoDuplicateNames(line) == Cardinality({<<j.k, j.n>> : j \in SeqToSet(line.jobs)}) = Len(line.jobs)
LoggedDone(line) ==
    LET recs == [i \in 1..Len(line.done) |-> [k |-> line.done[i].k, n |-> line.done[i].n, vals |-> SeqToSet(line.done[i].vals)]]
    IN [x \in {recs[i] : i \in 1..Len(recs)} |-> Cardinality({i \in 1..Len(recs) : recs[i] = x})]
LoggedHeld(line) == {<<line.held[i].k, line.held[i].key, line.held[i].ver>> : i \in 1..Len(line.held)}
HeldView == {<<t.k, t.key, t.ver>> : t \in {x \in tasks : x.st = "held"}}
HeldCount == LET H == {x \in tasks : x.st = "held"}
                 RECURSIVE Sum(_)
                 Sum(S) == IF S = {} THEN 0 ELSE LET x == CHOOSE y \in S : TRUE IN x.cnt + Sum(S \ {x})
             IN Sum(H)
LoggedFetches(line) == {<<line.fetches[i].k, line.fetches[i].key, line.fetches[i].ver>> : i \in 1..Len(line.fetches)}

Matches ==
    /\ Line.up = up
    /\ NoDuplicateNames(Line) /\ PrepTimesOk(Line)
    /\ LoggedJobs(Line) = JobView(jobs)
    /\ LoggedDone(Line) = done
    /\ LoggedHeld(Line) = HeldView /\ Len(Line.held) = HeldCount
    /\ fs \subseteq LoggedFetches(Line)        \* every duty request the specification makes was seen by the node

\* diagnostics only: what the specification expected where the log differs (never enabled)
TraceMismatch ==
    /\ phase = "settle" /\ l <= TraceLen /\ Settled /\ ~Matches
    /\ PrintT(<<"EXPECTED_AT", l, [jobs |-> JobView(jobs), done |-> done, up |-> up, held |-> HeldView, fetches |-> fs]>>)
    /\ FALSE
    /\ UNCHANGED tvars

TraceMatch ==
    /\ phase = "settle" /\ l <= TraceLen
    /\ Settled
    /\ Matches
    /\ l' = l + 1 /\ phase' = "stim" /\ fs' = {}
    /\ UNCHANGED vars

TraceNext ==
    \/ TraceReset \/ TraceStart \/ TraceCrash \/ TraceAdvance \/ TraceReorg \/ TraceEpochTick
    \/ TraceHeadEvent \/ TraceFire \/ TraceHold \/ TraceRelease
    \/ TraceInternal \/ TraceMatch \/ TraceMismatch

TraceSpec == TraceInit /\ [][TraceNext]_tvars

HWM == UpdateHWM(l)
TraceAccepted == TraceAcceptedUpTo
=============================================================================
