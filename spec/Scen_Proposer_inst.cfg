SPECIFICATION SSpec
CONSTANTS
  DutySlots = {9}
  Validators = {1, 2}
  SlotsPerEpoch = 4
  Relays = {1}
  NRelays = 1
  AllChoices = {{1}}
  Versions = {"deneb"}
  Blindable = {"deneb"}
  Outcomes = {"full"}
  Scripts = {"full", "err"}
  GraffitiOuts = {"static"}
  PrepOuts = {"ok", "err"}
  CfgFilter = "graffiti"
  Drops = TRUE
  Dslots <- FwdDslots
  MaxCalls = 3
  NDuties = 3
  SlotGaps = {0, 1}
  MaxOpen = 3
  MaxInFlight = 1
  InitCfgs <- BuilderCfgs
  LaterAllChoices = {{1}}
  LaterVersions = {"deneb"}
  LaterOutcomes = {"full"}
  LaterDslots = {0}
  LaterScripts = {"full"}
  LaterGraffitiOuts = {"static"}
  LaterPrepOuts = {"ok"}
  LaterNodeClientOuts = {"ok"}
  LaterStepOuts = {"ok"}
INVARIANTS Emit
CHECK_DEADLOCK FALSE
