SPECIFICATION ASpec
CONSTANTS
  Designs = {"goroutine"}
  Alphabet = {"ok", "empty", "slow", "error", "timeout", "canceled", "notactive", "down"}
INVARIANTS ATypeOK CallerSeesNoPanic
CHECK_DEADLOCK FALSE
