---------------------------- MODULE SubmitterInst ----------------------------
(* Property C08 on ONE long-lived multinode submitter serving OVERLAPPING submissions.           *)
(*                                                                                                *)
(* In production the submitter is called concurrently: the attester and the sync committee        *)
(* messenger of the same slot submit at the same instant, aggregates and contributions follow     *)
(* while a slow node still holds an earlier call, subscriptions and proposal preparations come    *)
(* from the epoch ticker (main.go wires ONE submitter into all of them).  Here a submission is a   *)
(* process with separate Start / node steps / Return actions, and the environment decides how the *)
(* submissions interleave.  Time is abstract and per submission: Timeout(c) is the instant call   *)
(* c's time-out expires; Env_StepsAreFast says that a code step of call c that can be taken is     *)
(* taken before that (the detailed timing - condition variable, lost wake-ups, instant classes -   *)
(* is in Submitter.tla).                                                                           *)
(*                                                                                                *)
(* C08 is stated for EVERY call c, over what is observable at the interfaces for that call, and   *)
(* may depend only on c's own inputs and on known (the client types the nodes reported at          *)
(* successful version lookups so far - the one thing the property lets the instance remember):     *)
(*   SuccessIffC, OfferedC, IndependenceC.                                                         *)
(* Design "percall" is the code: semaphore, completion flag and waiter are created per call, the  *)
(* node is asked for its version at every classification.  The other designs are right for every  *)
(* call made alone on a fresh instance and must be REJECTED by TLC (vacuity self-checks run by     *)
(* checks/C08.py):                                                                                 *)
(*   "sharedsem"  the weighted semaphore lives on the instance (permits of a held / hanging node   *)
(*                call of one submission are missing for the other);                               *)
(*   "sharedflag" the completion flag lives on the instance and is cleared when a call starts;     *)
(*   "memofail"   the first answer about a node's client type is remembered, including the         *)
(*                "unknown" of a failed lookup (seeded/C08-client-type-cached-on-failed-lookup).   *)
EXTENDS Integers, FiniteSets, Sequences, TLC, SubmitterClassifier

CONSTANTS NCalls,       \* number of submissions in the history
          NNodes,       \* number of nodes of the instance
          IClientSet,   \* client types a node of the instance can be
          IConcSet,     \* process concurrency values
          IKinds,       \* kinds of submission
          IOutcomes,    \* what a node can do with the payload at a submission at which its version query works
          IFailOutcomes,\* ... at a submission at which its version query fails
          Design

C == 1..NCalls
IChoices == (IOutcomes \X {"ok"}) \cup (IFailOutcomes \X {"fail"})
N == 1..NNodes

VARIABLES conc,      \* instance: process concurrency
          clients,   \* instance: node -> client type (fixed for the life of the instance)
          known,     \* instance, persistent: node -> client types it reported (was ready to report) at the
                     \* submissions started so far - all the instance can have learned about it
          st,        \* call -> "idle" | "running" | "returned"
          cfg,       \* call -> [kind, nodes] (nodes: node -> NodeV), chosen at Start
          g,         \* call -> node -> "start" | "calling" | "done"   (the node goroutine)
          sem,       \* call -> permits taken ("sharedsem": only sem[1] is used, by every call)
          flag,      \* call -> completion flag ("sharedflag": only flag[1])
          tmo,       \* call -> its time-out has expired
          called,    \* call -> node -> BOOLEAN            observation
          reply,     \* call -> node -> "none" | "accept" | "error"
          intime,    \* call -> node -> replied before the call's time-out
          pre,       \* call -> node -> replied before the call returned
          ret,       \* call -> "none" | "ok" | "err"
          memo       \* instance, design "memofail": node -> remembered client type ("unset")

vars == <<conc, clients, known, st, cfg, g, sem, flag, tmo, called, reply, intime, pre, ret, memo>>

NoCfg == [kind |-> "att", nodes |-> [n \in N |-> NodeV("unknown", "ok", "accept", "none")]]

Init ==
    /\ conc \in IConcSet
    /\ clients \in [N -> IClientSet]
    /\ known = [n \in N |-> {}]
    /\ st = [c \in C |-> "idle"]
    /\ cfg = [c \in C |-> NoCfg]
    /\ g = [c \in C |-> [n \in N |-> "start"]]
    /\ sem = [c \in C |-> 0]
    /\ flag = [c \in C |-> FALSE]
    /\ tmo = [c \in C |-> FALSE]
    /\ called = [c \in C |-> [n \in N |-> FALSE]]
    /\ reply = [c \in C |-> [n \in N |-> "none"]]
    /\ intime = [c \in C |-> [n \in N |-> FALSE]]
    /\ pre = [c \in C |-> [n \in N |-> FALSE]]
    /\ ret = [c \in C |-> "none"]
    /\ memo = [n \in N |-> "unset"]

SemOf(c) == IF Design = "sharedsem" THEN 1 ELSE c
FlagOf(c) == IF Design = "sharedflag" THEN 1 ELSE c
Nd(c, n) == cfg[c].nodes[n]

\* the caller enters Submit...(): calls start in order, the next one whenever the environment likes
\* (before, while or after the previous one runs)
Start(c) ==
    /\ st[c] = "idle"
    /\ IF c = 1 THEN TRUE ELSE st[c - 1] # "idle"
    /\ \E k \in IKinds, f \in [N -> IChoices] :
          cfg' = [cfg EXCEPT ![c] = [kind |-> k, nodes |-> [n \in N |-> HNode(k, clients[n], f[n][1], f[n][2])]]]
    /\ st' = [st EXCEPT ![c] = "running"]
    /\ flag' = IF Design = "sharedflag" THEN [flag EXCEPT ![1] = FALSE] ELSE flag
    /\ known' = [n \in N |-> known[n] \cup (IF Reported(cfg'[c].nodes[n]) = "none" THEN {} ELSE {Reported(cfg'[c].nodes[n])})]
    /\ UNCHANGED <<conc, clients, g, sem, tmo, called, reply, intime, pre, ret, memo>>

\* sem.Acquire succeeded, the node is looked up and called
Acquire(c, n) ==
    /\ st[c] # "idle"
    /\ g[c][n] = "start"
    /\ sem[SemOf(c)] < conc
    /\ sem' = [sem EXCEPT ![SemOf(c)] = @ + 1]
    /\ g' = [g EXCEPT ![c][n] = "calling"]
    /\ called' = [called EXCEPT ![c][n] = TRUE]
    /\ memo' = IF Design = "memofail" /\ memo[n] = "unset" THEN [memo EXCEPT ![n] = Reported(Nd(c, n))] ELSE memo
    /\ UNCHANGED <<conc, clients, known, st, cfg, flag, tmo, reply, intime, pre, ret>>

ClassClient(c, n) == IF Design = "memofail" THEN memo[n] ELSE Reported(Nd(c, n))

\* "held": the reply is available once the NEXT call has returned (or there is no next call)
Available(c, n) ==
    CASE Nd(c, n).out \in {"accept", "error", "slowok"} -> TRUE
      [] Nd(c, n).out = "late" -> tmo[c]
      [] Nd(c, n).out = "held" -> IF c = NCalls THEN TRUE ELSE st[c + 1] = "returned"
      [] OTHER -> FALSE

\* the node replied; classification; flag; deferred release
Reply(c, n) ==
    /\ g[c][n] = "calling"
    /\ Available(c, n)
    /\ LET r == IF Nd(c, n).out = "error" \/ (Nd(c, n).out = "held" /\ Nd(c, n).reason # "none") THEN "error" ELSE "accept"
           eff == r = "accept" \/ Tolerated(cfg[c].kind, ClassClient(c, n), Nd(c, n).reason)
       IN /\ reply' = [reply EXCEPT ![c][n] = r]
          /\ intime' = [intime EXCEPT ![c][n] = ~ tmo[c]]
          /\ pre' = [pre EXCEPT ![c][n] = (ret[c] = "none")]
          /\ flag' = IF eff THEN [flag EXCEPT ![FlagOf(c)] = TRUE] ELSE flag
    /\ g' = [g EXCEPT ![c][n] = "done"]
    /\ sem' = [sem EXCEPT ![SemOf(c)] = @ - 1]
    /\ UNCHANGED <<conc, clients, known, st, cfg, tmo, called, ret, memo>>

\* the caller returns: woken by a completion, or by the time-out (a lost wake-up only delays a
\* success to the time-out, see Submitter.tla)
Return(c) ==
    /\ st[c] = "running"
    /\ flag[FlagOf(c)] \/ tmo[c]
    /\ st' = [st EXCEPT ![c] = "returned"]
    /\ ret' = [ret EXCEPT ![c] = IF flag[FlagOf(c)] THEN "ok" ELSE "err"]
    /\ UNCHANGED <<conc, clients, known, cfg, g, sem, flag, tmo, called, reply, intime, pre, memo>>

\* a code step of call c that can be taken now (Env_StepsAreFast: before c's time-out expires)
Prompt(c) ==
    \/ \E n \in N : g[c][n] = "start" /\ sem[SemOf(c)] < conc
    \/ \E n \in N : g[c][n] = "calling" /\ Nd(c, n).out \in {"accept", "error", "slowok"}
    \/ \E n \in N : g[c][n] = "calling" /\ Nd(c, n).out = "held" /\ Available(c, n)

Timeout(c) ==
    /\ st[c] # "idle"
    /\ ~ tmo[c]
    /\ ~ Prompt(c)
    /\ tmo' = [tmo EXCEPT ![c] = TRUE]
    /\ UNCHANGED <<conc, clients, known, st, cfg, g, sem, flag, called, reply, intime, pre, ret, memo>>

Next == \E c \in C : Start(c) \/ Return(c) \/ Timeout(c) \/ \E n \in N : Acquire(c, n) \/ Reply(c, n)

Spec == Init /\ [][Next]_vars

-----------------------------------------------------------------------------
(* C08 for every call of the history                                                              *)

Must(c, n) ==
    \/ reply[c][n] = "accept"
    \/ reply[c][n] = "error" /\ Tolerated(cfg[c].kind, Reported(Nd(c, n)), Nd(c, n).reason)
May(c, n) ==
    \/ Must(c, n)
    \/ reply[c][n] = "error" /\ \E cl \in known[n] : Tolerated(cfg[c].kind, cl, Nd(c, n).reason)

Roomy == conc >= NNodes
Over(c) == st[c] = "returned" /\ tmo[c]       \* the call has returned and its time-out has passed

SuccessIffC ==
    \A c \in C : st[c] = "returned" =>
        /\ ret[c] = "ok" => \E n \in N : May(c, n) /\ pre[c][n]
        /\ ret[c] = "err" => ~ \E n \in N : Must(c, n) /\ intime[c][n]

\* with room for every node, every node of every call has been called when the call's time-out
\* expires - whatever the nodes did at earlier calls and whatever other calls are doing
OfferedC == \A c \in C : (Roomy /\ tmo[c]) => \A n \in N : called[c][n]

\* with room for every node, a node goroutine never waits for a permit
IndependenceC ==
    \A c \in C : (Roomy /\ st[c] # "idle") => \A n \in N : g[c][n] = "start" => sem[SemOf(c)] < conc

TypeOK ==
    /\ \A c \in C : sem[c] \in 0..(NCalls * NNodes)
    /\ \A c \in C : ret[c] \in {"none", "ok", "err"}

\* reachability witnesses (must be VIOLATED; run by hand)
NeverOverlap == ~ \E c \in C : c < NCalls /\ st[c] = "running" /\ st[c + 1] = "running"
NeverHeldAcrossReturn == ~ \E c \in C, n \in N : c < NCalls /\ g[c][n] = "calling" /\ Nd(c, n).out = "held" /\ st[c + 1] = "returned"
=============================================================================
