SPECIFICATION SemSeqSpec
CONSTANTS
  MaxN = 2
  Variants = {"Best"}
  Values = {1}
  Scores = {0, 1}
  FirstCap = 0
  PC = 2
  Deviation = "SemLeak"
INVARIANTS TypeOK SemTypeOK ErrorIffNothing
