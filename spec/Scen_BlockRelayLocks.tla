------------------------ MODULE Scen_BlockRelayLocks ------------------------
(* Scenario generator for the lock part of C12: behaviours of BlockRelayLocks with a history        *)
(* variable.  A behaviour is printed when every call has returned.  The driver replays the history   *)
(* on ONE real block relay service: calls are held at the gates of the fakes (accounts, account      *)
(* name, configuration source, builder-bid strategy) so that the critical sections interleave as in  *)
(* the history; the lock steps themselves ("Step") only steer, they are not in the recorded trace.   *)
(*                                                                                                  *)
(* The generator also keeps what the lock model abstracts from, so that a history is one the real    *)
(* code can follow: the active document (act), what a call read under the configuration read lock    *)
(* (seen) - whether relays are configured for the validator decides whether the strategy is asked -   *)
(* and a bid cache that never forgets.                                                              *)
(*                                                                                                  *)
(* Family = "free": any interleaving (TLC simulation).  The directed families are scripts with a      *)
(* fixed schedule (the most recently started call that can run, runs; a new call starts only when     *)
(* nothing can run), so that TLC's exhaustive enumeration yields one history per choice of the        *)
(* parameters:                                                                                      *)
(*   "queued"     call 1, BuilderBid(k1) without a cached bid, is held IN ITS IMMEDIATE AUCTION (at    *)
(*                the strategy: it holds builderBidMu); call 2, BuilderBid(k2), queues on builderBidMu; *)
(*                call 3, the refresh, runs from start to end (any answer of the source); then the      *)
(*                strategy answers call 1 (any answer), call 2 gets builderBidMu and runs its own        *)
(*                auction; afterwards a lookup, a registration round, another refresh and another        *)
(*                BuilderBid(k2)                                                                        *)
(*   "fetchheld"  the other order: the refresh (call 1) is held at the configuration source while        *)
(*                BuilderBid(k1) runs its immediate auction to the end and a further BuilderBid /         *)
(*                AuctionBlock / lookup runs; then the source answers; then BuilderBid(k1) (cached now)   *)
(*                and a lookup                                                                          *)
(*   "warm"       sequential: AuctionBlock(k) stores the bid, BuilderBid(k) is answered from the cache,   *)
(*                refresh, BuilderBid(k), AuctionBlock(k)                                                *)
EXTENDS BlockRelayLocks, Json

CONSTANTS Family,     \* "free" | "queued" | "fetchheld" | "warm"
          DocIds,     \* documents the source may serve
          InitDocs    \* documents New() may have obtained with its inline fetch (0 = none)

VARIABLES hist, act, gotDoc, seen
aux == <<act, gotDoc, seen>>
svars == <<lvars, hist, aux>>

\* documents 1, 2, 3 of the catalogue of BlockRelay.tla (same ids, same content)
Cat(k) ==
  CASE k = 1 -> [bad  |-> {},
                 vfee |-> (1 :> 1 @@ 2 :> 1 @@ 3 :> 1),
                 rel  |-> (1 :> {<<1, 0, 1>>, <<2, 0, 1>>} @@ 2 :> {<<1, 0, 1>>, <<2, 0, 1>>} @@ 3 :> {<<1, 0, 1>>})]
    [] k = 2 -> [bad  |-> {},
                 vfee |-> (1 :> 1 @@ 2 :> 2 @@ 3 :> 1),
                 rel  |-> (1 :> {<<1, 2, 1>>, <<2, 0, 2>>} @@ 2 :> {<<1, 0, 0>>} @@ 3 :> {<<2, 2, 2>>})]
    [] k = 3 -> [bad  |-> {2},
                 vfee |-> (1 :> 1 @@ 2 :> 0 @@ 3 :> 1),
                 rel  |-> (1 :> {<<1, 0, 1>>, <<2, 0, 1>>} @@ 2 :> {} @@ 3 :> {<<1, 0, 1>>})]

DocJson(k) == LET d == Cat(k) IN
    [id |-> k, bad |-> d.bad,
     vals |-> {[v |-> v, fee |-> d.vfee[v], rel |-> d.rel[v]] : v \in {1, 2, 3} \ d.bad}]

\* what auctionBlock finds for validator v in document d
RelChoice(d, v) ==
    IF d = 0 THEN "none"
    ELSE IF v \in Cat(d).bad THEN "unresolvable"
    ELSE IF Cat(d).rel[v] = {} THEN "none" ELSE "some"

SInit ==
    /\ LInit
    /\ gotDoc = [o \in Ops |-> 0]
    /\ seen = [o \in Ops |-> 0]
    /\ \E d \in InitDocs :
          /\ act = d
          /\ hist = <<[ev |-> "Reset", init |-> d, fam |-> Family, docs |-> {DocJson(k) : k \in DocIds}]>>

H(e) == hist' = Append(hist, e)
Done(o) == st[o] = "done"
AtE(o, n) == st[o] = "run" /\ Next1(o).op = "E" /\ Next1(o).l = n
At(o, i) == st[o] = "run" /\ Next1(o) = i
Scripted == Family # "free"

ScriptStart(o, k, a) ==
    CASE Family = "queued" ->
            (CASE o = 1 -> k = "bbid"
               [] o = 2 -> k = "bbid" /\ AtE(1, "bid")
               [] o = 3 -> k = "fetch" /\ AtE(1, "bid") /\ At(2, Wacq("bb"))
               [] o = 4 -> k = "lookup" /\ a = arg[1] /\ Done(1) /\ Done(2) /\ Done(3)
               [] o = 5 -> k = "register"
               [] o = 6 -> k = "fetch"
               [] o = 7 -> k = "bbid" /\ a = arg[2]
               [] OTHER -> FALSE)
      [] Family = "fetchheld" ->
            (CASE o = 1 -> k = "fetch"
               [] o = 2 -> k = "bbid" /\ AtE(1, "source")
               [] o = 3 -> k \in {"bbid", "auction", "lookup"} /\ Done(2) /\ AtE(1, "source")
               [] o = 4 -> k = "bbid" /\ a = arg[2] /\ Done(1)
               [] o = 5 -> k = "lookup" /\ a = arg[2]
               [] OTHER -> FALSE)
      [] Family = "warm" ->
            (CASE o = 1 -> k = "auction"
               [] o \in {2, 4} -> k = "bbid" /\ a = arg[1]
               [] o = 3 -> k = "fetch"
               [] o = 5 -> k = "auction" /\ a = arg[1]
               [] OTHER -> FALSE)
      [] OTHER -> TRUE

\* the call is held by the script (at a gate of a fake)
Hold(o) ==
    CASE Family = "queued" -> o = 1 /\ AtE(1, "bid") /\ ~Done(3)
      [] Family = "fetchheld" -> o = 1 /\ AtE(1, "source") /\ ~(Done(2) /\ Done(3))
      [] OTHER -> FALSE

ScriptBid(o, b) ==
    CASE Family = "queued" -> o = 1 \/ b = "win"
      [] Family = "fetchheld" -> o = 2 \/ b = "win"
      [] Family = "warm" -> (o = 1 /\ b \in {"win", "nobid"}) \/ (o # 1 /\ b = "win")
      [] OTHER -> TRUE

ScriptSource(o, out) ==
    CASE Family = "queued" -> o = 3 \/ out = "error"
      [] OTHER -> TRUE

Runnable(o) == CanStep(o) /\ ~Hold(o)
Turn(o) == Runnable(o) /\ (Scripted => \A p \in Ops : p > o => ~Runnable(p))
MayStart == Scripted => \A p \in Ops : ~Runnable(p)

\* bookkeeping of the instruction the call is about to execute
AuxStep(o) ==
    LET i == Next1(o) IN
    /\ seen' = IF i.op = "R" /\ i.l = "ec" THEN [seen EXCEPT ![o] = act] ELSE seen
    /\ act' = IF i.op = "WU" /\ i.l = "ec" /\ kind[o] = "fetch" /\ gotDoc[o] # 0 THEN gotDoc[o] ELSE act
    /\ UNCHANGED gotDoc

StepRec(o) == [ev |-> "Step", op |-> o, i |-> Next1(o).op, l |-> Next1(o).l]

Branch(o) ==
    LET i == Next1(o) IN
    CASE i.l \in {"hit1", "hit2"} -> IF i.k \in cache THEN "hit" ELSE "miss"
      [] i.l = "relays" -> RelChoice(seen[o], i.k)
      [] OTHER -> "new"

SNext ==
    \/ \E o \in Ops, k \in Kinds, a \in {0} \cup Keys :
          /\ MayStart /\ ScriptStart(o, k, a) /\ Start(o, k, a)
          /\ H([ev |-> "Start", op |-> o, kind |-> k, v |-> a])
          /\ UNCHANGED aux
    \/ \E o \in Ops :
          /\ Turn(o)
          /\ \/ /\ (DoR(o) \/ DoRU(o) \/ DoW(o) \/ DoWacq(o) \/ DoWU(o) \/ DoPut(o) \/ DoT(o) \/ DoV(o))
                /\ AuxStep(o) /\ H(StepRec(o))
             \/ /\ Next1(o).op = "D" /\ DoD(o, Branch(o))
                /\ H([ev |-> "Step", op |-> o, i |-> "D", l |-> Next1(o).l, c |-> Branch(o)])
                /\ UNCHANGED aux
             \/ /\ AtE(o, "source")
                /\ \E out \in SourceOuts, d \in DocIds :
                      /\ ScriptSource(o, out)
                      /\ out # "good" => d = CHOOSE x \in DocIds : TRUE
                      /\ DoE(o, out)
                      /\ gotDoc' = [gotDoc EXCEPT ![o] = IF out = "good" THEN d ELSE 0]
                      /\ H([ev |-> "Source", op |-> o, out |-> out, doc |-> IF out = "good" THEN d ELSE 0])
                /\ UNCHANGED <<act, seen>>
             \/ /\ AtE(o, "bid")
                /\ \E b \in BidOuts : ScriptBid(o, b) /\ DoE(o, b) /\ H([ev |-> "Bid", op |-> o, out |-> b])
                /\ UNCHANGED aux
             \/ /\ AtE(o, "raccts") /\ DoE(o, "some") /\ H(StepRec(o)) /\ UNCHANGED aux
             \/ /\ st[o] = "run" /\ Next1(o).op = "E" /\ Next1(o).l \notin {"source", "bid", "raccts"}
                /\ DoE(o, "") /\ H(StepRec(o)) /\ UNCHANGED aux
             \/ /\ DoRet(o) /\ H([ev |-> "Return", op |-> o]) /\ UNCHANGED aux

SSpec == SInit /\ [][SNext]_svars

Emit == (\A o \in Ops : st[o] = "done") => PrintT(ToJson(hist))
=============================================================================
