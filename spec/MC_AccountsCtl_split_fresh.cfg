SPECIFICATION CSpec
CONSTANTS
  Alphabet = {"a", "b"}
  Classes <- AB
  MaxNameLen = 2
  FFE = 99
  Design = "split"
  FreshOnly = TRUE
INVARIANTS OnlyConfigured NoStrangers RightIndex ExactlyActive
CONSTRAINT CBound
CHECK_DEADLOCK FALSE
