SPECIFICATION TSpec
CONSTANTS
  EPs = {"execservice", "graffiti", "builderbid", "proposalbest", "proposer", "attester", "aggregator", "syncmessenger", "syncaggregator", "mergeduties", "cacheevents", "submitclassify"}
  MaxCalls = 8
  MaxInFlight = 2
INVARIANTS EmitT
CHECK_DEADLOCK FALSE
