SPECIFICATION Spec
CONSTANTS
  P = 2
  EP = 2
  G = 1
  MaxSlot = 81
  StartSlots = {0, 3}
  Mode = "sweep"
  RecMax = 2
  RecKeep = 1
  RootKeep = 2
  BidKeep = 2
  KRoots = 4
  KBids = 4
  Menu = {{}, {0}, {0, 1}}
  Moods = {"quiet", "plain", "reorg"}
  MaxReorgs = 2
  MsgLates = {0, 1, 3}
  AucLates = {0, 1, 3}
  SubLates = {0, 5}
  AttLates = {0}
  MaxHeld = 1
  MaxPasses = 1
  MaxHeads = 1
  HoldKinds = {"refresh"}
  Fams = {"sync"}
INVARIANTS RootsBounded
CHECK_DEADLOCK FALSE
