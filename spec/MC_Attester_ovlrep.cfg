SPECIFICATION Spec
CONSTANTS
  RunIds = {1, 2}
  SlotsPerEpoch = 2
  Roots = {1}
  Strict01 = TRUE
  Strict04 = TRUE
  MCSlots = {0, 1, 4}
  MCVals = {1, 2}
  MCMaxLen = 2
  MCComms = {0, 1}
  MCAllComms = FALSE
  MCPre = FALSE
  MCLean = FALSE
  MCMaxAlive = 2
  MCValSeqs <- MCValSeqsAll
CONSTRAINT AliveBound
INVARIANTS TypeOK NoDoubleSign NoDoubleVote SignedDataSound RefusedMeansNoSign AssignmentExact SignAssignmentExact UnsignedYieldNothing
PROPERTY AttestedMonotone
CHECK_DEADLOCK FALSE
