--------------------------- MODULE Scen_Robustness ---------------------------
(* Scenario generator for C16: TLC enumerates the shape lattice of every entry point; one         *)
(* behaviour = one Call (the single source of truth for WHICH shapes are in scope is               *)
(* Robustness!Shapes).  Every reachable "call pending" state is printed as JSON.                    *)
EXTENDS Robustness, Json

VARIABLE hist
svars == <<vars, hist>>

SInit == Init /\ hist = <<>>

SNext ==
    /\ hist = <<>>
    /\ \E ep \in EPs : \E s \in Shapes(ep) :
          /\ Call(ep, s)
          /\ hist' = <<[ev |-> "Call", ep |-> ep, shape |-> s]>>

SSpec == SInit /\ [][SNext]_svars

Emit == (hist # <<>>) => PrintT(ToJson(hist))

\* lattice sizes, printed once (evidence)
Sizes == (hist = <<>>) => PrintT(ToJson([ep \in EPs |-> Cardinality(Shapes(ep))]))
=============================================================================
