SPECIFICATION SSpec
CONSTANTS
  SlotsPerEpoch = 32
  Slots = {319, 320}
  GivenEpochs = {9, 10}
  MaxBatch = 2
  NReq = 2
  ForkEpochs = {10}
  HistOps = {"attestations", "slot_selection", "sync_root"}
  HistKinds = {"plain", "plain_dist", "prot", "prot_dist"}
  HistFails = {"none"}
  GateModes = {"s"}
INVARIANTS Emit
CHECK_DEADLOCK FALSE
