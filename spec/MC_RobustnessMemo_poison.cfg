SPECIFICATION MSpec
CONSTANTS
  EPs = {"builderbid", "execservice"}
  Designs = {"poison"}
  MaxCalls = 2
  MaxInFlight = 1
INVARIANTS TypeOK KeepsRunning EndsProperly HistoryIndependent BoundedOverlap MTotal

CHECK_DEADLOCK FALSE
