SPECIFICATION SSpec
CONSTANTS
  DutySlots = {9}
  Validators = {2}
  SlotsPerEpoch = 4
  Relays = {1, 2}
  NRelays = 2
  AllChoices = {{}}
  Versions = {"altair", "deneb"}
  Blindable = {"deneb"}
  Outcomes = {"full"}
  Scripts = {"full", "err", "never"}
  GraffitiOuts = {"static", "err"}
  PrepOuts = {"ok"}
  CfgFilter = "wired"
  Drops = FALSE
  Dslots <- JustDslot
  MaxCalls = 3
  NDuties = 2
  SlotGaps = {1}
  MaxOpen = 1
  MaxInFlight = 1
  InitCfgs <- WiredCfgs
  LaterAllChoices = {{}}
  LaterVersions = {"deneb"}
  LaterOutcomes = {"full"}
  LaterDslots = {0}
  LaterScripts = {"full"}
  LaterGraffitiOuts = {"static"}
  LaterPrepOuts = {"ok"}
  LaterNodeClientOuts = {"ok"}
  LaterStepOuts = {"ok"}
INVARIANTS Emit
CHECK_DEADLOCK FALSE
