------------------------ MODULE Trace_BuilderCatalogue ------------------------
(* A trace recorded from the real obtainBuilderConfigs (package main, configuration read by     *)
(* viper from a generated YAML document) is a behaviour of BuilderCatalogue: the logged reply   *)
(* of every Build - the whole catalogue, or the refusal - is the one the specification gives.   *)
EXTENDS BuilderCatalogue, TraceLib

VARIABLE l
tvars == <<vars, l>>

TraceInit == Init /\ l = 1 /\ InitHWM
IsEvent(e) == l <= TraceLen /\ Trace[l].ev = e /\ l' = l + 1

TraceReset == IsEvent("Reset") /\ excl' = {} /\ priv' = {} /\ cfgs' = <<>> /\ out' = Unbuilt
TraceExclude == IsEvent("Exclude") /\ Exclude(Trace[l].b)
TracePrivilege == IsEvent("Privilege") /\ Privilege(Trace[l].b)
TraceConfigure == IsEvent("Configure") /\ Configure(Trace[l].b, [cat |-> Trace[l].cat, fac |-> Trace[l].fac, off |-> Trace[l].off])

\* logged catalogue: a sequence of [b, cat, fac, off] records (fac / off "nil" for a nil *big.Int, else decimal)
Logged(line) == LET es == SeqToSet(line.catalogue)
                IN [b \in {e.b : e \in es} |-> LET e == CHOOSE x \in es : x.b = b IN [cat |-> e.cat, fac |-> e.fac, off |-> e.off]]
TraceBuild ==
    /\ IsEvent("Build")
    /\ Build
    /\ IF Trace[l].reply = "error" THEN out'.st = "error" ELSE out'.st = "ok" /\ out'.cat = Logged(Trace[l])

TraceNext == TraceReset \/ TraceExclude \/ TracePrivilege \/ TraceConfigure \/ TraceBuild
TraceSpec == TraceInit /\ [][TraceNext]_tvars
HWM == UpdateHWM(l)
TraceAccepted == TraceAcceptedUpTo
=============================================================================
