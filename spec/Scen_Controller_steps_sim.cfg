SPECIFICATION SSpec
CONSTANTS
  MaxSlot = 7
  MaxVer = 2
  MaxReorgs = 2
  MaxCrashes = 0
  Gates = {"acct", "cancel", "sched", "run"}
  Interleave = FALSE
  Cfgs <- CfgsSmall
  OraclesFor <- SeedOracles
  MaxAccts = 0
  AnswersFor <- AllAnswers
  Deviation = {}
  ScenLen = 30
  Seeds = {1, 2, 3, 4, 5, 6, 7, 8}
  StartSlots = {2, 3, 4}
  MaxHeads = 2
  Stimuli = {"Start", "Advance", "EpochTick", "Reorg", "HeadEvent", "Fire", "Hold", "Unhold", "Release"}
  MaxHolds = 5
  Focus = FALSE
  Disjoint = TRUE
  Tight = FALSE
INVARIANTS Emit
CHECK_DEADLOCK FALSE
