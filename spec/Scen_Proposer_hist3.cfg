SPECIFICATION SSpec
CONSTANTS
  DutySlots = {9}
  Validators = {2}
  SlotsPerEpoch = 4
  Relays = {1}
  NRelays = 1
  AllChoices = {{1}}
  Versions = {"deneb"}
  Blindable = {"deneb"}
  Outcomes = {"full"}
  Scripts = {"full", "never"}
  GraffitiOuts = {"static", "template", "err"}
  PrepOuts = {"ok", "err"}
  CfgFilter = "graffiti"
  Drops = TRUE
  Dslots <- FwdDslots
  MaxCalls = 3
  NDuties = 3
  SlotGaps = {1}
  MaxOpen = 1
  MaxInFlight = 1
  InitCfgs <- AllCfgs
  LaterAllChoices = {{1}}
  LaterVersions = {"deneb"}
  LaterOutcomes = {"full"}
  LaterDslots = {0}
  LaterScripts = {"full"}
  LaterGraffitiOuts = {"static", "template"}
  LaterPrepOuts = {"ok"}
  LaterNodeClientOuts = {"ok", "err"}
  LaterStepOuts = {"ok"}
INVARIANTS Emit
CHECK_DEADLOCK FALSE
