--------------------------- MODULE Scen_Subscriber ---------------------------
(* Scenario generator for C14: behaviours of Subscriber with a history variable.  A scenario is *)
(* a duty oracle built duty by duty (at most SetupLen duties), followed by Subscribe / Advance / *)
(* Attest steps; it is printed as JSON when it has ScenLen steps and replayed on the real       *)
(* subscriber, aggregator and controller by the Go driver.                                      *)
EXTENDS Subscriber, Json

CONSTANTS ScenLen, SetupLen
VARIABLE hist
svars == <<vars, hist>>

SInit == Init /\ hist = <<[ev |-> "Reset", now |-> now, target |-> target]>>

H(e) == hist' = Append(hist, e)

\* the stimulus only: which validator of a pair is stored is the implementation's choice
SSubscribe == \E I \in SUBSET Entries(duties, target) : SubscribeWith(I, I)

SNext ==
    /\ Len(hist) <= ScenLen
    /\ \/ /\ Len(hist) <= SetupLen
          /\ \E d \in DutySpace : AddDuty(d) /\ H([ev |-> "Duty", v |-> d.v, slot |-> d.slot, committee |-> d.committee,
                                                  size |-> d.size, h |-> d.h])
       \/ /\ duties # {}
          /\ \/ \E t \in Nows : Advance(t) /\ H([ev |-> "Advance", now |-> t])
             \/ SSubscribe /\ H([ev |-> "Subscribe"])
             \/ \E s \in SlotSpace : \E C \in SUBSET Committees : \E ok \in BOOLEAN :
                    AttestJob(s, C, ok) /\ H([ev |-> "Attest", slot |-> s, committees |-> C, ok |-> ok])

SSpec == SInit /\ [][SNext]_svars

\* a behaviour is emitted when it is full or when nothing more can happen
Emit == (Len(hist) = ScenLen + 1) => PrintT(ToJson(hist))
=============================================================================
