--------------------------- MODULE Scen_Subscriber ---------------------------
(* Scenario generator for C14: behaviours of Subscriber with a history variable.  A scenario is *)
(* a duty oracle built duty by duty (at most SetupLen duties), followed by a history of          *)
(* Subscribe (ok / failing) / Head (plain / re-org = refresh) / Resub (a re-subscription in      *)
(* flight completes: ok / failing) / Duty (the oracle changes: add / drop) / Advance / Attest    *)
(* steps; it is printed as JSON when it has ScenLen steps and replayed on the real subscriber,   *)
(* aggregator and controller by the Go driver.                                                   *)
EXTENDS Subscriber, Json, Randomization

CONSTANTS ScenLen, SetupLen,
          SetupFan   \* candidates offered per setup step (a random sample of DutySpace keeps simulation fast)
VARIABLE hist
svars == <<vars, hist>>

SInit == Init /\ hist = <<[ev |-> "Reset", now |-> now, target |-> target, spe |-> geo.spe, ep |-> geo.ep]>>

H(e) == hist' = Append(hist, e)

DutyRec(op, d) == [ev |-> "Duty", op |-> op, v |-> d.v, slot |-> d.slot, committee |-> d.committee,
                   size |-> d.size, h |-> d.h]

\* thins out a branch of the generator: true once in n evaluations (the generator runs in simulation mode)
Coin(n) == RandomElement(1..n) = 1

\* the stimulus only: which validator of a pair is stored is the implementation's choice
SSubscribe == \E I \in SUBSET Entries(duties, target) : SubscribeWith(I, I)
SResub == \E I \in SUBSET Entries(duties, target) : ResubOk(I, I)

SNext ==
    /\ Len(hist) <= ScenLen
    /\ \/ /\ Len(hist) <= SetupLen
          /\ ~started
          /\ \E d \in RandomSubset(SetupFan, DutySpace) : AddDuty(d) /\ H(DutyRec("add", d))
       \/ /\ duties # {}
          /\ \/ \E t \in Nows : Advance(t) /\ H([ev |-> "Advance", now |-> t])
             \/ SSubscribe /\ H([ev |-> "Subscribe", fail |-> FALSE])
             \/ Coin(3) /\ SubscribeFail /\ H([ev |-> "Subscribe", fail |-> TRUE])
             \/ Refresh /\ H([ev |-> "Head", reorg |-> TRUE])
             \/ Coin(2) /\ started /\ (Housekeep \/ UNCHANGED vars) /\ H([ev |-> "Head", reorg |-> FALSE])
             \/ SResub /\ H([ev |-> "Resub", fail |-> FALSE])
             \/ ResubFail /\ H([ev |-> "Resub", fail |-> TRUE])
             \* a re-org changes the oracle (thinned out: one random candidate, one random duty dropped)
             \/ Coin(2) /\ started /\ \E d \in RandomSubset(1, DutySpace) : AddDuty(d) /\ H(DutyRec("add", d))
             \/ Coin(2) /\ \E d \in RandomSubset(1, duties) : DropDuty(d) /\ H(DutyRec("drop", d))
             \/ \E s \in SlotSpace : \E C \in SUBSET Committees : \E ok \in BOOLEAN :
                    AttestJob(s, C, ok) /\ H([ev |-> "Attest", slot |-> s, committees |-> C, ok |-> ok])

SSpec == SInit /\ [][SNext]_svars

\* a behaviour is emitted when it is full or when nothing more can happen
Emit == (Len(hist) = ScenLen + 1) => PrintT(ToJson(hist))
=============================================================================
