--------------------------- MODULE Scen_Subscriber ---------------------------
(* Scenario generator for C14: behaviours of Subscriber with a history variable.  A scenario is *)
(* a duty oracle built duty by duty (at most SetupLen duties), followed by a history of          *)
(* Subscribe (ok / failing) / Head (plain / re-org = refresh) / Resub (a re-subscription in      *)
(* flight completes: ok / failing) / Duty (the oracle changes: add / drop / move = the validator *)
(* keeps its slot but lands in another committee or in one of another length / resize = the      *)
(* committee has another length) / Fetch (a re-subscription in flight fetches the duties and is  *)
(* held inside the attestation aggregator, at the signer, for slot hs) / Finish (that call       *)
(* returns) / Advance / Attest                                                                   *)
(* steps; it is printed as JSON when it has ScenLen steps and replayed on the real subscriber,   *)
(* aggregator and controller by the Go driver.                                                   *)
EXTENDS Subscriber, Json, Randomization

CONSTANTS ScenLen, SetupLen,
          SetupFan,  \* candidates offered per setup step (a random sample of DutySpace keeps simulation fast)
          MoveFan    \* weight of the re-orgs that keep the slot (candidates offered per step; 0: none)
VARIABLE hist
svars == <<vars, hist>>

SInit == Init /\ hist = <<[ev |-> "Reset", now |-> now, target |-> target, spe |-> geo.spe, ep |-> geo.ep]>>

H(e) == hist' = Append(hist, e)

DutyRec(op, d) == [ev |-> "Duty", op |-> op, v |-> d.v, slot |-> d.slot, committee |-> d.committee,
                   size |-> d.size, h |-> d.h]

\* thins out a branch of the generator: true once in n evaluations (the generator runs in simulation mode)
Coin(n) == RandomElement(1..n) = 1

MoveRec(d, e) == [ev |-> "Duty", op |-> "move", v |-> e.v, slot |-> e.slot, committee |-> e.committee,
                  size |-> e.size, h |-> e.h, ocommittee |-> d.committee, osize |-> d.size]

\* the re-orgs the generator prefers: the rule's answer for the validator changes with the length
Flips(d, z) == DutyAggregates(d, target) # IsAggregator(d.h, z, target)

MoveCands == {<<d, [d EXCEPT !.committee = c, !.size = z]>> : d \in duties, c \in Committees, z \in Sizes}
FlipMoves == {m \in MoveCands : Flips(m[1], m[2].size)}
ResizeCands == {<<s, c, z>> \in SlotSpace \X Committees \X Sizes : \E d \in DutiesAt(duties, s, c) : d.size # z}
FlipResizes == {r \in ResizeCands : \E d \in DutiesAt(duties, r[1], r[2]) : Flips(d, r[3])}

Some(n, X) == IF X = {} THEN {} ELSE RandomSubset(IF n < Cardinality(X) THEN n ELSE Cardinality(X), X)

\* the stimulus only: which validator of a pair is stored is the implementation's choice
SSubscribe(F) == \E I \in SUBSET Entries(Signed(duties, F), target) : SubscribeWithF(I, I, F)
SResub(F) == \E I \in SUBSET Entries(Signed(duties, F), target) : ResubOkF(I, I, F)
\* the signer refuses the selection call of a slot that has a duty (thinned out)
SFails == {{}} \cup (IF SignerMayFail /\ Coin(3) THEN {{s} : s \in {d.slot : d \in duties}} ELSE {})

SNext ==
    /\ Len(hist) <= ScenLen
    /\ \/ /\ Len(hist) <= SetupLen
          /\ ~started
          /\ \E d \in RandomSubset(SetupFan, DutySpace) : AddDuty(d) /\ H(DutyRec("add", d))
       \/ /\ duties # {}
          /\ \/ \E t \in Nows : Advance(t) /\ H([ev |-> "Advance", now |-> t])
             \/ \E F \in SFails : SSubscribe(F) /\ H([ev |-> "Subscribe", fail |-> FALSE, sfail |-> F])
             \/ Coin(3) /\ SubscribeFail /\ H([ev |-> "Subscribe", fail |-> TRUE])
             \/ Refresh /\ H([ev |-> "Head", reorg |-> TRUE])
             \/ Coin(2) /\ started /\ (Housekeep \/ UNCHANGED vars) /\ H([ev |-> "Head", reorg |-> FALSE])
             \/ \E F \in SFails : SResub(F) /\ H([ev |-> "Resub", fail |-> FALSE, sfail |-> F])
             \/ ResubFail /\ H([ev |-> "Resub", fail |-> TRUE])
             \* a re-org changes the oracle (thinned out: one random candidate, one random duty dropped)
             \/ Coin(2) /\ started /\ \E d \in RandomSubset(1, DutySpace) : AddDuty(d) /\ H(DutyRec("add", d))
             \/ Coin(2) /\ \E d \in RandomSubset(1, duties) : DropDuty(d) /\ H(DutyRec("drop", d))
             \* a re-org that leaves a validator its slot: mostly one that changes the rule's answer
             \/ /\ MoveFan > 0 /\ started
                /\ \/ \E m \in Some(MoveFan, FlipMoves) : MoveDuty(m[1], m[2]) /\ H(MoveRec(m[1], m[2]))
                   \/ \E m \in Some(1, MoveCands) : MoveDuty(m[1], m[2]) /\ H(MoveRec(m[1], m[2]))
                   \/ \E r \in Some(MoveFan, FlipResizes) \cup Some(1, ResizeCands) :
                          /\ ResizePair(r[1], r[2], r[3])
                          /\ H([ev |-> "Duty", op |-> "resize", slot |-> r[1], committee |-> r[2], size |-> r[3]])
             \* a re-subscription in flight fetches and is held inside the aggregator; the held call returns
             \/ \E hs \in SlotSpace : ResubFetch(hs) /\ H([ev |-> "Fetch", hs |-> hs])
             \/ \E c \in held : (\E I \in SUBSET Entries(c.snap, target) : HeldFinish(c, I, I)) /\ H([ev |-> "Finish", id |-> c.id])
             \/ \E s \in SlotSpace : \E C \in SUBSET Committees : \E ok \in BOOLEAN :
                    AttestJob(s, C, ok) /\ H([ev |-> "Attest", slot |-> s, committees |-> C, ok |-> ok])

SSpec == SInit /\ [][SNext]_svars

\* a behaviour is emitted when it is full or when nothing more can happen
Emit == (Len(hist) = ScenLen + 1) => PrintT(ToJson(hist))
=============================================================================
