---------------------- MODULE Scen_BlockRelayResolve ----------------------
(* Scenario generator for the resolution clause of C11 (BlockRelayResolve.tla): histories of calls  *)
(* of the SIX entry points that resolve proposer settings on ONE wired block relay instance, with   *)
(* configuration installs and activations in between.  Inputs only; what every entry point lets the  *)
(* outside see is recorded from the real code and judged by Trace_BlockRelayResolve.                *)
(*                                                                                                  *)
(*   Script = "poison"   Reset(v pending | foreign | active, the other validator active) ; Fetch(d) ; *)
(*                       X(v) ; [Act(v, route)] ; Round ; Prep (or Prep ; Round) for every document,  *)
(*                       validator, X in fwd / unblind / auction / bid: another entry point resolves  *)
(*                       the validator BEFORE the round does (forwarded registration before           *)
(*                       activation is X = fwd, v pending or foreign)                                *)
(*   Script = "refetch"  Fetch(d) ; Round ; Prep ; Fetch(d2) ; X(v) ; Round ; Prep: the ordinary round  *)
(*                       is right, then the epoch's install, another entry point, and the round again  *)
(*                       (fetch, unblind, round is X = unblind)                                      *)
(*                       (the rounds: the registration job or its sibling, the exported                *)
(*                       SubmitValidatorRegistrations handed the listed accounts - RoundVias)           *)
(*   Script = "none"     simulated histories of ScenLen steps over every action of the module          *)
EXTENDS BlockRelayResolve, Json

CONSTANTS ScenLen, Script

VARIABLES hist
svars == <<vars, hist>>

EntJson(e) == [by |-> e.by, who |-> e.who, fee |-> e.fee, gas |-> e.gas, reset |-> e.reset, rel |-> e.rel]
DocJson(k) == LET D == Doc(k) IN
    [id |-> k, fee |-> D.fee, gas |-> D.gas, rel |-> D.rel, ent |-> [i \in 1..Len(D.ent) |-> EntJson(D.ent[i])]]

ResetEv(d, s) == [ev |-> "Reset", init |-> d, docs |-> {DocJson(k) : k \in DocIds},
                  active |-> {v \in Vals : s[v] = "active"}, pending |-> {v \in Vals : s[v] = "pending"}]

SInit ==
    /\ Init
    \* (the scripted families write their own initial state into the history)
    /\ Script # "none" => force = 0 /\ st = [v \in Vals |-> "active"]
    /\ hist = <<ResetEv(force, st)>>

H(e) == hist' = Append(hist, e)
Fet(d) == [ev |-> "Fetch", out |-> "good", doc |-> d]
Call(kind, v) == [ev |-> "Call", kind |-> kind, v |-> v]
Act(v, route) == [ev |-> "Act", v |-> v, route |-> route]
Rnd(via) == [ev |-> "Round", via |-> via]
Prp == [ev |-> "Prep"]

Ended == Len(hist) > 1 /\ hist[Len(hist)].ev = "End"
EndStep == Len(hist) >= ScenLen + 1 /\ ~Ended /\ H([ev |-> "End"]) /\ UNCHANGED vars

Others == {"fwd", "unblind", "auction", "bid"}
RouteOf(s) == IF s = "pending" THEN "epoch" ELSE "import"

PoisonHist(d, v, x, s0, roundFirst, via) ==
    <<Fet(d), Call(x, v)>>
    \o (IF s0 = "active" THEN <<>> ELSE <<Act(v, RouteOf(s0))>>)
    \o (IF roundFirst THEN <<Rnd(via), Prp>> ELSE <<Prp, Rnd(via)>>)

RefetchHist(d, d2, v, x, via) == <<Fet(d), Rnd("job"), Prp, Fet(d2), Call(x, v), Rnd(via), Prp>>

\* scripted families: the whole history in one step (the initial state is part of it: Reset is rewritten)
ScriptStep ==
    /\ Len(hist) = 1
    /\ \/ /\ Script = "poison"
          /\ \E d \in DocIds, v \in Vals, x \in Others \cap Kinds, s0 \in States, rf \in BOOLEAN, via \in RoundVias :
                /\ s0 # "active" => RouteOf(s0) \in Routes
                /\ hist' = <<ResetEv(0, [w \in Vals |-> IF w = v THEN s0 ELSE "active"])>> \o PoisonHist(d, v, x, s0, rf, via)
       \/ /\ Script = "refetch"
          /\ \E d \in DocIds, d2 \in DocIds, v \in Vals, x \in Others \cap Kinds, via \in RoundVias :
                hist' = <<ResetEv(0, [w \in Vals |-> "active"])>> \o RefetchHist(d, d2, v, x, via)
    /\ UNCHANGED vars

SimStep ==
    \/ \E d \in DocIds : DoFetch(d) /\ H(Fet(d))
    \/ FetchFails /\ H([ev |-> "Fetch", out |-> "error", doc |-> 0])
    \/ \E v \in Vals, route \in Routes : Activate(v, route) /\ H(Act(v, route))
    \/ \E via \in RoundVias : DoRound(via) /\ H(Rnd(via))
    \/ DoPrep /\ H(Prp)
    \/ \E v \in Vals : \/ DoFwd(v) /\ H(Call("fwd", v))
                       \/ DoUnblind(v) /\ H(Call("unblind", v))
                       \/ DoAuction(v) /\ H(Call("auction", v))
                       \/ DoBid(v) /\ H(Call("bid", v))

SNext ==
    \/ EndStep
    \/ Script # "none" /\ ScriptStep
    \/ Script = "none" /\ Len(hist) <= ScenLen /\ ~Ended /\ SimStep

SSpec == SInit /\ [][SNext]_svars

Emit == Ended => PrintT(ToJson(SubSeq(hist, 1, Len(hist) - 1)))
=============================================================================
