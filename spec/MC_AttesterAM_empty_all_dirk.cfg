SPECIFICATION AMSpec
CONSTANTS
  RunIds = {1, 2}
  SlotsPerEpoch = 2
  Roots = {1}
  Strict01 = TRUE
  Strict04 = FALSE
  MCSlots = {0}
  MCVals = {1, 2}
  MCMaxLen = 1
  MCComms = {0, 1}
  MCAllComms = FALSE
  MCPre = FALSE
  MCLean = TRUE
  MCMaxAlive = 1
  AMKinds = {"dirk", "wallet"}
  AMDeviant = {"dirk"}
  AMDeviation = "empty_all"
  AllVals = {1, 2}
  FFE = 99
  MCExits = {}
CONSTRAINT AliveBound
INVARIANTS NoDoubleSign
CHECK_DEADLOCK FALSE
