------------------------ MODULE Scen_SubmitterDirect ------------------------
(* Scenario generator for the SIBLING FAN-OUTS of C08 (SubmitterClassifier: DirectKinds;          *)
(* Submitter.tla: CompleteD / AbortD / ReturnD): histories of fan-outs on ONE long-lived instance  *)
(* of the component that makes them - bound for "prepdirect", the real proposal preparer           *)
(* (services/proposalpreparer/standard, wired as main.go's initProposalPreparer does: chain time,   *)
(* validating accounts provider, execution configuration provider, one node client per beacon node  *)
(* configured for proposing; the node clients are context-honouring fakes with a latency).          *)
(* A scenario = the pool of node clients (the configured order is the order of the pool) and a      *)
(* sequence of UpdatePreparations calls; every call has its own number of validators (items) and,   *)
(* per node, an outcome: accept / reject / "not active" / the client's own time-out / delayed       *)
(* acceptance or rejection with a RANK (who answers first is the environment's choice) / hang.      *)
(*  Mode "vec":  exhaustive; one call, every vector of DOuts over 1..3 nodes.                       *)
(*  Mode "sim":  TLC simulation (seeded): 2-3 calls, any outcome per node and call.                 *)
EXTENDS Integers, Sequences, FiniteSets, TLC, Json, SubmitterClassifier

CONSTANTS Mode, DKinds, DItemSet, DNodeCounts, DLens, DOuts

VARIABLES n, calls, want
dvars == <<n, calls, want>>

Client == "lighthouse"
CallOf(k, it, v) == [kind |-> k, items |-> it, nodes |-> [i \in DOMAIN v |-> HNode(k, Client, v[i], "ok")]]
LastCall == calls[Len(calls)]
Complete == Len(calls) > 0 /\ Len(LastCall.nodes) = n

Init ==
    /\ n \in DNodeCounts
    /\ want \in DLens
    /\ IF Mode = "vec"
       THEN \E k \in DKinds, it \in DItemSet, v \in [1..n -> DOuts] : calls = <<CallOf(k, it, v)>>
       ELSE calls = <<>>

\* mode "sim": a new call (kind, number of validators, no node yet), then one node per step
StartCall ==
    /\ Len(calls) = 0 \/ Complete
    /\ Len(calls) < want
    /\ \E k \in DKinds, it \in DItemSet : calls' = Append(calls, [kind |-> k, items |-> it, nodes |-> <<>>])
AddNode ==
    /\ Len(calls) > 0 /\ ~ Complete
    /\ \E o \in DOuts : calls' = [calls EXCEPT ![Len(calls)].nodes = Append(@, HNode(LastCall.kind, Client, o, "ok"))]

Next ==
    /\ Mode = "sim"
    /\ StartCall \/ AddNode
    /\ UNCHANGED <<n, want>>

Spec == Init /\ [][Next]_dvars

SeqTo(k) == [i \in 1..k |-> i]
Emit == (Len(calls) = want /\ Complete) =>
           PrintT(ToJson([sub |-> "direct", mode |-> Mode, conc |-> 1,
                          conf |-> [k \in DKinds |-> SeqTo(n)], calls |-> calls]))
=============================================================================
