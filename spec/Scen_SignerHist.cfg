SPECIFICATION SSpec
CONSTANTS
  SlotsPerEpoch = 32
  Slots = {319, 320}
  GivenEpochs = {9}
  MaxBatch = 1
  NReq = 3
  ForkEpochs = {10}
  HistOps = {"attestation", "randao"}
  HistKinds = {"plain"}
  HistFails = {"none"}
  GateModes = {"d"}
INVARIANTS Emit
CHECK_DEADLOCK FALSE
