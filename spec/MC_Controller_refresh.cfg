SPECIFICATION Spec
CONSTANTS
  MaxSlot = 5
  MaxVer = 1
  MaxReorgs = 1
  MaxCrashes = 0
  Gates = {}
  Interleave = TRUE
  Cfgs <- MCCfgsFork0
  OraclesFor <- MCOraclesA
INVARIANTS TypeOK JobTimeRight JobCoversExactly NoSlotTwice OneJobPerDutySlot OnlyStrictlyLaterOnStart SyncWindowRight EpochTickOnce NoFutureDutyUnscheduled NoStaleJob ReorgActedOn
CHECK_DEADLOCK FALSE
