SPECIFICATION SSpec
CONSTANTS
  Alphabet = {"a", "b"}
  Classes <- AB
  MaxNameLen = 3
  FFE = 99
  Mode = "vanish"
  ScenLen = 9
  Mgrs = {"wallet", "dirk"}
INVARIANTS Emit
CHECK_DEADLOCK FALSE
