SPECIFICATION Spec
CONSTANTS
  KindSet = {"att", "prep"}
  ConcSet = {2}
  ItemSet = {1}
  NodeCounts = {2}
  DefaultConc = 16
  MaxCalls = 2
  HistClients = {"lighthouse", "teku"}
  HistOutcomes = {"accept", "reject", "treject"}
  Design = "cacheok"
  MaxLat = 2
  CanonOuts = {}
  ConfSets = {}
  OtherSets = {}
  RefKind = "att"
INVARIANTS TypeOK FlagSound TimeoutSignalHeard OfferedInFull SuccessIff ReturnsByTimeout Independence DeliveredToEach ClassifiedByNow
CHECK_DEADLOCK FALSE
