-------------------------- MODULE Scen_Aggregation --------------------------
(* Scenario generator for the aggregation pipelines: behaviours of Aggregation restricted to    *)
(* the order in which one Aggregate call can meet its environment (every outcome of every       *)
(* interface call: error / empty / zero signature / success, and everything after it), with a   *)
(* history variable.  The driver takes from a history the stimuli (duties, SetBeaconBlockRoot,  *)
(* head changes) and the scripted answers of the fakes; what the code does with them is         *)
(* recorded from the real services and validated against Trace_Aggregation.                     *)
(* A behaviour is printed as JSON when its last job has ended.  TLC enumerates them all         *)
(* (exhaustive mode) or samples them (simulation).                                              *)
EXTENDS Aggregation, Json

CONSTANTS MaxHeads,     \* head changes per scenario (pipeline B)
          SmallPool     \* TRUE: duties of pipeline B only from SelPool (simulation picks uniformly among all
                        \* successors: thousands of duties would crowd out the preparation steps)
VARIABLE hist
svars == <<vars, hist>>

H(e) == hist' = Append(hist, e)
Count(name) == Cardinality({i \in 1 .. Len(hist) : hist[i].ev = name})

SInit == /\ Init
         /\ hist = <<[ev |-> "Reset", pipelines |-> Pipelines, spe |-> SlotsPerEpoch, head |-> bHead]>>

\* ---- pipeline A: fetch, then the account, then the signature, then the submission; a failure ends the job
AHardFail == aFail \ {"zerosig"} # {}

SANext ==
    \/ \E d \in ADuties : AStart(d) /\ H([ev |-> "AStart", duty |-> d])
    \/ /\ aGot = NoAgg /\ aFail = {}
       /\ \E res \in {[err |-> TRUE, agg |-> NoAgg]} \cup {[err |-> FALSE, agg |-> g] : g \in AAggs(aDuty.slot, aDuty.root)} :
             AFetch(aDuty.slot, aDuty.root, res) /\ H([ev |-> "AFetch", err |-> res.err, n |-> res.agg.n])
    \/ /\ aGot # NoAgg /\ aAcct = 0 /\ aFail = {}
       /\ \E res \in {"ok", "none", "err"} :
             AAccounts(Epoch(aDuty.slot), {aDuty.v}, res) /\ H([ev |-> "AAccounts", res |-> res])
    \/ /\ aAcct # 0 /\ ~aSigned /\ aFail = {}
       /\ \E res \in {"ok", "zero", "err"} :
             ASign(aAcct, aDuty.slot, ADutyMsg, res) /\ H([ev |-> "ASign", res |-> res])
    \/ /\ aSigned /\ ~AHardFail
       /\ \E ok \in BOOLEAN : ASubmit({[msg |-> ADutyMsg, sig |-> aAns]}, ok) /\ H([ev |-> "ASubmit", ok |-> ok])
    \/ /\ AHardFail \/ ASubmittedThisJob
       /\ ADone /\ H([ev |-> "ADone"])

\* ---- pipeline B: the root, a contribution per subcommittee, one signing request for all, one submission
Min(S) == CHOOSE x \in S : \A y \in S : x <= y
SubsToFetch == {p.sub : p \in bDuty.sel} \ {c.sub : c \in bFetched}
AllReqs == {[acct |-> m.v, msg |-> m] : m \in Buildable}

SelPool == {{Pair(1, 0)}, {Pair(2, 1)}, {Pair(1, 0), Pair(2, 1)}, {Pair(1, 0), Pair(1, 1)}, {Pair(1, 1), Pair(2, 1)},
            {Pair(1, 0), Pair(2, 1), Pair(3, 3)}, {Pair(1, 1), Pair(1, 3), Pair(2, 3)}}

ScenDuties == IF SmallPool THEN {[slot |-> t, sel |-> S, noacct |-> {}] : t \in BSlots, S \in SelPool} ELSE BDuties

SBNext ==
    \/ /\ bJobs < BMaxJobs
       /\ \E s \in BSlots : \E r \in BRoots : BSetRoot(s, r, {}) /\ H([ev |-> "BSetRoot", slot |-> s, root |-> r])
    \/ /\ bJobs < BMaxJobs /\ Count("BNewHead") < MaxHeads /\ hist[Len(hist)].ev # "BNewHead"
       /\ \E r \in BRoots : BNewHead(r) /\ H([ev |-> "BNewHead", root |-> r])
    \* (TLC's simulator picks an action, then a successor: the quantifier is kept inside a conjunction so
    \* that starting a job is ONE action beside the preparation steps, not one per duty)
    \/ /\ bPhase # "run"
       /\ \E d \in ScenDuties :
          \* (a duty naming an aggregator without an account ends at once: only without preparation)
          /\ d.noacct = {} \/ (bSets = 0 /\ Count("BNewHead") = 0)
          /\ BStart(d) /\ H([ev |-> "BStart", duty |-> d])
    \/ /\ ~bFail /\ JobRoot = {}
       /\ \E res \in {[err |-> TRUE, root |-> 0], [err |-> FALSE, root |-> bHead]} :
             BHeadRoot("head", res) /\ H([ev |-> "BHeadRoot", err |-> res.err])
    \/ /\ ~bFail /\ JobRoot # {} /\ SubsToFetch # {}
       /\ LET sub == Min(SubsToFetch) IN
          \E r \in JobRoot :
          \E res \in {[err |-> TRUE, c |-> NoContrib]} \cup
                     {[err |-> FALSE, c |-> [slot |-> bDuty.slot, sub |-> sub, root |-> r, n |-> n]] : n \in BContribIds} :
             BFetch(bDuty.slot, sub, r, res) /\ H([ev |-> "BFetch", sub |-> sub, err |-> res.err, n |-> res.c.n])
    \/ /\ ~bFail /\ bPhase = "run" /\ JobRoot # {} /\ SubsToFetch = {} /\ bSigned = {}
       /\ \E res \in {[err |-> TRUE, zero |-> {}]} \cup {[err |-> FALSE, zero |-> Z] : Z \in SUBSET bDuty.sel} :
             BSign(AllReqs, res) /\ H([ev |-> "BSign", err |-> res.err, zero |-> res.zero])
    \/ /\ ~bFail /\ bSigned # {} /\ ~\E x \in bSub : x.job = bJobs
       /\ \E ok \in BOOLEAN : BSubmit(bSigned, ok) /\ H([ev |-> "BSubmit", ok |-> ok])
    \/ /\ bFail \/ \E x \in bSub : x.job = bJobs
       /\ BDone({}) /\ H([ev |-> "BDone"])

SNext == SANext \/ SBNext

SSpec == SInit /\ [][SNext]_svars

Finished == /\ "A" \in Pipelines => aJobs = AMaxJobs /\ aPhase = "done"
            /\ "B" \in Pipelines => bJobs = BMaxJobs /\ bPhase = "done"

Emit == Finished => PrintT(ToJson(hist))
=============================================================================
