SPECIFICATION SSpec
CONSTANTS
  Validators = {1, 2}
  Externals = {3}
  Relays = {1, 2}
  Nodes = {1, 2}
  DocIds = {1, 2, 3, 4, 5, 6}
  FailKinds = {"error", "malformed", "empty"}
  Ops = {1, 2, 3, 4, 5, 6}
  MaxInFlight = 3
  AuctionImpl = "intended"
  Resolution = "snapshot"
  MaxRounds = 0
  Family = "free"
INVARIANTS Emit KeepsLastGood AnswersInForce LockBalanced LockAccounting
CHECK_DEADLOCK FALSE
