SPECIFICATION SpecC11SharedCancelP
CONSTANTS
  Validators = {1, 2}
  Externals = {3}
  Relays = {1, 2}
  Nodes = {1, 2}
  DocIds = {2, 3}
  FailKinds = {"error"}
  Ops = {}
  MaxInFlight = 0
  AuctionImpl = "intended"
  Resolution = "locked"
  MaxRounds = 2
  ErrKinds <- ErrKindsOne
INVARIANTS TypeOKC11 PreparationIsolated
CONSTRAINT RoundBound
CONSTRAINT NoLane2
CHECK_DEADLOCK FALSE
