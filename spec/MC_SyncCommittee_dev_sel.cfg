\* control design, must violate MembersIndependent
SPECIFICATION Spec
CONSTANTS
  SlotsPerEpoch = 2
  EpochsPerPeriod = 2
  Forks = {0}
  Nows = {4}
  ScheduleEpochs = {2}
  Members = {1, 2}
  IndexSets = {{0}, {5}}
  Sizes = {8}
  SubnetCounts = {4}
  Targets = {1}
  Roots = {1}
  HVals = {0}
  HMod = 2
  MaxSched = 1
  FaultKinds = {"sel"}
  Deviation = "ZeroSelFailsPrepare"
  MaxFired = 1
INVARIANTS TypeOK EverySlotOfWindow OnlySlotsOfWindow JobOrder SignedOverObtainedRoot MembersIndependent AggregatorRuleExact
CHECK_DEADLOCK FALSE
