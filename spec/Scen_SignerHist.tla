--------------------------- MODULE Scen_SignerHist ---------------------------
(* Scenario generator for C06 over HISTORIES: NReq requests to one long-lived signer, overlapping. *)
(* A behaviour of Signer.tla is written out as the schedule the driver can force on the real code: *)
(* the order of the Call steps (a request starts: its goroutine runs until it is parked inside the *)
(* gated domain provider, or returns) and of the DomainResp steps (the provider's reply to that    *)
(* request is released: the goroutine runs on until it is parked again, or returns).  Everything   *)
(* else a request does between those points is its own sequential code, so - as the driver does -  *)
(* a request that can move moves before the next Call / DomainResp is chosen.  The steps between   *)
(* are those of the pinned code (one domain request per call, plus one per account on the          *)
(* per-account path of SignBeaconAttestations); the driver does not depend on that: a DomainResp   *)
(* for a request that is not parked is skipped, requests still parked at the end are released.     *)
(* SIGNING PHASE.  A signer call is a second place where a request waits on the outside world (a   *)
(* remote / threshold signer): with the gate mode of a request containing "s" its signer calls are *)
(* held too - the request is parked inside the account wrapper after the wrapper has logged what   *)
(* it was handed, until the schedule says SignResp(r) (= SignEnd) - so that other requests start,  *)
(* are split, sign and return while the first one is between two of its signer calls or inside     *)
(* one.  The signer calls of the pinned code are SignerCalls: one per account for accounts that     *)
(* are not multi-signers (a loop of Sign calls, ordinary accounts first), one per group for the     *)
(* multi-signers.  Gate mode "d": only the domain provider holds the request (the histories around  *)
(* the domain lookup), "s": only the signer, "ds": both, "none": neither.                          *)
(* `kind` stages the choice: first "start a request" or "release a reply", then the operation,     *)
(* then the rest of the request - so that simulation (uniform over successors) neither drowns the   *)
(* few DomainResp successors in the many Calls nor the single-account operations in the batches.   *)
EXTENDS Signer, Json

CONSTANTS HistOps, HistKinds, HistFails,
          GateModes        \* subset of {"d", "s", "ds", "none"}: where a request can be held by the schedule

VARIABLES hist, kind,
          gate             \* per request: its gate mode
svars == <<vars, hist, kind, gate>>

DGate(m) == m \in {"d", "ds"}
SGate(m) == m \in {"s", "ds"}

\* the requests of Calls with operation o, kinds from HistKinds and failure mode from HistFails
HistBatches(n) == UNION {SeqsUpTo(FamilyKinds(f) \cap HistKinds, n) : f \in {"dirk", "wallet"}}
HistCallsOf(o) ==
    {c \in [op : {o},
            slot : IF SigSpec[o].epoch = "slot" THEN Slots ELSE {CHOOSE s \in Slots : TRUE},
            epoch : IF SigSpec[o].epoch = "given" THEN GivenEpochs ELSE {CHOOSE e \in GivenEpochs : TRUE},
            kinds : HistBatches(IF SigSpec[o].batch THEN MaxBatch ELSE 1),
            fail : HistFails, failidx : 0..MaxBatch] : ValidCall(c)}
HistCalls == [o \in HistOps |-> HistCallsOf(o)]

CallJson(r, c, m) ==
               [ev      |-> "Call",
                dgate   |-> DGate(m),
                sgate   |-> SGate(m),
                rid     |-> r,
                op      |-> c.op,
                slot    |-> c.slot,
                epoch   |-> c.epoch,
                kinds   |-> c.kinds,
                fail    |-> c.fail,
                failidx |-> c.failidx,
                want    |-> DomainReq(c),
                msg     |-> SigSpec[c.op].msg,
                perindex |-> SigSpec[c.op].msg \in PerIndexMsg,
                verkeys |-> [i \in 1..Len(c.kinds) |-> VerKey(c.kinds[i])]]

\* the instance is up (what the real New() does with the start-up input is recorded by the driver: if it
\* refuses to start, the requests of the history are not made); the Reset step carries the start-up input and
\* the specifications' table of domain types (the driver holds no table of its own)
SInit == /\ fork \in ForkEpochs /\ boot \in Boots /\ svc = "up" /\ InitRequests
         /\ hist = <<[ev |-> "Reset", fork |-> fork, boot |-> boot, table |-> DomainTypeBytes]>> /\ kind = "pick"
         /\ gate = [r \in Rids |-> "none"]

\* start-up inputs of the simulated start-up histories (Scen_SignerHist_boot.cfg: Boots <- BootsSim): every
\* assignment of the three modes to the later keys, every single key broken, the failed lookup, on both chains
BootsSim ==
    UNION {BootsOver(LaterKeys, KeyModes, n) \cup BootsOneBroken(SpecKeys, n) \cup {SpecErrBoot(n)} : n \in {8, 32}}

Runnable(r) == \/ pc[r] \in {"called", "sign", "failed"}
               \/ pc[r] = "waiting" /\ ~DGate(gate[r])
               \/ pc[r] = "insign" /\ ~SGate(gate[r])
Busy == \E r \in Rids : Runnable(r)
CanCall == \E r \in Rids : pc[r] = "idle"
CanResp == \E r \in Rids : pc[r] = "waiting" /\ DGate(gate[r])
CanSign == \E r \in Rids : pc[r] = "insign" /\ SGate(gate[r])

\* the per-account path: SignBeaconAttestations for accounts that are not multi-signers calls
\* SignBeaconAttestation per account, which asks for the domain again
PerAccount(c) == c.op = "attestations" /\ ~IsProtecting(c.kinds[1])
SplitOrder(c) == OrdIdx(c.kinds) \o DistIdx(c.kinds)

\* the signer calls the pinned code makes for request c, in order (as sequences of positions)
Singletons(idx) == [j \in 1..Len(idx) |-> <<idx[j]>>]
SignerCalls(c) == IF IsProtecting(c.kinds[1])
                  THEN SelectSeq(Groups(c.kinds), LAMBDA g : Len(g) >= 1)     \* multi-signer: one call per group
                  ELSE Singletons(SplitOrder(c))                               \* a loop of Sign calls
NextSignerCall(r) ==
    LET cs == SignerCalls(req[r])
        open(j) == ~(Range(cs[j]) \subseteq DOMAIN signed[r])
    IN cs[CHOOSE j \in 1..Len(cs) : open(j) /\ \A h \in 1..(j - 1) : ~open(h)]

\* the sequential code of request r up to the next point where the schedule holds it, or its return
Internal(r) ==
    CASE pc[r] = "called" -> IF CanServe(req[r].op) /\ req[r].fail # "input"
                             THEN FetchDomain(r)
                             ELSE Refuse(r)            \* (the pinned code: nothing held for the key - no default)
      [] pc[r] = "waiting" -> DomainResp(r)         \* not held at the provider: the reply comes at once
      [] pc[r] = "insign" -> SignEnd(r)             \* not held at the signer
      [] pc[r] = "failed" -> ReturnErr(r)
      [] pc[r] = "sign" ->
           LET k == Cardinality(DOMAIN signed[r]) IN
           IF req[r].fail = "signer" THEN SignerFails(r)
           ELSE IF k = Len(req[r].kinds) THEN Return(r)
           ELSE IF PerAccount(req[r]) /\ Len(domreqs[r]) < k + 2 THEN RefetchDomain(r)
           ELSE SignStart(r, NextSignerCall(r))

SNext ==
    \/ /\ Busy
       /\ \E r \in Rids : /\ Runnable(r)
                          /\ \A q \in Rids : q < r => ~Runnable(q)
                          /\ Internal(r)
       /\ UNCHANGED <<hist, kind, gate>>
    \/ /\ ~Busy /\ kind = "pick"
       /\ kind' \in {k \in {"call", "resp", "sresp"} : (k = "call" /\ CanCall) \/ (k = "resp" /\ CanResp)
                                                         \/ (k = "sresp" /\ CanSign)}
       /\ UNCHANGED <<vars, hist, gate>>
    \/ /\ ~Busy /\ kind = "call"
       /\ kind' \in HistOps
       /\ UNCHANGED <<vars, hist, gate>>
    \/ /\ ~Busy /\ kind \in HistOps
       /\ \E r \in Rids : \E c \in (IF pc[r] = "idle" THEN HistCalls[kind] ELSE {}) : \E m \in GateModes :
             /\ Call(r, c)
             /\ gate' = [gate EXCEPT ![r] = m]
             /\ hist' = Append(hist, CallJson(r, c, m))
       /\ kind' = "pick"
    \/ /\ ~Busy /\ kind = "resp"
       /\ \E r \in Rids : /\ DGate(gate[r])
                          /\ DomainResp(r)
                          /\ hist' = Append(hist, [ev |-> "DomainResp", rid |-> r])
       /\ kind' = "pick"
       /\ UNCHANGED gate
    \/ /\ ~Busy /\ kind = "sresp"
       /\ \E r \in Rids : /\ SGate(gate[r])
                          /\ SignEnd(r)
                          /\ hist' = Append(hist, [ev |-> "SignResp", rid |-> r])
       /\ kind' = "pick"
       /\ UNCHANGED gate

SSpec == SInit /\ [][SNext]_svars

AllReturned == \A r \in Rids : pc[r] \in {"done", "error"}
Emit == AllReturned => PrintT(ToJson(hist))
=============================================================================
