--------------------------- MODULE Scen_SignerHist ---------------------------
(* Scenario generator for C06 over HISTORIES: NReq requests to one long-lived signer, overlapping. *)
(* A behaviour of Signer.tla is written out as the schedule the driver can force on the real code: *)
(* the order of the Call steps (a request starts: its goroutine runs until it is parked inside the *)
(* gated domain provider, or returns) and of the DomainResp steps (the provider's reply to that    *)
(* request is released: the goroutine runs on until it is parked again, or returns).  Everything   *)
(* else a request does between those points is its own sequential code, so - as the driver does -  *)
(* a request that can move moves before the next Call / DomainResp is chosen.  The steps between   *)
(* are those of the pinned code (one domain request per call, plus one per account on the          *)
(* per-account path of SignBeaconAttestations); the driver does not depend on that: a DomainResp   *)
(* for a request that is not parked is skipped, requests still parked at the end are released.     *)
(* `kind` stages the choice: first "start a request" or "release a reply", then the operation,     *)
(* then the rest of the request - so that simulation (uniform over successors) neither drowns the   *)
(* few DomainResp successors in the many Calls nor the single-account operations in the batches.   *)
EXTENDS Signer, Json

CONSTANTS HistOps, HistKinds, HistFails

VARIABLES hist, kind
svars == <<vars, hist, kind>>

\* the requests of Calls with operation o, kinds from HistKinds and failure mode from HistFails
HistBatches(n) == UNION {SeqsUpTo(FamilyKinds(f) \cap HistKinds, n) : f \in {"dirk", "wallet"}}
HistCallsOf(o) ==
    {c \in [op : {o},
            slot : IF SigSpec[o].epoch = "slot" THEN Slots ELSE {CHOOSE s \in Slots : TRUE},
            epoch : IF SigSpec[o].epoch = "given" THEN GivenEpochs ELSE {CHOOSE e \in GivenEpochs : TRUE},
            kinds : HistBatches(IF SigSpec[o].batch THEN MaxBatch ELSE 1),
            fail : HistFails, failidx : 0..MaxBatch] : ValidCall(c)}
HistCalls == [o \in HistOps |-> HistCallsOf(o)]

CallJson(r, c) ==
               [ev      |-> "Call",
                rid     |-> r,
                op      |-> c.op,
                slot    |-> c.slot,
                epoch   |-> c.epoch,
                kinds   |-> c.kinds,
                fail    |-> c.fail,
                failidx |-> c.failidx,
                want    |-> DomainReq(c),
                msg     |-> SigSpec[c.op].msg,
                perindex |-> SigSpec[c.op].msg \in PerIndexMsg,
                verkeys |-> [i \in 1..Len(c.kinds) |-> VerKey(c.kinds[i])]]

SInit == Init /\ hist = <<[ev |-> "Reset", fork |-> fork]>> /\ kind = "pick"

Runnable(r) == pc[r] \in {"called", "sign", "failed"}
Busy == \E r \in Rids : Runnable(r)
CanCall == \E r \in Rids : pc[r] = "idle"
CanResp == \E r \in Rids : pc[r] = "waiting"

\* the per-account path: SignBeaconAttestations for accounts that are not multi-signers calls
\* SignBeaconAttestation per account, which asks for the domain again
PerAccount(c) == c.op = "attestations" /\ ~IsProtecting(c.kinds[1])
SplitOrder(c) == OrdIdx(c.kinds) \o DistIdx(c.kinds)

\* the sequential code of request r up to its next provider call or its return
Internal(r) ==
    CASE pc[r] = "called" -> FetchDomain(r)
      [] pc[r] = "failed" -> ReturnErr(r)
      [] pc[r] = "sign" ->
           LET k == Cardinality(DOMAIN signed[r]) IN
           IF req[r].fail = "signer" THEN SignerFails(r)
           ELSE IF k = Len(req[r].kinds) THEN Return(r)
           ELSE IF PerAccount(req[r])
                THEN IF Len(domreqs[r]) < k + 2 THEN RefetchDomain(r)
                     ELSE SignSome(r, <<SplitOrder(req[r])[k + 1]>>)
                ELSE \E g \in {1, 2} : /\ \A h \in 1..(g - 1) : Range(Groups(req[r].kinds)[h]) \subseteq DOMAIN signed[r]
                                       /\ ~(Range(Groups(req[r].kinds)[g]) \subseteq DOMAIN signed[r])
                                       /\ SignGroup(r, g)

SNext ==
    \/ /\ Busy
       /\ \E r \in Rids : /\ Runnable(r)
                          /\ \A q \in Rids : q < r => ~Runnable(q)
                          /\ Internal(r)
       /\ UNCHANGED <<hist, kind>>
    \/ /\ ~Busy /\ kind = "pick"
       /\ kind' \in {k \in {"call", "resp"} : (k = "call" /\ CanCall) \/ (k = "resp" /\ CanResp)}
       /\ UNCHANGED <<vars, hist>>
    \/ /\ ~Busy /\ kind = "call"
       /\ kind' \in HistOps
       /\ UNCHANGED <<vars, hist>>
    \/ /\ ~Busy /\ kind \in HistOps
       /\ \E r \in Rids : \E c \in (IF pc[r] = "idle" THEN HistCalls[kind] ELSE {}) :
             /\ Call(r, c)
             /\ hist' = Append(hist, CallJson(r, c))
       /\ kind' = "pick"
    \/ /\ ~Busy /\ kind = "resp"
       /\ \E r \in Rids : /\ DomainResp(r)
                          /\ hist' = Append(hist, [ev |-> "DomainResp", rid |-> r])
       /\ kind' = "pick"

SSpec == SInit /\ [][SNext]_svars

AllReturned == \A r \in Rids : pc[r] \in {"done", "error"}
Emit == AllReturned => PrintT(ToJson(hist))
=============================================================================
