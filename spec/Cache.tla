------------------------------- MODULE Cache -------------------------------
(* Block-root -> slot cache of Vouch (services/cache/standard/blockroottoslot.go, events.go).   *)
(*                                                                                              *)
(* One action per public entry point / critical section of the code:                            *)
(*   BlockEvent(r)      handleBlock: a beacon node announces block r (with its slot)            *)
(*   LookupHit(r)       BlockRootToSlot, entry present (read under blockRootToSlotMu.RLock)     *)
(*   LookupMissOk(r)    BlockRootToSlot, entry absent, header fetch succeeds                    *)
(*   LookupMissErr(r)   BlockRootToSlot, entry absent, header fetch fails                       *)
(*   CtlBlockEvent(r)   the controller's HandleBlockEvent: the second writer, it hands the      *)
(*                      event's (root, slot) to SetBlockRootToSlot of the same cache             *)
(*   HeadEvent(r, ok)   handleHead: a beacon node announces head r; the cache fetches the       *)
(*                      signed block (ok / fails) to learn the execution chain head.  The block *)
(*                      names its PARENT root; the parent's slot is NOT head slot - 1 (slots    *)
(*                      can be skipped): whatever handleHead caches must be the truth           *)
(*   ExecHead           ExecutionChainHead, the query the proposer's auction uses               *)
(*   Use(kind, A, ok)   the consumers the property is anchored in: the "latest" and "majority" *)
(*                      beacon block root strategies and the "best" attestation data strategy  *)
(*                      ask the cache for the slot of every root their nodes answered (A) and  *)
(*                      prefer the root of the highest slot; a failed lookup is "no slot", not  *)
(*                      a slot                                                                  *)
(*   Clean              cleanBlockRootToSlot, the periodic job                                  *)
(*   Advance(t)         the clock                                                               *)
(* Property C18: a lookup that reports a slot reports the slot of the block with that root      *)
(* (hit or miss), a failed fetch is an error and not a slot, cleaning only removes entries      *)
(* older than the retention window.                                                             *)
EXTENDS Integers, FiniteSets, Sequences, TLC

CONSTANTS Roots,          \* set of block roots
          Slots,          \* slots a block can have (ground truth range)
          Nows,           \* clock positions the environment may move to
          SlotsPerEpoch,
          Retention,      \* epochs kept by Clean (64 in the code)
          NoRoot,         \* "no block": parent of a block outside Roots, execution head before any payload
          HasPayload,     \* the blocks that carry an execution payload (Bellatrix and later, merged)
          Deviation,      \* "none" | named control design (vacuity self-check), see HeadEvent
          UseNodes        \* number of beacon nodes behind the strategies that consume the cache (Use)

VARIABLES chain,   \* ground truth: [Roots -> Slots], the slot of the block with that root
          parent,  \* ground truth: [Roots -> Roots \cup {NoRoot}], the parent of that block (an EARLIER slot,
                   \*   not necessarily the previous one)
          map,     \* the cache: function from a subset of Roots to slots
          now,     \* current slot
          ehead,   \* the block whose execution payload the cache reports as execution chain head
          heads,   \* head blocks announced so far whose signed block was obtained (history, for ExecHeadSound)
          last     \* last reply handed to a caller (observation only)

vars == <<chain, parent, map, now, ehead, heads, last>>

Epoch(s) == s \div SlotsPerEpoch
FirstSlot(e) == e * SlotsPerEpoch

Empty == [r \in {} |-> 0]
Put(m, r, s) == [x \in (DOMAIN m) \cup {r} |-> IF x = r THEN s ELSE m[x]]
Restrict(m, D) == [x \in D |-> m[x]]

NoReply == [op |-> "none"]
SlotReply(r, s) == [op |-> "lookup", root |-> r, ok |-> TRUE, slot |-> s]
ErrReply(r) == [op |-> "lookup", root |-> r, ok |-> FALSE, slot |-> -1]
ExecReply(h) == [op |-> "exec", head |-> h]

\* the blocks a parent function may name: an earlier slot, or a block outside the model
ParentsOK(c, p) == \A r \in Roots : p[r] # NoRoot => c[p[r]] < c[r]

\* Environment assumption Env_TruthfulNode: block events and headers carry the block's real slot.
Init ==
    /\ chain \in [Roots -> Slots]
    /\ parent \in {p \in [Roots -> Roots \cup {NoRoot}] : ParentsOK(chain, p)}
    /\ map = Empty
    /\ now \in Nows
    /\ ehead = NoRoot /\ heads = {}
    /\ last = NoReply

BlockEvent(r) ==
    /\ map' = Put(map, r, chain[r])
    /\ last' = NoReply
    /\ UNCHANGED <<chain, parent, now, ehead, heads>>

\* services/controller/standard/events.go HandleBlockEvent: same event stream, same cache, another caller
CtlBlockEvent(r) == BlockEvent(r)

PutTruth(m, S) == [x \in (DOMAIN m) \cup S |-> IF x \in S THEN chain[x] ELSE m[x]]

\* handleHead.  The property does not oblige the handler to cache anything (today it does not), and does not
\* forbid it to: the head event carries (r, slot of r), the fetched block names its parent.  What it caches
\* must be the truth.  The control design "ParentAtPrevSlot" files the parent under head slot - 1: right
\* whenever no slot was skipped, and TLC must reject it (MapSound) - the check runs it as a self-check.
HeadEvent(r, ok) ==
    /\ IF Deviation = "ParentAtPrevSlot" /\ ok /\ parent[r] # NoRoot /\ parent[r] \notin DOMAIN map /\ chain[r] > 0
       THEN map' = Put(Put(map, r, chain[r]), parent[r], chain[r] - 1)
       ELSE \E S \in SUBSET (IF ok THEN {r, parent[r]} \ {NoRoot} ELSE {r}) : map' = PutTruth(map, S)
    /\ heads' = IF ok THEN heads \cup {r} ELSE heads
    \* the code takes the head's payload if it has one (and the block could be fetched); no listed property
    \* obliges it to, so keeping the old head is allowed: the statement is ExecHeadSound below
    /\ ehead' \in (IF ok /\ r \in HasPayload THEN {r, ehead} ELSE {ehead})
    /\ last' = NoReply
    /\ UNCHANGED <<chain, parent, now>>

\* services/controller/standard/events.go HandleHeadEvent: the head event carries (r, slot of r) and the roots
\* of earlier blocks (duty dependent roots) WITHOUT their slots; it writes nothing to the cache today
CtlHeadEvent(r) ==
    /\ \E S \in SUBSET ({r, parent[r]} \ {NoRoot}) : map' = PutTruth(map, S)
    /\ last' = NoReply
    /\ UNCHANGED <<chain, parent, now, ehead, heads>>

\* The consumers.  A[i] is the root node i answered; ok: do the header fetches of this call succeed.
\* What a consumer knows of root r: its real slot if the cache has it or can fetch it, otherwise nothing - the
\* block root strategies then "assume 0", the attestation data strategy gives no nearness bonus (less than any slot).
Known(r, ok) == r \in DOMAIN map \/ ok
Eff(kind, r, ok) == IF Known(r, ok) THEN chain[r] ELSE (IF kind = "best" THEN -1 ELSE 0)
Votes(A, r) == Cardinality({i \in DOMAIN A : A[i] = r})
Winners(kind, A, ok) ==
    LET R == {A[i] : i \in DOMAIN A}
        Top == IF kind = "majority" THEN {r \in R : \A q \in R : Votes(A, q) <= Votes(A, r)} ELSE R
    IN {r \in Top : \A q \in Top : Eff(kind, q, ok) <= Eff(kind, r, ok)}
UseReply(kind, w) == [op |-> "use", kind |-> kind, root |-> w]

Use(kind, A, ok) ==
    /\ \E S \in SUBSET (IF ok THEN {A[i] : i \in DOMAIN A} \ DOMAIN map ELSE {}) : map' = PutTruth(map, S)
    /\ \E w \in Winners(kind, A, ok) : last' = UseReply(kind, w)
    /\ UNCHANGED <<chain, parent, now, ehead, heads>>

ExecHead ==
    /\ last' = ExecReply(ehead)
    /\ UNCHANGED <<chain, parent, map, now, ehead, heads>>

LookupHit(r) ==
    /\ r \in DOMAIN map
    /\ last' = SlotReply(r, map[r])
    /\ UNCHANGED <<chain, parent, map, now, ehead, heads>>

\* The property does not oblige the cache to remember a fetched header, only to answer right.
LookupMissOk(r) ==
    /\ r \notin DOMAIN map
    /\ map' \in {map, Put(map, r, chain[r])}
    /\ last' = SlotReply(r, chain[r])
    /\ UNCHANGED <<chain, parent, now, ehead, heads>>

LookupMissErr(r) ==
    /\ r \notin DOMAIN map
    /\ last' = ErrReply(r)
    /\ UNCHANGED <<chain, parent, map, now, ehead, heads>>

Old(m, t) == IF Epoch(t) > Retention
             THEN {r \in DOMAIN m : m[r] < FirstSlot(Epoch(t) - Retention)}
             ELSE {}

\* The property only forbids removing entries inside the window; how many old ones go is free.
Clean ==
    /\ \E S \in SUBSET Old(map, now) : map' = Restrict(map, (DOMAIN map) \ S)
    /\ last' = NoReply
    /\ UNCHANGED <<chain, parent, now, ehead, heads>>

Advance(t) ==
    /\ t \in Nows /\ t > now
    /\ now' = t
    /\ last' = NoReply
    /\ UNCHANGED <<chain, parent, map, ehead, heads>>

Next ==
    \/ \E r \in Roots : BlockEvent(r) \/ LookupHit(r) \/ LookupMissOk(r) \/ LookupMissErr(r)
    \/ \E r \in Roots : CtlBlockEvent(r) \/ CtlHeadEvent(r) \/ HeadEvent(r, TRUE) \/ HeadEvent(r, FALSE)
    \/ ExecHead
    \/ UseNodes > 0 /\ \E kind \in {"latest", "majority", "best"}, A \in [1..UseNodes -> Roots], ok \in BOOLEAN : Use(kind, A, ok)
    \/ Clean
    \/ \E t \in Nows : Advance(t)

Spec == Init /\ [][Next]_vars

-----------------------------------------------------------------------------
TypeOK ==
    /\ DOMAIN map \subseteq Roots
    /\ now \in Nows
    /\ ehead \in Roots \cup {NoRoot}

\* every cached entry is the truth
MapSound == \A r \in DOMAIN map : map[r] = chain[r]

\* C18: a reported slot is the slot of the block with that root
LookupRight == (last.op = "lookup" /\ last.ok) => last.slot = chain[last.root]

\* C18: a failed fetch is reported as an error, not as a slot
ErrorNotSlot == (last.op = "lookup" /\ ~last.ok) => last.slot = -1

\* the execution chain head handed to the auction is the payload of a block that was announced as head
\* and obtained (never of a block the node did not announce, never before any head had a payload)
ExecHeadSound == /\ ehead # NoRoot => (ehead \in heads /\ ehead \in HasPayload)
                 /\ last.op = "exec" => last.head = ehead

\* C18: only entries older than the retention window ever disappear
CleanOnlyOldStep ==
    \A r \in DOMAIN map : r \notin DOMAIN map' =>
            /\ Epoch(now) > Retention
            /\ map[r] < FirstSlot(Epoch(now) - Retention)
CleanOnlyOld == [][CleanOnlyOldStep]_vars
=============================================================================
