------------------------------- MODULE Cache -------------------------------
(* Block-root -> slot cache of Vouch (services/cache/standard/blockroottoslot.go, events.go).   *)
(*                                                                                              *)
(* One action per public entry point / critical section of the code:                            *)
(*   BlockEvent(r)      handleBlock: a beacon node announces block r (with its slot)            *)
(*   LookupHit(r)       BlockRootToSlot, entry present (read under blockRootToSlotMu.RLock)     *)
(*   LookupMissOk(r)    BlockRootToSlot, entry absent, header fetch succeeds                    *)
(*   LookupMissErr(r)   BlockRootToSlot, entry absent, header fetch fails                       *)
(*   Clean              cleanBlockRootToSlot, the periodic job                                  *)
(*   Advance(t)         the clock                                                               *)
(* Property C18: a lookup that reports a slot reports the slot of the block with that root      *)
(* (hit or miss), a failed fetch is an error and not a slot, cleaning only removes entries      *)
(* older than the retention window.                                                             *)
EXTENDS Integers, FiniteSets, Sequences, TLC

CONSTANTS Roots,          \* set of block roots
          Slots,          \* slots a block can have (ground truth range)
          Nows,           \* clock positions the environment may move to
          SlotsPerEpoch,
          Retention       \* epochs kept by Clean (64 in the code)

VARIABLES chain,   \* ground truth: [Roots -> Slots], the slot of the block with that root
          map,     \* the cache: function from a subset of Roots to slots
          now,     \* current slot
          last     \* last reply handed to a caller (observation only)

vars == <<chain, map, now, last>>

Epoch(s) == s \div SlotsPerEpoch
FirstSlot(e) == e * SlotsPerEpoch

Empty == [r \in {} |-> 0]
Put(m, r, s) == [x \in (DOMAIN m) \cup {r} |-> IF x = r THEN s ELSE m[x]]
Restrict(m, D) == [x \in D |-> m[x]]

NoReply == [op |-> "none"]
SlotReply(r, s) == [op |-> "lookup", root |-> r, ok |-> TRUE, slot |-> s]
ErrReply(r) == [op |-> "lookup", root |-> r, ok |-> FALSE, slot |-> -1]

\* Environment assumption Env_TruthfulNode: block events and headers carry the block's real slot.
Init ==
    /\ chain \in [Roots -> Slots]
    /\ map = Empty
    /\ now \in Nows
    /\ last = NoReply

BlockEvent(r) ==
    /\ map' = Put(map, r, chain[r])
    /\ last' = NoReply
    /\ UNCHANGED <<chain, now>>

LookupHit(r) ==
    /\ r \in DOMAIN map
    /\ last' = SlotReply(r, map[r])
    /\ UNCHANGED <<chain, map, now>>

\* The property does not oblige the cache to remember a fetched header, only to answer right.
LookupMissOk(r) ==
    /\ r \notin DOMAIN map
    /\ map' \in {map, Put(map, r, chain[r])}
    /\ last' = SlotReply(r, chain[r])
    /\ UNCHANGED <<chain, now>>

LookupMissErr(r) ==
    /\ r \notin DOMAIN map
    /\ last' = ErrReply(r)
    /\ UNCHANGED <<chain, map, now>>

Old(m, t) == IF Epoch(t) > Retention
             THEN {r \in DOMAIN m : m[r] < FirstSlot(Epoch(t) - Retention)}
             ELSE {}

\* The property only forbids removing entries inside the window; how many old ones go is free.
Clean ==
    /\ \E S \in SUBSET Old(map, now) : map' = Restrict(map, (DOMAIN map) \ S)
    /\ last' = NoReply
    /\ UNCHANGED <<chain, now>>

Advance(t) ==
    /\ t \in Nows /\ t > now
    /\ now' = t
    /\ last' = NoReply
    /\ UNCHANGED <<chain, map>>

Next ==
    \/ \E r \in Roots : BlockEvent(r) \/ LookupHit(r) \/ LookupMissOk(r) \/ LookupMissErr(r)
    \/ Clean
    \/ \E t \in Nows : Advance(t)

Spec == Init /\ [][Next]_vars

-----------------------------------------------------------------------------
TypeOK ==
    /\ DOMAIN map \subseteq Roots
    /\ now \in Nows

\* every cached entry is the truth
MapSound == \A r \in DOMAIN map : map[r] = chain[r]

\* C18: a reported slot is the slot of the block with that root
LookupRight == (last.op = "lookup" /\ last.ok) => last.slot = chain[last.root]

\* C18: a failed fetch is reported as an error, not as a slot
ErrorNotSlot == (last.op = "lookup" /\ ~last.ok) => last.slot = -1

\* C18: only entries older than the retention window ever disappear
CleanOnlyOldStep ==
    \A r \in DOMAIN map : r \notin DOMAIN map' =>
            /\ Epoch(now) > Retention
            /\ map[r] < FirstSlot(Epoch(now) - Retention)
CleanOnlyOld == [][CleanOnlyOldStep]_vars
=============================================================================
