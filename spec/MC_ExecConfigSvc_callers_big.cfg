SPECIFICATION Spec
CONSTANTS
  Calls = {1, 2}
  DocIds = {2, 4}
  FailKinds = {"error"}
  MaxFetches = 2
  MaxOpen = 2
  Overlap = TRUE
  Kinds = {"direct", "prep", "reg", "auction", "bid", "check"}
  Ours = {"V1"}
  LookErrs = {"error"}
  MaxRefresh = 2
  AuctionMiss = "fail"
  BidAccount = "lookup"
  Design = "resolve"
INVARIANTS TypeOK UsesInForce SequentialRight CallersAgree MissOnly
CONSTRAINT FetchBound
CHECK_DEADLOCK FALSE
