---------------------------- MODULE Scen_Unblind ----------------------------
(* Scenario enumeration of property C20, part (b): the scenarios ARE the initial states of Unblind   *)
(* (which call, how many beacon nodes / relays, whether the context has a deadline, what each node /  *)
(* relay does over its tries).  TLC enumerates them; checks/C20.py samples from the list.             *)
EXTENDS Unblind, Json

SSpec == Init /\ [][UNCHANGED vars]_vars

Emit == PrintT(ToJson([kind |-> kind, n |-> n, deadline |-> deadline, plan |-> plan]))
=============================================================================
