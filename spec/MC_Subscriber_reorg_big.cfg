SPECIFICATION Spec
CONSTANTS
  Validators = {1, 2}
  SlotSpace = {2, 3}
  Nows = {2, 3, 6}
  Committees = {0}
  Sizes = {8}
  Targets = {2}
  HVals = {0, 1}
  HMod = 8
  MaxDuties = 2
  MaxSubs = 1
  SPE = 2
  Ep = 1
  MaxRefresh = 2
  MaxChanges = 2
INVARIANTS TypeOK AllFutureSubscribed AggregatorRuleExact InfoPrefersAggregator InfoInForceComplete EveryAggregatorCommitteeScheduled NoAggregationForPastSlot
CHECK_DEADLOCK FALSE
