------------------------------ MODULE MC_Vouch ------------------------------
(* Model for the exhaustive TLC runs of Vouch.tla: duty oracles.  The duty slot of validator v   *)
(* in epoch e at version w is First(e) + digit v of Code(a, b, c, e, w) in base P: with (a, b, c) *)
(* ranging over MCSeeds this gives validators sharing a slot or not, moving to an earlier or a    *)
(* later slot (or staying) from one version to the next.                                         *)
EXTENDS Vouch

CONSTANTS MCSeeds      \* set of <<a, b, c>>

RECURSIVE Pow(_, _)
Pow(b, n) == IF n = 0 THEN 1 ELSE b * Pow(b, n - 1)
NV == Cardinality(Validators)
Code(s, e, w) == (s[1] + s[2] * e + s[3] * w) % Pow(P, NV)
Rank(v) == Cardinality({u \in Validators : u < v})
Orc(s) == [k \in (0..MaxEpoch) \X (0..MaxVer) |-> [v \in Validators |-> (Code(s, k[1], k[2]) \div Pow(P, Rank(v))) % P]]
MCOracles == {Orc(s) : s \in MCSeeds}

SeedsOne == {<<1, 1, 2>>}
SeedsSmall == {<<0, 1, 1>>, <<1, 1, 2>>}
SeedsBig == {<<0, 1, 1>>, <<1, 1, 2>>, <<2, 3, 1>>, <<3, 0, 3>>}
=============================================================================
