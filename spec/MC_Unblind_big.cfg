SPECIFICATION Spec
CONSTANTS
  MaxN = 4
  Kinds = {"first", "unblind"}
  CapOne = FALSE
  AllFailedReturns = TRUE
  Retries = 3
INVARIANTS TypeOK NoBlockedSender NoWaitForEver OkMeansDelivered
CHECK_DEADLOCK FALSE
