SPECIFICATION TraceSpec
CONSTANTS
  MaxN = 4
  Variants = {"Best", "Majority", "RootMajority"}
  Values = {1, 2}
  Scores = {0}
  FirstCap = 0
  Roots = {1, 2}
  Dev = "none"
  Tolerant = TRUE
INVARIANTS ReturnsByHard BestIsMax MajorityRule ErrorIffNothing InvalidNeverReturned NotOverdue LookupOwnTime
CONSTRAINT HWM
POSTCONDITION TraceAccepted
CHECK_DEADLOCK FALSE
