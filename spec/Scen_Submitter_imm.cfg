SPECIFICATION SSpec
CONSTANTS
  Mode = "base"
  Subs = {"immediate"}
  KindSet = {"att", "agg", "proposal", "syncmsg", "contrib", "bcsub", "scsub", "prep"}
  ConcSet = {1}
  ItemSet = {1, 4}
  NodeCounts = {1}
  SimCounts = {1}
  DefaultConc = 16
INVARIANTS Emit
CHECK_DEADLOCK FALSE
