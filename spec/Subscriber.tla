----------------------------- MODULE Subscriber -----------------------------
(* Beacon-committee subscriptions and attestation-aggregation jobs of Vouch (property C14).     *)
(*                                                                                              *)
(*   services/beaconcommitteesubscriber/standard/subscribe.go        Subscribe                  *)
(*   services/attestationaggregator/standard/service.go              AggregatorsAndSignatures   *)
(*   services/controller/standard/events.go      HandleHeadEvent, refreshAttesterDutiesForEpoch,*)
(*                                               subscribeToBeaconCommittees                    *)
(*   services/controller/standard/attester.go                        AttestAndScheduleAggregate *)
(*                                                                                              *)
(* One epoch (geo.ep) of attester duties and the controller's subscription-info STORE for that  *)
(* epoch, with its history.                                                                     *)
(*                                                                                              *)
(* Environment (independently enabled):                                                         *)
(*   AddDuty(d)        the beacon node's attester-duty oracle for the epoch gains a duty; the   *)
(*                     record also fixes the committee size and the scalar h of the slot        *)
(*                     signature the signer will give for (validator, slot)                     *)
(*   DropDuty(d)       the oracle loses a duty (a re-org; only after Vouch has acted on it)     *)
(*   MoveDuty(d,e)     a re-org in which the validator KEEPS ITS SLOT (and so its slot          *)
(*                     signature) but lands in another committee and / or in a committee of     *)
(*                     another length                                                           *)
(*   ResizePair(s,c,z) a re-org after which committee c of slot s has z members: every validator*)
(*                     of the pair keeps slot and committee index, the length changes           *)
(*   Advance(t)        the clock                                                                *)
(* Vouch:                                                                                       *)
(*   SubscribeWith(I,S) a synchronous Subscribe for the epoch (epoch preparation): I is the     *)
(*                     subscription info handed back to the controller and STORED by it, S the  *)
(*                     subscriptions submitted to the node                                      *)
(*   SubscribeFail     the same call failing (beacon node error): the store is not touched      *)
(*   ...WithF(I,S,F)   the same calls with the slot-selection signer refusing the slots F: the  *)
(*                     info covers the duties of the other slots                                *)
(*   Refresh           a head event with a changed duty dependent root that concerns the epoch  *)
(*                     (refreshAttesterDutiesForEpoch): the attestation jobs are cancelled and  *)
(*                     re-made, and a re-subscription is started ASYNCHRONOUSLY; the store keeps*)
(*                     what it has                                                              *)
(*   ResubOk(I,S)      a re-subscription in flight completes: it fetches the duties as they are *)
(*                     now, the store is REPLACED by the new info                               *)
(*   ResubFail         a re-subscription in flight fails: the store KEEPS the previous info     *)
(*   ResubFetch(hs)    a re-subscription in flight fetches the duties (as they are now) and     *)
(*                     enters the attestation aggregator: its selection call for slot hs is HELD*)
(*                     at the slot-selection signer (the calls of its other slots run on) while *)
(*                     anything else happens: other subscriptions on the same subscriber and    *)
(*                     aggregator instances run to completion, the oracle changes, jobs run     *)
(*   HeldFinish(c,I,S) the held call returns: the info, calculated from the duties THAT CALL    *)
(*                     fetched, replaces the store                                              *)
(*   Housekeep         a head event two or more epochs later: the epoch's info may be dropped   *)
(*   AttestJob(s,C,ok) the attestation job of slot s, at ANY point of that history: the attester*)
(*                     made attestations for the committees C (ok) or failed (~ok); aggregation *)
(*                     jobs are set up from the info IN FORCE = the most recently stored        *)
(*                     successful subscription result (never absent once there was one)         *)
(*                                                                                              *)
(* THE INSTANCES AND THEIR HISTORY.  Controller, beacon committee subscriber and attestation    *)
(* aggregator are single long-lived instances; a behaviour is a history of (re-)subscription    *)
(* calls on them, sequential and overlapping (production starts every subscription on its own   *)
(* goroutine: epoch preparation, the two epochs at start-up, one per re-org head event; inside  *)
(* one call the selection calls of the slots run in parallel).  The ONLY state the property     *)
(* makes persistent is the controller's store (info / infoD / submitted / subAt): it is what an *)
(* attestation job reads.  The outcome of every call - the flags submitted, stored and acted on *)
(* - is a function of that call's own inputs (the duties it fetched with their committee index  *)
(* and LENGTH, the slot signatures, the target, the clock) and of nothing an earlier or         *)
(* overlapping call left behind: SubscriptionHistoryIndependent.  Designs that keep more on the *)
(* aggregator instance are in SubscriberMemo.tla (controls that TLC must reject).               *)
(*                                                                                              *)
(* h is the little-endian uint64 of the first eight bytes of SHA-256 of the slot signature,     *)
(* reduced modulo HMod (hashing stays in Go; every modulus that occurs divides HMod, so         *)
(* h % modulus is unaffected by the reduction).                                                 *)
EXTENDS Integers, FiniteSets, Sequences, TLC

CONSTANTS Validators,     \* validator indices
          SlotSpace,      \* slots a duty of the epoch can have
          Nows,           \* clock positions (slots)
          Committees,     \* committee indices
          Sizes,          \* committee sizes
          Targets,        \* TARGET_AGGREGATORS_PER_COMMITTEE values
          HVals,          \* values of h the environment may choose
          HMod,           \* h is given modulo HMod
          MaxDuties,      \* bound on the size of the duty oracle
          MaxSubs,        \* bound on the number of synchronous Subscribe calls for the epoch
          SPE,            \* slots per epoch
          Ep,             \* the epoch of the duties (all of SlotSpace lies in it)
          MaxRefresh,     \* bound on the number of refreshes (re-org head events) for the epoch
          MaxChanges,     \* bound on the oracle changes after Vouch has acted on the oracle
          MaxHeld,        \* bound on the number of re-subscriptions held inside the aggregator (overlap)
          SignerMayFail   \* the slot-selection signer may refuse the selection call of a slot

VARIABLES now,        \* current slot
          target,     \* TARGET_AGGREGATORS_PER_COMMITTEE
          geo,        \* [spe, ep]: slots per epoch and the epoch of the duties (fixed per behaviour)
          duties,     \* duty oracle: set of [v, slot, committee, size, h]
          started,    \* Vouch has acted on the oracle (later oracle changes are re-orgs)
          info,       \* the STORE: subscription info in force for the epoch: set of [slot, committee, v, agg]
          infoD,      \* the oracle the info in force was calculated from
          submitted,  \* subscriptions handed to the beacon node by the last successful Subscribe
          subAt,      \* slot at which the last successful Subscribe ran (NoSub if none in force)
          nsub,       \* number of synchronous Subscribe calls so far
          inflight,   \* re-subscriptions started by a refresh that have not yet fetched the duties
          held,       \* re-subscriptions inside the aggregator, held at the signer: set of [id, snap, hs]
          nheld,      \* number of calls held so far
          nref,       \* number of refreshes so far
          nchg,       \* number of oracle changes after started
          jobs,       \* aggregation jobs ever set up: set of [slot, committee, v, at, exact]
          attests,    \* successful attestations: set of [slot, committee, expect]
          done        \* slots whose attestation job has run (a job runs once, property C02/C03)

vars == <<now, target, geo, duties, started, info, infoD, submitted, subAt, nsub, inflight, held, nheld, nref, nchg,
          jobs, attests, done>>

NoSub == -1

Max(a, b) == IF a >= b THEN a ELSE b

EpochOf(s) == s \div geo.spe

-----------------------------------------------------------------------------
(* The consensus specification's rule (is_aggregator).                                          *)
Modulus(size, t) == Max(1, size \div t)
IsAggregator(h, size, t) == h % Modulus(size, t) = 0

DutyAggregates(d, t) == IsAggregator(d.h, d.size, t)

DutiesAt(D, s, c) == {d \in D : d.slot = s /\ d.committee = c}

\* the subscription entry a duty gives rise to
Entry(d, t) == [slot |-> d.slot, committee |-> d.committee, v |-> d.v, agg |-> DutyAggregates(d, t)]
Entries(D, t) == {Entry(d, t) : d \in D}

SamePair(a, b) == a.slot = b.slot /\ a.committee = b.committee

\* A subscription info calculated from the duties D at slot t, A[d] being what the attestation
\* aggregator answered for duty d (is d's validator a selected aggregator?): one entry per
\* slot/committee pair, each the entry of one of the pair's validators, an aggregating one whenever
\* the pair has one; every pair with a duty at slot t or later is present (the info of slot t is
\* what the attestation job of slot t itself looks at)
CalcInfo(I, D, t, A) ==
    /\ I \subseteq {[slot |-> d.slot, committee |-> d.committee, v |-> d.v, agg |-> A[d]] : d \in D}
    /\ \A a, b \in I : SamePair(a, b) => a = b
    /\ \A d \in D : d.slot >= t => \E e \in I : SamePair(e, d)
    /\ \A e \in I : (\E d \in DutiesAt(D, e.slot, e.committee) : A[d]) => e.agg

\* the answers the property demands: the rule on the duty's OWN committee length, nothing else
Exact(D, tgt) == [d \in D |-> DutyAggregates(d, tgt)]

ValidInfo(I, D, t, tgt) == CalcInfo(I, D, t, Exact(D, tgt))

FutureOf(I, t) == {e \in I : e.slot > t}

\* a validator has one signature per slot (whatever the oracle says: a re-org does not change it)
HConsistent(d, D) == \A x \in D : (x.v = d.v /\ x.slot = d.slot) => x.h = d.h

\* ... one duty per slot, and a committee one size
DutyConsistent(d, D) ==
    /\ HConsistent(d, D)
    /\ \A x \in D : (x.v = d.v /\ x.slot = d.slot) => x = d
    /\ \A x \in D : SamePair(x, d) => x.size = d.size

\* every oracle Vouch still works with: a signature seen there is the validator's signature
Snaps == {infoD} \cup {c.snap : c \in held}

-----------------------------------------------------------------------------
Init ==
    /\ now \in Nows
    /\ target \in Targets
    /\ geo = [spe |-> SPE, ep |-> Ep]
    /\ duties = {}
    /\ started = FALSE
    /\ info = {}
    /\ infoD = {}
    /\ submitted = {}
    /\ subAt = NoSub
    /\ nsub = 0
    /\ inflight = 0
    /\ held = {}
    /\ nheld = 0
    /\ nref = 0
    /\ nchg = 0
    /\ jobs = {}
    /\ attests = {}
    /\ done = {}

\* before Vouch has acted: the oracle is being built; afterwards: a re-org changes it
AddDuty(d) ==
    /\ started => nchg < MaxChanges
    /\ Cardinality(duties) < MaxDuties
    /\ d \notin duties
    /\ DutyConsistent(d, duties)
    /\ \A D \in Snaps : HConsistent(d, D)
    /\ duties' = duties \cup {d}
    /\ nchg' = IF started THEN nchg + 1 ELSE nchg
    /\ UNCHANGED <<now, target, geo, started, info, infoD, submitted, subAt, nsub, inflight, held, nheld, nref, jobs, attests, done>>

DropDuty(d) ==
    /\ started /\ nchg < MaxChanges
    /\ d \in duties
    /\ duties' = duties \ {d}
    /\ nchg' = nchg + 1
    /\ UNCHANGED <<now, target, geo, started, info, infoD, submitted, subAt, nsub, inflight, held, nheld, nref, jobs, attests, done>>

\* The re-org leaves the validator its slot (so the slot signature and h are what they were) but
\* puts it into another committee and / or a committee of another length.
MoveDuty(d, e) ==
    /\ started /\ nchg < MaxChanges
    /\ d \in duties /\ e \notin duties
    /\ e.v = d.v /\ e.slot = d.slot /\ e.h = d.h
    /\ DutyConsistent(e, duties \ {d})
    /\ duties' = (duties \ {d}) \cup {e}
    /\ nchg' = nchg + 1
    /\ UNCHANGED <<now, target, geo, started, info, infoD, submitted, subAt, nsub, inflight, held, nheld, nref, jobs, attests, done>>

\* After the re-org committee c of slot s has z members; its validators keep slot and index.
ResizePair(s, c, z) ==
    /\ started /\ nchg < MaxChanges
    /\ \E d \in DutiesAt(duties, s, c) : d.size # z
    /\ duties' = {IF d.slot = s /\ d.committee = c THEN [d EXCEPT !.size = z] ELSE d : d \in duties}
    /\ nchg' = nchg + 1
    /\ UNCHANGED <<now, target, geo, started, info, infoD, submitted, subAt, nsub, inflight, held, nheld, nref, jobs, attests, done>>

Advance(t) ==
    /\ t \in Nows /\ t > now
    /\ now' = t
    /\ UNCHANGED <<target, geo, duties, started, info, infoD, submitted, subAt, nsub, inflight, held, nheld, nref, nchg, jobs, attests, done>>

\* A successful Subscribe (synchronous or the completion of a re-subscription): the info is
\* calculated from the oracle as it is now and REPLACES what the store held for the epoch.
\* The property obliges Vouch to subscribe every future pair; whether pairs that are not in the
\* future are sent as well is left open (S may be any set between the future part and all of I).
\* (D = the duties the call fetched, A = the answers of the attestation aggregator for them.)
StoreCalc(I, S, D, A) ==
    /\ CalcInfo(I, D, now, A)
    /\ FutureOf(I, now) \subseteq S
    /\ S \subseteq I
    /\ info' = I
    /\ infoD' = D
    /\ submitted' = S
    /\ subAt' = now
    /\ started' = TRUE

StoreWith(I, S, D) == StoreCalc(I, S, D, Exact(D, target))

\* The slot-selection signer may refuse the selection call of a slot (F = the slots refused in this
\* call): the call still succeeds, with the info of the duties whose selections it obtained - a
\* failure of the environment that the NEXT call must not inherit.
Signed(D, F) == {d \in D : d.slot \notin F}
SignFails == IF SignerMayFail THEN {{}} \cup {{s} : s \in SlotSpace} ELSE {{}}

SubscribeWithF(I, S, F) ==
    /\ nsub < MaxSubs
    /\ nsub' = nsub + 1
    /\ StoreWith(I, S, Signed(duties, F))
    /\ UNCHANGED <<now, target, geo, duties, inflight, held, nheld, nref, nchg, jobs, attests, done>>

SubscribeWith(I, S) == SubscribeWithF(I, S, {})

Subscribe ==
    \E F \in SignFails : \E I \in SUBSET Entries(Signed(duties, F), target) : \E S \in SUBSET I : SubscribeWithF(I, S, F)

\* the beacon node (or the signer) fails the call: nothing is stored, the info in force stays
SubscribeFail ==
    /\ nsub < MaxSubs
    /\ nsub' = nsub + 1
    /\ started' = TRUE
    /\ UNCHANGED <<now, target, geo, duties, info, infoD, submitted, subAt, inflight, held, nheld, nref, nchg, jobs, attests, done>>

\* A head event whose previous (current) duty dependent root differs concerns the current (next)
\* epoch: refreshAttesterDutiesForEpoch cancels and re-makes the attestation jobs and starts a
\* re-subscription on its own goroutine.  The store is left as it is: the info in force stays in
\* force until a re-subscription has SUCCEEDED.
Refresh ==
    /\ nref < MaxRefresh
    /\ EpochOf(now) \in {geo.ep - 1, geo.ep}
    /\ nref' = nref + 1
    /\ inflight' = inflight + 1
    /\ started' = TRUE
    /\ UNCHANGED <<now, target, geo, duties, info, infoD, submitted, subAt, nsub, held, nheld, nchg, jobs, attests, done>>

ResubOkF(I, S, F) ==
    /\ inflight > 0
    /\ inflight' = inflight - 1
    /\ StoreWith(I, S, Signed(duties, F))
    /\ UNCHANGED <<now, target, geo, duties, nsub, held, nheld, nref, nchg, jobs, attests, done>>

ResubOk(I, S) == ResubOkF(I, S, {})

Resub ==
    \E F \in SignFails : \E I \in SUBSET Entries(Signed(duties, F), target) : \E S \in SUBSET I : ResubOkF(I, S, F)

ResubFail ==
    /\ inflight > 0
    /\ inflight' = inflight - 1
    /\ UNCHANGED <<now, target, geo, duties, started, info, infoD, submitted, subAt, nsub, held, nheld, nref, nchg, jobs, attests, done>>

\* OVERLAP on the instances.  A re-subscription in flight fetches the duties as they are now (its
\* snapshot) and enters the attestation aggregator; the selection call of slot hs (there is one: the
\* snapshot has a duty in hs) is held at the slot-selection signer.  Until HeldFinish anything may
\* happen on the same subscriber / aggregator / controller.
ResubFetch(hs) ==
    /\ inflight > 0 /\ nheld < MaxHeld
    /\ \E d \in duties : d.slot = hs
    /\ inflight' = inflight - 1
    /\ nheld' = nheld + 1
    /\ held' = held \cup {[id |-> nheld + 1, snap |-> duties, hs |-> hs]}
    /\ UNCHANGED <<now, target, geo, duties, started, info, infoD, submitted, subAt, nsub, nref, nchg, jobs, attests, done>>

\* The held call returns: what it stores was calculated from ITS snapshot - by the rule on the
\* committee lengths of that snapshot, whatever ran on the instances in between.
HeldFinish(c, I, S) ==
    /\ c \in held
    /\ held' = held \ {c}
    /\ StoreWith(I, S, c.snap)
    /\ UNCHANGED <<now, target, geo, duties, nsub, inflight, nheld, nref, nchg, jobs, attests, done>>

Finish ==
    \E c \in held : \E I \in SUBSET Entries(c.snap, target) : \E S \in SUBSET I : HeldFinish(c, I, S)

\* HandleHeadEvent removes the info of the epoch two before the head's: allowed (no attestation
\* job of that epoch can be in its slot any more)
Housekeep ==
    /\ EpochOf(now) >= geo.ep + 2
    /\ subAt # NoSub
    /\ info' = {}
    /\ infoD' = {}
    /\ submitted' = {}
    /\ subAt' = NoSub
    /\ UNCHANGED <<now, target, geo, duties, started, nsub, inflight, held, nheld, nref, nchg, jobs, attests, done>>

\* some validator of Vouch with a duty in (s, c) of oracle D is a selected aggregator
PairAggregatesIn(D, s, c) == \E d \in DutiesAt(D, s, c) : DutyAggregates(d, target)

\* the validator of an aggregation job is a selected aggregator of its pair (by the oracle the
\* info in force was calculated from)
JobExact(e) == \E d \in DutiesAt(infoD, e.slot, e.committee) : d.v = e.v /\ DutyAggregates(d, target)

NewJobs(s, C) ==
    IF s < now THEN {}
    ELSE {[slot |-> s, committee |-> e.committee, v |-> e.v, at |-> now, exact |-> JobExact(e)] :
              e \in {x \in info : x.slot = s /\ x.committee \in C /\ x.agg}}

\* the attestation job of slot s runs in slot s or (late) after it, once; it works on the info in
\* force, whatever refresh or re-subscription is under way
AttestJob(s, C, ok) ==
    /\ s <= now /\ s \notin done
    /\ ok \/ C = {}
    /\ done' = done \cup {s}
    /\ jobs' = IF ok THEN jobs \cup NewJobs(s, C) ELSE jobs
    /\ attests' = IF ok
                  THEN attests \cup {[slot |-> s, committee |-> c,
                                      expect |-> subAt # NoSub /\ s >= now /\ PairAggregatesIn(infoD, s, c)] : c \in C}
                  ELSE attests
    /\ started' = TRUE
    /\ UNCHANGED <<now, target, geo, duties, info, infoD, submitted, subAt, nsub, inflight, held, nheld, nref, nchg>>

DutySpace == [v : Validators, slot : SlotSpace, committee : Committees, size : Sizes, h : HVals]

Next ==
    \/ \E d \in DutySpace : AddDuty(d)
    \/ \E d \in duties : DropDuty(d)
    \/ \E d \in duties : \E c \in Committees : \E z \in Sizes :
           MoveDuty(d, [d EXCEPT !.committee = c, !.size = z])
    \/ \E s \in SlotSpace : \E c \in Committees : \E z \in Sizes : ResizePair(s, c, z)
    \/ \E t \in Nows : Advance(t)
    \/ Subscribe
    \/ SubscribeFail
    \/ Refresh
    \/ Resub
    \/ ResubFail
    \/ \E hs \in SlotSpace : ResubFetch(hs)
    \/ Finish
    \/ Housekeep
    \/ \E s \in SlotSpace : \E C \in SUBSET Committees : \E ok \in BOOLEAN : AttestJob(s, C, ok)

Spec == Init /\ [][Next]_vars

-----------------------------------------------------------------------------
TypeOK ==
    /\ now \in Nows
    /\ target \in Targets
    /\ inflight \in 0..MaxRefresh
    /\ nheld \in 0..MaxHeld /\ Cardinality(held) <= nheld
    /\ \A c \in held : c.id \in 1..nheld /\ \E d \in c.snap : d.slot = c.hs
    /\ \A d \in duties : d.h \in 0..(HMod - 1) /\ d.size >= 1 /\ EpochOf(d.slot) = geo.ep
    /\ \A tgt \in Targets : \A z \in Sizes : HMod % Modulus(z, tgt) = 0

\* C14: a subscription is submitted for every slot/committee pair with a duty in a slot after
\* the current one -- whatever other duties of the epoch lie in the past
AllFutureSubscribed ==
    subAt # NoSub =>
        \A d \in infoD : d.slot > subAt => \E e \in submitted : SamePair(e, d)

\* C14: a validator is marked as aggregator exactly when the selection rule says so (in what is
\* sent to the node, in what the controller stores, and in the jobs that are set up)
AggregatorRuleExact ==
    /\ \A e \in submitted \cup info :
          \E d \in DutiesAt(infoD, e.slot, e.committee) : d.v = e.v /\ e.agg = DutyAggregates(d, target)
    /\ \A j \in jobs : j.exact

\* C14 over HISTORIES: whatever calls ran before or beside it on the same instances, the info in
\* force is a valid info of the duties its own call fetched - flags by the rule on the committee
\* lengths of THAT fetch.  (The store itself is the only state that persists by the property.)
SubscriptionHistoryIndependent ==
    subAt # NoSub => ValidInfo(info, infoD, subAt, target)

\* a pair that has a selected aggregator is stored as aggregating
InfoPrefersAggregator ==
    \A e \in info : PairAggregatesIn(infoD, e.slot, e.committee) => e.agg

\* the info in force is never absent once there was one (until housekeeping): it covers every
\* pair of its oracle from the slot of the subscription on
InfoInForceComplete ==
    subAt # NoSub => \A d \in infoD : d.slot >= subAt => \E e \in info : SamePair(e, d)

\* C14: after attesting, an aggregation job for every committee of the slot in which one of
\* Vouch's validators is a selected aggregator -- at whatever point of a refresh the job ran
EveryAggregatorCommitteeScheduled ==
    \A a \in attests : a.expect => \E j \in jobs : j.slot = a.slot /\ j.committee = a.committee

NoAggregationForPastSlot == \A j \in jobs : j.at <= j.slot
=============================================================================
