----------------------------- MODULE Subscriber -----------------------------
(* Beacon-committee subscriptions and attestation-aggregation jobs of Vouch (property C14).     *)
(*                                                                                              *)
(*   services/beaconcommitteesubscriber/standard/subscribe.go        Subscribe                  *)
(*   services/attestationaggregator/standard/service.go              AggregatorsAndSignatures   *)
(*   services/controller/standard/events.go      HandleHeadEvent, refreshAttesterDutiesForEpoch,*)
(*                                               subscribeToBeaconCommittees                    *)
(*   services/controller/standard/attester.go                        AttestAndScheduleAggregate *)
(*                                                                                              *)
(* One epoch (geo.ep) of attester duties and the controller's subscription-info STORE for that  *)
(* epoch, with its history.                                                                     *)
(*                                                                                              *)
(* Environment (independently enabled):                                                         *)
(*   AddDuty(d)        the beacon node's attester-duty oracle for the epoch gains a duty; the   *)
(*                     record also fixes the committee size and the scalar h of the slot        *)
(*                     signature the signer will give for (validator, slot)                     *)
(*   DropDuty(d)       the oracle loses a duty (a re-org; only after Vouch has acted on it)     *)
(*   Advance(t)        the clock                                                                *)
(* Vouch:                                                                                       *)
(*   SubscribeWith(I,S) a synchronous Subscribe for the epoch (epoch preparation): I is the     *)
(*                     subscription info handed back to the controller and STORED by it, S the  *)
(*                     subscriptions submitted to the node                                      *)
(*   SubscribeFail     the same call failing (beacon node error): the store is not touched      *)
(*   Refresh           a head event with a changed duty dependent root that concerns the epoch  *)
(*                     (refreshAttesterDutiesForEpoch): the attestation jobs are cancelled and  *)
(*                     re-made, and a re-subscription is started ASYNCHRONOUSLY; the store keeps*)
(*                     what it has                                                              *)
(*   ResubOk(I,S)      a re-subscription in flight completes: it fetches the duties as they are *)
(*                     now, the store is REPLACED by the new info                               *)
(*   ResubFail         a re-subscription in flight fails: the store KEEPS the previous info     *)
(*   Housekeep         a head event two or more epochs later: the epoch's info may be dropped   *)
(*   AttestJob(s,C,ok) the attestation job of slot s, at ANY point of that history: the attester*)
(*                     made attestations for the committees C (ok) or failed (~ok); aggregation *)
(*                     jobs are set up from the info IN FORCE = the most recently stored        *)
(*                     successful subscription result (never absent once there was one)         *)
(*                                                                                              *)
(* h is the little-endian uint64 of the first eight bytes of SHA-256 of the slot signature,     *)
(* reduced modulo HMod (hashing stays in Go; every modulus that occurs divides HMod, so         *)
(* h % modulus is unaffected by the reduction).                                                 *)
EXTENDS Integers, FiniteSets, Sequences, TLC

CONSTANTS Validators,     \* validator indices
          SlotSpace,      \* slots a duty of the epoch can have
          Nows,           \* clock positions (slots)
          Committees,     \* committee indices
          Sizes,          \* committee sizes
          Targets,        \* TARGET_AGGREGATORS_PER_COMMITTEE values
          HVals,          \* values of h the environment may choose
          HMod,           \* h is given modulo HMod
          MaxDuties,      \* bound on the size of the duty oracle
          MaxSubs,        \* bound on the number of synchronous Subscribe calls for the epoch
          SPE,            \* slots per epoch
          Ep,             \* the epoch of the duties (all of SlotSpace lies in it)
          MaxRefresh,     \* bound on the number of refreshes (re-org head events) for the epoch
          MaxChanges      \* bound on the oracle changes after Vouch has acted on the oracle

VARIABLES now,        \* current slot
          target,     \* TARGET_AGGREGATORS_PER_COMMITTEE
          geo,        \* [spe, ep]: slots per epoch and the epoch of the duties (fixed per behaviour)
          duties,     \* duty oracle: set of [v, slot, committee, size, h]
          started,    \* Vouch has acted on the oracle (later oracle changes are re-orgs)
          info,       \* the STORE: subscription info in force for the epoch: set of [slot, committee, v, agg]
          infoD,      \* the oracle the info in force was calculated from
          submitted,  \* subscriptions handed to the beacon node by the last successful Subscribe
          subAt,      \* slot at which the last successful Subscribe ran (NoSub if none in force)
          nsub,       \* number of synchronous Subscribe calls so far
          inflight,   \* re-subscriptions started by a refresh and not yet finished
          nref,       \* number of refreshes so far
          nchg,       \* number of oracle changes after started
          jobs,       \* aggregation jobs ever set up: set of [slot, committee, v, at, exact]
          attests,    \* successful attestations: set of [slot, committee, expect]
          done        \* slots whose attestation job has run (a job runs once, property C02/C03)

vars == <<now, target, geo, duties, started, info, infoD, submitted, subAt, nsub, inflight, nref, nchg,
          jobs, attests, done>>

NoSub == -1

Max(a, b) == IF a >= b THEN a ELSE b

EpochOf(s) == s \div geo.spe

-----------------------------------------------------------------------------
(* The consensus specification's rule (is_aggregator).                                          *)
Modulus(size, t) == Max(1, size \div t)
IsAggregator(h, size, t) == h % Modulus(size, t) = 0

DutyAggregates(d, t) == IsAggregator(d.h, d.size, t)

DutiesAt(D, s, c) == {d \in D : d.slot = s /\ d.committee = c}

\* the subscription entry a duty gives rise to
Entry(d, t) == [slot |-> d.slot, committee |-> d.committee, v |-> d.v, agg |-> DutyAggregates(d, t)]
Entries(D, t) == {Entry(d, t) : d \in D}

SamePair(a, b) == a.slot = b.slot /\ a.committee = b.committee

\* one entry per slot/committee pair, each the entry of one of the pair's validators, an
\* aggregator whenever the pair has one; every pair with a duty at slot t or later is present
\* (the info of slot t is what the attestation job of slot t itself looks at)
ValidInfo(I, D, t, tgt) ==
    /\ I \subseteq Entries(D, tgt)
    /\ \A a, b \in I : SamePair(a, b) => a = b
    /\ \A d \in D : d.slot >= t => \E e \in I : SamePair(e, d)
    /\ \A e \in I : (\E d \in DutiesAt(D, e.slot, e.committee) : DutyAggregates(d, tgt)) => e.agg

FutureOf(I, t) == {e \in I : e.slot > t}

\* a validator has one signature per slot (whatever the oracle says: a re-org does not change it)
HConsistent(d, D) == \A x \in D : (x.v = d.v /\ x.slot = d.slot) => x.h = d.h

\* ... one duty per slot, and a committee one size
DutyConsistent(d, D) ==
    /\ HConsistent(d, D)
    /\ \A x \in D : (x.v = d.v /\ x.slot = d.slot /\ x.committee = d.committee) => x = d
    /\ \A x \in D : SamePair(x, d) => x.size = d.size

-----------------------------------------------------------------------------
Init ==
    /\ now \in Nows
    /\ target \in Targets
    /\ geo = [spe |-> SPE, ep |-> Ep]
    /\ duties = {}
    /\ started = FALSE
    /\ info = {}
    /\ infoD = {}
    /\ submitted = {}
    /\ subAt = NoSub
    /\ nsub = 0
    /\ inflight = 0
    /\ nref = 0
    /\ nchg = 0
    /\ jobs = {}
    /\ attests = {}
    /\ done = {}

\* before Vouch has acted: the oracle is being built; afterwards: a re-org changes it
AddDuty(d) ==
    /\ started => nchg < MaxChanges
    /\ Cardinality(duties) < MaxDuties
    /\ d \notin duties
    /\ DutyConsistent(d, duties)
    /\ HConsistent(d, infoD)
    /\ duties' = duties \cup {d}
    /\ nchg' = IF started THEN nchg + 1 ELSE nchg
    /\ UNCHANGED <<now, target, geo, started, info, infoD, submitted, subAt, nsub, inflight, nref, jobs, attests, done>>

DropDuty(d) ==
    /\ started /\ nchg < MaxChanges
    /\ d \in duties
    /\ duties' = duties \ {d}
    /\ nchg' = nchg + 1
    /\ UNCHANGED <<now, target, geo, started, info, infoD, submitted, subAt, nsub, inflight, nref, jobs, attests, done>>

Advance(t) ==
    /\ t \in Nows /\ t > now
    /\ now' = t
    /\ UNCHANGED <<target, geo, duties, started, info, infoD, submitted, subAt, nsub, inflight, nref, nchg, jobs, attests, done>>

\* A successful Subscribe (synchronous or the completion of a re-subscription): the info is
\* calculated from the oracle as it is now and REPLACES what the store held for the epoch.
\* The property obliges Vouch to subscribe every future pair; whether pairs that are not in the
\* future are sent as well is left open (S may be any set between the future part and all of I).
StoreWith(I, S) ==
    /\ ValidInfo(I, duties, now, target)
    /\ FutureOf(I, now) \subseteq S
    /\ S \subseteq I
    /\ info' = I
    /\ infoD' = duties
    /\ submitted' = S
    /\ subAt' = now
    /\ started' = TRUE

SubscribeWith(I, S) ==
    /\ nsub < MaxSubs
    /\ nsub' = nsub + 1
    /\ StoreWith(I, S)
    /\ UNCHANGED <<now, target, geo, duties, inflight, nref, nchg, jobs, attests, done>>

Subscribe ==
    \E I \in SUBSET Entries(duties, target) : \E S \in SUBSET I : SubscribeWith(I, S)

\* the beacon node (or the signer) fails the call: nothing is stored, the info in force stays
SubscribeFail ==
    /\ nsub < MaxSubs
    /\ nsub' = nsub + 1
    /\ started' = TRUE
    /\ UNCHANGED <<now, target, geo, duties, info, infoD, submitted, subAt, inflight, nref, nchg, jobs, attests, done>>

\* A head event whose previous (current) duty dependent root differs concerns the current (next)
\* epoch: refreshAttesterDutiesForEpoch cancels and re-makes the attestation jobs and starts a
\* re-subscription on its own goroutine.  The store is left as it is: the info in force stays in
\* force until a re-subscription has SUCCEEDED.
Refresh ==
    /\ nref < MaxRefresh
    /\ EpochOf(now) \in {geo.ep - 1, geo.ep}
    /\ nref' = nref + 1
    /\ inflight' = inflight + 1
    /\ started' = TRUE
    /\ UNCHANGED <<now, target, geo, duties, info, infoD, submitted, subAt, nsub, nchg, jobs, attests, done>>

ResubOk(I, S) ==
    /\ inflight > 0
    /\ inflight' = inflight - 1
    /\ StoreWith(I, S)
    /\ UNCHANGED <<now, target, geo, duties, nsub, nref, nchg, jobs, attests, done>>

Resub ==
    \E I \in SUBSET Entries(duties, target) : \E S \in SUBSET I : ResubOk(I, S)

ResubFail ==
    /\ inflight > 0
    /\ inflight' = inflight - 1
    /\ UNCHANGED <<now, target, geo, duties, started, info, infoD, submitted, subAt, nsub, nref, nchg, jobs, attests, done>>

\* HandleHeadEvent removes the info of the epoch two before the head's: allowed (no attestation
\* job of that epoch can be in its slot any more)
Housekeep ==
    /\ EpochOf(now) >= geo.ep + 2
    /\ subAt # NoSub
    /\ info' = {}
    /\ infoD' = {}
    /\ submitted' = {}
    /\ subAt' = NoSub
    /\ UNCHANGED <<now, target, geo, duties, started, nsub, inflight, nref, nchg, jobs, attests, done>>

\* some validator of Vouch with a duty in (s, c) of oracle D is a selected aggregator
PairAggregatesIn(D, s, c) == \E d \in DutiesAt(D, s, c) : DutyAggregates(d, target)

\* the validator of an aggregation job is a selected aggregator of its pair (by the oracle the
\* info in force was calculated from)
JobExact(e) == \E d \in DutiesAt(infoD, e.slot, e.committee) : d.v = e.v /\ DutyAggregates(d, target)

NewJobs(s, C) ==
    IF s < now THEN {}
    ELSE {[slot |-> s, committee |-> e.committee, v |-> e.v, at |-> now, exact |-> JobExact(e)] :
              e \in {x \in info : x.slot = s /\ x.committee \in C /\ x.agg}}

\* the attestation job of slot s runs in slot s or (late) after it, once; it works on the info in
\* force, whatever refresh or re-subscription is under way
AttestJob(s, C, ok) ==
    /\ s <= now /\ s \notin done
    /\ ok \/ C = {}
    /\ done' = done \cup {s}
    /\ jobs' = IF ok THEN jobs \cup NewJobs(s, C) ELSE jobs
    /\ attests' = IF ok
                  THEN attests \cup {[slot |-> s, committee |-> c,
                                      expect |-> subAt # NoSub /\ s >= now /\ PairAggregatesIn(infoD, s, c)] : c \in C}
                  ELSE attests
    /\ started' = TRUE
    /\ UNCHANGED <<now, target, geo, duties, info, infoD, submitted, subAt, nsub, inflight, nref, nchg>>

DutySpace == [v : Validators, slot : SlotSpace, committee : Committees, size : Sizes, h : HVals]

Next ==
    \/ \E d \in DutySpace : AddDuty(d)
    \/ \E d \in duties : DropDuty(d)
    \/ \E t \in Nows : Advance(t)
    \/ Subscribe
    \/ SubscribeFail
    \/ Refresh
    \/ Resub
    \/ ResubFail
    \/ Housekeep
    \/ \E s \in SlotSpace : \E C \in SUBSET Committees : \E ok \in BOOLEAN : AttestJob(s, C, ok)

Spec == Init /\ [][Next]_vars

-----------------------------------------------------------------------------
TypeOK ==
    /\ now \in Nows
    /\ target \in Targets
    /\ inflight \in 0..MaxRefresh
    /\ \A d \in duties : d.h \in 0..(HMod - 1) /\ d.size >= 1 /\ EpochOf(d.slot) = geo.ep
    /\ \A tgt \in Targets : \A z \in Sizes : HMod % Modulus(z, tgt) = 0

\* C14: a subscription is submitted for every slot/committee pair with a duty in a slot after
\* the current one -- whatever other duties of the epoch lie in the past
AllFutureSubscribed ==
    subAt # NoSub =>
        \A d \in infoD : d.slot > subAt => \E e \in submitted : SamePair(e, d)

\* C14: a validator is marked as aggregator exactly when the selection rule says so (in what is
\* sent to the node, in what the controller stores, and in the jobs that are set up)
AggregatorRuleExact ==
    /\ \A e \in submitted \cup info :
          \E d \in DutiesAt(infoD, e.slot, e.committee) : d.v = e.v /\ e.agg = DutyAggregates(d, target)
    /\ \A j \in jobs : j.exact

\* a pair that has a selected aggregator is stored as aggregating
InfoPrefersAggregator ==
    \A e \in info : PairAggregatesIn(infoD, e.slot, e.committee) => e.agg

\* the info in force is never absent once there was one (until housekeeping): it covers every
\* pair of its oracle from the slot of the subscription on
InfoInForceComplete ==
    subAt # NoSub => \A d \in infoD : d.slot >= subAt => \E e \in info : SamePair(e, d)

\* C14: after attesting, an aggregation job for every committee of the slot in which one of
\* Vouch's validators is a selected aggregator -- at whatever point of a refresh the job ran
EveryAggregatorCommitteeScheduled ==
    \A a \in attests : a.expect => \E j \in jobs : j.slot = a.slot /\ j.committee = a.committee

NoAggregationForPastSlot == \A j \in jobs : j.at <= j.slot
=============================================================================
