----------------------------- MODULE Subscriber -----------------------------
(* Beacon-committee subscriptions and attestation-aggregation jobs of Vouch (property C14).     *)
(*                                                                                              *)
(*   services/beaconcommitteesubscriber/standard/subscribe.go        Subscribe                  *)
(*   services/attestationaggregator/standard/service.go              AggregatorsAndSignatures   *)
(*   services/controller/standard/events.go                          subscribeToBeaconCommittees*)
(*   services/controller/standard/attester.go                        AttestAndScheduleAggregate *)
(*                                                                                              *)
(* Environment (independently enabled):                                                         *)
(*   AddDuty(d)        the beacon node's attester-duty oracle for the epoch gains a duty; the   *)
(*                     record also fixes the committee size and the scalar h of the slot        *)
(*                     signature the signer will give for (validator, slot)                     *)
(*   Advance(t)        the clock                                                                *)
(* Vouch:                                                                                       *)
(*   SubscribeWith(I,S) Subscribe for the epoch: I is the subscription info handed back to the  *)
(*                     controller (and stored by it), S the subscriptions submitted to the node *)
(*   AttestJob(s,C,ok) the attestation job of slot s: the attester made attestations for the    *)
(*                     committees C (ok) or failed (~ok); aggregation jobs are set up from the  *)
(*                     stored subscription info                                                 *)
(*                                                                                              *)
(* h is the little-endian uint64 of the first eight bytes of SHA-256 of the slot signature,     *)
(* reduced modulo HMod (hashing stays in Go; every modulus that occurs divides HMod, so         *)
(* h % modulus is unaffected by the reduction).                                                 *)
EXTENDS Integers, FiniteSets, Sequences, TLC

CONSTANTS Validators,     \* validator indices
          SlotSpace,      \* slots a duty of the epoch can have
          Nows,           \* clock positions (slots)
          Committees,     \* committee indices
          Sizes,          \* committee sizes
          Targets,        \* TARGET_AGGREGATORS_PER_COMMITTEE values
          HVals,          \* values of h the environment may choose
          HMod,           \* h is given modulo HMod
          MaxDuties,      \* bound on the size of the duty oracle
          MaxSubs         \* bound on the number of Subscribe calls for the epoch

VARIABLES now,        \* current slot
          target,     \* TARGET_AGGREGATORS_PER_COMMITTEE
          duties,     \* duty oracle: set of [v, slot, committee, size, h]
          started,    \* the oracle is frozen once Vouch has acted on it
          info,       \* stored subscription info: set of [slot, committee, v, agg]
          submitted,  \* subscriptions handed to the beacon node: set of [slot, committee, v, agg]
          subAt,      \* slot at which the last Subscribe ran (NoSub if none)
          jobs,       \* aggregation jobs ever set up: set of [slot, committee, v, at]
          nsub,       \* number of Subscribe calls so far
          attests,    \* successful attestations: set of [slot, committee, expect]
          done        \* slots whose attestation job has run (a job runs once, property C02/C03)

vars == <<now, target, duties, started, info, submitted, subAt, nsub, jobs, attests, done>>

NoSub == -1

Max(a, b) == IF a >= b THEN a ELSE b

-----------------------------------------------------------------------------
(* The consensus specification's rule (is_aggregator).                                          *)
Modulus(size, t) == Max(1, size \div t)
IsAggregator(h, size, t) == h % Modulus(size, t) = 0

DutyAggregates(d, t) == IsAggregator(d.h, d.size, t)

DutiesAt(D, s, c) == {d \in D : d.slot = s /\ d.committee = c}

\* the subscription entry a duty gives rise to
Entry(d, t) == [slot |-> d.slot, committee |-> d.committee, v |-> d.v, agg |-> DutyAggregates(d, t)]
Entries(D, t) == {Entry(d, t) : d \in D}

SamePair(a, b) == a.slot = b.slot /\ a.committee = b.committee

\* one entry per slot/committee pair, each the entry of one of the pair's validators, an
\* aggregator whenever the pair has one; every pair with a duty at slot t or later is present
\* (the info of slot t is what the attestation job of slot t itself looks at)
ValidInfo(I, D, t, tgt) ==
    /\ I \subseteq Entries(D, tgt)
    /\ \A a, b \in I : SamePair(a, b) => a = b
    /\ \A d \in D : d.slot >= t => \E e \in I : SamePair(e, d)
    /\ \A e \in I : (\E d \in DutiesAt(D, e.slot, e.committee) : DutyAggregates(d, tgt)) => e.agg

FutureOf(I, t) == {e \in I : e.slot > t}

\* a validator has one signature per slot, and a committee one size
DutyConsistent(d, D) ==
    /\ \A x \in D : (x.v = d.v /\ x.slot = d.slot) => x.h = d.h
    /\ \A x \in D : (x.v = d.v /\ x.slot = d.slot /\ x.committee = d.committee) => x = d
    /\ \A x \in D : SamePair(x, d) => x.size = d.size

-----------------------------------------------------------------------------
Init ==
    /\ now \in Nows
    /\ target \in Targets
    /\ duties = {}
    /\ started = FALSE
    /\ info = {}
    /\ submitted = {}
    /\ subAt = NoSub
    /\ nsub = 0
    /\ jobs = {}
    /\ attests = {}
    /\ done = {}

AddDuty(d) ==
    /\ ~started
    /\ Cardinality(duties) < MaxDuties
    /\ d \notin duties
    /\ DutyConsistent(d, duties)
    /\ duties' = duties \cup {d}
    /\ UNCHANGED <<now, target, started, info, submitted, subAt, nsub, jobs, attests, done>>

Advance(t) ==
    /\ t \in Nows /\ t > now
    /\ now' = t
    /\ UNCHANGED <<target, duties, started, info, submitted, subAt, nsub, jobs, attests, done>>

\* The property obliges Vouch to subscribe every future pair; whether pairs that are not in the
\* future are sent as well is left open (S may be any set between the future part and all of I).
SubscribeWith(I, S) ==
    /\ nsub < MaxSubs
    /\ nsub' = nsub + 1
    /\ ValidInfo(I, duties, now, target)
    /\ FutureOf(I, now) \subseteq S
    /\ S \subseteq I
    /\ info' = I
    /\ submitted' = submitted \cup S
    /\ subAt' = now
    /\ started' = TRUE
    /\ UNCHANGED <<now, target, duties, jobs, attests, done>>

Subscribe ==
    \E I \in SUBSET Entries(duties, target) : \E S \in SUBSET I : SubscribeWith(I, S)

\* some validator of Vouch with a duty in (s, c) is a selected aggregator
PairAggregates(s, c) == \E d \in DutiesAt(duties, s, c) : DutyAggregates(d, target)

NewJobs(s, C) ==
    IF s < now THEN {}
    ELSE {[slot |-> s, committee |-> e.committee, v |-> e.v, at |-> now] :
              e \in {x \in info : x.slot = s /\ x.committee \in C /\ x.agg}}

\* the attestation job of slot s runs in slot s or (late) after it, once
AttestJob(s, C, ok) ==
    /\ s <= now /\ s \notin done
    /\ ok \/ C = {}
    /\ done' = done \cup {s}
    /\ jobs' = IF ok THEN jobs \cup NewJobs(s, C) ELSE jobs
    /\ attests' = IF ok
                  THEN attests \cup {[slot |-> s, committee |-> c,
                                      expect |-> subAt # NoSub /\ s >= now /\ PairAggregates(s, c)] : c \in C}
                  ELSE attests
    /\ started' = TRUE
    /\ UNCHANGED <<now, target, duties, info, submitted, subAt, nsub>>

DutySpace == [v : Validators, slot : SlotSpace, committee : Committees, size : Sizes, h : HVals]

Next ==
    \/ \E d \in DutySpace : AddDuty(d)
    \/ \E t \in Nows : Advance(t)
    \/ Subscribe
    \/ \E s \in SlotSpace : \E C \in SUBSET Committees : \E ok \in BOOLEAN : AttestJob(s, C, ok)

Spec == Init /\ [][Next]_vars

-----------------------------------------------------------------------------
TypeOK ==
    /\ now \in Nows
    /\ target \in Targets
    /\ \A d \in duties : d.h \in 0..(HMod - 1) /\ d.size >= 1
    /\ \A tgt \in Targets : \A z \in Sizes : HMod % Modulus(z, tgt) = 0

\* C14: a subscription is submitted for every slot/committee pair with a duty in a slot after
\* the current one -- whatever other duties of the epoch lie in the past
AllFutureSubscribed ==
    subAt # NoSub =>
        \A d \in duties : d.slot > subAt => \E e \in submitted : SamePair(e, d)

\* C14: a validator is marked as aggregator exactly when the selection rule says so (in what is
\* sent to the node, in what the controller stores, and in the jobs that are set up)
AggregatorRuleExact ==
    /\ \A e \in submitted \cup info :
          \E d \in DutiesAt(duties, e.slot, e.committee) : d.v = e.v /\ e.agg = DutyAggregates(d, target)
    /\ \A j \in jobs :
          \E d \in DutiesAt(duties, j.slot, j.committee) : d.v = j.v /\ DutyAggregates(d, target)

\* a pair that has a selected aggregator is stored as aggregating
InfoPrefersAggregator ==
    \A e \in info : PairAggregates(e.slot, e.committee) => e.agg

\* C14: after attesting, an aggregation job for every committee of the slot in which one of
\* Vouch's validators is a selected aggregator
EveryAggregatorCommitteeScheduled ==
    \A a \in attests : a.expect => \E j \in jobs : j.slot = a.slot /\ j.committee = a.committee

NoAggregationForPastSlot == \A j \in jobs : j.at <= j.slot
=============================================================================
