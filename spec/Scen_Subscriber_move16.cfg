SPECIFICATION SSpec
CONSTANTS
  Validators = {1, 2}
  SlotSpace = {65, 66}
  Nows = {63, 64, 65, 66}
  Committees = {0, 1, 3}
  Sizes = {96, 127, 128}
  Targets = {16}
  HVals = {0, 1, 6, 7, 8, 14, 16, 42, 48, 56, 168}
  HMod = 840
  MaxDuties = 2
  MaxSubs = 2
  SPE = 32
  Ep = 2
  MaxRefresh = 3
  MaxChanges = 3
  MaxHeld = 2
  SignerMayFail = TRUE
  MoveFan = 6
  ScenLen = 11
  SetupFan = 12
  SetupLen = 2
INVARIANTS Emit TypeOK AllFutureSubscribed AggregatorRuleExact SubscriptionHistoryIndependent InfoInForceComplete EveryAggregatorCommitteeScheduled
CHECK_DEADLOCK FALSE
