-------------------------- MODULE Trace_Scheduler --------------------------
(* Trace specification for the scheduler's job protocol (property C02).                         *)
(*                                                                                              *)
(* A trace is recorded from the real scheduler (services/scheduler/advanced, built with the     *)
(* committed tag-guarded verifPoint hooks) in one of two modes, named on the Reset line:        *)
(*                                                                                              *)
(*  "gated": every hook is a gate; the driver releases one thread at a time following a         *)
(*      TLC-generated schedule, so the file order of events is the real order.  Every           *)
(*      goroutine action has its event (GSel*, GT*, G*Finalised, JobStart, JobEnd, ...) and     *)
(*      must match the next action of the job goroutine in the specification.                   *)
(*  "free": nothing is gated (boundary stress: run-now requests aimed at the timer instant);   *)
(*      hook events are dropped from the trace because their order relative to other threads'  *)
(*      lock-free accesses is not exact.  Only calls, returns, job function start/end,          *)
(*      goroutine exit and clock marks remain; every internal step is a silent step and TLC     *)
(*      searches for an interleaving that explains the observations.                            *)
(*                                                                                              *)
(* Steps of RunJob / CancelJob between a call line and its return line are always silent        *)
(* (RLookup, RCheck, RSend, KLookup, KSignal); in gated mode their hook lines (RPreLock,        *)
(* RClaimed, KPreLock) are observations that constrain where the caller is.                     *)
(* Time: the real timer cannot fire before the driver has logged ClockNear (written before      *)
(* the wall clock comes within a margin of the scheduled time) and has certainly fired after    *)
(* ClockDue (written after the scheduled time plus a margin).                                   *)
EXTENDS Scheduler, TraceLib

VARIABLES l, mode, called, phase
tvars == <<vars, l, mode, called, phase>>

TraceInit ==
    /\ Init
    /\ l = 1 /\ mode = "gated" /\ called = {} /\ phase = "early"
    /\ InitHWM

Line == Trace[l]
IsEvent(e) == l <= TraceLen /\ Line.ev = e /\ l' = l + 1
Keep == UNCHANGED <<mode, called, phase>>
Silent == UNCHANGED <<l, mode, called, phase>>

TraceReset ==
    /\ IsEvent("Reset")
    /\ inTable' = TRUE /\ bInTable' = FALSE /\ bLive' = FALSE
    /\ active' = FALSE /\ finalised' = FALSE /\ closed' = FALSE
    /\ runCh' = 0 /\ cancelCh' = 0 /\ lock' = "free"
    /\ gpc' = (IF Periodic THEN "p0" ELSE "select") /\ runs' = 0 /\ running' = 0
    /\ timerExpired' = FALSE /\ ctxDone' = FALSE /\ panicked' = FALSE
    /\ cpc' = [c \in Callers |-> "idle"] /\ cres' = [c \in Callers |-> "none"]
    /\ kpc' = [k \in Cancellers |-> "idle"] /\ kres' = [k \in Cancellers |-> "none"]
    /\ took' = "none"
    /\ mode' = Line.mode /\ called' = {} /\ phase' = "early"

-----------------------------------------------------------------------------
(* silent steps *)
SilentCaller ==
    /\ l <= TraceLen
    /\ \/ \E c \in Callers \cap called : RLookup(c) \/ RCheck(c) \/ RSend(c)
       \/ \E k \in Cancellers \cap called : KList(k) \/ KLookup(k) \/ KSignal(k)
    /\ Silent

SilentTimer == l <= TraceLen /\ phase \in {"near", "due"} /\ TimerExpire /\ Silent

\* the goroutine's actions other than the job function itself (which always logs start and end)
GHidden == \/ GTCancelled \/ GSelCtx \/ GSelCancel \/ GSelRun \/ GSelTimer \/ GCtxDel
           \/ GKFinalise \/ GRFinalise \/ GRReset
           \/ GTCheck \/ GTWait \/ GTDel \/ GTClaim \/ GTReset \/ GTFinalise
           \/ GPKFinalise \/ GPRReset
SilentGoroutine == l <= TraceLen /\ mode = "free" /\ GHidden /\ Silent

-----------------------------------------------------------------------------
(* lines written by the driver *)
Who == Line.th

TCall ==   \* RunJob / CancelJob is about to be called by thread th
    /\ IsEvent("Call") /\ Who \notin called
    /\ called' = called \cup {Who}
    /\ UNCHANGED <<vars, mode, phase>>

TRet ==    \* the call returned res
    /\ IsEvent("Ret") /\ Who \in called
    \* only success / refusal is compared: which refusal is returned is not part of C02
    /\ \/ Who \in Callers /\ cpc[Who] = "done" /\ (Line.res = "none" \/ ((cres[Who] \in {"ok", "okb"}) <=> (Line.res = "ok")))
       \/ Who \in Cancellers /\ kpc[Who] = "done" /\ (Line.res = "none" \/ ((kres[Who] \in {"ok", "okb", "won"}) <=> (Line.res = "ok")))
    \* "none": RunJobIfExists / CancelJobIfExists / CancelJobs return nothing
    /\ Line.res \in {"ok", "refused", "none"}
    /\ UNCHANGED vars /\ Keep

TCtx ==    \* the parent context is about to be cancelled
    /\ IsEvent("CtxCancel") /\ CtxCancel /\ Keep

TClockNear == IsEvent("ClockNear") /\ phase' = "near" /\ UNCHANGED <<vars, mode, called>>
TClockDue ==
    /\ IsEvent("ClockDue") /\ phase' = "due"
    /\ timerExpired' = TRUE
    /\ UNCHANGED <<inTable, bInTable, bLive, active, finalised, closed, runCh, cancelCh, lock, gpc, runs, running, ctxDone, panicked, cpc, cres, kpc, kres, took>>
    /\ UNCHANGED <<mode, called>>

\* ScheduleJob was called again with the same name: accepted iff the name is free
TResched ==
    /\ IsEvent("Resched")
    /\ IF Line.ok THEN Resched ELSE ((inTable \/ bInTable) /\ UNCHANGED vars)
    /\ Keep
\* JobExists(name) probed
TProbe == IsEvent("Probe") /\ (inTable \/ bInTable) = Line.exists /\ UNCHANGED vars /\ Keep

\* periodic: the runtime function was called and returned the next time / no more instances
TPNext   == IsEvent("PNext") /\ GPNext /\ phase' = "early" /\ UNCHANGED <<mode, called>>
TPNoMore == IsEvent("PNoMore") /\ GPNoMore /\ Keep

\* the job function
TJobStart == IsEvent("JobStart") /\ (GRStart \/ GTStart) /\ Keep
TJobEnd   == IsEvent("JobEnd") /\ (GREnd \/ GTEnd) /\ Keep

\* the goroutine returned
TGExit == IsEvent("GExit") /\ gpc = "done" /\ UNCHANGED vars /\ Keep

\* Go's runtime wakes a goroutine whose select has a ready case: after the driver has seen nothing
\* happen for the settle period, the goroutine is not sitting in its select with a ready case
ReadyCase == ctxDone \/ cancelCh = 1 \/ runCh = 1 \/ (timerExpired /\ phase = "due")
TQuiet == IsEvent("Quiet") /\ ~(gpc = "select" /\ ReadyCase) /\ UNCHANGED vars /\ Keep

\* end of the scenario: every thread has finished; runs = invocations of the job function
TQuiesce ==
    /\ IsEvent("Quiesce")
    /\ runs = Line.runs
    /\ (inTable \/ bInTable) = Line.intable
    /\ Line.gexit => gpc = "done"
    /\ ~(gpc = "select" /\ ReadyCase)
    /\ UNCHANGED vars /\ Keep

-----------------------------------------------------------------------------
(* hook lines (gated mode) *)
GAct(e, A) == IsEvent(e) /\ mode = "gated" /\ A /\ Keep

THooks ==
    \/ GAct("GSelCtx", GSelCtx) \/ GAct("GCtxDeleted", GCtxDel)
    \/ GAct("GKFinalised", GKFinalise \/ GPKFinalise)
    \/ GAct("GSelCancel", GSelCancel)
    \/ GAct("GSelRun", GSelRun) \/ GAct("GTRecv", GTWait)
    \/ GAct("GRFinalised", GRFinalise) \/ GAct("GRReset", GRReset \/ GPRReset)
    \/ GAct("GSelTimer", GSelTimer)
    \/ GAct("GTActive", active /\ GTCheck) \/ GAct("GTInactive", ~active /\ GTCheck)
    \/ GAct("GTDeleted", GTDel) \/ GAct("GTClaimed", GTClaim) \/ GAct("GTCancelled", GTCancelled)
    \/ GAct("GTReset", GTReset) \/ GAct("GTFinalised", GTFinalise)
    \* observations about a caller inside RunJob / CancelJob
    \/ (IsEvent("RPreLock") /\ cpc[Who] = "p" /\ UNCHANGED vars /\ Keep)
    \/ (IsEvent("RClaimed") /\ cpc[Who] = "h" /\ UNCHANGED vars /\ Keep)
    \/ (IsEvent("KPreLock") /\ kpc[Who] = "p" /\ UNCHANGED vars /\ Keep)
    \* the table entry of a periodic job whose runtime function ended it (GPNoMore at the PNoMore line)
    \/ (IsEvent("GNoMoreDeleted") /\ mode = "gated" /\ gpc = "k1" /\ took = "nomore" /\ UNCHANGED vars /\ Keep)

TraceNext ==
    \/ TraceReset
    \/ SilentCaller \/ SilentTimer \/ SilentGoroutine
    \/ TResched \/ TProbe
    \/ TCall \/ TRet \/ TCtx \/ TClockNear \/ TClockDue \/ TPNext \/ TPNoMore
    \/ TJobStart \/ TJobEnd \/ TGExit \/ TQuiet \/ TQuiesce
    \/ THooks

TraceSpec == TraceInit /\ [][TraceNext]_tvars

HWM == UpdateHWM(l)
TraceAccepted == TraceAcceptedUpTo
=============================================================================
