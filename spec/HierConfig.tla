----------------------------- MODULE HierConfig -----------------------------
(* Hierarchical settings of Vouch (util/beaconnodeaddresses.go, timeout.go, logging.go,          *)
(* concurrency.go, config.go:HierarchicalBool; docs/configuration.md "Hierarchical                *)
(* configuration").                                                                               *)
(*                                                                                                *)
(* Property C19: for beacon-node-addresses, timeout, log-level, process-concurrency and           *)
(* hierarchical booleans the value used for a dotted configuration path is the one set at the     *)
(* longest prefix of that path that has a value, falling back level by level to the top-level     *)
(* setting.                                                                                       *)
(*                                                                                                *)
(* A configuration tree is a function from paths (sequences of components; <<>> is the top level) *)
(* to the value of the setting configured at that point; a path outside its domain has no         *)
(* setting; EmptyVal marks a setting that is written down but, by the definition of its kind, is  *)
(* not a value (empty list of addresses, zero duration, empty string).  Values are opaque.        *)
(*                                                                                                *)
(* Actions:  Configure(k, t, d)  the configuration is loaded (file, environment, flags, defaults) *)
(*           Lookup(p)           util.BeaconNodeAddresses / Timeout / LogLevel /                   *)
(*                               ProcessConcurrency / HierarchicalBool called with path p          *)
EXTENDS Integers, Sequences, FiniteSets, TLC

CONSTANTS Names,          \* components used by the model-checked lattice
          Values,         \* values used by the model-checked lattice
          WithEmpty,      \* BOOLEAN: the lattice also writes down EmptyVal
          MaxPathLen,     \* longest lookup path of the lattice
          ModelKinds      \* the kinds the lattice is enumerated for (the operators do not depend on it)

VARIABLES kind,    \* which of the five settings
          tree,    \* the configuration tree for that setting
          dflt,    \* what the setting is when no level has a value (built-in default / zero)
          last     \* last reply handed to a caller (observation only)

vars == <<kind, tree, dflt, last>>

Kinds == {"addresses", "timeout", "log-level", "process-concurrency", "bool"}
EmptyVal == "<empty>"
NoTree == [p \in {} |-> ""]
NoReply == [op |-> "none"]

Prefix(p, n) == SubSeq(p, 1, n)
Parent(p) == Prefix(p, Len(p) - 1)
HasValue(t, q) == q \in DOMAIN t /\ t[q] # EmptyVal

\* C19: the value at the longest prefix of the path that has a value, else the top-level default
Resolve(t, p, d) ==
    LET ns == {n \in 0..Len(p) : HasValue(t, Prefix(p, n))}
    IN  IF ns = {} THEN d
        ELSE t[Prefix(p, CHOOSE n \in ns : \A m \in ns : m <= n)]

-----------------------------------------------------------------------------
(* the model-checked lattice: every lookup path only sees its own prefixes, so one chain         *)
(* a, a.a, a.a.a with one sibling per level covers every relation between a tree node and a path *)
Chain == {<<>>, <<"a">>, <<"a", "a">>, <<"a", "a", "a">>}
Siblings == {<<"b">>, <<"a", "b">>, <<"a", "a", "b">>}
Nodes == Chain \cup Siblings
Settings == Values \cup {"absent"} \cup (IF WithEmpty THEN {EmptyVal} ELSE {})
Restrict(f, D) == [x \in D |-> f[x]]
Trees == {Restrict(f, {n \in Nodes : f[n] # "absent"}) : f \in [Nodes -> Settings]}

RECURSIVE SeqsUpTo(_)
SeqsUpTo(n) == IF n = 0 THEN {<<>>}
               ELSE LET s == SeqsUpTo(n - 1) IN s \cup {Append(q, c) : q \in {x \in s : Len(x) = n - 1}, c \in Names}
Paths == SeqsUpTo(MaxPathLen)
Default == "d0"

Init ==
    /\ kind = "none"
    /\ tree = NoTree
    /\ dflt = Default
    /\ last = NoReply

Configure(k, t, d) ==
    /\ kind = "none"
    /\ kind' = k
    /\ tree' = t
    /\ dflt' = d
    /\ last' = NoReply

Lookup(p) ==
    /\ kind # "none"
    /\ last' = [op |-> "lookup", path |-> p, value |-> Resolve(tree, p, dflt)]
    /\ UNCHANGED <<kind, tree, dflt>>

Next ==
    \/ kind = "none" /\ \E k \in ModelKinds, t \in Trees : Configure(k, t, Default)
    \/ \E p \in Paths : Lookup(p)

Spec == Init /\ [][Next]_vars

-----------------------------------------------------------------------------
(* Invariants: the sentences of the documentation, stated independently of Resolve *)
IsLookup == last.op = "lookup"

TypeOK == kind \in Kinds \cup {"none"}

\* "with a direct match": a value set at the very path is the answer
DirectMatch == (IsLookup /\ HasValue(tree, last.path)) => last.value = tree[last.path]

\* "Vouch will move up the levels ... will use the first value obtained": the recursive reading
RECURSIVE Walk(_, _, _)
Walk(t, p, d) == IF HasValue(t, p) THEN t[p]
                 ELSE IF p = <<>> THEN d
                 ELSE Walk(t, Parent(p), d)
LevelByLevel == IsLookup => last.value = Walk(tree, last.path, dflt)

\* the answer comes from a prefix of the path (or is the default), and no longer prefix has a value
FromLongestPrefix ==
    IsLookup =>
        \/ /\ last.value = dflt
           /\ \A n \in 0..Len(last.path) : ~HasValue(tree, Prefix(last.path, n))
        \/ \E n \in 0..Len(last.path) :
              /\ HasValue(tree, Prefix(last.path, n))
              /\ last.value = tree[Prefix(last.path, n)]
              /\ \A m \in (n + 1)..Len(last.path) : ~HasValue(tree, Prefix(last.path, m))

\* settings at points that are not on the way up from the path (siblings, descendants) are irrelevant
OthersIrrelevant ==
    IsLookup =>
        LET on == {q \in DOMAIN tree : Len(q) <= Len(last.path) /\ q = Prefix(last.path, Len(q))}
        IN  last.value = Resolve(Restrict(tree, on), last.path, dflt)

\* a written-down setting that is not a value never is the answer
EmptyNeverUsed == IsLookup => last.value # EmptyVal
=============================================================================
