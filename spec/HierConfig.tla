----------------------------- MODULE HierConfig -----------------------------
(* Hierarchical settings of Vouch (util/beaconnodeaddresses.go, timeout.go, logging.go,          *)
(* concurrency.go, config.go:HierarchicalBool; docs/configuration.md "Hierarchical                *)
(* configuration").                                                                               *)
(*                                                                                                *)
(* Property C19: for beacon-node-addresses, timeout, log-level, process-concurrency and           *)
(* hierarchical booleans the value used for a dotted configuration path is the one set at the     *)
(* longest prefix of that path that has a value, falling back level by level to the top-level     *)
(* setting.                                                                                       *)
(*                                                                                                *)
(* A configuration tree is a function from paths (sequences of components; <<>> is the top level) *)
(* to the value of the setting configured at that point; a path outside its domain has no         *)
(* setting; EmptyVal marks a setting that is written down but, by the definition of its kind, is  *)
(* not a value (empty list of addresses, zero duration, empty string).  Values are opaque.        *)
(*                                                                                                *)
(* A behaviour is the configuration HISTORY of one process: the configuration is loaded, looked  *)
(* up, changed (one point set / removed, or the whole tree replaced), looked up again ... in any *)
(* order.  The property holds at every lookup with respect to the configuration in force at that *)
(* moment: the answer is a function of the current tree only, never of earlier lookups or of     *)
(* earlier trees.                                                                                 *)
(*                                                                                                *)
(* Actions:  Configure(k, t, d)   the configuration is loaded (file, environment, flags, defaults)*)
(*           Lookup(p)            util.BeaconNodeAddresses / Timeout / LogLevel /                  *)
(*                                ProcessConcurrency / HierarchicalBool called with path p         *)
(*           SetAt(q, v)          point q gets the setting v (viper.Set, an environment variable,  *)
(*                                a re-read document): added or changed                            *)
(*           Unset(q)             the setting at point q is removed                                *)
(*           Reconfigure(t, d)    a completely new configuration (viper.Reset() and reload)        *)
EXTENDS Integers, Sequences, FiniteSets, TLC

CONSTANTS Names,          \* components used by the model-checked lattice
          Values,         \* values used by the model-checked lattice
          WithEmpty,      \* BOOLEAN: the lattice also writes down EmptyVal
          MaxPathLen,     \* longest lookup path of the lattice
          ModelKinds,     \* the kinds the lattice is enumerated for (the operators do not depend on it)
          ChainLen,       \* depth of the lattice's chain a, a.a, ...
          Changes         \* which configuration changes Next explores: subset of
                          \* {"set", "unset", "replace", "replace-any"}

VARIABLES kind,    \* which of the five settings
          tree,    \* the configuration tree for that setting
          dflt,    \* what the setting is when no level has a value (built-in default / zero)
          last     \* last reply handed to a caller (observation only); op = "lookup": the reply just
                   \* given; op = "stale": the configuration has changed since that reply was given

vars == <<kind, tree, dflt, last>>

Kinds == {"addresses", "timeout", "log-level", "process-concurrency", "bool"}
EmptyVal == "<empty>"
NoTree == [p \in {} |-> ""]
NoReply == [op |-> "none"]

Prefix(p, n) == SubSeq(p, 1, n)
Parent(p) == Prefix(p, Len(p) - 1)
HasValue(t, q) == q \in DOMAIN t /\ t[q] # EmptyVal

\* the levels (prefix lengths) of the path that have a value, and the most specific of them (-1: none)
Levels(t, p) == {n \in 0..Len(p) : HasValue(t, Prefix(p, n))}
Level(t, p) == LET ns == Levels(t, p) IN IF ns = {} THEN -1 ELSE CHOOSE n \in ns : \A m \in ns : m <= n

\* C19: the value at the longest prefix of the path that has a value, else the top-level default
Resolve(t, p, d) == IF Levels(t, p) = {} THEN d ELSE t[Prefix(p, Level(t, p))]

-----------------------------------------------------------------------------
(* the model-checked lattice: every lookup path only sees its own prefixes, so one chain         *)
(* a, a.a, a.a.a with one sibling per level covers every relation between a tree node and a path *)
RECURSIVE ChainNode(_)
ChainNode(n) == IF n = 0 THEN <<>> ELSE Append(ChainNode(n - 1), "a")
Chain == {ChainNode(n) : n \in 0..ChainLen}                     \* ChainLen = 3: <<>>, a, a.a, a.a.a
Siblings == {Append(ChainNode(n), "b") : n \in 0..(ChainLen - 1)}  \*               b, a.b, a.a.b
Nodes == Chain \cup Siblings
Settings == Values \cup {"absent"} \cup (IF WithEmpty THEN {EmptyVal} ELSE {})
Restrict(f, D) == [x \in D |-> f[x]]
Trees == {Restrict(f, {n \in Nodes : f[n] # "absent"}) : f \in [Nodes -> Settings]}

RECURSIVE SeqsUpTo(_)
SeqsUpTo(n) == IF n = 0 THEN {<<>>}
               ELSE LET s == SeqsUpTo(n - 1) IN s \cup {Append(q, c) : q \in {x \in s : Len(x) = n - 1}, c \in Names}
Paths == SeqsUpTo(MaxPathLen)
Default == "d0"

\* whole-tree replacements that deliberately REUSE the points of the tree they replace
SwapValues(t) == [q \in DOMAIN t |-> IF t[q] \in Values THEN CHOOSE v \in Values : v # t[q] ELSE t[q]]
Complement(t) == [q \in Nodes \ DOMAIN t |-> CHOOSE v \in Values : TRUE]
ShiftDown(t) == LET D == {q \in Nodes : q # <<>> /\ Parent(q) \in DOMAIN t /\ q[Len(q)] = "a"}
                IN  [q \in D |-> t[Parent(q)]]
ShiftUp(t) == LET D == {q \in Chain : Append(q, "a") \in DOMAIN t} IN [q \in D |-> t[Append(q, "a")]]
Mirror(t) == LET Twin(q) == IF q = <<>> THEN q ELSE Append(Parent(q), IF q[Len(q)] = "a" THEN "b" ELSE "a")
             IN  [q \in {x \in Nodes : Twin(x) \in DOMAIN t} |-> t[Twin(q)]]
Replacements(t) == {SwapValues(t), Complement(t), ShiftDown(t), ShiftUp(t), Mirror(t), NoTree} \ {t}

Init ==
    /\ kind = "none"
    /\ tree = NoTree
    /\ dflt = Default
    /\ last = NoReply

Configure(k, t, d) ==
    /\ kind = "none"
    /\ kind' = k
    /\ tree' = t
    /\ dflt' = d
    /\ last' = NoReply

\* the reply is a function of the configuration in force at this moment, and of nothing else
Lookup(p) ==
    /\ kind # "none"
    /\ last' = [op |-> "lookup", path |-> p, value |-> Resolve(tree, p, dflt), level |-> Level(tree, p)]
    /\ UNCHANGED <<kind, tree, dflt>>

\* a reply given under an earlier configuration is remembered as such (observation only)
Stale == IF last.op = "lookup" THEN [last EXCEPT !.op = "stale"] ELSE last

SetAt(q, v) ==
    /\ kind # "none"
    /\ tree' = [x \in DOMAIN tree \cup {q} |-> IF x = q THEN v ELSE tree[x]]
    /\ last' = Stale
    /\ UNCHANGED <<kind, dflt>>

Unset(q) ==
    /\ kind # "none"
    /\ q \in DOMAIN tree
    /\ tree' = Restrict(tree, DOMAIN tree \ {q})
    /\ last' = Stale
    /\ UNCHANGED <<kind, dflt>>

Reconfigure(t, d) ==
    /\ kind # "none"
    /\ tree' = t
    /\ dflt' = d
    /\ last' = Stale
    /\ UNCHANGED kind

Next ==
    \/ kind = "none" /\ \E k \in ModelKinds, t \in Trees : Configure(k, t, Default)
    \/ \E p \in Paths : Lookup(p)
    \/ "set" \in Changes /\ \E q \in Nodes, v \in Settings \ {"absent"} :
            (IF q \in DOMAIN tree THEN tree[q] # v ELSE TRUE) /\ SetAt(q, v)
    \/ "unset" \in Changes /\ \E q \in DOMAIN tree : Unset(q)
    \/ "replace" \in Changes /\ \E t \in Replacements(tree) : Reconfigure(t, Default)
    \/ "replace-any" \in Changes /\ \E t \in Trees \ {tree} : Reconfigure(t, Default)

Spec == Init /\ [][Next]_vars

-----------------------------------------------------------------------------
(* Invariants: the sentences of the documentation, stated independently of Resolve *)
IsLookup == last.op = "lookup"

TypeOK == kind \in Kinds \cup {"none"} /\ last.op \in {"none", "lookup", "stale"}

\* "with a direct match": a value set at the very path is the answer
DirectMatch == (IsLookup /\ HasValue(tree, last.path)) => last.value = tree[last.path]

\* "Vouch will move up the levels ... will use the first value obtained": the recursive reading
RECURSIVE Walk(_, _, _)
Walk(t, p, d) == IF HasValue(t, p) THEN t[p]
                 ELSE IF p = <<>> THEN d
                 ELSE Walk(t, Parent(p), d)
LevelByLevel == IsLookup => last.value = Walk(tree, last.path, dflt)

\* the answer comes from a prefix of the path (or is the default), and no longer prefix has a value
FromLongestPrefix ==
    IsLookup =>
        \/ /\ last.value = dflt
           /\ \A n \in 0..Len(last.path) : ~HasValue(tree, Prefix(last.path, n))
        \/ \E n \in 0..Len(last.path) :
              /\ HasValue(tree, Prefix(last.path, n))
              /\ last.value = tree[Prefix(last.path, n)]
              /\ \A m \in (n + 1)..Len(last.path) : ~HasValue(tree, Prefix(last.path, m))

\* settings at points that are not on the way up from the path (siblings, descendants) are irrelevant
OthersIrrelevant ==
    IsLookup =>
        LET on == {q \in DOMAIN tree : Len(q) <= Len(last.path) /\ q = Prefix(last.path, Len(q))}
        IN  last.value = Resolve(Restrict(tree, on), last.path, dflt)

\* a written-down setting that is not a value never is the answer
EmptyNeverUsed == IsLookup => last.value # EmptyVal

-----------------------------------------------------------------------------
(* History: the sentences above are about the tree in force when the reply is given.  The action  *)
(* properties below say what that means for the same lookup made before and after the              *)
(* configuration changed (last.op = "stale": path, value and level of the reply given before),     *)
(* again without using Resolve.                                                                     *)
SameLookupAgain == last'.op = "lookup" /\ last.op \in {"lookup", "stale"} /\ last'.path = last.path

\* nothing changed in between: the same question has the same answer
RepeatSameStep == (SameLookupAgain /\ last.op = "lookup") => last'.value = last.value

ChangeRespectedStep ==
    (SameLookupAgain /\ last.op = "stale") =>
        LET p == last.path
            lv == last.level                 \* the level the earlier reply came from (-1: the default)
            t == tree'
            more == {n \in (lv + 1)..Len(p) : HasValue(t, Prefix(p, n))}
            used == lv >= 0 /\ HasValue(t, Prefix(p, lv))
        IN  \* (a) a more specific level has a value now: the answer comes from there, the level used before is out
            /\ more # {} => \E n \in more : last'.value = t[Prefix(p, n)]
            \* (c) nothing more specific, the level used before still has a value: its CURRENT value
            /\ (more = {} /\ used) => last'.value = t[Prefix(p, lv)]
            \* (b) nothing more specific, the level used before lost its value: a less specific level or the default
            /\ (more = {} /\ ~used) =>
                   \/ \E n \in 0..(lv - 1) : HasValue(t, Prefix(p, n)) /\ last'.value = t[Prefix(p, n)]
                   \/ last'.value = dflt' /\ \A n \in 0..Len(p) : ~HasValue(t, Prefix(p, n))

RepeatSame == [][RepeatSameStep]_vars
ChangeRespected == [][ChangeRespectedStep]_vars
\* (d) whatever happened before (lookups, edits, whole trees replaced): the current tree alone decides
CurrentTreeOnly == [][last'.op = "lookup" => last'.value = Walk(tree', last'.path, dflt')]_vars
=============================================================================
