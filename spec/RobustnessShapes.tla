-------------------------- MODULE RobustnessShapes --------------------------
(* Property C16, the INPUT side: entry points of Vouch that consume outside data and, per entry   *)
(* point, the lattice of input shapes in scope (Shapes), which of them are gated behind a library   *)
(* decoder (Gated), the allowed outcomes (Allowed) and the end-to-end consumers (Decides, Uses).      *)
(* No variables: Robustness.tla (one input on a fresh instance) and RobustnessInst.tla (histories     *)
(* of calls on one long-lived instance) both EXTEND this module.                                      *)
EXTENDS Integers, FiniteSets, Sequences, TLC

Outcomes == {"ok", "error", "fallback"}

EntryPoints == {"execv2", "execv1", "execmutate", "execdoc", "execservice", "graffiti", "builderbid", "proposalbest", "proposer",
                "attester", "aggregator", "syncmessenger", "syncaggregator", "mergeduties",
                "cacheevents", "submitclassify"}

-----------------------------------------------------------------------------
(* execution configuration, version 2 (blockrelay.UnmarshalJSON ; ProposerConfig ; String)      *)
(*  version   value of "version": "2" | "1" | "3" | "str" (a JSON string) | "null"               *)
(*  top       top-level fee_recipient/gas_limit/grace/min_value: none | all | bad (unparsable)   *)
(*  relays    top-level "relays": absent | empty {} | one | null (an address mapped to null) |   *)
(*            emptykey ("" as address) | dup (the same address twice in the document)            *)
(*  proposers "proposers": absent | empty [] | account (one entry selecting by account regex) |  *)
(*            validator (by public key) | null ([null]) | neither (entry without selector) |      *)
(*            badregex (account is not a regular expression)                                      *)
(*  prelays   "relays" of that proposer entry: absent | empty | one (overrides the top relay) |  *)
(*            null (address mapped to null) | disabled | new (an address not at top level)        *)
(*  match     whether the looked-up validator is selected by the proposer entry                   *)
ExecV2 ==
    LET full == [version : {"2"}, top : {"none", "all", "bad"},
                 relays : {"absent", "empty", "one", "null", "emptykey", "dup"},
                 proposers : {"absent", "empty", "account", "validator", "null", "neither", "badregex"},
                 prelays : {"absent", "empty", "one", "null", "disabled", "new"},
                 match : {"y", "n"}]
        other == [version : {"1", "3", "str", "null"}, top : {"none"}, relays : {"absent", "null"},
                  proposers : {"absent", "null"}, prelays : {"absent"}, match : {"y"}]
    IN  {s \in full : /\ (s.proposers \notin {"account", "validator"} => s.prelays = "absent")
                      /\ (s.top = "bad" => (s.relays = "one" /\ s.proposers = "absent" /\ s.match = "y"))}
        \cup other

(* execution configuration, legacy version (no "version" or 0)                                   *)
(*  dflt    "default_config": absent | null | full | nobuilder | nullbuilder (builder: null) |   *)
(*          nofee (no fee_recipient) | disabled (builder.enabled false)                            *)
(*  pc      "proposer_config": absent | empty | one | null (key mapped to null) | badkey (not    *)
(*          hex) | shortkey (hex of the wrong length) | dup (same key twice)                       *)
(*  brelays builder.relays of the entries: empty | one | null (relays: null)                      *)
ExecV1 ==
    [version : {"absent", "0"},
     dflt : {"absent", "null", "full", "nobuilder", "nullbuilder", "nofee", "disabled"},
     pc : {"absent", "empty", "one", "null", "badkey", "shortkey", "dup"},
     brelays : {"empty", "one", "null"},
     match : {"y", "n"}]

(* execution configuration "of any shape": a complete baseline document with one structural       *)
(* mutation of its JSON tree                                                                       *)
(*  base  v2 (version 2 document with every field at every level, two proposer entries) | v1       *)
(*  site  the node (depth first, modulo the number of nodes) that is mutated                        *)
(*  mut   the node becomes null | {} | [] | "" | 0 | true | a string, is deleted, or its member is  *)
(*        written twice                                                                             *)
ExecMutate ==
    [base : {"v2", "v1"}, site : {ToString(i) : i \in 0..69},
     mut : {"null", "emptyobj", "emptyarr", "emptystr", "zero", "true", "string", "delete", "duplicate"}]

(* WHOLE-DOCUMENT shapes of an execution configuration: what an operator's file or a configuration  *)
(* server can answer INSTEAD of the expected object (the three families above only vary the inside   *)
(* of an object).  All of them are "well-formed but unexpected" or plainly malformed CONTENT of the   *)
(* configuration source; every one must end in an error or a fallback to the previous / default      *)
(* configuration.                                                                                    *)
(*  null            the JSON literal null (a config server that has nothing for these validators)    *)
(*  nullpadded      " null\n"                                                                        *)
(*  empty           zero bytes            whitespace   only blanks and newlines                      *)
(*  emptyobj        {}  (= object without "version")   emptyarr  []                                  *)
(*  number | string | true | false       a JSON scalar                                               *)
(*  onlyversion0/1/2/9/null/str          an object with nothing but "version" (0, 1, 2, 9, null, "2")*)
(*  trailing        a valid document followed by text   concat  two valid documents back to back      *)
(*  trailingnull    a valid document followed by null   arrayofdocs  [doc, doc]   arrayofnull [null]  *)
(*  quoted          the document as a JSON string (doubly encoded)                                   *)
(*  bom             UTF-8 byte order mark + valid document   truncated  a valid document cut in half  *)
(*  valid2 | valid1 a complete version 2 / legacy document (the benign member of the family)          *)
DocShapes ==
    {"null", "nullpadded", "empty", "whitespace", "emptyobj", "emptyarr", "number", "string", "true", "false",
     "onlyversion0", "onlyversion1", "onlyversion2", "onlyversion9", "onlyversionnull", "onlyversionstr",
     "trailing", "concat", "trailingnull", "arrayofdocs", "arrayofnull", "quoted", "bom", "truncated",
     "valid2", "valid1"}

(* relay address strings as an operator / config server can write them (shared by "builderbid" and   *)
(* "execservice"): good | empty | unparsable | noscheme | refused (nothing listens) | nohost           *)
(* ("http://") | space (" ") | keyed ("http://0x<relay key>@host": the relay's public key as the user   *)
(* part of the address) | badkeyed (the same form with 48 bytes that are NOT a point of the curve: the  *)
(* builder client only hex-decodes the user part) | shortkeyed (a user part of 4 bytes)                 *)
RelayAddrs == {"good", "empty", "unparsable", "noscheme", "refused", "nohost", "space",
               "keyed", "badkeyed", "shortkeyed"}

(* the relay public key an execution configuration (version 2: "public_key" of a relay) or a proposer   *)
(* configuration can carry: none | set (the relay's key) | badpoint (48 bytes, the right length, that    *)
(* are not a point of the curve: the configuration decoder checks the length only) | other (a valid      *)
(* key that is not the relay's)                                                                          *)
RelayKeys == {"none", "set", "badpoint", "other"}

(* STRATEGY KINDS AND STYLES.  Between a duty service and the beacon nodes / relays main.go puts a STRATEGY  *)
(* that it selects by configuration (grep 'style' in main.go: select*Provider).  Every style of a kind is a   *)
(* SIBLING IMPLEMENTATION of the same operation: it consumes the same outside data, on its own code path,      *)
(* with its own bookkeeping (per-node goroutines, polling loops, end-of-operation reports).  The property        *)
(* quantifies over Vouch, not over the style an operator happened to configure: every untrusted-input entry     *)
(* point is driven for EVERY style main.go can select for it ("direct" = the default arm of the switch: the       *)
(* client itself, no strategy).                                                                                   *)
(*   kind (configuration key strategies.<kind>.style)   styles          consumed by (entry point)                 *)
StrategyStyles ==
    [builderbid                |-> {"best", "deadline"},              \* "" = best
     beaconblockproposal       |-> {"best", "first"},                 \* (direct: the proposer entry point)
     attestationdata           |-> {"best", "majority", "first", "direct"},
     aggregateattestation      |-> {"best", "first", "direct"},
     synccommitteecontribution |-> {"best", "first", "direct"},
     beaconblockroot           |-> {"majority", "first", "direct"},
     signedbeaconblock         |-> {"first", "direct"}]               \* "" = first: the DEFAULT is a strategy
(* the entry points that drive a kind, and the dimension of their shapes that names the style                    *)
DrivenBy ==
    [builderbid                |-> {"builderbid", "execservice"},     \* the strategy alone / behind its caller, the block relay service
     beaconblockproposal       |-> {"proposalbest"},
     attestationdata           |-> {"attester"},
     aggregateattestation      |-> {"aggregator"},
     synccommitteecontribution |-> {"syncaggregator"},
     beaconblockroot           |-> {"syncmessenger"},
     signedbeaconblock         |-> {"cacheevents"}]
StyleOfShape(ep, s) == IF ep \in {"builderbid", "execservice", "proposalbest"} THEN s.strat ELSE s.style
(* (strategies.beaconblockheader.style: first | direct feeds the cache service ONCE, at start-up, with the head   *)
(* header; the drivers hand the cache the repository's mock there - see Limits in docs/C16.md)                    *)
StrategyKinds == DOMAIN StrategyStyles

(* POLL SEQUENCES.  A strategy may ask the same relay SEVERAL TIMES within one operation (the `deadline`        *)
(* builder-bid strategy polls every relay every bid-gap until its deadline and keeps, per relay, the first and   *)
(* last bid and a counter for an end-of-auction report; `best` asks once).  What one relay answers to the        *)
(* successive polls of ONE auction is a HISTORY OF UNTRUSTED INPUTS WITHIN ONE CALL: a relay that has no block     *)
(* yet answers with a bid of value 0 (or 204) and with a real bid later; a relay whose builder withdrew           *)
(* answers with a lower bid, with value 0, with garbage after a real bid.  A shape therefore gives the            *)
(* answer to the first poll (bid), to the second (bid2) and to the third and every later one (bid3);              *)
(* "same" = what the previous poll was answered.  The lattice before round 5 was the diagonal bid2 = bid3 =       *)
(* "same".                                                                                                        *)
(*   valid | higher | lower   well-formed, signed bids of value V, 2V, V/2 (lower: the builder withdrew)          *)
(*   the other values as for `bid` below                                                                          *)
PollAnswers == {"valid", "higher", "lower", "zerovalue", "nocontent", "datanull", "notjson", "http500",
                "badsig", "wrongparent"}
BidAtOf(b1, b2, b3, n) ==
    LET a2 == IF b2 = "same" THEN b1 ELSE b2
        a3 == IF b3 = "same" THEN a2 ELSE b3
    IN  IF n <= 1 THEN b1 ELSE IF n = 2 THEN a2 ELSE a3
(* how a strategy classifies one answer (used by the control designs in RobustnessPoll.tla)                       *)
PollClass(a) ==
    CASE a \in {"valid", "higher", "lower"} -> "eligible"
      [] a = "zerovalue" -> "zero"                                   \* a well-formed bid whose value is 0
      [] a \in {"zerofee", "wrongparent", "badsig"} -> "ineligible"  \* a bid with a value that fails a later check
      [] OTHER -> "nodata"                                           \* 204, an error of the client, no bid object

(* (a) blockrelay.UnmarshalJSON alone on a whole-document shape, then - if it accepted - the lookups  *)
(* every user of the decoded configuration performs                                                   *)
ExecDoc == [doc : DocShapes]

(* (b) the REAL services/blockrelay/standard service, with one validating account, fetching the       *)
(* document from its configuration source and then USING the active configuration: ProposerConfig     *)
(* for a validator, a validator registration round, an auction (AuctionBlock + the cached-bid          *)
(* lookup), the relays being reached through the real `best` builder-bid strategy and                  *)
(* util.FetchBuilderClient                                                                             *)
(*  doc     DocShapes, or "missing" (the source has no such file / answers 404)                        *)
(*  source  file (static source: majordomo file confidant) | http (configuration server: majordomo     *)
(*          HTTP confidant, POST of the validators' public keys)                                        *)
(*  prior   none (the document is what the service finds when it STARTS: initial fetch inside New,      *)
(*          first registration round in the goroutine New starts) | v2 | v1 (a good configuration of     *)
(*          that version is active, then the source changes and the periodic fetch job runs)            *)
(*  addr    the relay address written in a valid document (only varied for valid documents: relay       *)
(*          address strings -> registration round and auction)                                          *)
(*  pk      "public_key" of the relay in a valid version 2 document: RelayKeys                          *)
(*  strat   the builder-bid strategy main.go wired behind the service: best | deadline                  *)
(*  bid, bid2, bid3  what the relay answers to the first, second, third and later poll of the auction    *)
(*          (PollAnswers; see POLL SEQUENCES above)                                                      *)
ExecService ==
    LET E(doc, source, prior, addr, pk, strat, b1, b2, b3) ==
            [doc : doc, source : source, prior : prior, addr : addr, pk : pk, strat : strat, bid : b1, bid2 : b2, bid3 : b3]
        one == {"valid"}  same == {"same"}  best == {"best"}
        \* what the relay answers to the successive polls of the auction the service runs (bid, bid2, bid3)
        seqs == {<<"zerovalue", "valid", "same">>, <<"valid", "zerovalue", "same">>, <<"valid", "lower", "same">>,
                 <<"nocontent", "valid", "higher">>, <<"notjson", "valid", "same">>, <<"zerovalue", "same", "same">>,
                 <<"valid", "notjson", "zerovalue">>}
    IN  E(DocShapes \cup {"missing"}, {"file", "http"}, {"none", "v2", "v1"}, {"good"}, {"none"}, best, one, same, same)
        \cup E({"valid2", "valid1"}, {"file"}, {"none"}, RelayAddrs, {"none"}, best, one, same, same)
        \cup E({"valid2"}, {"file", "http"}, {"none"}, {"good"}, RelayKeys, best, one, same, same)
        \* the SIBLING strategy behind the same service (strategies.builderbid.style: deadline): documents ...
        \cup E({"valid2", "valid1", "null", "emptyobj", "missing", "truncated"}, {"file"}, {"none", "v2"}, {"good"}, {"none"},
               {"deadline"}, one, same, same)
        \cup E({"valid2"}, {"file"}, {"none"}, RelayAddrs, {"none"}, {"deadline"}, one, same, same)
        \* ... and poll sequences of the relay within the auction, for both strategies
        \cup UNION {E({"valid2"}, {"file"}, {"none"}, {"good"}, {"none", "set"}, {"best", "deadline"}, {q[1]}, {q[2]}, {q[3]}) : q \in seqs}

(* AUXILIARY REQUESTS.  While it handles an operator-supplied TEMPLATE the code asks its surroundings   *)
(* for the values of the markers.  The markers the code knows (grep '{{'): {{SLOT}} and                *)
(* {{VALIDATORINDEX}} (dynamic graffiti provider: location and line; filled from the duty, no request)   *)
(* and {{CLIENT}} (beaconblockproposer/standard.obtainGraffiti and                                      *)
(* strategies/beaconblockproposal/best.Proposal: filled from the NODE VERSION REQUEST of the node that    *)
(* is asked for the block).  That request is made through an OPTIONAL interface of the provider           *)
(* (eth2client.NodeClientProvider: the HTTP client implements it, strategies, the multi client and every   *)
(* mock of the repository do not) and it is an interface call of its own: the environment answers it, per  *)
(* call and per node, independently of what it answers to the main request of the duty:                   *)
(*   ok         the node names its client (the name has `clen` characters where that is a dimension)        *)
(*   empty      a response whose client name is the empty string                                            *)
(*   slow       the name arrives late (but before the strategy's soft time-out): neighbouring requests of    *)
(*              the duty are already under way / answered                                                    *)
(*   error      an error WITH A NIL RESPONSE (the node answers 503 to this one request)                      *)
(*   timeout    the library's own time-out: nil response, an error that wraps context.DeadlineExceeded       *)
(*   canceled   nil response, context.Canceled                                                               *)
(*   notactive  nil response, the library's ErrNotActive (the client is marked inactive)                     *)
(*   down       the node is REALLY down when the duty starts: the real library's connection check fails,     *)
(*              NodeClient returns (nil, ErrNotActive) from the library itself and the main request to that   *)
(*              node fails as well                                                                            *)
(*   absent     the provider does not implement the optional interface at all (configuration of the          *)
(*              instance, not input of a call)                                                                *)
AuxAnswers == {"ok", "empty", "slow", "error", "timeout", "canceled", "notactive", "down"}
AuxFaults == {"error", "timeout", "canceled", "notactive", "down"}
AuxClass(a) == IF a \in AuxFaults THEN "fault" ELSE "value"
AuxClasses == {"value", "fault"}
NodeClient == AuxAnswers \cup {"absent"}

(* dynamic graffiti provider (content fetched from an operator-supplied location)                *)
(*  file     missing | error | empty | blank (only newlines) | spaces | crlf | one | many |       *)
(*           template ({{SLOT}}/{{VALIDATORINDEX}}) | long (>32 bytes) | client ({{CLIENT}}) |     *)
(*           nul (a line of NUL bytes) | unterminated ("{{SLOT") | utf8 (multi-byte characters     *)
(*           across the 32 byte boundary) | allmarkers (every marker the code knows in one line:   *)
(*           "{{CLIENT}}/{{SLOT}}/{{VALIDATORINDEX}}", and {{CLIENT}} twice in another)             *)
(*  fallback fallback location: none | present | missing                                          *)
(*  loc      location string: plain | templated                                                   *)
(*  use      who consumes the provider: call (Graffiti() alone, result copied into 32 bytes) |     *)
(*           propose (END TO END: the real beaconblockproposer/standard service takes its graffiti *)
(*           from this provider, expands {{CLIENT}} itself and asks a scripted node through the    *)
(*           real client) | proposebest (the same with the real `best` proposal strategy between   *)
(*           proposer and node: the strategy expands {{CLIENT}} per node)                          *)
(*  nodeclient  what the node answers to the node version request behind {{CLIENT}}: NodeClient   *)
(*           (na: use = call, there is no node)                                                    *)
Graffiti ==
    LET files == {"missing", "error", "empty", "blank", "spaces", "crlf", "one", "many", "template", "long",
                  "client", "allmarkers", "nul", "unterminated", "utf8"}
        consumers == {"propose", "proposebest"}
    IN  \* the provider alone (no node in sight)
        [file : files, fallback : {"none", "present", "missing"}, loc : {"plain", "templated"}, use : {"call"}, nodeclient : {"na"}]
        \* END TO END with a node that names its client
        \cup [file : files, fallback : {"none", "present", "missing"}, loc : {"plain"}, use : consumers, nodeclient : {"ok"}]
        \* a line with {{CLIENT}} and every answer to the node version request it triggers
        \cup [file : {"client", "allmarkers"}, fallback : {"none"}, loc : {"plain"}, use : consumers, nodeclient : NodeClient]
        \* the well-formed file for a provider without the optional interface (probe of that configuration)
        \cup [file : {"one"}, fallback : {"none"}, loc : {"plain"}, use : consumers, nodeclient : {"absent"}]

(* builder-bid strategies (strategies/builderbid/{best,deadline}.BuilderBid) with the relay      *)
(* reached through util.FetchBuilderClient and the real go-builder-client HTTP decoder           *)
(*  strat   best | deadline                                                                       *)
(*  addr    relay address in the proposer configuration: RelayAddrs                               *)
(*  bid     what the relay answers: valid | nocontent (204) | datanull | emptyobj ({}) |          *)
(*          nomessage | noheader | zerovalue | wrongparent | badversion | notjson | http500 |      *)
(*          zerofee (zero fee recipient) | badsig                                                 *)
(*  second  a second, well-behaved relay in the same auction: none | good                         *)
(*  second  a second relay in the same auction: none | good (well-behaved) | samekey (a second relay    *)
(*          that is configured with the SAME public key as the first: relays are asked in parallel)    *)
(*  pkcfg   relay public key in the proposer configuration: RelayKeys                                  *)
(*  bid2, bid3  what the relay answers to the second / to the third and every later poll of the SAME     *)
(*          auction: same | PollAnswers (POLL SEQUENCES above; bid is the answer to the first poll)       *)
BuilderBid ==
    LET B(strat, addr, b1, b2, b3, second, pkcfg) ==
            [strat : strat, addr : addr, bid : b1, bid2 : b2, bid3 : b3, second : second, pkcfg : pkcfg]
        full == B({"best", "deadline"}, RelayAddrs,
                  {"valid", "nocontent", "datanull", "emptyobj", "nomessage", "noheader", "zerovalue",
                   "wrongparent", "badversion", "notjson", "http500", "zerofee", "badsig"},
                  {"same"}, {"same"}, {"none", "good", "samekey"}, RelayKeys)
        keyed(s) == s.addr \in {"keyed", "badkeyed", "shortkeyed"}
        good == {"good"}  none == {"none"}  same == {"same"}
        \* sequences of three different classes: nothing / zero / real in every order that a relay which is
        \* building, has built, lost its builder can produce, and garbage in between
        triples == {<<"zerovalue", "valid", "higher">>, <<"nocontent", "zerovalue", "valid">>, <<"valid", "zerovalue", "valid">>,
                    <<"valid", "higher", "lower">>, <<"zerovalue", "zerovalue", "valid">>, <<"valid", "notjson", "higher">>,
                    <<"http500", "valid", "zerovalue">>, <<"lower", "valid", "higher">>, <<"badsig", "zerovalue", "valid">>,
                    <<"valid", "datanull", "nocontent">>}
    IN  \* the diagonal: the relay answers every poll alike
        {s \in full : /\ (s.addr # "good" => s.bid = "valid" /\ s.pkcfg = "none")
                      /\ (s.pkcfg # "none" => s.bid \in {"valid", "badsig", "nomessage"})
                      /\ (s.second = "samekey" => (s.pkcfg \in {"set", "badpoint"} \/ keyed(s)) /\ s.bid = "valid")}
        \* every PAIR of different answers to the first and to the later polls, for the strategy that polls ...
        \cup {s \in B({"deadline"}, good, PollAnswers, PollAnswers, same, none, none) : s.bid # s.bid2}
        \* ... the triples, alone and next to a second, well-behaved relay that is polled in parallel, with and
        \* without a configured relay key ...
        \cup UNION {B({"deadline"}, good, {q[1]}, {q[2]}, {q[3]}, {"none", "good"}, {"none", "set"}) : q \in triples}
        \* ... and for the strategy that asks once (the rest of the sequence is never requested)
        \cup {s \in B({"best"}, good, {"zerovalue", "valid"}, {"valid", "zerovalue", "notjson"}, same, none, none) : s.bid # s.bid2}

(* proposal strategies (strategies/beaconblockproposal/{best,first}.Proposal); the entry point keeps   *)
(* its name "proposalbest"                                                                          *)
(*  strat     best | first (the sibling that shares the interface; it passes the graffiti on as is)  *)
(*  graffiti  none | plain | client ("{{CLIENT}}" zero-padded) | prefix ("vouch {{CLIENT}}") |    *)
(*            full (all 32 bytes used, ends with {{CLIENT}}) | twice ("{{CLIENT}}{{SLOT}}{{CLIENT}}": *)
(*            the marker twice and a marker this code does not expand) | cut (a marker cut off by    *)
(*            the 32 byte boundary: "...{{CLIEN")                                                    *)
(*  clen      length of the client name the node reports (NodeClient), "0".."40"                   *)
(*  nodeclient, nodeclient1  what node 0 / node 1 answers to the node version request behind        *)
(*            {{CLIENT}}: NodeClient (nodeclient1 = na: there is one node only)                      *)
(*  proposal  what node 0's Proposal call delivers: ok | nildata | error | zerofee | nilvalues      *)
(*  n         number of beacon nodes                                                              *)
ProposalBest ==
    LET clens == {"0", "1", "4", "5", "6", "8", "10", "11", "22", "23", "32", "40"}
        proposals == {"ok", "nildata", "error", "zerofee", "nilvalues"}
        templ == {"client", "prefix", "full", "twice"}
        PS(st, g, c, a, b, p) ==
            [strat : st, graffiti : g, clen : c, nodeclient : a, nodeclient1 : {"na"}, proposal : p, n : {"1"}]
            \cup [strat : st, graffiti : g, clen : c, nodeclient : a, nodeclient1 : b, proposal : p, n : {"2"}]
        oneOdd(s) == s.n = "1" \/ s.nodeclient = s.nodeclient1 \/ s.nodeclient = "ok" \/ s.nodeclient1 = "ok"
    IN  \* what the node delivers as a proposal, no template in the graffiti
        PS({"best", "first"}, {"none", "plain", "cut"}, {"10"}, {"ok"}, {"ok"}, proposals)
        \* client names of every length
        \cup PS({"best"}, templ, clens, {"ok"}, {"ok"}, {"ok", "nilvalues"})
        \* every answer to the node version request, per node: the full matrix for one template ...
        \cup PS({"best"}, {"prefix"}, {"10"}, NodeClient, NodeClient, {"ok"})
        \cup {s \in PS({"best"}, {"prefix"}, {"10"}, NodeClient, NodeClient, {"error"}) : s.n = "1" \/ s.nodeclient = s.nodeclient1}
        \* ... and for the other templates one node at a time / both alike
        \cup {s \in PS({"best"}, templ \ {"prefix"}, {"10"}, NodeClient, NodeClient, {"ok"}) : oneOdd(s)}
        \* the sibling strategy with a template in the graffiti
        \cup {s \in PS({"first"}, {"prefix"}, {"10"}, NodeClient, NodeClient, {"ok"}) : s.n = "1" \/ s.nodeclient = s.nodeclient1}
        \* the well-formed input for providers without the optional interface (probes of those configurations)
        \cup PS({"best", "first"}, {"plain"}, {"10"}, {"ok", "absent"}, {"ok", "absent"}, {"ok"})

(* proposer (services/beaconblockproposer/standard.Propose); the proposal comes through the real  *)
(* go-eth2-client HTTP decoder (v3 block production endpoint), unblinding through the real        *)
(* go-builder-client HTTP decoder                                                                  *)
(*  auction  none (no auctioneer configured) | failed (auction returns an error) | empty (results *)
(*           without providers) | won (one relay that can unblind) | cannotunblind                 *)
(*  ver      consensus version of the block the node returns                                       *)
(*  blinded  the node flags the block as blinded (header Eth-Execution-Payload-Blinded)            *)
(*  body     valid | datanull | wrongslot | notjson | novalues (value headers absent) |            *)
(*           badvalues (value headers not numbers)                                                 *)
(*  unblind  what the relay answers to the unblinding request: ok | datanull | emptyobj |          *)
(*           notjson | http400 | http500 | wrongver                                                *)
(*  graffiti none | error | short | client | twice ("{{CLIENT}}{{SLOT}}{{CLIENT}}") | longclient (39    *)
(*           bytes, the marker behind byte 32)                                                      *)
(*  nodeclient  what the node answers to the node version request behind {{CLIENT}}: NodeClient      *)
Proposer ==
    LET full == [auction : {"none", "failed", "empty", "won", "cannotunblind"},
                 ver : {"phase0", "altair", "bellatrix", "capella", "deneb"},
                 blinded : {"y", "n"},
                 body : {"valid", "datanull", "wrongslot", "notjson", "novalues", "badvalues"},
                 unblind : {"ok", "datanull", "emptyobj", "notjson", "http400", "http500", "wrongver"},
                 graffiti : {"none", "error", "short", "client", "twice", "longclient"},
                 nodeclient : NodeClient]
        templ(s) == s.graffiti \in {"client", "twice", "longclient"}
    IN  {s \in full : /\ (s.body # "valid" => s.ver = "deneb" /\ s.auction \in {"none", "won"} /\ s.graffiti = "none")
                      /\ (s.unblind # "ok" => s.auction = "won" /\ s.blinded = "y" /\ s.body = "valid"
                                               /\ s.ver \in {"bellatrix", "capella", "deneb"} /\ s.graffiti = "none")
                      /\ (s.graffiti # "none" => s.ver = "deneb" /\ s.auction = "none" /\ s.blinded = "n")
                      /\ (~templ(s) => s.nodeclient = "ok" \/ (s.nodeclient = "absent" /\ s.graffiti = "short"))}

(* attester (services/attester/standard.Attest); attestation data through the real HTTP decoder   *)
(*  body   valid | datanull | emptyobj | nosource | notarget | nullsource | nulltarget |           *)
(*         slotmismatch | srcgttgt | notjson | http500 | http404                                   *)
(*  slot   slot of the duty: "0" | "1" | "64"                                                      *)
(*  duty   one | dup (the same validator twice) | zerolen (committee length 0) | vcirange          *)
(*         (validator committee index >= committee length) | many | noaccount                      *)
(* SEVERAL NODES.  With a strategy between the duty service and the beacon nodes (style # direct) the data of   *)
(* ONE duty comes from SEVERAL nodes, asked in parallel goroutines of the strategy: the answers of the nodes are,  *)
(* like the polls of a relay, several untrusted inputs within one call.  Node 0 answers `body`; a second node      *)
(* answers `node1`: valid | same (what node 0 answers) | an HTTP error (none: style direct, one node).               *)
Attester ==
    LET bodies == {"valid", "datanull", "emptyobj", "nosource", "notarget", "nullsource", "nulltarget",
                   "slotmismatch", "srcgttgt", "notjson", "http500", "http404"}
        A(body, slot, duty, style, node1) == [body : body, slot : slot, duty : duty, style : style, node1 : node1]
    IN  A(bodies, {"0", "1", "64"}, {"one", "dup", "zerolen", "vcirange", "many", "noaccount"}, {"direct"}, {"none"})
        \cup A(bodies, {"0", "64"}, {"one"}, StrategyStyles.attestationdata \ {"direct"}, {"valid", "same", "http500"})

(* attestation aggregator (services/attestationaggregator/standard.Aggregate)                      *)
(*  body   valid | datanull | emptyobj | nullinner (aggregate without data) | emptybits |          *)
(*         nobits | notjson | http404                                                              *)
Aggregator ==
    LET bodies == {"valid", "datanull", "emptyobj", "nullinner", "emptybits", "nobits", "notjson", "http404"}
    IN  [body : bodies, slot : {"0", "1", "64"}, account : {"present", "missing"}, style : {"direct"}, node1 : {"none"}]
        \cup [body : bodies, slot : {"64"}, account : {"present"}, style : StrategyStyles.aggregateattestation \ {"direct"},
              node1 : {"valid", "same", "http404"}]

(* sync committee messenger (Prepare / Message) with the head root through the HTTP decoder        *)
(*  body     valid | datanull | emptyobj | noroot | notjson | http404                              *)
(*  accounts all | somenil | allnil | none                                                         *)
SyncMessenger ==
    LET bodies == {"valid", "datanull", "emptyobj", "noroot", "notjson", "http404"}
    IN  [body : bodies, accounts : {"all", "somenil", "allnil", "none"}, slot : {"0", "1", "64"}, style : {"direct"}, node1 : {"none"}]
        \cup [body : bodies, accounts : {"all"}, slot : {"64"}, style : StrategyStyles.beaconblockroot \ {"direct"},
              node1 : {"valid", "same", "http404"}]

(* sync committee aggregator (Aggregate) with the contribution through the HTTP decoder            *)
(*  body   valid | datanull | emptyobj | emptybits | nobits | notjson | http404                    *)
(*  root   known (the messenger recorded a head root for the slot) | unknown                       *)
SyncAggregator ==
    LET bodies == {"valid", "datanull", "emptyobj", "emptybits", "nobits", "notjson", "http404"}
    IN  [body : bodies, root : {"known", "unknown"}, slot : {"0", "1", "64"}, style : {"direct"}, node1 : {"none"}]
        \cup [body : bodies, root : {"known"}, slot : {"64"}, style : StrategyStyles.synccommitteecontribution \ {"direct"},
              node1 : {"valid", "same", "http404"}]

(* attester duties as delivered by the HTTP decoder -> attester.MergeDuties -> Attest              *)
(*  n      number of duties: "0" | "1" | "3"                                                       *)
(*  dup    none | sameslot (a validator twice in a slot) | twoslots (a validator in two slots)      *)
(*  range  ok | vci (validator committee index >= committee length) | committee (committee index   *)
(*         >= committees at slot)                                                                   *)
(*  zero   none | length (committee length 0) | atslot (committees at slot 0)                       *)
(*  entry  ok | null (a null element in the list)                                                  *)
MergeDuties ==
    LET full == [n : {"0", "1", "3"}, dup : {"none", "sameslot", "twoslots"}, range : {"ok", "vci", "committee"},
                 zero : {"none", "length", "atslot"}, entry : {"ok", "null"}]
    IN  {s \in full : (s.n = "0" => s.dup = "none" /\ s.range = "ok" /\ s.zero = "none")
                      /\ (s.n = "1" => s.dup = "none")}

(* cache service event handlers (head event -> block fetched through the HTTP decoder)             *)
(*  event  head | block | nildata (event without data)                                             *)
(*  ver    version of the block                                                                    *)
(*  body   valid | datanull | nomessage | nobody | nopayload | notjson | http404                   *)
(*  style  the signed beacon block provider main.go hands the cache: first (the default) | direct   *)
(*  node1  what the second node of the strategy answers (SEVERAL NODES above)                        *)
CacheEvents ==
    LET full == [event : {"head", "block", "nildata"},
                 ver : {"phase0", "altair", "bellatrix", "capella", "deneb", "unknown"},
                 body : {"valid", "datanull", "nomessage", "nobody", "nopayload", "notjson", "http404"},
                 style : {"direct"}, node1 : {"none"}]
        strat == [event : {"head", "block", "nildata"}, ver : {"phase0", "deneb", "unknown"},
                  body : {"valid", "datanull", "nomessage", "nobody", "nopayload", "notjson", "http404"},
                  style : {"first"}, node1 : {"valid", "same", "http404"}]
    IN  {s \in full \cup strat : s.event # "head" => s.ver = "deneb" /\ s.body = "valid" /\ s.node1 \in {"none", "valid"}}

(* submitter error classification (services/submitter/multinode, error text of a beacon node)      *)
(*  op     messages | contributions | attestations                                                 *)
(*  server lighthouse | teku | prysm | unknown                                                     *)
(*  err    nojson | brace (a brace, not JSON) | nullentry (failures:[null]) | emptylist |           *)
(*         nofailures | known (an allowable failure) | real | notarray | nested | nullfailures      *)
SubmitClassify ==
    [op : {"messages", "contributions", "attestations"},
     server : {"lighthouse", "teku", "prysm", "unknown"},
     err : {"nojson", "brace", "nullentry", "emptylist", "nofailures", "known", "real", "notarray", "nested",
            "nullfailures"}]

Shapes(ep) ==
    CASE ep = "execv2" -> ExecV2
      [] ep = "execv1" -> ExecV1
      [] ep = "execmutate" -> ExecMutate
      [] ep = "execdoc" -> ExecDoc
      [] ep = "execservice" -> ExecService
      [] ep = "graffiti" -> Graffiti
      [] ep = "builderbid" -> BuilderBid
      [] ep = "proposalbest" -> ProposalBest
      [] ep = "proposer" -> Proposer
      [] ep = "attester" -> Attester
      [] ep = "aggregator" -> Aggregator
      [] ep = "syncmessenger" -> SyncMessenger
      [] ep = "syncaggregator" -> SyncAggregator
      [] ep = "mergeduties" -> MergeDuties
      [] ep = "cacheevents" -> CacheEvents
      [] ep = "submitclassify" -> SubmitClassify

(* every style main.go can select for a kind is driven, by every entry point that consumes the kind's data       *)
ASSUME \A k \in StrategyKinds : \A st \in StrategyStyles[k] : \A ep \in DrivenBy[k] :
            \E s \in Shapes(ep) : StyleOfShape(ep, s) = st

(* Gated shapes: the binding itself has to ask a library decoder for the value before it can call *)
(* Vouch (attester duties are fetched by the driver and handed to MergeDuties, as the controller   *)
(* does); if the decoder refuses, the scenario ends with Undeliverable.  Everywhere else the real   *)
(* HTTP decoders are in the call path of the Vouch service itself (Vouch sees their error), so no   *)
(* gate is needed.                                                                                  *)
Gated(ep, s) == ep = "mergeduties"

(* The property allows every input in scope to end in any of the three ways; which one is a        *)
(* matter of the functional properties C05..C15, not of C16.                                       *)
Allowed(ep, s) == Outcomes

(* END-TO-END consumption.  Entry points that begin with one of Vouch's own decoders whose verdict   *)
(* the caller sees (blockrelay.UnmarshalJSON called directly):                                        *)
Decides(ep) == ep \in {"execv2", "execv1", "execmutate", "execdoc"}

(* The consumers of the decoded value that are part of the entry point.  lookup = ProposerConfig      *)
(* (a controlled validator twice, an unknown one), String / MarshalJSON; register = a validator        *)
(* registration round (the scheduled job and the exported SubmitValidatorRegistrations); auction =     *)
(* AuctionBlock and the cached-bid lookup (BuilderBid) that follows it.  For a Decides entry point     *)
(* the uses happen only if the decoder accepted; for the service they always happen (a rejected         *)
(* document leaves the previous / initial configuration active and THAT is used).                      *)
UseNames == {"lookup", "register", "auction"}
Uses(ep, s) ==
    CASE Decides(ep) -> {"lookup"}
      [] ep = "execservice" -> {"lookup", "register", "auction"}
      [] OTHER -> {}

(* The auxiliary requests an input may trigger, with the answer the environment has chosen for each      *)
(* (whether, when and how often the code really asks is the code's business).                            *)
NodeClientAt(at, a) == IF a \in AuxAnswers THEN {[req |-> "nodeclient", at |-> at, answer |-> a]} ELSE {}
AuxRequests(ep, s) ==
    CASE ep = "proposalbest" -> NodeClientAt("node0", s.nodeclient) \cup NodeClientAt("node1", s.nodeclient1)
      [] ep = "proposer" -> NodeClientAt("node0", s.nodeclient)
      [] ep = "graffiti" -> NodeClientAt("node0", s.nodeclient)
      [] OTHER -> {}
AuxUniverse == [req : {"nodeclient"}, at : {"node0", "node1"}, answer : AuxAnswers]

(* The POLLS an input may be answered: relay r's answer to the n-th request of the call (n = 1, 2, 3; every    *)
(* later one is answered like the third).  relay1 follows the sequence of the shape, relay2 (the second,         *)
(* well-behaved relay) always answers with a valid bid.  Whether, when and how often the code polls is the        *)
(* code's business (best: once per relay and auction, deadline: every bid-gap until the deadline).                *)
Polled(ep) == ep \in {"builderbid", "execservice"}
Relays == {"relay1", "relay2"}
PollAnswer(ep, s, r, n) ==
    IF r = "relay2" THEN "valid" ELSE BidAtOf(s.bid, s.bid2, s.bid3, n)
PollUniverse == PollAnswers \cup {"emptyobj", "nomessage", "noheader", "badversion", "zerofee"}

=============================================================================
