------------------------- MODULE Trace_ExecConfigSvc -------------------------
(* Trace specification for the service-level part of C10: a trace recorded from ONE real block relay  *)
(* service per history is a behaviour of ExecConfigSvc.  Logged at the interfaces:                    *)
(*   Reset        the instance was built (init = the document its inline fetch obtained, 0 = none)    *)
(*   FetchStart   the fetch job was called          Source       the configuration source answered    *)
(*   FetchReturn  the fetch job returned                                                              *)
(*   CallStart    ProposerConfig was called         CallReturn   it returned (settings as tokens)     *)
(*   Hung         a call or the fetch job did not return (watchdog)                                   *)
(* Not logged: the moment the fetch swaps the configuration (FetchInstall) and the moment a call       *)
(* reads it (CallRead); TLC places them wherever ExecConfigSvc allows.  No action explains Hung, a     *)
(* failed call, or settings that are not ResolveSet of a document in force during the call.           *)
EXTENDS ExecConfigSvc, TraceLib

VARIABLE l
tvars == <<vars, l>>

TraceInit == l = 1 /\ Init /\ force = 0 /\ InitHWM

IsEvent(e) == l <= TraceLen /\ Trace[l].ev = e /\ l' = l + 1
Line == Trace[l]

TraceReset ==
    /\ IsEvent("Reset")
    /\ force' = Line.init
    /\ fetch' = [st |-> "idle", out |-> NoOutcome]
    /\ nfetch' = 0
    /\ call' = [i \in Calls |-> IdleCall]
    /\ known' = (IF "known" \in DOMAIN Line THEN SeqToSet(Line.known) ELSE Ours) /\ nrefresh' = 0
    /\ memo' = [k \in MemoKeys |-> NoMemo]

TraceFetchStart == IsEvent("FetchStart") /\ FetchStart
TraceSource == IsEvent("Source") /\ FetchAnswer([t |-> Line.out, doc |-> Line.doc])
TraceFetchReturn == IsEvent("FetchReturn") /\ FetchReturn
KindOf(ln) == IF "kind" \in DOMAIN ln THEN ln.kind ELSE "direct"
TraceCallStart == IsEvent("CallStart") /\ CallStart(Line.i, KindOf(Line), Line.v, Line.acct)
\* the account manager finished a refresh; it now holds these accounts (read from the manager itself)
TraceAcctRefresh == IsEvent("AcctRefresh") /\ known' = SeqToSet(Line.known) /\ nrefresh' = nrefresh + 1
                    /\ SeqToSet(Line.known) \subseteq Ours /\ UNCHANGED <<force, fetch, nfetch, call, memo>>
\* the account manager answered the entry point's lookup (logged by the wrapper around the real manager at the
\* moment it answered): the answer must be what the manager's state allows
TraceCallLookup == IsEvent("CallLookup") /\ CallLookup(Line.i, Line.out)

\* What an entry point lets the outside see of the settings it used:
\*   direct, check   the whole ProposerConfig            auction, bid   what the bid strategy was handed (with no relay
\*   prep            the fee recipient sent to the nodes                 the strategy is not asked: relays only)
\*   reg             per relay the fee recipient and gas limit of the registration it received
RelayProj(k, r) == IF k = "reg" THEN [addr |-> r.addr, fr |-> r.fr, gl |-> r.gl] ELSE r
Proj(k, r) ==
    CASE k = "prep" -> [fr |-> r.fr]
      [] k = "reg" -> [relays |-> {RelayProj(k, x) : x \in r.relays}]
      [] k \in {"auction", "bid"} /\ r.relays = {} -> [relays |-> {}]
      [] OTHER -> r
Logged(k, res) ==
    CASE k = "prep" -> [fr |-> res.fr]
      [] k = "reg" -> [relays |-> SeqToSet(res.relays)]
      [] k \in {"auction", "bid"} /\ res.relays = <<>> -> [relays |-> {}]
      [] OTHER -> [fr |-> res.fr, relays |-> SeqToSet(res.relays)]

\* the entry point returned having USED settings (ok) ...
TraceCallReturn ==
    /\ IsEvent("CallReturn")
    /\ Line.ok
    /\ Cardinality(SeqToSet(Line.res.relays)) = Len(Line.res.relays)
    /\ LET c == call[Line.i] IN
       \E r \in Settings(c.snap, c.v, c.acct) :
           /\ Proj(c.kind, r) = Logged(c.kind, Line.res)
           /\ CallReturn(Line.i, r)
\* ... or having given up: only CallLookup ends a call that way, so the line merely has to agree with the state
TraceCallGaveUp ==
    /\ IsEvent("CallReturn")
    /\ ~Line.ok /\ "gaveup" \in DOMAIN Line /\ Line.gaveup
    /\ call[Line.i].st = "done" /\ ~call[Line.i].used
    /\ UNCHANGED vars

\* (the immediate bid's account lookup is also placed by TLC when the code under test makes none: whatever the
\* account manager would have answered at that moment)
TraceSilent ==
    /\ l <= TraceLen
    /\ \/ FetchInstall \/ FetchSkip
       \/ \E i \in Calls : CallRead(i)
       \/ \E i \in Calls, out \in {"found", "notfound"} : call[i].kind = "bid" /\ CallLookup(i, out)
    /\ UNCHANGED l

TraceNext ==
    \/ TraceReset \/ TraceFetchStart \/ TraceSource \/ TraceFetchReturn \/ TraceCallStart \/ TraceCallReturn
    \/ TraceAcctRefresh \/ TraceCallLookup \/ TraceCallGaveUp
    \/ TraceSilent

TraceSpec == TraceInit /\ [][TraceNext]_tvars

HWM == UpdateHWM(l)
TraceAccepted == TraceAcceptedUpTo
=============================================================================
