------------------------- MODULE Trace_ExecConfigSvc -------------------------
(* Trace specification for the service-level part of C10: a trace recorded from ONE real block relay  *)
(* service per history is a behaviour of ExecConfigSvc.  Logged at the interfaces:                    *)
(*   Reset        the instance was built (init = the document its inline fetch obtained, 0 = none)    *)
(*   FetchStart   the fetch job was called          Source       the configuration source answered    *)
(*   FetchReturn  the fetch job returned                                                              *)
(*   CallStart    ProposerConfig was called         CallReturn   it returned (settings as tokens)     *)
(*   Hung         a call or the fetch job did not return (watchdog)                                   *)
(* Not logged: the moment the fetch swaps the configuration (FetchInstall) and the moment a call       *)
(* reads it (CallRead); TLC places them wherever ExecConfigSvc allows.  No action explains Hung, a     *)
(* failed call, or settings that are not ResolveSet of a document in force during the call.           *)
EXTENDS ExecConfigSvc, TraceLib

VARIABLE l
tvars == <<vars, l>>

TraceInit == l = 1 /\ Init /\ force = 0 /\ InitHWM

IsEvent(e) == l <= TraceLen /\ Trace[l].ev = e /\ l' = l + 1
Line == Trace[l]

TraceReset ==
    /\ IsEvent("Reset")
    /\ force' = Line.init
    /\ fetch' = [st |-> "idle", out |-> NoOutcome]
    /\ nfetch' = 0
    /\ call' = [i \in Calls |-> IdleCall]
    /\ memo' = [k \in MemoKeys |-> NoMemo]

TraceFetchStart == IsEvent("FetchStart") /\ FetchStart
TraceSource == IsEvent("Source") /\ FetchAnswer([t |-> Line.out, doc |-> Line.doc])
TraceFetchReturn == IsEvent("FetchReturn") /\ FetchReturn
TraceCallStart == IsEvent("CallStart") /\ CallStart(Line.i, Line.v, Line.acct)

TraceCallReturn ==
    /\ IsEvent("CallReturn")
    /\ Line.ok
    /\ Cardinality(SeqToSet(Line.res.relays)) = Len(Line.res.relays)
    /\ CallReturn(Line.i, [fr |-> Line.res.fr, relays |-> SeqToSet(Line.res.relays)])

TraceSilent == l <= TraceLen /\ (FetchInstall \/ \E i \in Calls : CallRead(i)) /\ UNCHANGED l

TraceNext ==
    \/ TraceReset \/ TraceFetchStart \/ TraceSource \/ TraceFetchReturn \/ TraceCallStart \/ TraceCallReturn
    \/ TraceSilent

TraceSpec == TraceInit /\ [][TraceNext]_tvars

HWM == UpdateHWM(l)
TraceAccepted == TraceAcceptedUpTo
=============================================================================
