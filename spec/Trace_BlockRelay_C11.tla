------------------------ MODULE Trace_BlockRelay_C11 ------------------------
(* Trace specification for C11: what the real block relay and proposal preparer asked to be       *)
(* signed and submitted is recorded with the Record* actions of BlockRelay; the invariants of      *)
(* BlockRelay judge the record after every line.  Logged by the fakes when they are called:        *)
(*   Fetch (with the configuration it left)   RoundStart / RoundEnd    SignReq                      *)
(*   RelaySubmit   NodeSubmit   PrepStart / PrepSubmit / PrepEnd   FwdStart / FwdEnd                 *)
(* The order of the parallel submissions inside a round is the code's: any order is accepted.       *)
EXTENDS BlockRelay, TraceLib

VARIABLE l
tvars == <<vars, l>>

TraceInit == l = 1 /\ Init /\ InitHWM

IsEvent(e) == l <= TraceLen /\ Trace[l].ev = e /\ l' = l + 1
Line == Trace[l]

TraceReset ==
    /\ IsEvent("Reset")
    /\ active' = 0 /\ lastGood' = 0
    /\ phase' = "idle" /\ lastKind' = "none"
    /\ rAccts' = {} /\ rCfg' = 0
    /\ rLatest0' = [v \in AllV |-> <<>>]
    /\ rSigned' = {} /\ rFailed' = {}
    /\ sentR' = [r \in Relays |-> {}] /\ doneR' = {}
    /\ sentN' = [n \in Nodes |-> {}] /\ doneN' = {}
    /\ prepN' = [n \in Nodes |-> {}] /\ donePrep' = {}
    /\ fwdIn' = {}
    /\ signedEver' = {}
    /\ latestSigned' = [v \in AllV |-> <<>>]
    /\ controlled' = {}
    /\ rounds' = 0
    /\ UNCHANGED <<lockVars, opVars>>

\* logged projection of a configuration: sequence of [v, ok, fee, rel]
ProjectionIs(cfg, d) ==
    \A i \in 1..Len(cfg) :
        LET c == cfg[i]
            r == Resolve(d, c.v)
        IN r.ok = c.ok /\ (c.ok => (r.fee = c.fee /\ r.rel = SeqToSet(c.rel)))

TraceFetch ==
    /\ IsEvent("Fetch")
    /\ ConfigFetch([t |-> Line.out, doc |-> Line.doc])
    /\ ProjectionIs(Line.cfg, active')

TraceRoundStart == IsEvent("RoundStart") /\ RoundStart(SeqToSet(Line.accts))
TraceSignReq == IsEvent("SignReq") /\ RecordSignReq(Line.v, Line.fee, Line.gas, Line.ok)
TraceRelaySubmit == IsEvent("RelaySubmit") /\ RecordRelaySubmit(Line.r, SeqToSet(Line.regs))
TraceNodeSubmit == IsEvent("NodeSubmit") /\ RecordNodeSubmit(Line.n, SeqToSet(Line.regs))
TraceRoundEnd == IsEvent("RoundEnd") /\ EndRound("reg")

TracePrepStart == IsEvent("PrepStart") /\ PrepStart(SeqToSet(Line.accts))
TracePrepSubmit == IsEvent("PrepSubmit") /\ RecordPrepSubmit(Line.n, SeqToSet(Line.preps))
TracePrepEnd == IsEvent("PrepEnd") /\ EndRound("prep")

TraceFwdStart ==
    /\ IsEvent("FwdStart")
    /\ FwdStart({[v |-> x[1], fee |-> x[2], gas |-> x[3]] : x \in SeqToSet(Line.regs)})
TraceFwdEnd == IsEvent("FwdEnd") /\ EndRound("fwd")

TraceNext ==
    \/ TraceReset \/ TraceFetch
    \/ TraceRoundStart \/ TraceSignReq \/ TraceRelaySubmit \/ TraceNodeSubmit \/ TraceRoundEnd
    \/ TracePrepStart \/ TracePrepSubmit \/ TracePrepEnd
    \/ TraceFwdStart \/ TraceFwdEnd

TraceSpec == TraceInit /\ [][TraceNext]_tvars

HWM == UpdateHWM(l)
TraceAccepted == TraceAcceptedUpTo
=============================================================================
