------------------------ MODULE Trace_BlockRelay_C11 ------------------------
(* Trace specification for C11: what the real block relay and proposal preparer asked to be       *)
(* signed and submitted is recorded with the Record* actions of BlockRelay; the invariants of      *)
(* BlockRelay judge the record after every line.  Logged by the fakes when they are called:        *)
(*   Fetch (with the configuration it left)   RoundStart / RoundEnd    SignReq                      *)
(*   RelayStart / RelayBatch / RelayFinish   NodeStart / NodeFinish                                  *)
(*   PrepStart / PrepCall / PrepReturn / PrepEnd   FwdStart / FwdEnd                                 *)
(*   F2Start / F2RelayStart / F2RelayBatch / F2RelayFinish / F2End   a REST forwarding call made WHILE a     *)
(*                        registration round is in flight (its own lane: the fakes tell the lanes apart   *)
(*                        by a value the driver put into the call's context)                              *)
(*   Hung                 a step did not return (watchdog): no action of the specification explains it    *)
(* Every call to a relay or node is a process of its own: Start carries what the client was handed  *)
(* and whether the call's context was already cancelled (cx), Batch what the relay received, Finish  *)
(* the outcome ("ok"; the KIND of the relay's / node's own failure: "err" | "deadline" | "canceled"  *)
(* | "notactive" = ErrKindsAll of BlockRelay; "ctx" = the fake saw its context cancelled before the   *)
(* call completed).  The order                                                                     *)
(* of the overlapping calls inside a round is the code's: any order is accepted.                    *)
EXTENDS BlockRelay, TraceLib

VARIABLE l
tvars == <<vars, l>>

TraceInit == l = 1 /\ Init /\ InitHWM

IsEvent(e) == l <= TraceLen /\ Trace[l].ev = e /\ l' = l + 1
Line == Trace[l]

TraceReset ==
    /\ IsEvent("Reset")
    /\ active' = 0 /\ lastGood' = 0
    /\ phase' = "idle" /\ lastKind' = "none"
    /\ rAccts' = {} /\ rCfg' = 0
    /\ rLatest0' = [v \in AllV |-> <<>>]
    /\ rSigned' = {} /\ rFailed' = {}
    /\ sentR' = [r \in Relays |-> {}] /\ doneR' = {}
    /\ sentN' = [n \in Nodes |-> {}] /\ doneN' = {}
    /\ prepN' = [n \in Nodes |-> {}] /\ donePrep' = {}
    /\ callR' = [r \in Relays |-> "idle"] /\ callN' = [n \in Nodes |-> "idle"] /\ callP' = [n \in Nodes |-> "idle"]
    /\ pendR' = [r \in Relays |-> {}] /\ gotR' = [r \in Relays |-> {}]
    /\ cancelled' = {}
    /\ fwdIn' = {}
    /\ signedEver' = {}
    /\ latestSigned' = [v \in AllV |-> <<>>]
    /\ controlled' = {}
    /\ rounds' = 0
    /\ fw' = NoFw
    /\ slotHeld' = {}
    /\ UNCHANGED <<lockVars, opVars>>

\* logged projection of a configuration: sequence of [v, ok, fee, rel]
ProjectionIs(cfg, d) ==
    \A i \in 1..Len(cfg) :
        LET c == cfg[i]
            r == Resolve(d, c.v)
        IN r.ok = c.ok /\ (c.ok => (r.fee = c.fee /\ r.rel = SeqToSet(c.rel)))

TraceFetch ==
    /\ IsEvent("Fetch")
    /\ ConfigFetch([t |-> Line.out, doc |-> Line.doc])
    /\ ProjectionIs(Line.cfg, active')

TraceRoundStart == IsEvent("RoundStart") /\ RoundStart(SeqToSet(Line.accts))
TraceSignReq == IsEvent("SignReq") /\ RecordSignReq(Line.v, Line.fee, Line.gas, Line.ok)
TraceRelayStart == IsEvent("RelayStart") /\ RecordRelayStart(Line.r, SeqToSet(Line.regs), Line.cx)
TraceRelayBatch == IsEvent("RelayBatch") /\ RecordRelayDeliver(Line.r, SeqToSet(Line.regs))
TraceRelayFinish == IsEvent("RelayFinish") /\ RecordRelayFinish(Line.r, Line.out)
TraceNodeStart == IsEvent("NodeStart") /\ RecordNodeStart(Line.n, SeqToSet(Line.regs), Line.cx)
TraceNodeFinish == IsEvent("NodeFinish") /\ RecordNodeFinish(Line.n, Line.out)
TraceRoundEnd == IsEvent("RoundEnd") /\ EndRound("reg")

TracePrepStart == IsEvent("PrepStart") /\ PrepStart(SeqToSet(Line.accts))
TracePrepCall == IsEvent("PrepCall") /\ RecordPrepCall(Line.n, SeqToSet(Line.preps), Line.cx)
TracePrepReturn == IsEvent("PrepReturn") /\ RecordPrepReturn(Line.n, Line.out)
TracePrepEnd == IsEvent("PrepEnd") /\ EndRound("prep")

TraceFwdStart ==
    /\ IsEvent("FwdStart")
    /\ FwdStart({[v |-> x[1], fee |-> x[2], gas |-> x[3]] : x \in SeqToSet(Line.regs)})
TraceFwdEnd == IsEvent("FwdEnd") /\ EndRound("fwd")

\* the second forwarding lane
TraceF2Start ==
    /\ IsEvent("F2Start")
    /\ F2Start({[v |-> x[1], fee |-> x[2], gas |-> x[3]] : x \in SeqToSet(Line.regs)})
TraceF2RelayStart == IsEvent("F2RelayStart") /\ RecordF2RelayStart(Line.r, SeqToSet(Line.regs), Line.cx)
TraceF2RelayBatch == IsEvent("F2RelayBatch") /\ RecordF2RelayDeliver(Line.r, SeqToSet(Line.regs))
TraceF2RelayFinish == IsEvent("F2RelayFinish") /\ RecordF2RelayFinish(Line.r, Line.out)
TraceF2End == IsEvent("F2End") /\ RecordF2End

TraceCore ==
    \/ TraceFetch
    \/ TraceRoundStart \/ TraceSignReq \/ TraceRoundEnd
    \/ TraceRelayStart \/ TraceRelayBatch \/ TraceRelayFinish \/ TraceNodeStart \/ TraceNodeFinish
    \/ TracePrepStart \/ TracePrepCall \/ TracePrepReturn \/ TracePrepEnd
    \/ TraceFwdStart \/ TraceFwdEnd
TraceLane2 == TraceF2Start \/ TraceF2RelayStart \/ TraceF2RelayBatch \/ TraceF2RelayFinish \/ TraceF2End

TraceNext == TraceReset \/ Core(TraceCore) \/ Lane2(TraceLane2)

TraceSpec == TraceInit /\ [][TraceNext]_tvars

HWM == UpdateHWM(l)
TraceAccepted == TraceAcceptedUpTo
=============================================================================
