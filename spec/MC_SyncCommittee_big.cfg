\* thorough: every signer fault, two targets, a head change
SPECIFICATION Spec
CONSTANTS
  SlotsPerEpoch = 2
  EpochsPerPeriod = 2
  Forks = {0}
  Nows = {4}
  ScheduleEpochs = {2}
  Members = {1, 2}
  IndexSets = {{0}, {1, 5}}
  Sizes = {8}
  SubnetCounts = {4}
  Targets = {1, 2}
  Roots = {1, 2}
  HVals = {0, 1}
  HMod = 2
  MaxSched = 1
  FaultKinds = {"sel", "root", "cp", "selerr", "rooterr", "cperr"}
  Deviation = "none"
  MaxFired = 1
INVARIANTS TypeOK EverySlotOfWindow OnlySlotsOfWindow JobOrder SignedOverObtainedRoot MembersIndependent AggregatorRuleExact
CHECK_DEADLOCK FALSE
