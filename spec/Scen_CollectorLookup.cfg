SPECIFICATION SSpec
CONSTANTS
  MaxN = 3
  Variants = {"Best", "Majority", "RootMajority"}
  Values = {1, 2}
  Scores = {0, 1, 2}
  FirstCap = 0
  Roots = {1, 2}
  Dev = "none"
  Tolerant = FALSE
  Families = {"slow", "free"}
  MaxLen = 3
INVARIANTS Emit
CHECK_DEADLOCK FALSE
