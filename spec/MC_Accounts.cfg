SPECIFICATION MCSpec
CONSTANTS
  Alphabet = {"a", "b"}
  Classes <- AB
  MaxNameLen = 3
  FFE = 99
  MCEpochs = {0, 1, 2, 3, 4}
  MCQueryEpochs = {0, 1, 2, 3, 4, 5}
  MCAtomicEpochs = {1, 2, 3}
  MCOverlapKinds = {}
  MCOverlapEpochs = {}
  MCSeen = 2
INVARIANTS OnlyConfigured ExactlyActive NoStrangers RightIndex ByIndexAgrees
CONSTRAINT MCBound
PROPERTY NeverWiped
