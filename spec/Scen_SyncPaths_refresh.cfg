\* refresh-centred: started in or just before the first epoch of a period, head events there, then on to the next period
SPECIFICATION SSpec
CONSTANTS
  SPE = 2
  EPP = 8
  Prep = 5
  MaxSlot = 50
  Validators = {1, 2, 3}
  StartCfgs = {14, 15, 16, 17, 30, 32}
  AcctSets = {{1, 2, 3}, {1, 3}}
  CommChoices = {{1, 2, 3}, {2, 3}, {1, 3}}
  ExitEpochs = {9, 12, 17, 20}
  SlashEpochs = {10, 15, 18}
  WdDelay = 3
  Varying = {2, 3}
  Roots = {1, 2}
  Steps = {1}
  JumpTargets = {17, 22, 31, 32, 33, 34, 38, 47, 48}
  HeadEpochs = {7, 8, 16}
  MaxHeads = 4
  MaxEnv = 2
  MaxRefresh = 2
  MaxXTicks = 1
  MaxRan = 4
  Deviation = "none"
  ScenLen = 16
  ForceHeads = TRUE
INVARIANTS Emit TypeOK JobsComplete NowHasJob EveryMemberMessages OnlyMembers
CHECK_DEADLOCK FALSE
