SPECIFICATION ASpec
CONSTANTS
  Designs = {"goroutine"}
  Alphabet = {"ok", "empty", "slow", "error", "timeout", "canceled", "notactive", "down"}
INVARIANTS ATypeOK KeepsRunning
CHECK_DEADLOCK FALSE
