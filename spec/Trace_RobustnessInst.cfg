SPECIFICATION TraceSpec
CONSTANTS
  EPs = {"execservice", "graffiti", "builderbid", "proposalbest", "proposer", "attester", "aggregator", "syncmessenger", "syncaggregator", "mergeduties", "cacheevents", "submitclassify"}
  MaxCalls = 8
  MaxInFlight = 2
INVARIANTS TypeOK KeepsRunning EndsProperly HistoryIndependent AuxFaultsSurvived BoundedOverlap
CONSTRAINT HWM
POSTCONDITION TraceAccepted
CHECK_DEADLOCK FALSE
