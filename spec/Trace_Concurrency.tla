--------------------------- MODULE Trace_Concurrency ---------------------------
(* Trace specification for C17: a recorded call history of the real services is linearizable.       *)
(* Lines (overlay/verifdrivers/c17, overlay/services/controller/standard/zz_verif_c17_test.go):      *)
(*   Reset{g}          a new history of group g (fresh or re-established service)                   *)
(*   Inv{id, op}       written before the call is made (ids 1, 2, ... within the history)            *)
(*   Ret{id, res}      written after the call returned, with its result                              *)
(*   Race{var, sites}  the Go race detector reported two unsynchronised accesses in Vouch's code     *)
(*   Fatal{text}       the process died of a fatal runtime error (concurrent map access)             *)
(*   Crash{where, text, site}  a panic of Vouch's code on a goroutine (recovered by the harness, or   *)
(*                     the process died of it)                                                        *)
(*   Hung{text}        a call that never returned / a goroutine of the service that never finished    *)
(* Between two lines TLC may place the linearization points of pending calls (silent Linearize        *)
(* steps; a call of group syncduty passes several) and the steps of goroutines that are no call of the *)
(* history (SilentStep: a message job that a head event started, the scheduling goroutines of a        *)
(* refresh).  Race, Fatal, Crash and Hung have no action: a history containing one is rejected at that  *)
(* line.                                                                                              *)
EXTENDS Concurrency, TraceLib

VARIABLE l
tvars == <<vars, l>>

TraceInit ==
    /\ l = 1
    /\ g = CHOOSE x \in Groups : TRUE
    /\ st = CHOOSE s \in SeqInits(g) : TRUE
    /\ calls = [i \in {} |-> 0]
    /\ lin = <<>>
    /\ InitHWM

IsEvent(e) == l <= TraceLen /\ Trace[l].ev = e /\ l' = l + 1

\* sets travel as JSON arrays
Dec(o) == [k \in DOMAIN o |-> IF k \in {"x", "v", "acct"} /\ o.op \in {"NodeSet", "Attest", "Round", "RestRegs", "Offer", "Env", "Config"} THEN SeqToSet(o[k]) ELSE o[k]]

TraceReset ==
    /\ IsEvent("Reset")
    /\ g' = Trace[l].g
    /\ st' \in SeqInits(Trace[l].g)
    /\ calls' = [i \in {} |-> 0]
    /\ lin' = <<>>

TraceInv ==
    /\ IsEvent("Inv")
    /\ Invoke(Trace[l].id, Dec(Trace[l].op))

TraceLinearize ==
    /\ l <= TraceLen
    /\ \E i \in DOMAIN calls : Linearize(i)
    /\ UNCHANGED l

TraceRet ==
    /\ IsEvent("Ret")
    /\ LET i == Trace[l].id IN
         /\ i \in DOMAIN calls /\ calls[i].status = "done"
         /\ calls[i].res = Trace[l].res
         /\ calls' = [calls EXCEPT ![i].status = "returned"]
    /\ UNCHANGED <<g, st, lin>>

TraceSilent ==
    /\ l <= TraceLen
    /\ SilentStep
    /\ UNCHANGED l

TraceNext == TraceReset \/ TraceInv \/ TraceLinearize \/ TraceSilent \/ TraceRet

TraceSpec == TraceInit /\ [][TraceNext]_tvars

HWM == UpdateHWM(l)
TraceAccepted == TraceAcceptedUpTo
=============================================================================
