SPECIFICATION PSpec
CONSTANTS
  SlotsPerEpoch = 32
  Slots = {319, 320}
  GivenEpochs = {9}
  MaxBatch = 2
  NReq = 2
  ForkEpochs = {10}
  PutEarly = TRUE
  PoolOps = {"slot_selection", "sync_root"}
  PoolKinds = {"plain", "plain_dist"}
INVARIANTS TypeOK DomainRight Memoryless HandedOwn SigCorrect NoSignatureWithoutDomain ErrorHasNoSignatures RefusedForCause
PROPERTIES ReplyStable
CHECK_DEADLOCK FALSE
