------------------------- MODULE Scen_ExecConfigSvc -------------------------
(* Scenario generator for the service-level part of C10: histories of ONE block relay service       *)
(* instance (ExecConfigSvc).  A history is printed as a list of inputs:                             *)
(*   Reset(init, docs)   the instance is built; its inline fetch obtains document init (0: fails)    *)
(*   Fetch(out, doc)     the fetch job runs (FetchStart FetchAnswer FetchInstall FetchReturn)        *)
(*   Lookup(v)           a whole ProposerConfig call (CallStart CallRead CallReturn)                 *)
(*   Hold(v)             CallStart CallRead: the call is held while it works out the settings        *)
(*   Release             ... CallReturn of the held call                                            *)
(* Family "hist": sequential histories - lookups of both validators after the start, after a second   *)
(* and after a third fetch, every choice of the three documents / failures (the same validators      *)
(* re-used with different configurations; a failing fetch followed by further fetches and calls).     *)
(* Family "held": the overlap - a call for v is held mid-resolution ACROSS a complete fetch, is let   *)
(* go, and v (and the other validator) are looked up again, also after a further fetch.  On a tree     *)
(* that works the settings out under the configuration lock the fetch cannot finish before the call   *)
(* is let go; the recorded trace is then another behaviour of ExecConfigSvc.                         *)
(* Family "heldfetch": the fetch job is held at the configuration source while both validators are    *)
(* looked up, then the source answers and they are looked up again.                                  *)
(* Family "callers" (fifth round; run on the WIRED instance - real block relay service, real wallet    *)
(* account manager and validators manager, real signer, recording bid strategy / relays / nodes): every  *)
(* entry point that resolves settings, for both validators, in four phases - all accounts held; after a   *)
(* refresh of the account manager that lost the accounts H; after a fetch (accounts still lost); after a  *)
(* refresh that brought them back.  ours = the accounts in the wallet store (the other validator is a      *)
(* foreign one: only REST requests are made for it).  Inputs:                                            *)
(*   Round(k)        a registration round / a run of the proposal preparer (one call per listed account)  *)
(*   Call(k, v)      AuctionBlock / BuilderBid without cached bid / config check / ProposerConfig         *)
(*   Call(.., inj)   the same with the account manager's answer replaced by an error                      *)
(*   Refresh(S)      the account manager refreshes and finds exactly the accounts S                       *)
EXTENDS ExecConfigSvc, Json

CONSTANT Family

VARIABLE hist
svars == <<vars, hist>>

Docs == [k \in 1..5 |-> SvcDoc(k)]
R(a) == [ev |-> "Reset", init |-> a, docs |-> Docs]
F(o) == [ev |-> "Fetch", out |-> o.t, doc |-> o.doc]
L(v) == [ev |-> "Lookup", v |-> v, acct |-> TRUE]
\* the caller does not know the account (REST daemon)
N(v) == [ev |-> "Lookup", v |-> v, acct |-> FALSE]
Other(v) == IF v = "V1" THEN "V2" ELSE "V1"

\* the same validators re-used across calls with different per-call parameters (configuration, known account)
Hist(a, b, c) == <<R(a), L("V1"), N("V1"), L("V2"), F(b), N("V2"), L("V2"), L("V1"), F(c), N("V1"), L("V1"), N("V2"), L("V2")>>
Held(a, b, c, v) == <<R(a), [ev |-> "Hold", v |-> v], F(b), [ev |-> "Release"],
                      L(v), L(Other(v)), L(v), F(c), L(v), L(Other(v))>>
\* the mirror image: the fetch is held at the configuration source across whole calls
HeldFetch(a, b, v) == <<R(a), [ev |-> "FetchBegin", out |-> b.t, doc |-> b.doc], L(v), L(Other(v)), [ev |-> "FetchEnd"],
                        L(v), L(Other(v)), N(v)>>

Docs6 == [k \in 1..6 |-> SvcDoc(k)]
SetSeq(S) == IF S = {} THEN <<>> ELSE IF S = {"V1"} THEN <<"V1">> ELSE IF S = {"V2"} THEN <<"V2">> ELSE <<"V1", "V2">>
RW(a, S) == [ev |-> "Reset", init |-> a, docs |-> Docs6, known |-> SetSeq(S)]
A(S) == [ev |-> "Refresh", known |-> SetSeq(S)]
Rd(k) == [ev |-> "Round", kind |-> k]
C(k, v) == [ev |-> "Call", kind |-> k, v |-> v, acct |-> TRUE, inj |-> "none"]
E(k, v) == [ev |-> "Call", kind |-> k, v |-> v, acct |-> TRUE, inj |-> "error"]
CN(v) == [ev |-> "Call", kind |-> "direct", v |-> v, acct |-> FALSE, inj |-> "none"]
PerV(v, ours) == IF v \in ours THEN <<C("auction", v), C("bid", v), C("check", v), C("direct", v), E("auction", v)>>
                 ELSE <<C("bid", v), CN(v)>>
Phase(ours) == <<Rd("reg"), Rd("prep")>> \o PerV("V1", ours) \o PerV("V2", ours) \o <<E("check", "V1")>>
CallersHist(a, b, H, ours) ==
    <<RW(a, ours)>> \o Phase(ours) \o <<A(ours \ H)>> \o Phase(ours) \o <<F(b)>> \o Phase(ours) \o <<A(ours)>> \o Phase(ours)

SInit == Init /\ force = 0 /\ hist = <<>>

SNext ==
    /\ hist = <<>>
    /\ UNCHANGED vars
    /\ \E a \in {0} \cup DocIds, b \in Outcomes, c \in Outcomes :
         \/ Family = "hist" /\ hist' = Hist(a, b, c)
         \/ Family = "held" /\ \E v \in VIds : hist' = Held(a, b, c, v)
         \/ Family = "heldfetch" /\ c = b /\ \E v \in VIds : hist' = HeldFetch(a, b, v)
         \/ Family = "callers" /\ c = b /\ \E ours \in {{"V1", "V2"}, {"V1"}} : \E H \in (SUBSET ours) \ {{}} :
                hist' = CallersHist(a, b, H, ours)

SSpec == SInit /\ [][SNext]_svars

Emit == (hist # <<>>) => PrintT(ToJson(hist))
=============================================================================
