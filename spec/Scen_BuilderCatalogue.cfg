SPECIFICATION SSpec
CONSTANTS
  Builders = {"b1", "b2", "b3"}
  Cats = {"nil", "excluded", "privileged", "other"}
  Facs = {"nil", "0", "50", "150", "neg", "bad"}
  Offs = {"nil", "-2", "1", "bad"}
  Vals = {0, 1, 5, 100}
  Deviation = "none"
  ScenLen = 9
INVARIANTS Emit
CHECK_DEADLOCK FALSE
