--------------------------- MODULE RobustnessMemo ---------------------------
(* Controls for the history part of C16 (RobustnessInst): four DESIGNS of a long-lived object that keep  *)
(* something from one call to the next.  Each of them answers EVERY single input on a FRESH object        *)
(* exactly like the specification (MC_RobustnessMemo_fresh.cfg: histories of length 1, all designs, all   *)
(* invariants hold) - which is why a check that feeds every lattice point to a fresh object cannot tell   *)
(* them from correct code - and each is rejected by TLC as soon as histories (or overlap) are allowed.     *)
(* checks/C16.py runs them as vacuity self-checks and expects exactly the violations named here.           *)
(*   nilmemo  a memo (parsed relay key, looked-up client, compiled pattern ...) is filled BEFORE the       *)
(*            error of the computation is looked at: a degenerate input leaves a nil entry; the call that  *)
(*            stored it still ends with the error, the next call with that key hits the memo and uses the   *)
(*            nil value.  This is seeded/C16-failed-key-parse-cached-nil.  Rejected: KeepsRunning.          *)
(*   poison   a degenerate input leaves a mark (a cached failure, a flag) that makes the object refuse       *)
(*            the next well-formed input.  Rejected: HistoryIndependent.                                    *)
(*   lock     the error path of a degenerate input returns without giving back a lock / semaphore slot;     *)
(*            the next call waits for it for ever.  Rejected: Total (a call in flight has no next step)      *)
(*            and the liveness property EveryCallReturns.                                                   *)
(*   shared   a scratch object shared by the calls in flight (pooled buffer, field of the service): a call   *)
(*            that returns while a degenerate one is in flight trips over what that one left there.          *)
(*            Correct in every SEQUENTIAL history (MC_RobustnessMemo_shared_seq.cfg passes); rejected with   *)
(*            two calls in flight: KeepsRunning.                                                            *)
EXTENDS RobustnessInst

CONSTANT Designs            \* the designs explored by this configuration

VARIABLES design,           \* which one this behaviour is about
          carry             \* what the object carries from call to call
mvars == <<ivars, design, carry>>

Nothing == [poisoned |-> FALSE, locked |-> FALSE]

MInit == Init /\ design \in Designs /\ carry = Nothing

Crash == alive' = FALSE /\ inflight' = << >> /\ UNCHANGED <<inst, ncalls, ended, fresh>>

End(c, o) ==
    /\ ended' = ended \cup {[stable |-> inflight[c].stable, outcome |-> o]}
    /\ inflight' = Without(inflight, c)
    /\ UNCHANGED <<inst, ncalls, fresh, alive>>

(* how a call comes back in each design *)
MReturn(c) ==
    /\ alive /\ c \in InFlight
    /\ inflight[c].uses \subseteq inflight[c].done
    /\ LET degenerate == ~inflight[c].stable
           asFresh(o) == fresh # "none" => o = fresh
       IN  CASE design = "nilmemo" ->
                  IF degenerate
                  THEN IF carry.poisoned THEN Crash /\ UNCHANGED carry                         \* memo hit: nil value used
                       ELSE End(c, "error") /\ carry' = [carry EXCEPT !.poisoned = TRUE]       \* nil stored, error returned
                  ELSE (\E o \in Outcomes : asFresh(o) /\ End(c, o)) /\ UNCHANGED carry
             [] design = "poison" ->
                  IF degenerate
                  THEN End(c, "error") /\ carry' = [carry EXCEPT !.poisoned = TRUE]
                  ELSE IF carry.poisoned THEN End(c, "error") /\ UNCHANGED carry               \* refused because of the mark
                       ELSE (\E o \in Outcomes : asFresh(o) /\ End(c, o)) /\ UNCHANGED carry
             [] design = "lock" ->
                  /\ ~carry.locked                                                              \* waits for the lock
                  /\ IF degenerate
                     THEN End(c, "error") /\ carry' = [carry EXCEPT !.locked = TRUE]           \* error path keeps it
                     ELSE (\E o \in Outcomes : asFresh(o) /\ End(c, o)) /\ UNCHANGED carry
             [] design = "shared" ->
                  IF \E d \in InFlight \ {c} : ~inflight[d].stable
                  THEN Crash /\ UNCHANGED carry                                                 \* the other call's leftovers
                  ELSE (\E o \in Outcomes : (inflight[c].stable => asFresh(o)) /\ End(c, o)) /\ UNCHANGED carry

MNext ==
    \/ UNCHANGED <<design, carry>> /\ \E ep \in EPs : \E s \in Lattice[ep] : NewInstance(ep, s)
    \/ UNCHANGED <<design, carry>> /\ \E o \in Outcomes : Probe(o)
    \/ UNCHANGED <<design, carry>> /\ \E k \in (IF inst = NoInst THEN {} ELSE Kinds[inst.ep][inst.of]) : CallKind(k)
    \/ UNCHANGED <<design, carry>> /\ \E c \in InFlight : \E u \in UseNames : \E o \in Outcomes : Use(c, u, o)
    \/ UNCHANGED design /\ \E c \in InFlight : MReturn(c)

MSpec == MInit /\ [][MNext]_mvars
MFairSpec == MSpec /\ WF_mvars(\E c \in InFlight : MReturn(c))

(* "no next step" for the designs: the safety half of EveryCallReturns, with the design's own return *)
MTotal ==
    \A c \in InFlight :
        \/ ENABLED (\E u \in UseNames : \E o \in Outcomes : Use(c, u, o))
        \/ ENABLED MReturn(c)
=============================================================================
