SPECIFICATION Spec
CONSTANTS
  Groups = {"registrar"}
  Pinned = FALSE
  InPlace = TRUE
  Reuse = FALSE
  MaxPar = 2
INVARIANTS TypeOK Linearizable Disciplined
CONSTRAINT Bounded
CHECK_DEADLOCK FALSE
