SPECIFICATION Spec
CONSTANTS
  Groups = {"registrar"}
  Pinned = FALSE
  InPlace = TRUE
  MaxPar = 2
INVARIANTS TypeOK Linearizable Disciplined
CONSTRAINT Bounded
CHECK_DEADLOCK FALSE
