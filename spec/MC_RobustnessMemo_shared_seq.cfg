SPECIFICATION MSpec
CONSTANTS
  EPs = {"builderbid", "execservice"}
  Designs = {"shared"}
  MaxCalls = 3
  MaxInFlight = 1
INVARIANTS TypeOK KeepsRunning EndsProperly HistoryIndependent BoundedOverlap MTotal

CHECK_DEADLOCK FALSE
