SPECIFICATION Spec
CONSTANTS
  Variants = {"best"}
  Relays = {1, 2, 3}
  FetchSet = {}
  Values = {0, 1, 2}
  CfgSet <- MCCfgOne
  TableSet = {"A"}
  BuilderSet = {"std", "plus", "half"}
  AnswerSet <- MCAnswersLean
  Headers = {1, 2}
  MaxRounds = 1
  Keys = {1}
  MaxAuctions = 1
  MaxOpen = 1
  Deviation = "none"
INVARIANTS TypeOK ClientOfAddress WinnerIsArgmax OnlyEligibleWin ProvidersOfferedWinner NoWinnerIffNone ParticipationSound ArrivedConsidered CacheRight ServedRight HistoryShape
