SPECIFICATION Spec
CONSTANTS
  Variants = {"best"}
  Relays = {1, 2, 3}
  Values = {0, 1, 2}
  CfgSet <- MCCfgOne
  BuilderSet = {"std", "plus", "half"}
  AnswerSet <- MCAnswersLean
  Headers = {1, 2}
  MaxRounds = 1
  Keys = {1}
  MaxAuctions = 1
INVARIANTS TypeOK WinnerIsArgmax OnlyEligibleWin ProvidersOfferedWinner NoWinnerIffNone ParticipationSound ArrivedConsidered CacheRight ServedRight
