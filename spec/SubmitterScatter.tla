-------------------------- MODULE SubmitterScatter --------------------------
(* util/scatter.go: Scatter splits an input of n items into extents handed to concurrent        *)
(* workers.  C08 needs: the extents are disjoint, in order, and cover 0..n-1.                   *)
EXTENDS Integers, Sequences

CONSTANT DefaultConc   \* what "concurrency <= 0" means to Scatter (GOMAXPROCS in the code)

ExtentSize(n, c) ==
    LET dc == IF c <= 0 THEN DefaultConc ELSE c
        e == n \div dc
    IN IF e = 0 THEN 1 ELSE IF n % e > 0 THEN e + 1 ELSE e

Min(a, b) == IF a < b THEN a ELSE b

\* sequence of <<offset, entries>>
Extents(n, c) ==
    LET e == ExtentSize(n, c)
        w == (n + e - 1) \div e
    IN [k \in 1..w |-> <<(k - 1) * e, Min(e, n - (k - 1) * e)>>]

\* disjoint, in order, non-empty, covering 0..n-1
IsPartition(exts, n) ==
    /\ Len(exts) >= 1
    /\ exts[1][1] = 0
    /\ \A k \in 1..Len(exts) : exts[k][2] >= 1
    /\ \A k \in 1..(Len(exts) - 1) : exts[k + 1][1] = exts[k][1] + exts[k][2]
    /\ exts[Len(exts)][1] + exts[Len(exts)][2] = n

ExtentsPartitionFor(n, c) == IsPartition(Extents(n, c), n)

Range(off, len) == [i \in 1..len |-> off + i - 1]

\* what one node is handed by the code, as a sequence of chunks (each a sequence of item indices)
ChunksFor(kind, n, c) ==
    IF kind = "att" THEN [k \in 1..Len(Extents(n, c)) |-> Range(Extents(n, c)[k][1], Extents(n, c)[k][2])]
    ELSE <<Range(0, n)>>

=============================================================================
