SPECIFICATION Spec
CONSTANTS
  P = 3
  EP = 3
  G = 2
  MaxSlot = 12
  StartSlots = {0}
  Mode = "design"
  RecMax = 2
  RecKeep = 1
  RootKeep = 3
  BidKeep = 2
  KRoots = 6
  KBids = 4
  Menu = {{}, {0, 2}}
  Moods = {"quiet", "plain", "reorg"}
  MaxReorgs = 1
  MsgLates = {0, 1, 3}
  AucLates = {0, 1, 3}
  SubLates = {0, 4, 8}
  AttLates = {0, 2, 5}
  MaxHeld = 1
  MaxPasses = 1
  MaxHeads = 1
  HoldKinds = {"refresh"}
  Fams = {"att"}
INVARIANTS TypeOK RunningLeftTable AttestedBounded SubsBounded RootsBounded RecordsBounded BidsBounded JobsBounded PendingExact
CHECK_DEADLOCK FALSE
