SPECIFICATION RSpec
CONSTANTS
  EPs = {"execservice", "graffiti", "builderbid", "proposalbest", "proposer", "attester", "aggregator", "syncmessenger", "syncaggregator", "mergeduties", "cacheevents", "submitclassify"}
  MaxCalls = 8
  MaxInFlight = 2
INVARIANTS EmitR
CHECK_DEADLOCK FALSE
