SPECIFICATION Spec
CONSTANTS
  Names = {"a", "b"}
  Values = {"v1", "v2"}
  WithEmpty = FALSE
  MaxPathLen = 4
  ModelKinds = {"timeout"}
  ChainLen = 3
  Changes = {}
INVARIANTS TypeOK DirectMatch LevelByLevel FromLongestPrefix OthersIrrelevant EmptyNeverUsed
PROPERTIES RepeatSame ChangeRespected CurrentTreeOnly
CHECK_DEADLOCK FALSE
