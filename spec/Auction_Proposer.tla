-------------------------- MODULE Auction_Proposer --------------------------
(* Control for the auction component of Proposer.tla (cfg.strategy # "opaque"): a DESIGN in which *)
(* a sibling component of the proposer - the builder-bid strategy `DevStrategy` behind the block   *)
(* relay - breaks the Go contract of the auctioneer interface when its own time-out passes with   *)
(* nothing to show: a relay ACCEPTED the request for a bid and stayed silent, no relay has bid,    *)
(* and the strategy hands back NEITHER results NOR an error ("nilnil"); the caller, which only     *)
(* looks at the error, dereferences the results: the goroutine of Propose dies - Propose ends     *)
(* without the proposal ever being requested.  This is the class of                                *)
(* seeded/C05-best-bid-strategy-nil-results-on-silent-relay (there: `return nil, ctx.Err()` with   *)
(* the caller's live context instead of the strategy's expired one).                               *)
(*                                                                                                 *)
(* Each component looks right alone, and with relays that ANSWER (a bid, 204, an error) the design *)
(* is right: Auction_Proposer_answering.cfg (BidOuts without "silent") and                         *)
(* Auction_Proposer_other.cfg (the deviation sits in the other strategy than the configured one)   *)
(* must pass.  With a silent relay TLC must report DegradesNotSkips (Auction_Proposer.cfg for       *)
(* "best", Auction_Proposer_deadline.cfg for "deadline") - checks/C05.py expects exactly that and   *)
(* treats anything else as a broken run.                                                           *)
EXTENDS Proposer

CONSTANTS DevStrategy,     \* the strategy that has the slip
          UsedStrategies   \* the strategies the instances are configured with

DevInit == Init /\ cfg.strategy \in UsedStrategies

\* the strategy's time-out has passed: somebody was asked and is silent, nobody has bid
TimedOutEmpty ==
    /\ pc = "bidding" /\ auction.acct = "ok"
    /\ cfg.strategy = DevStrategy
    /\ \E r \in cfg.conf : auction.bids[r] = "silent"
    /\ Bidders = {}

\* ... and hands back nilnil instead of empty results
NilOnTimeout == TimedOutEmpty /\ AuctionCall("nilnil", {}, {})

\* the caller dereferences the missing results: Propose ends here
CrashOnNil == pc = "proposal" /\ auction.kind = "nilnil" /\ Ret

DevNext ==
    \/ /\ ~TimedOutEmpty
       /\ ~(pc = "proposal" /\ auction.kind = "nilnil")
       /\ Next
    \* (while the auction is in that state the other relays may still be asked; only the return differs)
    \/ TimedOutEmpty /\ Next /\ pc' = "bidding"
    \/ TimedOutEmpty /\ Next /\ cur' # cur
    \/ NilOnTimeout
    \/ CrashOnNil

DevSpec == DevInit /\ [][DevNext]_vars
=============================================================================
