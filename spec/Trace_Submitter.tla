--------------------------- MODULE Trace_Submitter ---------------------------
(* Trace specification for C08.  A trace is what the driver observed at the interfaces of the   *)
(* real submitter (services/submitter/multinode, services/submitter/immediate) and of           *)
(* util.Scatter; instants are already classified relative to the time-out ("before" / "amb" /   *)
(* "after", DESIGN 2.2) by the driver, which also degrades every class of a scenario to "amb"   *)
(* when its scheduling-noise probe saw the machine stall.                                       *)
(*                                                                                              *)
(* One scenario = one HISTORY of submissions on one real submitter instance: Reset (a fresh     *)
(* instance and its first submission), then Call / Complete / Return lines in the order of      *)
(* their instants, then Finish; every further submission on the same instance is NextCall, its  *)
(* lines, Finish.  Reset forgets everything; NextCall keeps `known` (what the nodes reported at *)
(* successful version lookups so far) and nothing else, and requires the same nodes (clients)   *)
(* and the same concurrency.  Submissions that overlapped in real time (a node reply of one was *)
(* held until the next one had returned) are written one after the other in the order they     *)
(* were started: C08 judges every submission by its own observations and `known`, and within    *)
(* an overlapping group the scenario gives every node the same version-query outcome, so the    *)
(* order of the groups' lines does not matter for `known`.                                      *)
(* The lines drive the observation actions of Submitter (ObsCall, ObsComplete, ObsReturn,       *)
(* ObsNextCall); the verdict comes from the C08 invariants of Submitter over the observation    *)
(* variables, evaluated after every line.  The mechanism variables of Submitter are not bound   *)
(* (the code is judged by what the property says, not by how it is built).                      *)
(* The Reset line also says which peers of the pool are configured for each kind (conf): the     *)
(* nodes of a submission are the peers configured for ITS kind (N = conf[kind]); a Call line for  *)
(* a peer outside N is explained by no action.                                                   *)
(* A Complete line whose reply is "aborted" says that the node's call was ended by the            *)
(* cancellation of the context the fan-out handed it (the fakes honour their context like an HTTP *)
(* client) although the driver's own context was live: judged by DeliveredToEach.  The sibling      *)
(* fan-outs (kind "prepdirect": the real proposal preparer, driver                                 *)
(* overlay/services/proposalpreparer/standard/zz_verif_c08_prep_test.go) have no Return line.       *)
(* Scatter scenarios = Reset + one Scatter line per (items, concurrency) with the extents the   *)
(* work function was called with; judged by ScatterPartition.                                   *)
EXTENDS Submitter, TraceLib

VARIABLES l, scat
tvars == <<vars, l, scat>>

NoScat == [items |-> 0]

MechIdle ==
    /\ mpc = "pre" /\ npc = <<>> /\ sem = 0 /\ due = <<>> /\ completed = FALSE
    /\ tpc = "armed" /\ clock = 0 /\ lost = 0 /\ memo = <<>> /\ held = 0 /\ fails = 0

TraceInit ==
    /\ l = 1
    /\ kind = "att" /\ conc = 1 /\ items = 1 /\ nodes = <<>>
    /\ conf = [k \in AllKinds |-> {}]
    /\ ObsInit
    /\ known = <<>> /\ callNo = 1
    /\ MechIdle
    /\ scat = NoScat
    /\ InitHWM

IsEvent(e) == l <= TraceLen /\ Trace[l].ev = e /\ l' = l + 1

ToSet(q) == {q[i] : i \in 1..Len(q)}
TraceReset ==
    /\ IsEvent("Reset")
    /\ kind' = Trace[l].kind
    /\ conc' = Trace[l].conc
    /\ items' = Trace[l].items
    /\ nodes' = Trace[l].nodes
    /\ conf' = [k \in AllKinds |-> IF k \in DOMAIN Trace[l].conf
                                    THEN ToSet(Trace[l].conf[k]) \cap (1..Len(Trace[l].nodes)) ELSE {}]
    /\ LET mine == ToSet(Trace[l].conf[Trace[l].kind]) \cap (1..Len(Trace[l].nodes))
       IN /\ offered' = [n \in mine |-> <<>>]
          /\ callAt' = [n \in mine |-> "no"]
          /\ reply' = [n \in mine |-> "none"]
          /\ done' = [n \in mine |-> "no"]
          /\ pre' = [n \in mine |-> FALSE]
          /\ known' = Learn([n \in 1..Len(Trace[l].nodes) |-> {}], Trace[l].nodes, mine)
    /\ ret' = "none" /\ retAt' = "none" /\ final' = FALSE
    /\ callNo' = 1
    /\ scat' = NoScat
    /\ UNCHANGED mvars

\* the next submission on the same instance
TraceNextCall ==
    /\ IsEvent("NextCall")
    /\ Trace[l].call = callNo + 1
    /\ Trace[l].conc = conc
    /\ ObsNextCall(Trace[l].kind, Trace[l].items, Trace[l].nodes)
    /\ UNCHANGED <<mvars, scat>>

TraceCall ==
    /\ IsEvent("Call")
    /\ Trace[l].node \in N
    /\ callAt[Trace[l].node] = "no"
    /\ Trace[l].at \in {"early", "amb", "late"}
    /\ ObsCall(Trace[l].node, Trace[l].chunks, Trace[l].at)
    /\ UNCHANGED <<cvars, ivars, reply, done, pre, ret, retAt, final, mvars, scat>>

TraceComplete ==
    /\ IsEvent("Complete")
    /\ Trace[l].node \in N
    /\ callAt[Trace[l].node] # "no"
    /\ done[Trace[l].node] = "no"
    /\ Trace[l].reply \in {"accept", "error", "aborted"}
    /\ Trace[l].at \in {"before", "amb", "after"}
    /\ ObsComplete(Trace[l].node, Trace[l].reply, Trace[l].at)
    /\ UNCHANGED <<cvars, ivars, offered, callAt, ret, retAt, final, mvars, scat>>

TraceReturn ==
    /\ IsEvent("Return")
    /\ ret = "none"
    /\ Trace[l].at \in {"before", "amb", "after"}
    /\ ObsReturn(IF Trace[l].ok THEN "ok" ELSE "err", Trace[l].at)
    /\ UNCHANGED <<cvars, ivars, offered, callAt, reply, done, pre, final, mvars, scat>>

\* end of the observation window (a call that has not returned by now never returned in time)
TraceFinish ==
    /\ IsEvent("Finish")
    /\ final' = TRUE
    /\ UNCHANGED <<cvars, ivars, offered, callAt, reply, done, pre, ret, retAt, mvars, scat>>

TraceScatter ==
    /\ IsEvent("Scatter")
    /\ scat' = [items |-> Trace[l].items, conc |-> Trace[l].conc, extents |-> Trace[l].extents,
                results |-> Trace[l].results, err |-> Trace[l].err]
    /\ UNCHANGED <<vars>>

TraceNext == TraceReset \/ TraceNextCall \/ TraceCall \/ TraceComplete \/ TraceReturn \/ TraceFinish \/ TraceScatter

TraceSpec == TraceInit /\ [][TraceNext]_tvars

\* C08 / util.Scatter: the extents handed to the workers are disjoint, in order and cover the
\* input; every worker's result is returned at the offset of its extent.
ScatterPartition ==
    scat.items > 0 =>
        /\ ~ scat.err
        /\ IsPartition(scat.extents, scat.items)
        /\ scat.results = [k \in 1..Len(scat.extents) |-> scat.extents[k][1]]

HWM == UpdateHWM(l)
TraceAccepted == TraceAcceptedUpTo
=============================================================================
