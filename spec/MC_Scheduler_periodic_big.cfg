SPECIFICATION FairSpec
CONSTANTS
  Callers = {"c1", "c2", "c3"}
  Cancellers = {"k1"}
  Periodic = TRUE
  DropOnClaim = FALSE
  MaxRuns = 3
INVARIANTS TypeOK NoOverlap NoPanic NameReusable LockFreeAtEnd
PROPERTIES KeepsTicking
CHECK_DEADLOCK FALSE
