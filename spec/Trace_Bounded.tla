---------------------------- MODULE Trace_Bounded ----------------------------
(* Trace specification of property C20, part (a): a trace recorded from the real controller, attester,   *)
(* sync committee messenger / aggregator (long runs, virtual time, recording scheduler), from the same   *)
(* services on the real scheduler (Sample lines) or from the real block relay (Auction lines) is a       *)
(* behaviour of Bounded.  Each line names the step the driver performed, what the code did (which        *)
(* epochs' duties it fetched, whether the job existed) and the bookkeeping afterwards; the post-state of *)
(* every action is the logged one, the action says whether the change is one the step may make, and      *)
(* every invariant of Bounded is evaluated after every line.                                             *)
EXTENDS Bounded, TraceLib

VARIABLE l
tvars == <<vars, l>>

Line == Trace[l]
S(x) == SeqToSet(x)
Fld(f, dflt) == IF Has(Line, f) THEN S(Line[f]) ELSE dflt

\* the logged bookkeeping (a driver logs the maps it can see; the others stay as they are)
Post == Q(Fld("attjobs", attjobs), Fld("prepjobs", prepjobs), Fld("pend", pend), Fld("attested", attested),
          Fld("subs", subs), Fld("roots", roots), Fld("records", records), Fld("bids", bids),
          IF Has(Line, "njobs") THEN Line.njobs ELSE njobs)

Fetched == Fld("fetched", {})

\* HasPendingAttestations(s) for all recent slots agrees with the marks
HasOK == Has(Line, "has") => S(Line.has) = {s \in Post.pend : s >= Line.haslo /\ s <= Line.hashi}

IsEvent(e) == l <= TraceLen /\ Line.ev = e /\ l' = l + 1 /\ UNCHANGED env /\ HasOK

TraceInit ==
    /\ l = 1
    /\ now = 0 /\ up = FALSE /\ verify = FALSE /\ aggmode = "never"
    /\ attjobs = {} /\ prepjobs = {} /\ running = {} /\ pend = {} /\ attested = {} /\ subs = {}
    /\ roots = {} /\ records = {} /\ bids = {} /\ njobs = 0
    /\ msgrun = {} /\ aucrun = {} /\ subrun = {} /\ passes = {}
    /\ env = Env0
    /\ InitHWM

TraceReset ==
    /\ l <= TraceLen /\ Line.ev = "Reset" /\ l' = l + 1
    /\ Line.p = P /\ Line.ep = EP
    /\ now' = Line.now /\ up' = FALSE /\ verify' = Line.verify /\ aggmode' = Line.agg
    /\ attjobs' = {} /\ prepjobs' = {} /\ running' = {} /\ pend' = {} /\ attested' = {} /\ subs' = {}
    /\ roots' = {} /\ records' = {} /\ bids' = {} /\ njobs' = 0
    /\ msgrun' = {} /\ aucrun' = {} /\ subrun' = {} /\ passes' = {}
    /\ env' = Env0

\* the attestation jobs the driver holds in flight are the running jobs of the specification; likewise the
\* head root requests, auctions and subscriptions it holds (calls under way on the one set of instances)
RunOK ==
    /\ Has(Line, "running") => S(Line.running) = running'
    /\ Has(Line, "msgrun") => S(Line.msgrun) = msgrun'
    /\ Has(Line, "aucrun") => S(Line.aucrun) = aucrun'
    /\ Has(Line, "subrun") => S(Line.subrun) = subrun'
    /\ Has(Line, "passes") => S(Line.passes) = passes'

\* the scheduling passes the step started and the node keeps back: "newpasses" = [e, n] records (the wired driver
\* numbers the passes of an epoch as the specification does); the fake-based drivers log "held" = the epochs whose
\* duties request is with the node (one pass per epoch there: n = 1)
NewPasses ==
    IF Has(Line, "newpasses") THEN S(Line.newpasses)
    ELSE IF Has(Line, "held") THEN {[e |-> e, n |-> 1] : e \in S(Line.held)} \ passes
    ELSE {}

TraceStart == IsEvent("Start") /\ Start(Fetched, NewPasses, Post) /\ RunOK
TraceTick == IsEvent("Tick") /\ Tick(Post) /\ RunOK
\* subheld: the epochs whose beacon committee subscription the node keeps back (SubEnd delivers it)
TracePrepare == IsEvent("Prepare") /\ Prepare(Line.e, Line.fired, Fetched, Fld("subheld", {}), NewPasses, Post) /\ RunOK
TraceSubEnd ==
    /\ IsEvent("SubEnd")
    /\ IF Line.fired THEN SubEnd(Line.e, Post)
       ELSE Probe(Post)                         \* the node kept nothing back: nothing may appear
    /\ RunOK
\* also with attestation jobs running, and (split) with the node's reply to the duty request kept back: the
\* request is logged with this line, the jobs it leads to with the Resched line
TraceHead == IsEvent("Head") /\ HeadEvent(Fetched, NewPasses, Post) /\ RunOK
TraceResched ==
    /\ IsEvent("Resched")
    /\ IF Line.fired THEN PassEnd([e |-> Line.e, n |-> IF Has(Line, "n") THEN Line.n ELSE 1], Post)
       ELSE Probe(Post)                         \* the node kept nothing back: nothing may appear
    /\ RunOK
TraceProbe == IsEvent("Probe") /\ Probe(Post) /\ RunOK
TraceAttStart == IsEvent("AttStart") /\ AttStart(Line.s, Post) /\ RunOK
TraceAttEnd ==
    /\ IsEvent("AttEnd")
    /\ IF Line.gated THEN AttEnd(Line.s, Post)
       ELSE IF Line.fired THEN AttWhole(Line.s, Post)
       ELSE SyncAgg(Line.s, Post)               \* no such job: nothing may appear
    /\ RunOK
\* the sync committee message job of slot s is at the node with its head root request (it stays there while the
\* following lines are recorded - the jobs of later slots among them) / the node has answered, Message(s) and
\* the job have returned
TraceMsgStart == IsEvent("MsgStart") /\ MsgStart(Line.s, Post) /\ RunOK
TraceMsgEnd == IsEvent("MsgEnd") /\ MsgEnd(Line.s, Post) /\ RunOK
TraceSyncMsg == IsEvent("SyncMsg") /\ SyncMsg(Line.s, Line.fired, Post) /\ RunOK
TraceSyncAgg == IsEvent("SyncAgg") /\ SyncAgg(Line.s, Post) /\ RunOK
TraceAuction == IsEvent("Auction") /\ Auction(Line.s, Post) /\ RunOK
TraceAucStart == IsEvent("AucStart") /\ AucStart(Line.s, Post) /\ RunOK
TraceAucEnd == IsEvent("AucEnd") /\ AucEnd(Line.s, Post) /\ RunOK
TraceAdvance == IsEvent("Advance") /\ Advance(Post) /\ now' = Line.now /\ RunOK

\* The run on the real scheduler is sampled once per epoch, between samples the services run by
\* themselves: the sampled state must satisfy the invariants.  The marks and attestation jobs looked
\* at are those of slots that ended at least five slots ago (no job of theirs waits or runs).
TraceSample ==
    /\ IsEvent("Sample")
    /\ now' = Line.now
    /\ Apply([Post EXCEPT !.pend = S(Line.stalepend), !.attjobs = S(Line.stalejobs)])
    \* (the attestation jobs whose request the node is keeping back are running; their marks are in stalepend)
    /\ running' = IF Has(Line, "running") THEN S(Line.running) ELSE running
    /\ UNCHANGED <<up, verify, aggmode, calls>>

\* Real scheduler, an attestation held in flight at the node while a head event refreshed its epoch: the
\* line gives the jobs that are running (the request is with the node / the job has returned), and, for
\* the slots of those jobs, HasPendingAttestations and the job table.  PendingExact judges it.
TraceInFlight ==
    /\ IsEvent("InFlight")
    /\ now' = Line.now
    /\ running' = S(Line.running)
    /\ Apply([Cur EXCEPT !.pend = S(Line.pendprobe), !.attjobs = S(Line.jobsprobe)])
    /\ UNCHANGED <<up, verify, aggmode, calls>>

TraceNext == TraceReset \/ TraceStart \/ TraceTick \/ TracePrepare \/ TraceHead \/ TraceResched \/ TraceProbe
             \/ TraceAttStart \/ TraceAttEnd \/ TraceSyncMsg \/ TraceSyncAgg \/ TraceAuction \/ TraceAdvance
             \/ TraceSample \/ TraceInFlight \/ TraceSubEnd \/ TraceMsgStart \/ TraceMsgEnd \/ TraceAucStart \/ TraceAucEnd

TraceSpec == TraceInit /\ [][TraceNext]_tvars

HWM == UpdateHWM(l)
TraceAccepted == TraceAcceptedUpTo
=============================================================================
