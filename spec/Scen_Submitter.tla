--------------------------- MODULE Scen_Submitter ---------------------------
(* Scenario generator for C08: the submissions replayed on the real submitters.                 *)
(*  Mode "base": every assignment of the seven outcomes of the property's quantifier            *)
(*     (Submitter!Outcomes, as canonical node descriptions per kind) to the configured nodes,   *)
(*     enumerated exhaustively by TLC (initial states).  Scen_Submitter_serial.cfg restricts    *)
(*     the outcomes to the prompt ones and sets concurrency 1 < number of nodes: then the       *)
(*     property still promises delivery to every node (nobody is slow).                         *)
(*  Mode "classify": one node, every client x every reply shape that is meaningful for the     *)
(*     kind (the whole table of the classifier Tolerated), enumerated exhaustively.             *)
(*  Mode "sim":  kind, concurrency, payload size and number of nodes are chosen in the initial  *)
(*     state, then one node description per step from the full set (any client x any reply      *)
(*     shape that is meaningful for the kind); TLC simulation (seeded) samples behaviours.      *)
(* Only the configuration variables of Submitter matter here; the others are held constant.     *)
EXTENDS Submitter, Json

CONSTANTS Mode, Subs, SimCounts,
          BaseOutcomes   \* mode "base": the outcomes assigned to the nodes (a subset of Outcomes)
VARIABLES sub, want
svars == <<vars, sub, want>>

ImmediateOutcomes == {"accept", "reject", "malformed", "slowok"}

AnyNodes(k) ==
    {Node(c, o, "none") : c \in Clients, o \in {"accept", "slowok", "late", "hang"}}
    \cup {Node(c, "error", r) : c \in Clients, r \in ReasonsOf(k)}
    \cup {NodeL(c, "ok", "slowok", "none", d) : c \in Clients, d \in {1, 3}}
    \cup {NodeL(c, "ok", "slowerr", r, d) : c \in Clients, r \in ReasonsOf(k), d \in {1, 2}}

Dummies ==
    /\ offered = <<>> /\ callAt = <<>> /\ reply = <<>> /\ done = <<>> /\ pre = <<>>
    /\ ret = "none" /\ retAt = "none" /\ final = FALSE
    /\ mpc = "pre" /\ npc = <<>> /\ sem = 0 /\ due = <<>> /\ completed = FALSE
    /\ tpc = "armed" /\ clock = 0 /\ lost = 0 /\ memo = <<>> /\ held = 0 /\ fails = 0
    /\ known = <<>> /\ callNo = 1
    /\ conf = [k \in Kinds |-> {}]     \* not said: every kind is configured with the whole pool (the driver's default)

SInit ==
    /\ sub \in Subs
    /\ kind \in KindSet
    /\ items \in ItemSet
    /\ IF Mode = "base"
       THEN IF sub = "immediate"
            THEN /\ conc = 1
                 /\ nodes \in [1..1 -> {Canon(kind, o) : o \in ImmediateOutcomes}]
            ELSE /\ conc \in ConcSet
                 /\ \E k \in NodeCounts : nodes \in [1..k -> {Canon(kind, o) : o \in BaseOutcomes}]
       ELSE IF Mode = "classify"
       THEN /\ conc \in ConcSet
            /\ nodes \in {<<Node(c, "error", r)>> : c \in Clients, r \in ReasonsOf(kind)}
       ELSE /\ conc \in ConcSet
            /\ nodes = <<>>
    /\ want \in (IF Mode = "sim" THEN SimCounts ELSE {Len(nodes)})
    /\ Dummies

SNext ==
    /\ Len(nodes) < want
    /\ \E d \in AnyNodes(kind) : nodes' = Append(nodes, d)
    /\ UNCHANGED <<kind, conc, items, ivars, ovars, mvars, sub, want>>

SSpec == SInit /\ [][SNext]_svars

Emit == (Len(nodes) = want) =>
           PrintT(ToJson([sub |-> sub, kind |-> kind, conc |-> conc, items |-> items, nodes |-> nodes]))
=============================================================================
