SPECIFICATION LSpec
CONSTANTS
  MaxN = 2
  Variants = {"Best"}
  Values = {1, 2}
  Scores = {0, 1}
  FirstCap = 0
  Roots = {1, 2}
  Dev = "GlobalFetchLock"
  Tolerant = FALSE
INVARIANTS LTypeOK ErrorIffNothing
CHECK_DEADLOCK FALSE
