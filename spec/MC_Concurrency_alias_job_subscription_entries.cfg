SPECIFICATION Spec
CONSTANTS
  Groups = {"attinfo"}
  Pinned = FALSE
  InPlace = FALSE
  Reuse = FALSE
  WideEnv = TRUE
  Share = "period"
  AliasWrite = "job-subscription-entries"
  MaxPar = 2
INVARIANTS TypeOK Linearizable Disciplined SharedImmutable
CONSTRAINT Bounded
CHECK_DEADLOCK FALSE
