SPECIFICATION LSpec
CONSTANTS
  Ops = {1, 2, 3}
  MaxInFlight = 3
  Kinds = {"fetch", "lookup", "auction", "bbid"}
  Keys = {1}
  Install = "flush_after"
  BidImpl = "asis"
INVARIANTS TypeOKL NoDeadlock ReturnsClean LockBalanced LockAccounting

CHECK_DEADLOCK FALSE
