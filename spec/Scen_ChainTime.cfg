SPECIFICATION SSpec
CONSTANTS
  Ds = {1, 2, 3, 6, 12}
  Ps = {1, 2, 3, 6, 8, 32}
  GKs = {0, 3, 4, 5, 6, 11, 12, 35, 36, 37, 68, 1003, 100003}
  GShift = 3
INVARIANTS Emit
CHECK_DEADLOCK FALSE
