-------------------------- MODULE BuilderCatalogue --------------------------
(* The builder catalogue of the relay auction (C09: "score = value adjusted by the configured  *)
(* per-builder offset and factor", "bids from excluded builders never win"): how the operator's *)
(* configuration becomes the catalogue the strategies score with.  In the code this is main.go: *)
(* obtainBuilderConfigs = obtainBuilderConfigsForExcludedBuilders, then ...ForPrivileged-       *)
(* Builders, then the blockrelay.builder-configs entries, each later step replacing the entry   *)
(* of an earlier one for the same builder key.  Auction.tla takes the catalogue (BOff, BFac) as *)
(* given; this module is the step before it.                                                    *)
(*                                                                                              *)
(* The configuration is built up by separate actions (one per configuration key written), then  *)
(* Build asks for the catalogue; a refused configuration (a factor that is not a number or is   *)
(* negative, an offset that is not a number) is a reply of its own: Vouch does not start.       *)
EXTENDS Integers, FiniteSets, TLC

CONSTANTS Builders,      \* abstract builder keys
          Cats,          \* category spellings of a builder-configs entry; "nil" = key not written
          Facs,          \* factor spellings: "nil", decimal strings, "neg" (negative), "bad" (not a number)
          Offs,          \* offset spellings: "nil", decimal strings, "bad"
          Vals,          \* bid values the scoring invariants quantify over
          Deviation      \* "none", or a named wrong design (self-checks of the invariants)

VARIABLES excl,          \* blockrelay.excluded-builders (deprecated list)
          priv,          \* blockrelay.privileged-builders (deprecated list)
          cfgs,          \* blockrelay.builder-configs: builder -> [cat, fac, off] for the builders that have an entry
          out            \* last reply of Build: [st: "unbuilt" / "error" / "ok", cat: the catalogue, a function on a subset of Builders]

vars == <<excl, priv, cfgs, out>>

Entry == [cat : Cats, fac : Facs, off : Offs]

PrivFactor == "1000000000000000000"

Refused(c) == \E b \in DOMAIN c : c[b].fac \in {"neg", "bad"} \/ c[b].off = "bad"

\* the entry of one builder: the most specific source wins - its own builder-configs entry, else the
\* privileged list, else the excluded list; a builder named nowhere has no entry (the strategies then use
\* the standard category with no adjustment)
EntryOf(b) ==
    IF b \in DOMAIN cfgs THEN [cat |-> IF cfgs[b].cat = "nil" THEN "standard" ELSE cfgs[b].cat,
                               fac |-> cfgs[b].fac, off |-> cfgs[b].off]
    ELSE IF (IF Deviation = "excluded-last" THEN b \in priv /\ b \notin excl ELSE b \in priv)
         THEN [cat |-> "privileged", fac |-> PrivFactor, off |-> "nil"]
    ELSE [cat |-> "excluded", fac |-> "0", off |-> "nil"]

Named == DOMAIN cfgs \cup priv \cup excl

Catalogue == [b \in Named |-> EntryOf(b)]

Unbuilt == [st |-> "unbuilt", cat |-> <<>>]
Init == excl = {} /\ priv = {} /\ cfgs = <<>> /\ out = Unbuilt

Exclude(b) == b \notin excl /\ excl' = excl \cup {b} /\ UNCHANGED <<priv, cfgs>> /\ out' = Unbuilt
Privilege(b) == b \notin priv /\ priv' = priv \cup {b} /\ UNCHANGED <<excl, cfgs>> /\ out' = Unbuilt
Configure(b, e) ==
    /\ cfgs' = [x \in DOMAIN cfgs \cup {b} |-> IF x = b THEN e ELSE cfgs[x]]
    /\ UNCHANGED <<excl, priv>> /\ out' = Unbuilt
Build == out' = (IF Refused(cfgs) THEN [st |-> "error", cat |-> <<>>] ELSE [st |-> "ok", cat |-> Catalogue]) /\ UNCHANGED <<excl, priv, cfgs>>

Next == \/ \E b \in Builders : Exclude(b) \/ Privilege(b) \/ \E e \in Entry : Configure(b, e)
        \/ Build

Spec == Init /\ [][Next]_vars

-----------------------------------------------------------------------------
Built == out.st = "ok"

\* numeric meaning of the spellings that have one in the model (the privileged factor is beyond TLC's integers)
Num(s) == CASE s = "0" -> 0 [] s = "1" -> 1 [] s = "50" -> 50 [] s = "150" -> 150 [] s = "-2" -> -2 [] OTHER -> 100
\* score of a bid of value v under a catalogue entry, as the strategies compute it (Auction.tla: Score)
ScoreUnder(v, e) ==
    LET s == IF e.off = "nil" THEN v ELSE v + Num(e.off)
    IN IF e.fac = "nil" THEN s ELSE (s * Num(e.fac)) \div 100

\* a builder the operator only excluded scores zero whatever it bids: it can never win
ExcludedNeverScores ==
    Built => \A b \in excl \ (priv \cup DOMAIN cfgs) :
                 b \in DOMAIN out.cat /\ out.cat[b].cat = "excluded" /\ \A v \in Vals : ScoreUnder(v, out.cat[b]) = 0
\* a builder's own entry is the one scored with, whatever the deprecated lists say
OwnEntryWins ==
    Built => \A b \in DOMAIN cfgs : b \in DOMAIN out.cat /\ out.cat[b].fac = cfgs[b].fac /\ out.cat[b].off = cfgs[b].off
                                   /\ out.cat[b].cat = (IF cfgs[b].cat = "nil" THEN "standard" ELSE cfgs[b].cat)
\* the privileged list outranks the excluded list
PrivilegedOutranksExcluded ==
    Built => \A b \in priv \ DOMAIN cfgs : b \in DOMAIN out.cat /\ out.cat[b].cat = "privileged" /\ out.cat[b].fac = PrivFactor
\* nobody else is in the catalogue
OnlyNamed == Built => DOMAIN out.cat = Named
\* a configuration whose numbers cannot be read is refused, and only such a configuration
RefusedIffUnreadable == out.st # "unbuilt" => (out.st = "error" <=> Refused(cfgs))
=============================================================================
