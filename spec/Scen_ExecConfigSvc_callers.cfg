SPECIFICATION SSpec
CONSTANTS
  Calls = {1}
  DocIds = {1, 2, 3, 4, 5, 6}
  FailKinds = {"error", "malformed"}
  MaxFetches = 9
  MaxOpen = 2
  Overlap = TRUE
  Kinds = {"direct"}
  Ours = {"V1", "V2"}
  LookErrs = {}
  MaxRefresh = 0
  AuctionMiss = "fail"
  BidAccount = "lookup"
  Design = "resolve"
  Family = "callers"
INVARIANTS Emit
CHECK_DEADLOCK FALSE
