SPECIFICATION SpecC11
CONSTANTS
  Validators = {1, 2}
  Externals = {3}
  Relays = {1, 2}
  Nodes = {1, 2}
  DocIds = {1, 2, 3}
  FailKinds = {"error"}
  Ops = {}
  MaxInFlight = 0
  AuctionImpl = "intended"
  MaxRounds = 2
INVARIANTS TypeOKC11 RegistrationExact SignedOverContent ReuseOnlyIfUnchanged FailureIsolated PreparationExact PreparationIsolated ControlledDropped ForwardedUnchanged ForwardedAll KeepsLastGood
CONSTRAINT RoundBound
CHECK_DEADLOCK FALSE
