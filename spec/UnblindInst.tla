----------------------------- MODULE UnblindInst -----------------------------
(* Property C20, part (b), over HISTORIES: the `first` strategy / the block proposer is ONE long-lived  *)
(* instance and serves call after call (a strategy is called once per slot and committee for the life  *)
(* of the process, unblindProposal once per proposal).  Unblind.tla describes one call; here a          *)
(* behaviour is a sequence of calls on the same instance: NextCall starts the next one when the         *)
(* previous has returned and every goroutine it started has come to rest (done, or parked in its send   *)
(* for good).  The number of providers and the kind belong to the instance, the plan of every node /    *)
(* relay and the deadline are new with every call.                                                      *)
(*                                                                                                     *)
(* Persistent state of the instance as far as the property is concerned: NONE.  Channel, semaphore,     *)
(* try counters and the context are the call's own; `left` only counts the goroutines that earlier      *)
(* calls have left parked in their send (the quantity that must not grow).  NoBlockedSender /           *)
(* NoWaitForEver must hold in every call of a history, whatever the earlier calls were.                 *)
(*                                                                                                     *)
(* Carry = "chan": a control design - the result channel is the INSTANCE's (made once with capacity n,  *)
(* not drained between calls): right on every fresh instance (MC_UnblindInst_carrychan_fresh), the      *)
(* answers an earlier call did not take fill it, and the senders of a later call stay parked:           *)
(* TLC must reject it (MC_UnblindInst_carrychan).  Carry = "none": the design.                          *)
EXTENDS Unblind

CONSTANTS MaxCalls,   \* calls per history
          Carry       \* "none" | "chan"

VARIABLES calls,      \* number of the call under way (1..MaxCalls)
          left        \* goroutines of earlier calls parked in their send for good

ivars == <<vars, calls, left>>

AtRestCall ==
    /\ caller # "waiting"
    /\ \A p \in Procs : pc[p] = "done" \/ Blocked(p)

IInit == Init /\ calls = 1 /\ left = 0

NextCall ==
    /\ calls < MaxCalls
    /\ AtRestCall
    /\ calls' = calls + 1
    /\ left' = left + Cardinality({p \in Procs : Blocked(p)})
    /\ deadline' \in (IF kind = "first" THEN {TRUE} ELSE BOOLEAN)
    /\ plan' \in [1..n -> IF kind = "first" THEN PlansFirst ELSE PlansUnblind]
    /\ pc' = [p \in 1..n |-> "call"]
    /\ cur' = [p \in 1..n |-> "none"]
    /\ tries' = [p \in 1..n |-> Retries]
    /\ sem' = 0 /\ caller' = "waiting" /\ ctx' = "live"
    /\ chan' = IF Carry = "chan" THEN chan ELSE 0
    /\ UNCHANGED <<kind, n>>

INext == (Next /\ UNCHANGED <<calls, left>>) \/ NextCall

ISpec == IInit /\ [][INext]_ivars

\* C20 over histories: no call of the history leaves a goroutine behind
NothingLeft == left = 0
\* (reachability: the second call of a history is really made)
NeverSecondCall == calls < 2
=============================================================================
