-------------------------- MODULE Trace_SignerBatch --------------------------
(* A trace recorded at the accounts (every request that reaches the fake remote signer is one   *)
(* line, written by the account before it answers) while the real signer service handles the    *)
(* attester's call is a behaviour of SignerBatch.                                               *)
EXTENDS SignerBatch, TraceLib

VARIABLE l
tvars == <<vars, l>>

TraceInit == Init /\ l = 1 /\ InitHWM
IsEvent(e) == l <= TraceLen /\ Trace[l].ev = e /\ l' = l + 1

TraceReset ==
    /\ IsEvent("Reset")
    /\ kind' = [a \in Accts |-> Trace[l].kinds[a]]
    /\ call' = {} /\ asked' = [a \in Accts |-> 0] /\ failed' = FALSE /\ st' = "idle"
TraceCall == IsEvent("Call") /\ Call(SeqToSet(Trace[l].accts))
TraceAskBatch == IsEvent("AskBatch") /\ AskBatch(SeqToSet(Trace[l].accts), Trace[l].ok)
TraceAskOne == IsEvent("AskOne") /\ AskOne(Trace[l].a, Trace[l].ok)
TraceReturn == IsEvent("Return") /\ Return(Trace[l].err)

TraceNext == TraceReset \/ TraceCall \/ TraceAskBatch \/ TraceAskOne \/ TraceReturn
TraceSpec == TraceInit /\ [][TraceNext]_tvars
HWM == UpdateHWM(l)
TraceAccepted == TraceAcceptedUpTo
=============================================================================
