SPECIFICATION SpecC11SlotDefer
CONSTANTS
  Validators = {1}
  Externals = {3}
  Relays = {1, 2}
  Nodes = {1}
  DocIds = {2}
  FailKinds = {}
  Ops = {}
  MaxInFlight = 0
  AuctionImpl = "intended"
  Resolution = "locked"
  MaxRounds = 3
  ErrKinds <- ErrKindsOne
INVARIANTS TypeOKC11 RegistrationExact SignedOverContent ReuseOnlyIfUnchanged FailureIsolated PreparationExact PreparationIsolated ControlledDropped ForwardedUnchanged ForwardedAll F2ControlledDropped F2ForwardedUnchanged F2ForwardedAll KeepsLastGood CallsProgressSlotDefer
PROPERTIES RoundReturns F2Returns
CHECK_DEADLOCK FALSE
