SPECIFICATION Spec
CONSTANTS
  MaxSlot = 7
  MaxVer = 2
  MaxReorgs = 2
  MaxCrashes = 0
  Gates = {}
  Interleave = FALSE
  Cfgs <- MCCfgsOne
  OraclesFor <- MCOraclesA
INVARIANTS TypeOK JobTimeRight JobCoversExactly NoSlotTwice OneJobPerDutySlot OnlyStrictlyLaterOnStart SyncWindowRight EpochTickOnce NoFutureDutyUnscheduled NoStaleJob ReorgActedOn
CHECK_DEADLOCK FALSE
