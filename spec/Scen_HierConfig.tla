-------------------------- MODULE Scen_HierConfig --------------------------
(* Scenario generators for C19.                                                                   *)
(* SSpec: one behaviour per configuration tree of the lattice of HierConfig (every setting of the *)
(* chain top / a / a.a / a.a.a and of one sibling per level absent, v1, v2 or written down but    *)
(* empty), followed by a lookup of every path of up to MaxPathLen components (exhaustive).        *)
(* HSpec: configuration histories of one process - a tree, lookups, a change, the same lookups,   *)
(* ... (simulation mode, seeded).                                                                 *)
(* The kind (which util function) and the concrete names and values are chosen by the driver.     *)
EXTENDS HierConfig, Json, SequencesExt

VARIABLES hist,     \* the behaviour so far, as the driver gets it
          shape     \* histories only: what is left of the history's shape
svars == <<vars, hist, shape>>

SInit == Init /\ hist = <<>> /\ shape = <<>>

TreeJson(t) == LET d == SetToSeq(DOMAIN t) IN [i \in DOMAIN d |-> [p |-> d[i], v |-> t[d[i]]]]
LookupsJson == LET ps == SetToSeq(Paths) IN [i \in DOMAIN ps |-> [ev |-> "Lookup", path |-> ps[i]]]

SNext ==
    /\ hist = <<>>
    /\ \E t \in Trees :
          /\ Configure("any", t, Default)
          /\ hist' = <<[ev |-> "Reset", tree |-> TreeJson(t), dflt |-> Default]>> \o LookupsJson
          /\ UNCHANGED shape

SSpec == SInit /\ [][SNext]_svars

Emit == (hist # <<>>) => PrintT(ToJson(hist))

-----------------------------------------------------------------------------
(* Configuration HISTORIES of one process: a tree of the lattice is loaded and every path looked  *)
(* up; then the configuration changes and the same paths are looked up again, as often as the     *)
(* history's shape says.  A change is an edit of one point -                                      *)
(*   (a) a point below a point that has a value gets a value (something more specific appears),   *)
(*   (b) a point that has a value loses it (removed, or written down as empty),                    *)
(*   (c) the value of a point changes,                                                             *)
(* or (d) a replacement: a completely new tree over the same points.  The path alphabet is the    *)
(* same in every configuration of a history, so every lookup is repeated under every tree.        *)
Classes == {"a", "b", "c", "d"}
HistShapes == {Append(x, "end") : x \in {<<c>> : c \in Classes} \cup {<<c1, c2>> : c1, c2 \in Classes}
                                      \cup {<<c1, c2, c3>> : c1, c2, c3 \in Classes}}

\* the paths looked up in histories: the top level, and every point of the lattice and below one
HistPaths == {p \in Paths : p = <<>> \/ Parent(p) \in Nodes}
HistLookupsJson == LET ps == SetToSeq(HistPaths) IN [i \in DOMAIN ps |-> [ev |-> "Lookup", path |-> ps[i]]]

HInit ==
    /\ kind = "any"
    /\ tree \in Trees
    /\ dflt = Default
    /\ last = NoReply
    /\ shape = RandomElement(HistShapes)      \* one shape per initial tree, drawn with TLC's seed
    /\ hist = <<[ev |-> "Reset", tree |-> TreeJson(tree), dflt |-> Default]>> \o HistLookupsJson

HasValueAbove(q) == \E n \in 0..(Len(q) - 1) : HasValue(tree, Prefix(q, n))

EditA == \E q \in Nodes, v \in Values :
            /\ ~HasValue(tree, q) /\ HasValueAbove(q)
            /\ SetAt(q, v)
            /\ hist' = hist \o <<[ev |-> "SetAt", path |-> q, v |-> v, class |-> "a"]>> \o HistLookupsJson
EditB == \E q \in Nodes :
            /\ HasValue(tree, q)
            /\ \/ /\ Unset(q)
                  /\ hist' = hist \o <<[ev |-> "Unset", path |-> q, class |-> "b"]>> \o HistLookupsJson
               \/ /\ WithEmpty
                  /\ SetAt(q, EmptyVal)
                  /\ hist' = hist \o <<[ev |-> "SetAt", path |-> q, v |-> EmptyVal, class |-> "b"]>> \o HistLookupsJson
EditC == \E q \in Nodes, v \in Values :
            /\ HasValue(tree, q) /\ tree[q] # v
            /\ SetAt(q, v)
            /\ hist' = hist \o <<[ev |-> "SetAt", path |-> q, v |-> v, class |-> "c"]>> \o HistLookupsJson
\* (simulation mode evaluates the invariants on every successor: one random tree, not all of them)
ReplaceD == \E t \in {RandomElement(Trees \ {tree})} :
            /\ Reconfigure(t, Default)
            /\ hist' = hist \o <<[ev |-> "Reconfigure", tree |-> TreeJson(t), dflt |-> Default, class |-> "d"]>>
                             \o HistLookupsJson

HNext ==
    /\ shape # <<>>
    /\ shape' = Tail(shape)
    /\ \/ Head(shape) = "a" /\ EditA
       \/ Head(shape) = "b" /\ EditB
       \/ Head(shape) = "c" /\ EditC
       \/ Head(shape) = "d" /\ ReplaceD
       \/ Head(shape) = "end" /\ UNCHANGED <<vars, hist>>      \* the history is complete: printed once

HSpec == HInit /\ [][HNext]_svars

HEmit == (shape = <<>>) => PrintT(ToJson(hist))
=============================================================================
