-------------------------- MODULE Scen_HierConfig --------------------------
(* Scenario generator for C19: one behaviour per configuration tree of the lattice of HierConfig *)
(* (every setting of the chain top / a / a.a / a.a.a and of one sibling per level absent, v1, v2  *)
(* or written down but empty), followed by a lookup of every path of up to MaxPathLen components. *)
(* The kind (which util function) and the concrete names and values are chosen by the driver.     *)
EXTENDS HierConfig, Json, SequencesExt

VARIABLE hist
svars == <<vars, hist>>

SInit == Init /\ hist = <<>>

TreeJson(t) == LET d == SetToSeq(DOMAIN t) IN [i \in DOMAIN d |-> [p |-> d[i], v |-> t[d[i]]]]
LookupsJson == LET ps == SetToSeq(Paths) IN [i \in DOMAIN ps |-> [ev |-> "Lookup", path |-> ps[i]]]

SNext ==
    /\ hist = <<>>
    /\ \E t \in Trees :
          /\ Configure("any", t, Default)
          /\ hist' = <<[ev |-> "Reset", tree |-> TreeJson(t), dflt |-> Default]>> \o LookupsJson

SSpec == SInit /\ [][SNext]_svars

Emit == (hist # <<>>) => PrintT(ToJson(hist))
=============================================================================
