SPECIFICATION Spec
CONSTANTS
  Validators = {1, 2}
  P = 2
  StartSlot = 3
  MaxSlot = 8
  MaxVer = 1
  MaxReorgs = 0
  MaxHeads = 0
  MaxSlow = 1
  MaxLate = 3
  MaxCarry = 2
  MaxJobs = 10
  MinReorgEpoch = 1
  FTs = {FALSE}
  MCSeeds <- SeedsSmall
  Oracles <- MCOracles
  Late = 3
  CancelRace = FALSE
  DeleteByName = FALSE
  Overlap = FALSE
  Failures = FALSE
  Fine = FALSE
  TickFirst = TRUE
  Reduce = TRUE
INVARIANTS EnvWindowHolds
CHECK_DEADLOCK FALSE
